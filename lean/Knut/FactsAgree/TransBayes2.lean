import Knut.FactsAgree.TransBayes
import Knut.Proofs.InferViews
/-!
# The translated `lib/syntax/bayes` agrees with the model of `knut infer`, part 2: inference (`scoreCandidate`, `inferAccount`, `Infer`)

`float64` is uninterpreted in the translation (`Syn.F64 F`: `math.Inf`, `math.Log`, `float64(n)`, `+`, `/`, `>` and constants are the
fields of a record, nothing is assumed about them), and the call `m.scoreCandidate(candidate, tokens)` inside the loop of
`inferAccount` is an application of a **function parameter** `ext` of the translated `inferAccount` / `Infer` — the model's `Scorer`.

* `scoreCandidate_agrees`: the translated `scoreCandidate` (over any `fl`) never panics and is `scoreOf fl` — a fold over **exactly**
  the numbers the model hands to its `Scorer`: `m.count`, `m.countByAccount[candidate]` and, for the tokens in ascending order, the
  lookups `m.countByTokenAndAccount[token][candidate]` with their `ok` flag (`Model.scoreCandidate (scorerOf fl)`).
* `inferAccount_agrees`: for every `fl`, every `ext`, every `Scorer sc` and every embedding of its scores into `F` that `ext`, `>` and
  `-Inf` respect (`ScoreOK`), the translated argmax loop is the model's `inferAccount sc`: `(Account{}, false)` for `none`,
  `(Account{Range{0, len(best), "", best}}, true)` for `some best`.  `inferAccount_scorer`: **every** `Scorer` has such an embedding
  (`F := Option S`, `-Inf := none`), so the loop is the model's for every `Scorer`.  `inferAccount_real`: with `ext` := the translated
  `scoreCandidate` itself the loop is the model's with `scorerOf fl`, provided every score of a candidate is `> -Inf` (what the
  model assumes of IEEE arithmetic: logarithms of positive finite numbers).
* `Infer_agrees`: `Model.Infer` replaces, booking by booking, `Credit` / `Debit` by the synthetic account exactly where the model's
  `inferBooking` replaces the field (`editB`); nothing else of the tree is written (`editB_frame`), and the new tree is viewed as
  the model's `inferBooking` of the old view (`editB_view`).  `Infer_parsed`: on the Go representation of a parsed transaction.

Stated invariant: `m.countByAccount.keys.Nodup` (a Go map has every key once; `newModel_nodup`, `updateWith_nodup`, … show that training
maintains it).  That the write `t.Bookings[i].Credit = a` also shows through every other slice sharing the array
(`commands.parseAndInfer` hands `Infer` a copy of the transaction struct and reads the bookings through `f.Directives`) is outside
package bayes and not part of the translated result.
-/
set_option linter.unusedSimpArgs false
set_option linter.unusedVariables false
namespace Knut.FactsAgree.TransBayes
open Knut Knut.GoSem Knut.Syntax
open Knut.Generated.Go
open Knut.FactsAgree.TransScanner Knut.FactsAgree.TransParser Knut.FactsAgree.TransPrinter

/-! ### `scoreCandidate` -/

section
variable {F : Type}

/-- one summand of the score: `math.Log(float64(countForToken) / count)` resp. `math.Log(1.0 / float64(m.count))` -/
def termOf (fl : Syn.F64 F) (total count : Nat) : Option Nat → F
  | some ct => fl.log (fl.div (fl.ofInt (ct : Int)) (fl.ofInt (count : Int)))
  | none => fl.log (fl.div (fl.lit 1 1) (fl.ofInt (total : Int)))

/-- the float expression of `scoreCandidate` as a function of the numbers it reads, in the order it reads them -/
def scoreOf (fl : Syn.F64 F) (total count : Nat) (lookups : List (Option Nat)) : F :=
  lookups.foldl (fun s l => fl.add s (termOf fl total count l)) (fl.log (fl.div (fl.ofInt (count : Int)) (fl.ofInt (total : Int))))

/-- the model's `Scorer` that the code implements, over the uninterpreted float operations -/
def scorerOf (fl : Syn.F64 F) : Infer.Scorer F := ⟨scoreOf fl, fl.gt⟩

theorem lookup_go (m : Infer.Model) (tok cand : Bytes) :
    AMap.find? (AMap.get (goModel m).countByTokenAndAccount tok GoZero.zero) cand = (m.lookupTA tok cand).map (fun n : Nat => (n : Int)) := by
  have h := getDefault_goTA m.countByTokenAndAccount tok
  unfold getDefault at h
  have e : AMap.get (goModel m).countByTokenAndAccount tok GoZero.zero = goCounts (m.countByTokenAndAccount.get tok []) := h
  rw [e]
  unfold goCounts
  rw [find?_mapVal]
  unfold Infer.Model.lookupTA AMap.get
  cases AMap.find? m.countByTokenAndAccount tok <;> rfl

theorem scoreCandidate_range1 (fl : Syn.F64 F) (m : Infer.Model) (cand : Bytes) (c : Nat) : ∀ (items : List Bytes) (score : F),
    bayes.Model.scoreCandidate.range1 (goModel m) cand (fl.ofInt (c : Int)) fl items score =
      .ok ((items.map fun t => m.lookupTA t cand).foldl (fun s l => fl.add s (termOf fl m.count c l)) score)
  | [], _ => rfl
  | x :: xs, score => by
    rw [bayes.Model.scoreCandidate.range1]
    simp only [lookup_go, List.map_cons, List.foldl_cons]
    cases h : m.lookupTA x cand with
    | none => exact scoreCandidate_range1 fl m cand c xs _
    | some n => exact scoreCandidate_range1 fl m cand c xs _

/-- **`Model.scoreCandidate`** over uninterpreted floats: never a panic, and a function of exactly the numbers the model passes to its
`Scorer` (the total, the candidate's count, the lookups of the tokens in ascending order with their `ok` flags) -/
theorem scoreCandidate_agrees (fl : Syn.F64 F) (m : Infer.Model) (cand : Bytes) (l : List Bytes) :
    bayes.Model.scoreCandidate (goModel m) cand (goSet l) fl = .ok (m.scoreCandidate (scorerOf fl) cand (Infer.sortU l)) := by
  unfold bayes.Model.scoreCandidate
  have hc : AMap.get (goModel m).countByAccount cand GoZero.zero = ((m.countByAccount.get cand 0 : Nat) : Int) := get_goCounts _ _
  simp only [hc, sortedKeys_goSet, scoreCandidate_range1, obind_ok']
  rfl

/-- on the token set of a booking: the model's `scoreCandidate` on the model's `tokenize` -/
theorem scoreCandidate_tokens (fl : Syn.F64 F) (m : Infer.Model) (cand desc c q other : Bytes) :
    bayes.Model.scoreCandidate (goModel m) cand (goSet (tokenList desc c q other)) fl =
      .ok (m.scoreCandidate (scorerOf fl) cand (Infer.tokenize desc c q other)) :=
  scoreCandidate_agrees fl m cand _

/-! ### `inferAccount` -/

variable {S : Type}

/-- the external score function `ext` computes (the embedding of) the model's score, `>` on embedded scores is the scorer's `gt`, and
every score of a candidate of the table is `> -Inf` -/
structure ScoreOK (fl : Syn.F64 F) (ext : bayes.Model → Bytes → set.Set bayes.token → F) (sc : Infer.Scorer S) (embed : S → F)
    (m : Infer.Model) : Prop where
  ext_eq : ∀ cand desc c q other, ext (goModel m) cand (goSet (tokenList desc c q other)) =
    embed (m.scoreCandidate sc cand (Infer.tokenize desc c q other))
  gt_eq : ∀ x y, fl.gt (embed x) (embed y) = sc.gt x y
  gt_inf : ∀ cand desc c q other, cand ∈ m.countByAccount.keys →
    fl.gt (embed (m.scoreCandidate sc cand (Infer.tokenize desc c q other))) fl.negInf = true

/-- the Go variable `max` for the model's `Option S` (`none` = `math.Inf(-1)`) -/
def goMax (fl : Syn.F64 F) (embed : S → F) : Option S → F
  | none => fl.negInf
  | some s => embed s

theorem inferAccount_range1 (fl : Syn.F64 F) (ext : bayes.Model → Bytes → set.Set bayes.token → F) (sc : Infer.Scorer S) (embed : S → F)
    (m : Infer.Model) (h : ScoreOK fl ext sc embed m) (desc c q other : Bytes) :
    ∀ (items : List Bytes) (best : Bytes) (mx : Option S), (∀ x ∈ items, x ∈ m.countByAccount.keys) →
      bayes.Model.inferAccount.range1 (goModel m) other (goSet (tokenList desc c q other)) fl ext items (goMax fl embed mx) best =
        .ok (goMax fl embed (items.foldl (Infer.inferStep sc m (Infer.tokenize desc c q other) other) (best, mx)).2,
          (items.foldl (Infer.inferStep sc m (Infer.tokenize desc c q other) other) (best, mx)).1)
  | [], _, _, _ => rfl
  | x :: xs, best, mx, hk => by
    have hk' : ∀ y ∈ xs, y ∈ m.countByAccount.keys := fun y hy => hk y (List.mem_cons_of_mem _ hy)
    rw [bayes.Model.inferAccount.range1, List.foldl_cons]
    by_cases e : x = other
    · simp only [e, decide_true, if_true, Infer.inferStep]
      exact inferAccount_range1 fl ext sc embed m h desc c q other xs best mx hk'
    · simp only [e, decide_false, Bool.false_eq_true, if_false, Infer.inferStep, h.ext_eq]
      cases mx with
      | none =>
        simp only [goMax, h.gt_inf x desc c q other (hk x (by simp)), if_true]
        exact inferAccount_range1 fl ext sc embed m h desc c q other xs x (some _) hk'
      | some s =>
        simp only [goMax, h.gt_eq]
        by_cases hg : sc.gt (m.scoreCandidate sc x (Infer.tokenize desc c q other)) s = true
        · simp only [hg, if_true]
          exact inferAccount_range1 fl ext sc embed m h desc c q other xs x (some _) hk'
        · simp only [hg, if_false]
          exact inferAccount_range1 fl ext sc embed m h desc c q other xs best (some s) hk'

/-- the account `inferAccount` synthesises: `Account{Range: Range{Start: 0, End: len(best), Text: best}}` -/
def synth (a : Bytes) : directives.Account :=
  { Range := { Start := 0, End := (a.length : Int), Path := GoZero.zero, Text := a }, Macro := GoZero.zero }

/-- the two results of `inferAccount` for the model's answer -/
def accountOf : Option Bytes → directives.Account × Bool
  | none => (GoZero.zero, false)
  | some a => (synth a, true)

/-- **`Model.inferAccount`**: the model's argmax loop, for every float record, every external score function and every `Scorer` it
stands for.  (`hk`: the map has every key once.) -/
theorem inferAccount_agrees (fl : Syn.F64 F) (ext : bayes.Model → Bytes → set.Set bayes.token → F) (sc : Infer.Scorer S) (embed : S → F)
    (m : Infer.Model) (h : ScoreOK fl ext sc embed m) (hk : m.countByAccount.keys.Nodup)
    (gt : directives.Transaction) (gb : directives.Booking) (other desc : Bytes) (v : BookingV)
    (hd : directives.Range.Extract gt.Description.Content = .ok desc)
    (hc : directives.Range.Extract gb.Commodity.Range = .ok v.commodity)
    (hq : directives.Range.Extract gb.Quantity.Range = .ok v.quantity) :
    bayes.Model.inferAccount (goModel m) gt gb other fl ext = .ok (accountOf (m.inferAccount sc desc v other)) := by
  unfold bayes.Model.inferAccount
  rw [tokenize_agrees gt gb other desc v.commodity v.quantity hd hc hq]
  have hkeys : AMap.keys (goModel m).countByAccount = m.countByAccount.keys := keys_mapVal _ _
  have hs : sortedKeys (goModel m).countByAccount cmpOrdered = Infer.sortU m.countByAccount.keys := by
    rw [sortedKeys_eq_sortU _ (by rw [hkeys]; exact hk), hkeys]
  have hr := inferAccount_range1 fl ext sc embed m h desc v.commodity v.quantity other (Infer.sortU m.countByAccount.keys) [] none
    (fun x hx => Infer.mem_sortU.mp hx)
  simp only [goMax] at hr
  have hz : (GoZero.zero : Syn.GoString) = ([] : Bytes) := rfl
  simp only [obind_ok', hs, hz, hr]
  unfold Infer.Model.inferAccount
  have hlit : (Syn.lit "" : Bytes) = [] := rfl
  simp only [hlit]
  split <;> rename_i hb
  · have hb' := of_decide_eq_true hb
    simp only [hb', if_true, accountOf]; rfl
  · have hb' : ¬ _ = [] := of_decide_eq_false (by simpa using hb)
    simp only [hb', if_false, accountOf, synth, len]
    rfl

/-! #### every `Scorer` -/

/-- floats that carry a `Scorer`'s scores: `F := Option S`, `math.Inf(-1) := none`, `>` the scorer's `gt` (everything is above `-Inf`);
the arithmetic, which `inferAccount` does not use, is arbitrary -/
def flOf (sc : Infer.Scorer S) : Syn.F64 (Option S) :=
  { negInf := none, posInf := none, ofInt := fun _ => none, lit := fun _ _ => none, add := fun a _ => a, div := fun a _ => a, log := id,
    gt := fun a b => match a, b with
      | some x, some y => sc.gt x y
      | some _, none => true
      | none, _ => false }

/-- the external function for a `Scorer`: `sc.score` of the numbers `scoreCandidate` reads from the Go model -/
def extOf (sc : Infer.Scorer S) : bayes.Model → Bytes → set.Set bayes.token → Option S := fun gm cand toks =>
  some (sc.score gm.count.toNat (AMap.get gm.countByAccount cand 0).toNat
    ((sortedKeys toks cmpOrdered).map fun t => (AMap.find? (AMap.get gm.countByTokenAndAccount t GoZero.zero) cand).map Int.toNat))

theorem scoreOK_scorer (sc : Infer.Scorer S) (m : Infer.Model) : ScoreOK (flOf sc) (extOf sc) sc some m := by
  refine ⟨fun cand desc c q other => ?_, fun _ _ => rfl, fun _ _ _ _ _ _ => rfl⟩
  unfold extOf Infer.Model.scoreCandidate
  have hc : AMap.get (goModel m).countByAccount cand (0 : Int) = ((m.countByAccount.get cand 0 : Nat) : Int) := get_goCounts _ _
  have hcount : (goModel m).count = (m.count : Int) := rfl
  simp only [hc, hcount, Int.toNat_natCast, sortedKeys_tokens, lookup_go, Option.map_map]
  congr 2
  apply List.map_congr_left
  intro t _
  cases m.lookupTA t cand <;> simp

/-- **`inferAccount` is the model's argmax loop for every `Scorer`** -/
theorem inferAccount_scorer (sc : Infer.Scorer S) (m : Infer.Model) (hk : m.countByAccount.keys.Nodup)
    (gt : directives.Transaction) (gb : directives.Booking) (other desc : Bytes) (v : BookingV)
    (hd : directives.Range.Extract gt.Description.Content = .ok desc)
    (hc : directives.Range.Extract gb.Commodity.Range = .ok v.commodity)
    (hq : directives.Range.Extract gb.Quantity.Range = .ok v.quantity) :
    bayes.Model.inferAccount (goModel m) gt gb other (flOf sc) (extOf sc) = .ok (accountOf (m.inferAccount sc desc v other)) :=
  inferAccount_agrees (flOf sc) (extOf sc) sc some m (scoreOK_scorer sc m) hk gt gb other desc v hd hc hq

/-! #### the code's own score -/

/-- the value of a translated call that cannot panic -/
def outVal {α : Type} (d : α) : Outcome α → α
  | .ok a => a
  | _ => d

/-- the translated `scoreCandidate` as the external function of `inferAccount` -/
def extReal (fl : Syn.F64 F) : bayes.Model → Bytes → set.Set bayes.token → F := fun gm cand toks =>
  outVal fl.negInf (bayes.Model.scoreCandidate gm cand toks fl)

/-- every score the code computes for a candidate of the table is above `math.Inf(-1)` (for IEEE floats: the logarithms of positive finite
numbers are finite) -/
def FiniteScores (fl : Syn.F64 F) (m : Infer.Model) : Prop :=
  ∀ cand desc c q other, cand ∈ m.countByAccount.keys →
    fl.gt (m.scoreCandidate (scorerOf fl) cand (Infer.tokenize desc c q other)) fl.negInf = true

theorem scoreOK_real (fl : Syn.F64 F) (m : Infer.Model) (hf : FiniteScores fl m) : ScoreOK fl (extReal fl) (scorerOf fl) id m :=
  ⟨fun cand desc c q other => by simp only [extReal, scoreCandidate_tokens, outVal, id], fun _ _ => rfl, hf⟩

/-- **the composition the code runs**: `inferAccount` with the translated `scoreCandidate` as its score function is the model's
`inferAccount` with the scorer `scorerOf fl` — for every interpretation `fl` of the float operations with `FiniteScores` -/
theorem inferAccount_real (fl : Syn.F64 F) (m : Infer.Model) (hf : FiniteScores fl m) (hk : m.countByAccount.keys.Nodup)
    (gt : directives.Transaction) (gb : directives.Booking) (other desc : Bytes) (v : BookingV)
    (hd : directives.Range.Extract gt.Description.Content = .ok desc)
    (hc : directives.Range.Extract gb.Commodity.Range = .ok v.commodity)
    (hq : directives.Range.Extract gb.Quantity.Range = .ok v.quantity) :
    bayes.Model.inferAccount (goModel m) gt gb other fl (extReal fl) = .ok (accountOf (m.inferAccount (scorerOf fl) desc v other)) :=
  inferAccount_agrees fl (extReal fl) (scorerOf fl) id m (scoreOK_real fl m hf) hk gt gb other desc v hd hc hq

/-! ### `Infer` -/

/-- `Extract()` of a synthesised account is its text -/
theorem Extract_synth (a : Bytes) : directives.Range.Extract (synth a).Range = .ok a := by
  unfold directives.Range.Extract synth slice
  have h : ¬ ((0 : Int) < 0 ∨ (a.length : Int) < 0 ∨ (a.length : Int) < (a.length : Int)) := by omega
  simp only [h, if_false, obind_ok', Int.toNat_natCast, List.take_length, Int.toNat_zero, List.drop_zero]

/-- the first half of the edit of one booking: the credit account against the debit account; the booking and the (possibly new) text of
its credit account — on the Go booking `gb` whose fields are `v` -/
def editCredit (sc : Infer.Scorer S) (m : Infer.Model) (desc : Bytes) (gb : directives.Booking) (v : BookingV) : directives.Booking × Bytes :=
  if v.credit = m.account then
    match m.inferAccount sc desc v v.debit with
    | some a => ({ gb with Credit := synth a }, a)
    | none => (gb, v.credit)
  else (gb, v.credit)

/-- the second half: the debit account against the credit account `credit` -/
def editDebit (sc : Infer.Scorer S) (m : Infer.Model) (desc : Bytes) (gb : directives.Booking) (v : BookingV) (credit : Bytes) :
    directives.Booking :=
  if v.debit = m.account then
    match m.inferAccount sc desc v credit with
    | some a => { gb with Debit := synth a }
    | none => gb
  else gb

/-- the edit of one booking: the credit account against the debit account, then the debit account against the (possibly new) credit
account -/
def editB (sc : Infer.Scorer S) (m : Infer.Model) (desc : Bytes) (gb : directives.Booking) (v : BookingV) : directives.Booking :=
  editDebit sc m desc (editCredit sc m desc gb v).1 v (editCredit sc m desc gb v).2

def editBs (sc : Infer.Scorer S) (m : Infer.Model) (desc : Bytes) : List directives.Booking → List BookingV → List directives.Booking
  | gb :: gbs, v :: vs => editB sc m desc gb v :: editBs sc m desc gbs vs
  | gbs, _ => gbs

theorem editCredit_frame (sc : Infer.Scorer S) (m : Infer.Model) (desc : Bytes) (gb : directives.Booking) (v : BookingV) :
    (editCredit sc m desc gb v).1.Range = gb.Range ∧ (editCredit sc m desc gb v).1.Quantity = gb.Quantity ∧
    (editCredit sc m desc gb v).1.Commodity = gb.Commodity ∧ (editCredit sc m desc gb v).1.Debit = gb.Debit ∧
    ((editCredit sc m desc gb v).1.Credit = gb.Credit ∨ ∃ a, (editCredit sc m desc gb v).1.Credit = synth a) := by
  unfold editCredit
  split
  · split
    · exact ⟨rfl, rfl, rfl, rfl, Or.inr ⟨_, rfl⟩⟩
    · exact ⟨rfl, rfl, rfl, rfl, Or.inl rfl⟩
  · exact ⟨rfl, rfl, rfl, rfl, Or.inl rfl⟩

theorem editDebit_frame (sc : Infer.Scorer S) (m : Infer.Model) (desc : Bytes) (gb : directives.Booking) (v : BookingV) (credit : Bytes) :
    (editDebit sc m desc gb v credit).Range = gb.Range ∧ (editDebit sc m desc gb v credit).Quantity = gb.Quantity ∧
    (editDebit sc m desc gb v credit).Commodity = gb.Commodity ∧ (editDebit sc m desc gb v credit).Credit = gb.Credit ∧
    ((editDebit sc m desc gb v credit).Debit = gb.Debit ∨ ∃ a, (editDebit sc m desc gb v credit).Debit = synth a) := by
  unfold editDebit
  split
  · split
    · exact ⟨rfl, rfl, rfl, rfl, Or.inr ⟨_, rfl⟩⟩
    · exact ⟨rfl, rfl, rfl, rfl, Or.inl rfl⟩
  · exact ⟨rfl, rfl, rfl, rfl, Or.inl rfl⟩

/-- **only the account fields of bookings are written**: the rest of an edited booking is the old booking, and an account field is
the old node or a synthesised account -/
theorem editB_frame (sc : Infer.Scorer S) (m : Infer.Model) (desc : Bytes) (gb : directives.Booking) (v : BookingV) :
    (editB sc m desc gb v).Range = gb.Range ∧ (editB sc m desc gb v).Quantity = gb.Quantity ∧
    (editB sc m desc gb v).Commodity = gb.Commodity ∧
    ((editB sc m desc gb v).Credit = gb.Credit ∨ ∃ a, (editB sc m desc gb v).Credit = synth a) ∧
    ((editB sc m desc gb v).Debit = gb.Debit ∨ ∃ a, (editB sc m desc gb v).Debit = synth a) := by
  obtain ⟨c1, c2, c3, c4, c5⟩ := editCredit_frame sc m desc gb v
  obtain ⟨d1, d2, d3, d4, d5⟩ := editDebit_frame sc m desc (editCredit sc m desc gb v).1 v (editCredit sc m desc gb v).2
  unfold editB
  refine ⟨d1.trans c1, d2.trans c2, d3.trans c3, ?_, ?_⟩
  · rw [d4]; exact c5
  · rw [← c4]; exact d5

/-- the view after the first half: the credit field is the text `editCredit` hands on -/
theorem editCredit_view (sc : Infer.Scorer S) (m : Infer.Model) (desc : Bytes) (gb : directives.Booking) (v : BookingV) (hv : ViewB gb v) :
    ViewB (editCredit sc m desc gb v).1 { v with credit := (editCredit sc m desc gb v).2 } := by
  unfold editCredit
  split
  · split
    · exact ⟨Extract_synth _, hv.debit, hv.quantity, hv.commodity⟩
    · exact hv
  · exact hv

theorem editDebit_view (sc : Infer.Scorer S) (m : Infer.Model) (desc : Bytes) (gb : directives.Booking) (v v1 : BookingV) (credit : Bytes)
    (hv : ViewB gb v1) :
    ViewB (editDebit sc m desc gb v credit)
      (if v.debit = m.account then match m.inferAccount sc desc v credit with | some a => { v1 with debit := a } | none => v1 else v1) := by
  unfold editDebit
  split
  · split
    · exact ⟨hv.credit, Extract_synth _, hv.quantity, hv.commodity⟩
    · exact hv
  · exact hv

/-- **the edited booking is viewed as the model's `inferBooking` of the old view** -/
theorem editB_view (sc : Infer.Scorer S) (m : Infer.Model) (desc : Bytes) (gb : directives.Booking) (v : BookingV) (hv : ViewB gb v) :
    ViewB (editB sc m desc gb v) (m.inferBooking sc desc v) := by
  have h1 := editCredit_view sc m desc gb v hv
  have h2 := editDebit_view sc m desc (editCredit sc m desc gb v).1 v _ (editCredit sc m desc gb v).2 h1
  have e : m.inferBooking sc desc v =
      (if v.debit = m.account then
        match m.inferAccount sc desc v (editCredit sc m desc gb v).2 with
        | some a => { ({ v with credit := (editCredit sc m desc gb v).2 } : BookingV) with debit := a }
        | none => { v with credit := (editCredit sc m desc gb v).2 }
      else { v with credit := (editCredit sc m desc gb v).2 }) := by
    unfold Infer.Model.inferBooking editCredit
    by_cases c1 : v.credit = m.account
    · rw [if_pos c1, if_pos c1]
      cases m.inferAccount sc desc v v.debit with
      | none => rfl
      | some a => rfl
    · rw [if_neg c1, if_neg c1]
      cases v; rfl
  rw [e]
  exact h2

theorem setIndex_append {α : Type} (pre : List α) (x y : α) (post : List α) :
    setIndex (pre ++ x :: post) (pre.length : Int) y = .ok (pre ++ y :: post) := by
  unfold setIndex
  have h : ¬ ((pre.length : Int) < 0 ∨ ((pre ++ x :: post).length : Int) ≤ (pre.length : Int)) := by
    simp only [List.length_append, List.length_cons]; omega
  rw [if_neg h]
  simp

theorem Infer_range1 (fl : Syn.F64 F) (ext : bayes.Model → Bytes → set.Set bayes.token → F) (sc : Infer.Scorer S) (embed : S → F)
    (m : Infer.Model) (h : ScoreOK fl ext sc embed m) (hk : m.countByAccount.keys.Nodup) (desc : Bytes) :
    ∀ (items : List directives.Booking) (vs : List BookingV) (done : List directives.Booking) (t : directives.Transaction),
      t.Bookings = done ++ items → directives.Range.Extract t.Description.Content = .ok desc → Forall2 ViewB items vs →
      bayes.Model.Infer.range1 (goModel m) fl ext items (done.length : Int) t =
        .ok { t with Bookings := done ++ editBs sc m desc items vs }
  | [], vs, done, t, hb, _, hv => by
    cases hv
    rw [bayes.Model.Infer.range1]
    simp only [editBs, ← hb]
  | gb :: items, _, done, t, hb, hd, hv => by
    cases hv with
    | cons hv1 hrest =>
      rename_i v vs
      have hacc : (goModel m).account = m.account := rfl
      have ih := fun (gb' : directives.Booking) =>
        Infer_range1 fl ext sc embed m h hk desc items vs (done ++ [gb']) { t with Bookings := done ++ gb' :: items }
          (by simp) hd hrest
      simp only [List.length_append, List.length_cons, List.length_nil, Nat.zero_add, Int.natCast_add, Int.natCast_one,
        List.append_assoc, List.cons_append, List.nil_append] at ih
      have hI := fun (gb' : directives.Booking) (hc : directives.Range.Extract gb'.Commodity.Range = .ok v.commodity)
          (hq : directives.Range.Extract gb'.Quantity.Range = .ok v.quantity) (t' : directives.Transaction)
          (hd' : directives.Range.Extract t'.Description.Content = .ok desc) (other : Bytes) =>
        inferAccount_agrees fl ext sc embed m h hk t' gb' other desc v hd' hc hq
      rw [bayes.Model.Infer.range1, editBs]
      simp only [hb, index_append, obind_ok', hv1.credit, hv1.debit, hacc]
      unfold editB editCredit editDebit
      by_cases c1 : v.credit = m.account
      · simp only [c1, decide_true, if_true]
        rw [hI gb hv1.commodity hv1.quantity t hd v.debit]
        simp only [obind_ok']
        cases h1 : m.inferAccount sc desc v v.debit with
        | none =>
          simp only [accountOf, Bool.false_eq_true, if_false, obind_ok']
          by_cases c2 : v.debit = m.account
          · simp only [c2, decide_true, if_true, hb, index_append, obind_ok']
            rw [hI gb hv1.commodity hv1.quantity t hd m.account]
            simp only [obind_ok']
            cases h2 : m.inferAccount sc desc v m.account with
            | none =>
              simp only [accountOf, Bool.false_eq_true, if_false, obind_ok']
              have := ih gb
              rw [show ({ t with Bookings := done ++ gb :: items } : directives.Transaction) = t by rw [← hb]] at this
              exact this
            | some a =>
              simp only [accountOf, if_true, hb, index_append, setIndex_append, obind_ok']
              exact ih _
          · simp only [c2, decide_false, Bool.false_eq_true, if_false, obind_ok']
            have := ih gb
            rw [show ({ t with Bookings := done ++ gb :: items } : directives.Transaction) = t by rw [← hb]] at this
            exact this
        | some a =>
          simp only [accountOf, if_true, hb, index_append, setIndex_append, obind_ok', Extract_synth]
          by_cases c2 : v.debit = m.account
          · simp only [c2, decide_true, if_true, index_append, obind_ok']
            rw [hI { gb with Credit := synth a } hv1.commodity hv1.quantity
              { t with Bookings := done ++ { gb with Credit := synth a } :: items } hd a]
            simp only [obind_ok']
            cases h2 : m.inferAccount sc desc v a with
            | none =>
              simp only [accountOf, Bool.false_eq_true, if_false, obind_ok']
              exact ih _
            | some a' =>
              simp only [accountOf, if_true, index_append, setIndex_append, obind_ok']
              exact ih _
          · simp only [c2, decide_false, Bool.false_eq_true, if_false, obind_ok']
            exact ih _
      · simp only [c1, decide_false, Bool.false_eq_true, if_false, obind_ok']
        by_cases c2 : v.debit = m.account
        · simp only [c2, decide_true, if_true, hb, index_append, obind_ok']
          rw [hI gb hv1.commodity hv1.quantity t hd v.credit]
          simp only [obind_ok']
          cases h2 : m.inferAccount sc desc v v.credit with
          | none =>
            simp only [accountOf, Bool.false_eq_true, if_false, obind_ok']
            have := ih gb
            rw [show ({ t with Bookings := done ++ gb :: items } : directives.Transaction) = t by rw [← hb]] at this
            exact this
          | some a =>
            simp only [accountOf, if_true, hb, index_append, setIndex_append, obind_ok']
            exact ih _
        · simp only [c2, decide_false, Bool.false_eq_true, if_false, obind_ok']
          have := ih gb
          rw [show ({ t with Bookings := done ++ gb :: items } : directives.Transaction) = t by rw [← hb]] at this
          exact this

/-- **`Model.Infer`**: the tree with, booking by booking, the model's `inferBooking` edit (`editB`); nothing but `Bookings` changes, and
nothing panics when the `Extract()` calls succeed — for every float record, external score function and `Scorer` it stands for -/
theorem Infer_agrees (fl : Syn.F64 F) (ext : bayes.Model → Bytes → set.Set bayes.token → F) (sc : Infer.Scorer S) (embed : S → F)
    (m : Infer.Model) (h : ScoreOK fl ext sc embed m) (hk : m.countByAccount.keys.Nodup)
    (gt : directives.Transaction) (desc : Bytes) (vs : List BookingV)
    (hd : directives.Range.Extract gt.Description.Content = .ok desc) (hv : Forall2 ViewB gt.Bookings vs) :
    bayes.Model.Infer (goModel m) gt fl ext = .ok { gt with Bookings := editBs sc m desc gt.Bookings vs } := by
  unfold bayes.Model.Infer
  have := Infer_range1 fl ext sc embed m h hk desc gt.Bookings vs [] gt rfl hd hv
  simp only [List.length_nil, Int.natCast_zero, List.nil_append] at this
  rw [this]; rfl

/-- for every `Scorer` -/
theorem Infer_scorer (sc : Infer.Scorer S) (m : Infer.Model) (hk : m.countByAccount.keys.Nodup)
    (gt : directives.Transaction) (desc : Bytes) (vs : List BookingV)
    (hd : directives.Range.Extract gt.Description.Content = .ok desc) (hv : Forall2 ViewB gt.Bookings vs) :
    bayes.Model.Infer (goModel m) gt (flOf sc) (extOf sc) = .ok { gt with Bookings := editBs sc m desc gt.Bookings vs } :=
  Infer_agrees (flOf sc) (extOf sc) sc some m (scoreOK_scorer sc m) hk gt desc vs hd hv

/-- with the code's own score function -/
theorem Infer_real (fl : Syn.F64 F) (m : Infer.Model) (hf : FiniteScores fl m) (hk : m.countByAccount.keys.Nodup)
    (gt : directives.Transaction) (desc : Bytes) (vs : List BookingV)
    (hd : directives.Range.Extract gt.Description.Content = .ok desc) (hv : Forall2 ViewB gt.Bookings vs) :
    bayes.Model.Infer (goModel m) gt fl (extReal fl) = .ok { gt with Bookings := editBs (scorerOf fl) m desc gt.Bookings vs } :=
  Infer_agrees fl (extReal fl) (scorerOf fl) id m (scoreOK_real fl m hf) hk gt desc vs hd hv

/-- the bookings after `Infer` are viewed as the model's `inferBooking` of the old views (the bookings of `inferDir`) -/
theorem editBs_view (sc : Infer.Scorer S) (m : Infer.Model) (desc : Bytes) : ∀ (gbs : List directives.Booking) (vs : List BookingV),
    Forall2 ViewB gbs vs → Forall2 ViewB (editBs sc m desc gbs vs) (vs.map (m.inferBooking sc desc))
  | [], _, h => by cases h; exact Forall2.nil
  | gb :: gbs, _, h => by
    cases h with
    | cons h1 hrest => exact Forall2.cons (editB_view sc m desc gb _ h1) (editBs_view sc m desc gbs _ hrest)

end

/-! ### the tables stay Go maps: every key once -/

theorem keys_set_nodup {ν : Type} (m : AMap Bytes ν) (k : Bytes) (v : ν) (h : m.keys.Nodup) : (AMap.set m k v).keys.Nodup := by
  induction m with
  | nil => simp [AMap.set, AMap.keys]
  | cons p rest ih =>
    obtain ⟨a, b⟩ := p
    simp only [AMap.keys, List.map_cons, List.nodup_cons] at h ⊢ ih
    unfold AMap.set
    by_cases e : a = k
    · subst e; simp only [if_true, List.map_cons, List.nodup_cons]; exact h
    · simp only [e, if_false, List.map_cons, List.nodup_cons]
      refine ⟨fun hm => ?_, ih h.2⟩
      have : ∀ (r : AMap Bytes ν), a ∈ List.map (fun x => x.1) (AMap.set r k v) → a ∈ List.map (fun x => x.1) r := by
        intro r
        induction r with
        | nil => simp [AMap.set]; exact fun x => absurd x e
        | cons q r' ihr =>
          obtain ⟨a', b'⟩ := q
          unfold AMap.set
          by_cases e' : a' = k
          · simp only [e', if_true, List.map_cons, List.mem_cons]
            rintro (x | x)
            · exact absurd x e
            · exact Or.inr x
          · simp only [e', if_false, List.map_cons, List.mem_cons]
            rintro (x | x)
            · exact Or.inl x
            · exact Or.inr (ihr x)
      exact h.1 (this rest hm)

theorem newModel_nodup (account : Bytes) : (Infer.newModel account).countByAccount.keys.Nodup := List.nodup_nil

theorem updateWith_nodup (m : Infer.Model) (a : Bytes) (w : List Bytes) (h : m.countByAccount.keys.Nodup) :
    (m.updateWith a w).countByAccount.keys.Nodup := keys_set_nodup _ _ _ h

theorem updateFromW_nodup (desc : Bytes) (o1 o2 : Int → List Bytes) : ∀ (bs : List Infer.TBooking) (i : Int) (m : Infer.Model),
    m.countByAccount.keys.Nodup → (updateFromW desc o1 o2 bs i m).countByAccount.keys.Nodup
  | [], _, _, h => h
  | b :: bs, i, m, h => by
    rw [updateFromW]
    apply updateFromW_nodup desc o1 o2 bs (i + 1)
    unfold updateBookingW
    split
    · exact updateWith_nodup _ _ _ (updateWith_nodup _ _ _ h)
    · exact h

/-- `Update` keeps every key of `countByAccount` once -/
theorem updateTxW_nodup (o1 o2 : Int → List Bytes) (m : Infer.Model) (t : Infer.TTx) (h : m.countByAccount.keys.Nodup) :
    (updateTxW o1 o2 m t).countByAccount.keys.Nodup := updateFromW_nodup t.desc o1 o2 t.bookings 0 m h

/-- training keeps every key of `countByAccount` once -/
theorem trainW_nodup (os : Nat → (Int → List Bytes) × (Int → List Bytes)) : ∀ (txs : List Infer.TTx) (k : Nat) (m : Infer.Model),
    m.countByAccount.keys.Nodup → (trainW os txs k m).countByAccount.keys.Nodup
  | [], _, _, h => h
  | t :: ts, k, m, h => by
    rw [trainW]
    exact trainW_nodup os ts (k + 1) _ (updateTxW_nodup _ _ m t h)

/-! ### parsed trees -/

section
variable {text : Bytes} {path : String} {S : Type}

theorem viewBs_goBookings : ∀ (bs : List Syntax.Booking) (vs : List BookingV), bs.mapM (viewBooking text) = some vs →
    Forall2 ViewB (bs.map (goBooking text path)) vs
  | [], vs, h => by simp at h; subst h; exact Forall2.nil
  | b :: rest, vs, h => by
    obtain ⟨x, xs, h1, h2, rfl⟩ := (Infer.mapM_cons_some _ b rest vs).mp h
    exact Forall2.cons (viewB_goBooking h1) (viewBs_goBookings rest xs h2)

/-- **`Model.Infer` on a parsed transaction, against `inferDir`**: when the model's extraction of the transaction's fields succeeds
(`viewTransaction`), `Infer` on Go's representation returns the same transaction node with new bookings only; their extracted fields
are the bookings of `m.inferDir sc` of the old fields, and each differs from the old booking in its account nodes at most -/
theorem Infer_parsed (sc : Infer.Scorer S) (m : Infer.Model) (hk : m.countByAccount.keys.Nodup) (t : Syntax.Transaction)
    (accr : Option AccrualV) (perf : Option (List Bytes)) (date desc : Bytes) (bookings : List BookingV)
    (hv : viewTransaction text t = some (.transaction accr perf date desc bookings)) :
    ∃ gbs : List directives.Booking,
      bayes.Model.Infer (goModel m) (goTransaction text path t) (flOf sc) (extOf sc) =
        .ok { goTransaction text path t with Bookings := gbs } ∧
      gbs = editBs sc m desc (t.bookings.map (goBooking text path)) bookings ∧
      ∃ bookings', m.inferDir sc (.transaction accr perf date desc bookings) = .transaction accr perf date desc bookings' ∧
        Forall2 ViewB gbs bookings' := by
  obtain ⟨accr', perf', date', desc', bookings', he, hd, hb⟩ := Infer.viewTransaction_some' hv
  injection he with e1 e2 e3 e4 e5
  subst e4 e5
  have hd' : directives.Range.Extract (goTransaction text path t).Description.Content = .ok desc := by
    simp [goTransaction, goQuoted, Extract_goRange, hd]
  have hvs : Forall2 ViewB (goTransaction text path t).Bookings bookings := viewBs_goBookings t.bookings bookings hb
  refine ⟨_, Infer_scorer sc m hk _ desc bookings hd' hvs, rfl, _, rfl, ?_⟩
  exact editBs_view sc m desc _ _ hvs

end

end Knut.FactsAgree.TransBayes
