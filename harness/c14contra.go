package main

// Stream "contra" of C14: journals that are parseable but CONTRADICT THEMSELVES ACROSS FILES.
//
// The include graphs of the stream `graph` distribute ONE consistent journal over their files (or end in a file that
// cannot be parsed / elaborated): every file on its own, and every pair of files, is harmless to the stages behind
// the parser. A journal whose files disagree with each other is different: the disagreement is only visible to the
// one stage where the concurrently loaded files meet again (journal.Builder, the checker, the price normalisation),
// it is found while the other files are still on their way through the pipeline, and WHICH file completes it
// depends on the arrival order. C14 says: whatever the journal, every command terminates and fails cleanly or
// succeeds. Here a case is a mostly valid generated journal spread over 2 - 40 included files of very different sizes
// (harmless filler: 0 - 1000 transactions / prices per file, so that the files arrive early, late, first, last), into
// which one to three contradictions are planted, each with its parts in different files (sometimes the same file,
// sometimes root and leaf):
//
//	price-conflict   the same commodity pair quoted on one day with 2 - 4 different prices
//	price-respelled  the same pair, the same day, the same value spelled differently (1.5 / 1.50 / 01.5) or identically
//	price-inverse    A in B and B in A on one day with values that are not reciprocal
//	dup-open         an account opened twice (same day / a later day)
//	dup-close        an account closed twice
//	reopen-same-day  close and second open of an account on one day
//	dup-assert       the same assertion twice
//	assert-conflict  two assertions of one account, commodity and day with different quantities
//	dup-tx           the same transaction in 2 - 4 files
//	file-copy        all directives of one file once more in a file of another name
//
// under all command forms, KNUT_VERIF_SEED drawn, GOMAXPROCS 1 / 2 / 16 / default. Evaluation is the common loop of
// runC14: the Lean predicate failsCleanly on the observed ending (a run that does not end within the time limit is a
// failure of it), memory_bounded, and the outcome class against Cmd.run on the files read back (the model loads the
// files in depth-first order; on none of the contradictions does the class depend on the order: prices are positive).

import (
	"fmt"
	"path"
	"strings"
)

var c14ContraKinds = []string{"price-conflict", "price-conflict", "price-conflict", "price-respelled", "price-inverse", "dup-open", "dup-close", "reopen-same-day",
	"dup-assert", "assert-conflict", "dup-tx", "dup-tx", "file-copy"}

// filler per file: most files small, some large (the large ones arrive last)
var c14ContraFill = []int{0, 0, 0, 1, 3, 10, 30, 100, 300, 1000}

func c14GenContra(c *Ctx, i int) *c14Case {
	r := c.Rng("contra", i)
	tc := &c14Case{Stream: "contra", Index: i, Model: true, Path: "main.knut"}
	tc.Cmd = Pick(r, []string{"check", "check", "check-write", "balance", "balance", "balance", "print", "print", "transcode", "returns", "weights", "infer"})
	val := ""
	if tc.Cmd == "transcode" || tc.Cmd == "returns" || tc.Cmd == "weights" || (tc.Cmd == "balance" && r.Chance(2, 3)) {
		val = c14Val(r)
	}
	j, lo, hi := c14Journal(r, val)
	for _, d := range j.Dirs {
		lo, hi = min(lo, d.Date), max(hi, d.Date)
	}
	com := val
	if com == "" {
		com = "CHF"
	}

	// ---- the files: a tree of includes, file 0 is the root
	nfiles := Pick(r, []int{2, 3, 3, 3, 4, 5, 6, 8, 12, 20, 40})
	parts := c14Split(r, j, nfiles)
	// the filler accounts are opened in the root on the first day
	fa, fb := "Assets:Filler", "Expenses:Filler"
	parts[0] = append([]JDir{{Kind: 'o', Date: lo, Account: fa}, {Kind: 'o', Date: lo, Account: fb}}, parts[0]...)
	budget := 1500 // filler directives per case (keeps most cases within what the model reads)
	for k := 0; k < nfiles; k++ {
		n := min(Pick(r, c14ContraFill), budget)
		budget -= n
		for q := 0; q < n; q++ {
			day := lo + r.Intn(hi-lo+1)
			if r.Chance(1, 3) {
				parts[k] = append(parts[k], JDir{Kind: 'p', Date: day, Com: fmt.Sprintf("F%dX%d", k, q), Price: fmt.Sprintf("%d.%d", r.Range(1, 900), r.Intn(100)), Target: com})
			} else {
				parts[k] = append(parts[k], JDir{Kind: 't', Date: day, Desc: fmt.Sprintf("filler %d", q), Bookings: []JBook{{Credit: fa, Debit: fb, Qty: itoa(r.Range(1, 500)), Com: com}}})
			}
		}
	}

	// ---- the contradictions
	other := func(k int) int { // a file, mostly another one than k
		if r.Chance(1, 8) {
			return k
		}
		return (k + 1 + r.Intn(nfiles-1)) % nfiles
	}
	type at struct{ file, idx int }
	find := func(kind byte) (at, bool) {
		var all []at
		for f := range parts {
			for x, d := range parts[f] {
				if d.Kind == kind && d.Account != fa && d.Account != fb && !strings.HasPrefix(d.Desc, "filler") && !strings.HasPrefix(d.Com, "F") {
					all = append(all, at{f, x})
				}
			}
		}
		if len(all) == 0 {
			return at{}, false
		}
		return Pick(r, all), true
	}
	put := func(f int, d JDir) { parts[f] = append(parts[f], d) }
	fresh := func(n int) string { return fmt.Sprintf("Assets:Twice%d", n) }
	otherPrice := func(p string) string {
		for {
			q := Pick(r, []string{"1", "2", "2.5", "0.37", "1234.5678", "0.00000001", "99", p + "1", "1" + p, fmt.Sprintf("%d.%02d", r.Range(1, 5000), r.Intn(100))})
			if q != p && !strings.Contains(q[1:], "-") {
				return q
			}
		}
	}
	var kinds []string
	for n, total := 0, Pick(r, []int{1, 1, 1, 2, 2, 3}); n < total; n++ {
		kind := Pick(r, c14ContraKinds)
		kinds = append(kinds, kind)
		switch kind {
		case "price-conflict", "price-respelled", "price-inverse":
			var p JDir
			src := 0
			if w, ok := find('p'); ok && r.Chance(2, 3) {
				p, src = parts[w.file][w.idx], w.file
			} else {
				p = JDir{Kind: 'p', Date: lo + r.Intn(hi-lo+1), Com: Pick(r, []string{"AAA", "USD", "Gold", "x"}), Price: otherPrice(""), Target: com}
				if p.Com == p.Target {
					p.Com = "AAA"
				}
				src = r.Intn(nfiles)
				put(src, p)
			}
			if strings.HasPrefix(p.Price, "-") || strings.Trim(p.Price, "0.") == "" {
				p.Price = "3" // (a mutated journal: keep the planted prices positive)
			}
			for q, copies := 0, Pick(r, []int{1, 1, 1, 2, 3}); q < copies; q++ {
				d := p
				switch kind {
				case "price-conflict":
					d.Price = otherPrice(p.Price)
				case "price-respelled":
					if r.Bool() {
						if strings.Contains(p.Price, ".") {
							d.Price = p.Price + "0"
						} else {
							d.Price = p.Price + ".0"
						}
					}
					if r.Chance(1, 3) {
						d.Price = "0" + d.Price
					}
				case "price-inverse":
					d.Com, d.Target, d.Price = p.Target, p.Com, otherPrice(p.Price)
				}
				put(other(src), d)
			}
		case "dup-open":
			w, ok := find('o')
			d := JDir{Kind: 'o', Date: lo, Account: fresh(n)}
			src := r.Intn(nfiles)
			if ok {
				d, src = parts[w.file][w.idx], w.file
			} else {
				put(src, d)
			}
			if r.Chance(1, 3) {
				d.Date += r.Range(1, 3)
			}
			put(other(src), d)
		case "dup-close":
			a := fresh(n)
			src := r.Intn(nfiles)
			put(src, JDir{Kind: 'o', Date: lo, Account: a})
			if w, ok := find('c'); ok && r.Bool() {
				src = w.file
				put(other(src), parts[w.file][w.idx])
			} else {
				day := lo + r.Intn(hi-lo+2)
				put(other(src), JDir{Kind: 'c', Date: day, Account: a})
				put(other(src), JDir{Kind: 'c', Date: day + r.Intn(2), Account: a})
			}
		case "reopen-same-day":
			a := fresh(n)
			src := r.Intn(nfiles)
			day := lo + r.Intn(hi-lo+2)
			put(src, JDir{Kind: 'o', Date: lo, Account: a})
			put(other(src), JDir{Kind: 'c', Date: day, Account: a})
			put(other(src), JDir{Kind: 'o', Date: day, Account: a})
		case "dup-assert", "assert-conflict":
			var d JDir
			src := 0
			if w, ok := find('a'); ok && r.Chance(2, 3) && len(parts[w.file][w.idx].Balances) > 0 {
				d, src = parts[w.file][w.idx], w.file
				d.Balances = append([]JBal{}, d.Balances...)
			} else {
				a := fresh(n)
				src = r.Intn(nfiles)
				put(src, JDir{Kind: 'o', Date: lo, Account: a})
				d = JDir{Kind: 'a', Date: lo + r.Intn(hi-lo+2), Balances: []JBal{{Account: a, Qty: "0", Com: com}}}
				put(other(src), d)
			}
			if kind == "assert-conflict" {
				d.Balances[0].Qty = Pick(r, []string{"1", "-1", "0.01", "1000000", d.Balances[0].Qty + "1"})
			}
			put(other(src), d)
		case "dup-tx":
			w, ok := find('t')
			d := JDir{Kind: 't', Date: lo + r.Intn(hi-lo+1), Desc: "twice", Bookings: []JBook{{Credit: fa, Debit: fb, Qty: "10", Com: com}}}
			src := r.Intn(nfiles)
			if ok {
				d, src = parts[w.file][w.idx], w.file
			} else {
				put(src, d)
			}
			for q, copies := 0, Pick(r, []int{1, 1, 2, 3}); q < copies; q++ {
				put(other(src), d)
			}
		case "file-copy":
			src := r.Intn(nfiles)
			dst := other(src)
			parts[dst] = append(parts[dst], parts[src]...)
		}
	}

	// ---- texts: directives of a file in a drawn order (the loader does not care; the builder sorts by day), includes
	// at drawn positions, a drawn byte layout
	lr := c.Rng("contra/bytes", i)
	rels := []string{"main.knut"}
	incs := make([][]string, nfiles)
	for k := 1; k < nfiles; k++ {
		rel := path.Join(Pick(r, []string{".", ".", "sub", "other"}), fmt.Sprintf("f%d.knut", k))
		from := r.Intn(k)
		if r.Chance(1, 2) {
			from = 0 // many siblings below the root
		}
		inc := rel
		if d := path.Dir(rels[from]); d != "." {
			inc = "../" + rel
		}
		incs[from] = append(incs[from], inc)
		rels = append(rels, rel)
	}
	total := 0
	for k := 0; k < nfiles; k++ {
		ds := parts[k]
		if r.Chance(1, 2) { // shuffle (Fisher-Yates)
			for a := len(ds) - 1; a > 0; a-- {
				b := r.Intn(a + 1)
				ds[a], ds[b] = ds[b], ds[a]
			}
		}
		text := c14Text(ds, incs[k], "", r, lr)
		total += len(text)
		tc.Files = append(tc.Files, c14File{Rel: rels[k], Data: text})
	}
	if total > 12<<10 {
		tc.Model = false // monitors only (the model reads the whole text once per request)
	}

	// ---- command, flags, schedule
	tc.Bal = c14WindowFlags(r, lo, hi, val)
	tc.Val = val
	if tc.Cmd == "infer" {
		tc.Train = tc.Path
		tc.Path = rels[r.Intn(nfiles)]
	}
	tc.Sched = Pick(r, []int{0, 1 + r.Intn(1000), 1 + r.Intn(1000), 1 + r.Intn(1000)})
	tc.Procs = Pick(r, []int{0, 0, 1, 2, 16})
	tc.buildArgv()
	tc.Kind = kinds[0]
	size := "small"
	switch {
	case total > 64<<10:
		size = "above-64k"
	case total > 8<<10:
		size = "8k-64k"
	case total > 1<<10:
		size = "1k-8k"
	}
	tc.Tags = append(tc.Tags, fmt.Sprintf("contra:files:%d", nfiles), "contra:size:"+size, fmt.Sprintf("contra:planted:%d", len(kinds)))
	for _, k := range kinds {
		tc.Tags = append(tc.Tags, "contra:"+k)
	}
	return tc
}
