import Knut.Proofs.PipelineProgress
/-!
# Every recorded error is one of the sequential first failures
-/
namespace Knut.Pipeline

variable {σ α ε : Type}

theorem proc_cons (f : σ → α → Except ε (σ × α)) (s : σ) (a : α) (l : List α) :
    ∀ i, proc f s (a :: l) (i + 1) =
      match f s a with
      | .ok (s', a') => (proc f s' l i).map (fun p => (p.1, a' :: p.2))
      | .error _ => none := by
  intro i
  induction i with
  | zero =>
    simp only [proc, List.getElem?_cons_zero]
    cases f s a with
    | ok r => obtain ⟨s', a'⟩ := r; simp
    | error e => simp
  | succ i ih =>
    rw [proc, ih]
    cases hf : f s a with
    | error e => simp
    | ok r =>
      obtain ⟨s', a'⟩ := r
      simp only [List.getElem?_cons_succ]
      rw [proc]
      cases hp : proc f s' l i with
      | none => simp
      | some p =>
        obtain ⟨t, o⟩ := p
        simp only [Option.map_some]
        cases hl : l[i]? with
        | none => simp
        | some b =>
          simp only
          cases hfb : f t b with
          | error e => simp
          | ok r2 => obtain ⟨t', b'⟩ := r2; simp

/-- the stage fails on item number `c`, after processing `c` items: that is its first failure -/
theorem runStage_of_proc_fail {f : σ → α → Except ε (σ × α)} :
    ∀ {l : List α} {s t : σ} {c : Nat} {o : List α} {a : α} {e : ε},
      proc f s l c = some (t, o) → l[c]? = some a → f t a = .error e → runStage f s l = (o, some e) := by
  intro l
  induction l with
  | nil => intro s t c o a e _ hg _; simp at hg
  | cons b l ih =>
    intro s t c o a e hp hg hf
    cases c with
    | zero =>
      simp [proc] at hp
      obtain ⟨rfl, rfl⟩ := hp
      simp at hg; subst hg
      simp [runStage, hf]
    | succ c =>
      rw [proc_cons] at hp
      cases hfb : f s b with
      | error e' => rw [hfb] at hp; cases hp
      | ok r =>
        obtain ⟨s', b'⟩ := r
        rw [hfb] at hp
        dsimp only at hp
        cases hp' : proc f s' l c with
        | none => rw [hp'] at hp; cases hp
        | some p =>
          obtain ⟨t', o'⟩ := p
          rw [hp'] at hp
          simp at hp
          obtain ⟨rfl, rfl⟩ := hp
          have := ih hp' (by simpa using hg) hf
          simp [runStage, hfb, this]

/-- what a stage has produced after `c` items is a prefix of what it produces until its first failure -/
theorem proc_prefix_runStage {f : σ → α → Except ε (σ × α)} :
    ∀ {l : List α} {s t : σ} {c : Nat} {o : List α},
      proc f s l c = some (t, o) → o <+: (runStage f s l).1 := by
  intro l
  induction l with
  | nil =>
    intro s t c o hp
    have := (proc_len hp).2
    have hc : c = 0 := by simpa using this
    subst hc
    simp [proc] at hp
    obtain ⟨rfl, rfl⟩ := hp
    exact List.nil_prefix
  | cons b l ih =>
    intro s t c o hp
    cases c with
    | zero =>
      simp [proc] at hp
      obtain ⟨rfl, rfl⟩ := hp
      exact List.nil_prefix
    | succ c =>
      rw [proc_cons] at hp
      cases hfb : f s b with
      | error e' => rw [hfb] at hp; cases hp
      | ok r =>
        obtain ⟨s', b'⟩ := r
        rw [hfb] at hp
        dsimp only at hp
        cases hp' : proc f s' l c with
        | none => rw [hp'] at hp; cases hp
        | some p =>
          obtain ⟨t', o'⟩ := p
          rw [hp'] at hp
          simp at hp
          obtain ⟨rfl, rfl⟩ := hp
          obtain ⟨r, hr⟩ := ih hp'
          exact ⟨r, by simp [runStage, hfb, ← hr]⟩

theorem prefix_of_append_prefix {l x y : List α} (h : l ++ x <+: y) : l <+: y := by
  obtain ⟨r, hr⟩ := h
  exact ⟨x ++ r, by rw [← hr, List.append_assoc]⟩

/-- what stage `k` has handed on is a prefix of the sequential stream after stage `k` -/
theorem emitted_prefix_stream {S : Sys σ α ε} {s : St σ α ε} (hi : Inv S s) :
    ∀ k, k ≤ S.n → emitted S s k <+: stream S k := by
  intro k
  induction k with
  | zero => intro _; rw [emitted_zero]; exact List.take_prefix _ _
  | succ k ih =>
    intro hk
    obtain ⟨r, hr⟩ := ih (by omega)
    rw [emitted_succ]
    simp only [stream]
    rw [← hr]
    cases hs : s.slot (k + 1) with
    | none =>
      have hd := hi.data_idle k (by omega) hs
      have hle := (proc_len hd).2
      rw [← proc_append _ r _ hle] at hd
      exact proc_prefix_runStage hd
    | some p =>
      obtain ⟨a, d⟩ := p
      cases d with
      | false =>
        have hd := (hi.data_busy k a (by omega) hs).1
        have hle := (proc_len hd).2
        rw [← proc_append _ r _ hle] at hd
        exact proc_prefix_runStage hd
      | true =>
        have hd := hi.data_done k a (by omega) hs
        have hle := (proc_len hd).2
        rw [← proc_append _ r _ hle] at hd
        exact prefix_of_append_prefix (proc_prefix_runStage hd)

/-- a recorded error of stage `k` is the first failure of stage `k` on the stream that reaches it when
every stage runs sequentially until its first failure -/
theorem err_mem_seqErrors {S : Sys σ α ε} {s : St σ α ε} (hi : Inv S s) {k : Nat} {e : ε} (he : s.err k = some e) :
    (k, e) ∈ seqErrors S := by
  obtain ⟨h1, hn, a, hsl, hf⟩ := hi.err_ok k e he
  obtain ⟨j, rfl⟩ : ∃ j, k = j + 1 := ⟨k - 1, by omega⟩
  obtain ⟨hp, hg⟩ := hi.data_busy j a (by omega) hsl
  obtain ⟨r, hr⟩ := emitted_prefix_stream hi j (by omega)
  have hlt := lt_of_get hg
  rw [← proc_append _ r _ (by omega)] at hp
  have hg' : (emitted S s j ++ r)[(s.hist (j + 1)).length]? = some a := by
    rw [List.getElem?_append_left hlt]; exact hg
  rw [hr] at hp hg'
  have := runStage_of_proc_fail hp hg' hf
  simp only [seqErrors, List.mem_filterMap, List.mem_range]
  exact ⟨j, by omega, by simp [this]⟩

end Knut.Pipeline
