/-!
# Civil calendar on day numbers

A date is an `Int` day number, day 0 = 0001-01-01 (proleptic Gregorian), which is a
Monday.  Everything knut does with `time.Time` (UTC midnight values only) is
expressed on day numbers; the civil fields are *derived* from the day number so that
`ofCivil (toCivil z) = z` holds by construction.  Agreement with Go's `time` package
is established by the exhaustive correspondence check of property C11.
-/
namespace Knut.Date

/-- days before Jan 1 of year `y`, relative to 0001-01-01 = 0 (floor division). -/
def yearStart (y : Int) : Int := 365 * (y - 1) + (y - 1) / 4 - (y - 1) / 100 + (y - 1) / 400

def isLeap (y : Int) : Bool := (y % 4 == 0 && y % 100 != 0) || y % 400 == 0

def yearLen (y : Int) : Int := if isLeap y then 366 else 365

theorem yearStart_succ (y : Int) : yearStart (y + 1) = yearStart y + yearLen y := by
  unfold yearStart yearLen isLeap
  split <;> simp_all <;> omega

theorem yearLen_pos (y : Int) : 365 ≤ yearLen y ∧ yearLen y ≤ 366 := by
  unfold yearLen; split <;> omega

theorem yearStart_lt_succ (y : Int) : yearStart y < yearStart (y + 1) := by
  have := yearStart_succ y; have := yearLen_pos y; omega

theorem yearStart_mono {a b : Int} (h : a ≤ b) : yearStart a ≤ yearStart b := by
  unfold yearStart; omega

theorem yearStart_strictMono {a b : Int} (h : a < b) : yearStart a < yearStart b := by
  have h1 : yearStart (a + 1) ≤ yearStart b := yearStart_mono (by omega)
  have := yearStart_lt_succ a
  omega

/-- first estimate of the year containing day `z`; off by at most one. -/
def yearEst (z : Int) : Int := (z * 400) / 146097 + 1

/-- the year containing day number `z`. -/
def year (z : Int) : Int :=
  let e := yearEst z
  if z < yearStart e then e - 1
  else if z < yearStart (e + 1) then e
  else e + 1

theorem year_spec (z : Int) : yearStart (year z) ≤ z ∧ z < yearStart (year z + 1) := by
  unfold year
  simp only
  have h1 : yearStart (yearEst z - 1) ≤ z := by unfold yearStart yearEst; omega
  have h2 : z < yearStart (yearEst z + 2) := by unfold yearStart yearEst; omega
  split
  · constructor
    · exact h1
    · simpa using ‹z < yearStart (yearEst z)›
  · split
    · constructor <;> omega
    · constructor
      · omega
      · have : yearEst z + 1 + 1 = yearEst z + 2 := by omega
        rw [this]; exact h2

theorem year_unique {z y : Int} (h1 : yearStart y ≤ z) (h2 : z < yearStart (y + 1)) : year z = y := by
  have ⟨a, b⟩ := year_spec z
  rcases Int.lt_trichotomy (year z) y with h | h | h
  · have : yearStart (year z + 1) ≤ yearStart y := yearStart_mono (by omega)
    omega
  · exact h
  · have : yearStart (y + 1) ≤ yearStart (year z) := yearStart_mono (by omega)
    omega

/-- 0-based day of the year. -/
def dayOfYear (z : Int) : Int := z - yearStart (year z)

theorem dayOfYear_bounds (z : Int) : 0 ≤ dayOfYear z ∧ dayOfYear z < yearLen (year z) := by
  have ⟨a, b⟩ := year_spec z
  have := yearStart_succ (year z)
  unfold dayOfYear; omega

/-- days before the first of month `m` (1..13) in a (non-)leap year. -/
def cumDays (leap : Bool) (m : Int) : Int :=
  let l : Int := if leap then 1 else 0
  if m ≤ 1 then 0 else if m = 2 then 31 else if m = 3 then 59 + l else if m = 4 then 90 + l
  else if m = 5 then 120 + l else if m = 6 then 151 + l else if m = 7 then 181 + l
  else if m = 8 then 212 + l else if m = 9 then 243 + l else if m = 10 then 273 + l
  else if m = 11 then 304 + l else if m = 12 then 334 + l else 365 + l

/-- month (1..12) of the 0-based day-of-year `n`. -/
def monthOfDoy (leap : Bool) (n : Int) : Int :=
  if n < cumDays leap 2 then 1 else if n < cumDays leap 3 then 2 else if n < cumDays leap 4 then 3
  else if n < cumDays leap 5 then 4 else if n < cumDays leap 6 then 5 else if n < cumDays leap 7 then 6
  else if n < cumDays leap 8 then 7 else if n < cumDays leap 9 then 8 else if n < cumDays leap 10 then 9
  else if n < cumDays leap 11 then 10 else if n < cumDays leap 12 then 11 else 12

def month (z : Int) : Int := monthOfDoy (isLeap (year z)) (dayOfYear z)

/-- 1-based day of the month. -/
def day (z : Int) : Int := dayOfYear z - cumDays (isLeap (year z)) (month z) + 1

/-- day number of the civil date (y, m, d); `m` may be any integer (normalised like Go's
`time.Date`), `d` any integer offset. -/
def ofCivil (y m d : Int) : Int :=
  let y' := y + (m - 1) / 12
  let m' := (m - 1) % 12 + 1
  yearStart y' + cumDays (isLeap y') m' + d - 1

def monthSpec (leap : Bool) (k : Nat) : Bool :=
  let n : Int := k
  let m := monthOfDoy leap n
  decide (n < cumDays leap 13 → (1 ≤ m ∧ m ≤ 12 ∧ cumDays leap m ≤ n ∧ n < cumDays leap (m + 1)))

theorem monthSpec_all : ∀ leap : Bool, ∀ k : Fin 366, monthSpec leap k.val = true := by
  decide +kernel

theorem monthOfDoy_spec (leap : Bool) (n : Int) (h0 : 0 ≤ n) (h1 : n < cumDays leap 13) :
    1 ≤ monthOfDoy leap n ∧ monthOfDoy leap n ≤ 12 ∧
    cumDays leap (monthOfDoy leap n) ≤ n ∧ n < cumDays leap (monthOfDoy leap n + 1) := by
  have hb : cumDays leap 13 ≤ 366 := by cases leap <;> decide
  have hk : n.toNat < 366 := by omega
  have := monthSpec_all leap ⟨n.toNat, hk⟩
  unfold monthSpec at this
  have e : ((n.toNat : Nat) : Int) = n := by omega
  simp only [e, decide_eq_true_eq] at this
  exact this h1

theorem month_bounds (z : Int) : 1 ≤ month z ∧ month z ≤ 12 := by
  have ⟨a, b⟩ := dayOfYear_bounds z
  have hl : cumDays (isLeap (year z)) 13 = yearLen (year z) := by
    unfold yearLen cumDays; cases isLeap (year z) <;> simp
  have := monthOfDoy_spec (isLeap (year z)) (dayOfYear z) a (by omega)
  unfold month; omega

theorem day_pos (z : Int) : 1 ≤ day z := by
  have ⟨a, b⟩ := dayOfYear_bounds z
  have hl : cumDays (isLeap (year z)) 13 = yearLen (year z) := by
    unfold yearLen cumDays; cases isLeap (year z) <;> simp
  have := monthOfDoy_spec (isLeap (year z)) (dayOfYear z) a (by omega)
  unfold day month; omega

/-- round trip by construction -/
theorem ofCivil_toCivil (z : Int) : ofCivil (year z) (month z) (day z) = z := by
  have ⟨h1, h12⟩ := month_bounds z
  unfold ofCivil
  have e1 : (month z - 1) / 12 = 0 := by omega
  have e2 : (month z - 1) % 12 + 1 = month z := by omega
  simp only [e1, e2, Int.add_zero]
  unfold day dayOfYear; omega

/-- Go's `Weekday()` numbering: Sunday = 0 … Saturday = 6. Day 0 is a Monday. -/
def weekday (z : Int) : Int := (z + 1) % 7

theorem weekday_bounds (z : Int) : 0 ≤ weekday z ∧ weekday z < 7 := by unfold weekday; omega

end Knut.Date
