import Knut.FactsAgree.TransParser4
import Knut.Generated.TransPrinter
import Knut.Syntax.Printer
/-!
# The translated format printer (`lib/syntax/printer`) agrees with the model printer, part 1

`Generated/TransPrinter.lean` is regenerated from `/repo/lib/syntax/printer/printer.go` on every run; `Syntax/Printer.lean` is the
hand-written model the C08 / C15 theorems are about.  This module proves, for **every** tree `x` (not only the trees the parser
returns) converted to Go's representation by the `go…` functions of `TransParser…` (every range carries the text and the path):

* the primitives: `Range.Extract` = `Range.extract`, `text[a:b]` = `sliceChecked`, `utf8.RuneCountInString` = `runeCount`,
  `printer.padRight` = `padRight` (for every width; the function replaced `%-*s`, which `fmt` refuses above `10^6`), `%10s` = `padLeft 10`,
  `strings.Join(·, ",")` = `joinComma`, `Printer.Write` appends to the writer and adds to `count`;
* every print method: `printX p (goX x)` = "extract the fields of `x` (`viewX`), render them (`renderX`), append to `p`'s writer" —
  the same bytes, the same `count`, a nil error; and a slice-bounds panic exactly where the model answers `none`.

The `io.Writer` is the byte string written so far (an in-memory buffer that never fails, see `GoSem/Syntax.lean`), so the error results
are always nil here; what a failing writer would do is not modelled.
-/
set_option linter.unusedSimpArgs false
namespace Knut.FactsAgree.TransPrinter
open Knut Knut.GoSem Knut.Syntax Knut.Utf8
open Knut.Generated.Go
open Knut.FactsAgree.TransScanner Knut.FactsAgree.TransParser

abbrev Bytes := List UInt8

/-- Go's run-time panic of `s[lo:hi]` -/
def slicePanic : String := "runtime error: slice bounds out of range"

/-- a model outcome (`none` = a slice bound was violated) as an outcome of the translation -/
def ofOpt {α : Type} : Option α → Outcome α
  | some a => .ok a
  | none => .panic slicePanic

@[simp] theorem ofOpt_some {α : Type} (a : α) : ofOpt (some a) = .ok a := rfl
@[simp] theorem ofOpt_none {α : Type} : (ofOpt (none : Option α)) = .panic slicePanic := rfl

@[simp] theorem obind_ok' {α β : Type} (a : α) (f : α → Outcome β) : (Outcome.ok a).bind f = f a := rfl
@[simp] theorem obind_panic {α β : Type} (m : String) (f : α → Outcome β) : (Outcome.panic m : Outcome α).bind f = .panic m := rfl

theorem ofOpt_bind {α β : Type} (o : Option α) (f : α → Option β) :
    ofOpt (o.bind f) = (ofOpt o).bind (fun a => ofOpt (f a)) := by
  cases o <;> rfl

/-! ### slices -/

/-- `text[a:b]` with Go's bounds check is the model's `sliceChecked` -/
theorem slice_nat (xs : Bytes) (a b : Nat) : slice xs (a : Int) (b : Int) = ofOpt (sliceChecked xs a b) := by
  unfold slice sliceChecked
  by_cases h : a ≤ b ∧ b ≤ xs.length
  · have h' : ¬ ((a : Int) < 0 ∨ (b : Int) < (a : Int) ∨ (xs.length : Int) < (b : Int)) := by omega
    simp only [h', if_false, h, and_self, if_true, ofOpt_some, Int.toNat_natCast, List.drop_take]
  · have h' : ((a : Int) < 0 ∨ (b : Int) < (a : Int) ∨ (xs.length : Int) < (b : Int)) := by omega
    simp only [h', if_true, h, if_false, ofOpt_none, slicePanic]

theorem extract_eq_sliceChecked (text : Bytes) (r : Syntax.Range) : r.extract text = sliceChecked text r.start r.stop := rfl

/-- `Range.Extract` of a range of the tree -/
theorem Extract_goRange (text : Bytes) (path : String) (r : Syntax.Range) :
    directives.Range.Extract (goRange text path r) = ofOpt (r.extract text) := by
  unfold directives.Range.Extract goRange
  simp only [slice_nat, extract_eq_sliceChecked]
  cases sliceChecked text r.start r.stop <;> rfl

/-! ### the format strings -/

theorem runeCount_eq (s : Bytes) : Syn.RuneCountInString s = (runeCount s : Int) := rfl

theorem pad_eq (w : Nat) (s : Bytes) : Syn.Fmt.pad ((w : Int) - (runeCount s : Int)) = spaces (w - runeCount s) := by
  unfold Syn.Fmt.pad spaces
  congr 1
  omega

theorem flatten_replicate_single (n : Nat) (a : UInt8) : (List.replicate n [a]).flatten = List.replicate n a := by
  induction n with
  | zero => rfl
  | succ n ih => simp [List.replicate_succ, ih]

/-- `printer.padRight` (blanks appended by hand up to `n` runes, for every width) is the model's `padRight`; it never panics
(`strings.Repeat` gets a positive count) -/
theorem padRight_agrees (s : Bytes) (w : Nat) : printer.padRight s (w : Int) = .ok (Syntax.padRight w s) := by
  unfold printer.padRight Syntax.padRight Syn.Strings.Repeat spaces
  simp only [runeCount_eq]
  by_cases h : runeCount s < w
  · have h1 : ((runeCount s : Int) < (w : Int)) := by omega
    have h2 : ¬ ((w : Int) - (runeCount s : Int) < 0) := by omega
    have h3 : ((w : Int) - (runeCount s : Int)).toNat = w - runeCount s := by omega
    have e : Syn.lit " " = [32] := by decide
    simp only [h1, decide_true, if_true, h2, if_false, obind_ok', h3, e, flatten_replicate_single]
  · have h1 : ¬ ((runeCount s : Int) < (w : Int)) := by omega
    have h3 : w - runeCount s = 0 := by omega
    simp only [h1, decide_false, Bool.false_eq_true, if_false, h3, List.replicate_zero, List.append_nil]

/-- `%10s` -/
theorem sW_padLeft (s : Bytes) : Syn.Fmt.sW false (10 : Int) s = padLeft 10 s := by
  unfold Syn.Fmt.sW padLeft
  have := pad_eq 10 s
  simp only [Bool.false_eq_true, if_false, runeCount_eq]
  exact congrArg (· ++ s) this

/-- `strings.Join(parts, ",")` -/
theorem Join_comma (ps : List Bytes) : Syn.Strings.Join ps (Syn.lit ",") = joinComma ps := by
  induction ps with
  | nil => rfl
  | cons a rest ih =>
    cases rest with
    | nil => rfl
    | cons b rest' =>
      have e : Syn.lit "," = Syntax.lit "," := by decide
      rw [Syn.Strings.Join, joinComma, ih, e]
      intro h; cases h

/-! ### the printer's state -/

/-- `p` after the bytes `bs` were written through `Printer.Write` -/
def wr (p : printer.Printer) (bs : Bytes) : printer.Printer :=
  { p with writer := p.writer ++ bs, count := p.count + (bs.length : Int) }

@[simp] theorem wr_padding (p : printer.Printer) (bs : Bytes) : (wr p bs).padding = p.padding := rfl
@[simp] theorem wr_writer (p : printer.Printer) (bs : Bytes) : (wr p bs).writer = p.writer ++ bs := rfl
@[simp] theorem wr_count (p : printer.Printer) (bs : Bytes) : (wr p bs).count = p.count + (bs.length : Int) := rfl

@[simp] theorem wr_nil (p : printer.Printer) : wr p [] = p := by
  simp [wr]

theorem wr_wr (p : printer.Printer) (a b : Bytes) : wr (wr p a) b = wr p (a ++ b) := by
  simp only [wr, List.append_assoc, List.length_append, Int.natCast_add, Int.add_assoc]

/-- `Printer.Write`: the bytes go to the writer (which takes them all and returns a nil error), their number is added to `count` -/
theorem Write_eq (p : printer.Printer) (bs : Bytes) : printer.Printer.Write p bs = (wr p bs, (bs.length : Int), .nil) := rfl

/-- the result of a print method: the rendered bytes appended, nil error; a panic where the model answers `none` -/
def printed (p : printer.Printer) (o : Option Bytes) : Outcome (printer.Printer × directives.GoError) :=
  (ofOpt o).bind fun out => .ok (wr p out, .nil)

@[simp] theorem printed_some (p : printer.Printer) (out : Bytes) : printed p (some out) = .ok (wr p out, .nil) := rfl
@[simp] theorem printed_none (p : printer.Printer) : printed p none = .panic slicePanic := rfl

/-! ### literals of the format strings -/

theorem lit_accrue : Syn.lit "@accrue " = Syntax.lit "@accrue " := by decide
theorem lit_sp : Syn.lit " " = Syntax.lit " " := by decide
theorem lit_nl : Syn.lit "\n" = Syntax.lit "\n" := by decide
theorem lit_perf : Syn.lit "@performance(" = Syntax.lit "@performance(" := by decide
theorem lit_perfEnd : Syn.lit ")\n" = Syntax.lit ")\n" := by decide
theorem lit_spq : Syn.lit " \"" = Syntax.lit " \"" := by decide
theorem lit_q : Syn.lit "\"" = Syntax.lit "\"" := by decide
theorem lit_open : Syn.lit " open " = Syntax.lit " open " := by decide
theorem lit_close : Syn.lit " close " = Syntax.lit " close " := by decide
theorem lit_price : Syn.lit " price " = Syntax.lit " price " := by decide
theorem lit_include : Syn.lit "include \"" = Syntax.lit "include \"" := by decide
theorem lit_balance : Syn.lit " balance" = Syntax.lit " balance" := by decide

/-! ### the print methods of the leaves -/

section
variable {text : Bytes} {path : String}

/-- one `x.Extract()` argument: split on the model's extraction -/
macro "xcase " t:term : tactic =>
  `(tactic| (cases $t:term <;> simp only [ofOpt_some, ofOpt_none, obind_ok', obind_panic, Option.bind_eq_bind, Option.bind_some,
    Option.bind_none, Option.map_none, printed_none]))

/-- `Printer.printAccrual` -/
theorem printAccrual_agrees (p : printer.Printer) (a : Syntax.Accrual) :
    printer.Printer.printAccrual p (goAccrual text path a) = printed p ((viewAccrual text a).map renderAccrual) := by
  unfold printer.Printer.printAccrual viewAccrual
  simp only [goAccrual, goInterval, goDate, goAccount, Extract_goRange, Write_eq, Syn.Fmt.s]
  xcase a.interval.range.extract text
  xcase a.start.range.extract text
  xcase a.stop.range.extract text
  xcase a.account.range.extract text
  simp only [Option.pure_def, Option.map_some, printed_some, renderAccrual, lit_accrue, lit_sp, lit_nl]

/-- the line `printPosting` writes: `renderBooking` without the `"\n"` that `printTransaction` writes after it -/
def postingLine (padding : Nat) (b : BookingV) : Bytes :=
  padRight padding b.credit ++ Syntax.lit " " ++ padRight padding b.debit ++ Syntax.lit " " ++ padLeft 10 b.quantity ++ Syntax.lit " " ++
    b.commodity

theorem renderBooking_eq (padding : Nat) (b : BookingV) : renderBooking padding b = postingLine padding b ++ Syntax.lit "\n" := rfl

/-- `Printer.printPosting` -/
theorem printPosting_agrees (p : printer.Printer) (pd : Nat) (hp : p.padding = (pd : Int)) (b : Syntax.Booking) :
    printer.Printer.printPosting p (goBooking text path b) = printed p ((viewBooking text b).map (postingLine pd)) := by
  unfold printer.Printer.printPosting viewBooking
  simp only [goBooking, goDecimal, goCommodity, goAccount, Extract_goRange, Write_eq, Syn.Fmt.s, hp, sW_padLeft]
  xcase b.credit.range.extract text
  simp only [padRight_agrees, obind_ok']
  xcase b.debit.range.extract text
  xcase b.quantity.range.extract text
  xcase b.commodity.range.extract text
  simp only [Option.pure_def, Option.map_some, printed_some, postingLine, lit_sp]

/-- `Printer.printOpen` -/
theorem printOpen_agrees (p : printer.Printer) (pd : Nat) (r : Syntax.Range) (o : Syntax.Open) :
    printer.Printer.printOpen p (goOpen text path o) = printed p (printDirective text pd ⟨r, .open o⟩) := by
  unfold printer.Printer.printOpen printDirective viewDirective
  simp only [goOpen, goDate, goAccount, Extract_goRange, Write_eq, Syn.Fmt.s]
  xcase o.date.range.extract text
  xcase o.account.range.extract text
  simp only [Option.pure_def, Option.map_some, printed_some, renderDir, lit_open]

/-- `Printer.printClose` -/
theorem printClose_agrees (p : printer.Printer) (pd : Nat) (r : Syntax.Range) (c : Syntax.Close) :
    printer.Printer.printClose p (goClose text path c) = printed p (printDirective text pd ⟨r, .close c⟩) := by
  unfold printer.Printer.printClose printDirective viewDirective
  simp only [goClose, goDate, goAccount, Extract_goRange, Write_eq, Syn.Fmt.s]
  xcase c.date.range.extract text
  xcase c.account.range.extract text
  simp only [Option.pure_def, Option.map_some, printed_some, renderDir, lit_close]

/-- `Printer.printPrice` -/
theorem printPrice_agrees (p : printer.Printer) (pd : Nat) (r : Syntax.Range) (pr : Syntax.Price) :
    printer.Printer.printPrice p (goPrice text path pr) = printed p (printDirective text pd ⟨r, .price pr⟩) := by
  unfold printer.Printer.printPrice printDirective viewDirective
  simp only [goPrice, goDate, goCommodity, goDecimal, Extract_goRange, Write_eq, Syn.Fmt.s]
  xcase pr.date.range.extract text
  xcase pr.commodity.range.extract text
  xcase pr.price.range.extract text
  xcase pr.target.range.extract text
  simp only [Option.pure_def, Option.map_some, printed_some, renderDir, lit_price, lit_sp]

/-- `Printer.printInclude` -/
theorem printInclude_agrees (p : printer.Printer) (pd : Nat) (r : Syntax.Range) (i : Syntax.Include) :
    printer.Printer.printInclude p (goInclude text path i) = printed p (printDirective text pd ⟨r, .include i⟩) := by
  unfold printer.Printer.printInclude printDirective viewDirective
  simp only [goInclude, goQuoted, Extract_goRange, Write_eq, Syn.Fmt.s]
  xcase i.includePath.content.extract text
  simp only [Option.pure_def, Option.map_some, printed_some, renderDir, lit_include, lit_q]

/-! ### printAssertion -/

/-- the line of one balance in the multi-line form -/
theorem view_balance_go (b : Syntax.Balance) (k : Bytes → Bytes → Bytes → Outcome α) (alt : Outcome α)
    (halt : alt = .panic slicePanic) :
    (directives.Range.Extract (goBalance text path b).Account.Range).bind (fun t1 =>
      (directives.Range.Extract (goBalance text path b).Quantity.Range).bind (fun t2 =>
        (directives.Range.Extract (goBalance text path b).Commodity.Range).bind (fun t3 => k t1 t2 t3))) =
    match viewBalance text b with
    | some v => k v.account v.quantity v.commodity
    | none => alt := by
  subst halt
  unfold viewBalance
  simp only [goBalance, goDecimal, goCommodity, goAccount, Extract_goRange]
  xcase b.account.range.extract text
  xcase b.quantity.range.extract text
  xcase b.commodity.range.extract text
  rfl

/-- the loop of `printAssertion` (multi-line form) -/
theorem printAssertion_loop (bs : List Syntax.Balance) : ∀ (p : printer.Printer),
    printer.Printer.printAssertion.range1 (bs.map (goBalance text path)) p =
      (ofOpt (bs.mapM (viewBalance text))).bind fun vs =>
        .ok (Flow.next (wr p ((vs.map fun b => renderBalance b ++ Syntax.lit "\n").flatten))) := by
  induction bs with
  | nil => intro p; simp [printer.Printer.printAssertion.range1]
  | cons b rest ih =>
    intro p
    rw [List.map_cons, printer.Printer.printAssertion.range1]
    simp only []
    rw [view_balance_go (alt := .panic slicePanic) (halt := rfl)]
    simp only [List.mapM_cons, Option.bind_eq_bind, Option.pure_def]
    cases viewBalance text b with
    | none => rfl
    | some v =>
      simp only [Write_eq, decide_true, Bool.not_true, Bool.false_eq_true, if_false, ih, Option.bind_some, Syn.Fmt.s]
      cases rest.mapM (viewBalance text) with
      | none => rfl
      | some vs =>
        simp only [Option.bind_some, ofOpt_some, obind_ok', wr_wr, List.map_cons, List.flatten_cons, renderBalance, lit_sp, lit_nl,
          List.append_assoc]

theorem mapM_length {α β : Type} (f : α → Option β) : ∀ (xs : List α) (ys : List β), xs.mapM f = some ys → ys.length = xs.length := by
  intro xs
  induction xs with
  | nil => intro ys h; simp only [List.mapM_nil, Option.pure_def, Option.some.injEq] at h; subst h; rfl
  | cons x rest ih =>
    intro ys h
    simp only [List.mapM_cons, Option.bind_eq_bind, Option.pure_def] at h
    cases hx : f x with
    | none => simp [hx] at h
    | some y =>
      cases hr : rest.mapM f with
      | none => simp [hx, hr] at h
      | some zs =>
        simp only [hx, hr, Option.bind_some, Option.some.injEq] at h
        subst h
        simp [ih zs hr]

theorem renderDir_assertion_multi (pd : Nat) (date : Bytes) (vs : List BalanceV) (h : vs.length ≠ 1) :
    renderDir pd (.assertion date vs) =
      date ++ Syntax.lit " balance" ++ Syntax.lit "\n" ++ (vs.map fun b => renderBalance b ++ Syntax.lit "\n").flatten := by
  match vs, h with
  | [], _ => rfl
  | [v], h => exact absurd rfl h
  | _ :: _ :: _, _ => rfl

/-- `Printer.printAssertion`: the one-line form for exactly one balance, else one line per balance -/
theorem printAssertion_agrees (p : printer.Printer) (pd : Nat) (r : Syntax.Range) (a : Syntax.Assertion) :
    printer.Printer.printAssertion p (goAssertion text path a) = printed p (printDirective text pd ⟨r, .assertion a⟩) := by
  unfold printer.Printer.printAssertion printDirective viewDirective
  simp only [goAssertion, goDate, Extract_goRange, Write_eq, Syn.Fmt.s, len, List.length_map]
  xcase a.date.range.extract text
  rename_i date
  simp only [decide_true, Bool.not_true, Bool.false_eq_true, if_false]
  by_cases h1 : a.balances.length = 1
  · -- `len(a.Balances) == 1`
    obtain ⟨b, hb⟩ : ∃ b, a.balances = [b] := by
      match hbs : a.balances, h1 with
      | [b], _ => exact ⟨b, rfl⟩
    have e1 : ((([b] : List Syntax.Balance).length : Int) = 1) := rfl
    simp only [hb, e1, decide_true, if_true, List.map_cons, List.map_nil]
    have ix : index [goBalance text path b] (0 : Int) = .ok (goBalance text path b) := by simp [index]
    simp only [ix, obind_ok']
    rw [view_balance_go (alt := .panic slicePanic) (halt := rfl)]
    simp only [List.mapM_cons, List.mapM_nil, Option.bind_eq_bind, Option.pure_def]
    cases viewBalance text b with
    | none => rfl
    | some v =>
      simp only [Option.bind_some, Option.map_some, printed_some, renderDir, renderBalance, wr_wr, lit_sp, lit_balance,
        List.append_assoc]
  · have e1 : ¬ ((a.balances.length : Int) = 1) := by omega
    simp only [e1, decide_false, Bool.false_eq_true, if_false, printAssertion_loop, decide_true, Bool.not_true]
    cases hm : a.balances.mapM (viewBalance text) with
    | none => rfl
    | some vs =>
      have hl : vs.length ≠ 1 := by rw [mapM_length _ _ _ hm]; exact h1
      simp only [ofOpt_some, obind_ok', Option.bind_some, Option.pure_def, Option.map_some, printed_some,
        renderDir_assertion_multi pd date vs hl, wr_wr, lit_balance, lit_nl, List.append_assoc]

/-! ### printTransaction -/

theorem addonsZ_accrual_empty (a : Syntax.Addons) :
    directives.Range.Empty (goAddonsZ text path a).Accrual.Range = a.accrual.range.empty := by
  unfold goAddonsZ
  split
  · rename_i h; subst h; rfl
  · exact Empty_goAccrZ text path a.accrual

theorem addonsZ_accrual (a : Syntax.Addons) (h : a.accrual.range.empty = false) :
    (goAddonsZ text path a).Accrual = goAccrual text path a.accrual := by
  unfold goAddonsZ
  split
  · rename_i h0; subst h0; exact absurd h (by decide)
  · simp only [goAddons, goAccrZ]
    split
    · rename_i h0; rw [h0] at h; exact absurd h (by decide)
    · rfl

theorem addonsZ_performance_empty (a : Syntax.Addons) :
    directives.Range.Empty (goAddonsZ text path a).Performance.Range = a.performance.range.empty := by
  unfold goAddonsZ
  split
  · rename_i h; subst h; rfl
  · exact Empty_goPerfZ text path a.performance

theorem addonsZ_performance (a : Syntax.Addons) (h : a.performance.range.empty = false) :
    (goAddonsZ text path a).Performance = goPerformance text path a.performance := by
  unfold goAddonsZ
  split
  · rename_i h0; subst h0; exact absurd h (by decide)
  · simp only [goAddons, goPerfZ]
    split
    · rename_i h0; rw [h0] at h; exact absurd h (by decide)
    · rfl

/-- the loop that collects the extracted `@performance` targets -/
theorem printTransaction_loop1 (cs : List Syntax.Commodity) : ∀ (acc : List Bytes),
    printer.Printer.printTransaction.range1 (cs.map (goCommodity text path)) acc =
      (ofOpt (cs.mapM (fun (c : Syntax.Commodity) => c.range.extract text))).bind fun vs => .ok (acc ++ vs) := by
  induction cs with
  | nil => intro acc; simp [printer.Printer.printTransaction.range1]
  | cons c rest ih =>
    intro acc
    rw [List.map_cons, printer.Printer.printTransaction.range1]
    simp only [goCommodity, Extract_goRange, List.mapM_cons, Option.bind_eq_bind, Option.pure_def]
    xcase c.range.extract text
    rename_i v
    rw [ih (acc ++ [v])]
    cases rest.mapM (fun (c : Syntax.Commodity) => c.range.extract text) with
    | none => rfl
    | some vs => simp only [Option.bind_some, ofOpt_some, obind_ok', List.append_assoc, List.singleton_append]

/-- the loop over the bookings: each posting line, then `"\n"` -/
theorem printTransaction_loop2 (pd : Nat) (bs : List Syntax.Booking) : ∀ (p : printer.Printer), p.padding = (pd : Int) →
    printer.Printer.printTransaction.range2 (bs.map (goBooking text path)) p =
      (ofOpt (bs.mapM (viewBooking text))).bind fun vs =>
        .ok (Flow.next (wr p ((vs.map (renderBooking pd)).flatten))) := by
  induction bs with
  | nil => intro p _; simp [printer.Printer.printTransaction.range2]
  | cons b rest ih =>
    intro p hp
    rw [List.map_cons, printer.Printer.printTransaction.range2]
    simp only [printPosting_agrees p pd hp, List.mapM_cons, Option.bind_eq_bind, Option.pure_def]
    cases viewBooking text b with
    | none => rfl
    | some v =>
      simp only [Option.map_some, printed_some, obind_ok', decide_true, Bool.not_true, Bool.false_eq_true, if_false, Write_eq,
        Option.bind_some]
      rw [ih _ (by simp only [wr_padding]; exact hp)]
      cases rest.mapM (viewBooking text) with
      | none => rfl
      | some vs =>
        simp only [Option.bind_some, ofOpt_some, obind_ok', wr_wr, List.map_cons, List.flatten_cons, renderBooking_eq, lit_nl,
          List.append_assoc]

set_option hygiene false in
/-- the header line and the bookings of `printTransaction`, after the annotations were written (whatever they were): used on each of
the four paths through the two optional annotations -/
macro "tx_tail" : tactic =>
  `(tactic| (
    xcase t.date.range.extract text
    xcase t.description.content.extract text
    try simp only [decide_true, Bool.not_true, Bool.false_eq_true, if_false]
    rw [printTransaction_loop2 pd t.bookings _ (by simp only [wr_padding]; exact hp)]
    cases List.mapM (viewBooking text) t.bookings with
    | none => rfl
    | some vs =>
      simp only [Option.bind_some, Option.map_some, ofOpt_some, obind_ok', printed_some, renderDir, renderPerformance, wr_wr,
        lit_spq, lit_q, lit_nl, lit_perf, lit_perfEnd, Join_comma, List.append_assoc, List.nil_append, List.append_nil]))

set_option hygiene false in
/-- the optional `@performance(…)` line, then the tail -/
macro "tx_perf" : tactic =>
  `(tactic| (
    cases hP : t.addons.performance.range.empty with
    | false =>
      simp only [Bool.not_false, if_true, addonsZ_performance t.addons hP, goPerformance, printTransaction_loop1, GoZero.zero,
        List.nil_append, decide_true, Bool.not_true, Bool.false_eq_true, if_false]
      cases List.mapM (fun (c : Syntax.Commodity) => c.range.extract text) t.addons.performance.targets with
      | none => rfl
      | some ts =>
        simp only [ofOpt_some, obind_ok', Option.map_some, Option.bind_some]
        tx_tail
    | true =>
      simp only [Bool.not_true, Bool.false_eq_true, if_false, obind_ok']
      tx_tail))

/-- `Printer.printTransaction`: `@accrue` line, `@performance` line, header, one line per booking -/
theorem printTransaction_agrees (p : printer.Printer) (pd : Nat) (hp : p.padding = (pd : Int)) (r : Syntax.Range) (t : Syntax.Transaction) :
    printer.Printer.printTransaction p (goTransaction text path t) = printed p (printDirective text pd ⟨r, .transaction t⟩) := by
  unfold printer.Printer.printTransaction printDirective viewDirective viewTransaction
  simp only [goTransaction, addonsZ_accrual_empty, addonsZ_performance_empty, goDate, goQuoted, Extract_goRange, Write_eq, Syn.Fmt.s]
  -- the accrual
  cases hA : t.addons.accrual.range.empty with
  | false =>
    simp only [Bool.not_false, if_true, addonsZ_accrual t.addons hA, printAccrual_agrees]
    cases viewAccrual text t.addons.accrual with
    | none => rfl
    | some av =>
      simp only [Option.map_some, printed_some, obind_ok', decide_true, Bool.not_true, Bool.false_eq_true, if_false,
        Option.bind_eq_bind, Option.bind_some, Option.pure_def]
      tx_perf
  | true =>
    simp only [Bool.not_true, Bool.false_eq_true, if_false, obind_ok', Option.pure_def, Option.bind_eq_bind, Option.bind_some]
    tx_perf

/-! ### printDirective, PrintDirective -/

theorem printed_bind_id (p : printer.Printer) (o : Option Bytes) :
    ((printed p o).bind fun t => .ok (t.1, t.2)) = printed p o := by
  cases o <;> rfl

/-- `Printer.printDirective`: the type switch over the six directive structs -/
theorem printDirective_agrees (p : printer.Printer) (pd : Nat) (hp : p.padding = (pd : Int)) (d : Syntax.Directive) :
    printer.Printer.printDirective p (goDirective text path d) = printed p (printDirective text pd d) := by
  obtain ⟨r, body⟩ := d
  unfold printer.Printer.printDirective
  cases body with
  | transaction t => simp only [goDirective, goBody, printTransaction_agrees p pd hp r t, printed_bind_id]
  | «open» o => simp only [goDirective, goBody, printOpen_agrees p pd r o, printed_bind_id]
  | close c => simp only [goDirective, goBody, printClose_agrees p pd r c, printed_bind_id]
  | assertion a => simp only [goDirective, goBody, printAssertion_agrees p pd r a, printed_bind_id]
  | price pr => simp only [goDirective, goBody, printPrice_agrees p pd r pr, printed_bind_id]
  | «include» i => simp only [goDirective, goBody, printInclude_agrees p pd r i, printed_bind_id]

/-- `Printer.PrintDirective` returns the running `count` next to the error -/
theorem PrintDirective_agrees (p : printer.Printer) (pd : Nat) (hp : p.padding = (pd : Int)) (d : Syntax.Directive) :
    printer.Printer.PrintDirective p (goDirective text path d) =
      (ofOpt (printDirective text pd d)).bind fun out => .ok (wr p out, p.count + (out.length : Int), .nil) := by
  unfold printer.Printer.PrintDirective
  rw [printDirective_agrees p pd hp d]
  cases printDirective text pd d <;> rfl

end

end Knut.FactsAgree.TransPrinter
