import Knut.FactsAgree.TransPosting
/-!
# The translated `lib/model/transaction` (Compare, Builder.Build) agrees with the model
-/
namespace Knut.FactsAgree.TransTransaction
open Knut Knut.GoSem Knut.JournalPrinter
open Knut.Generated.Go
open Knut.FactsAgree.TransPosting Knut.FactsAgree.TransAccount

/-- a model transaction as the Go value: `srcs` gives every posting its `Src` pointer; a nil and an empty `Targets` slice
are the same list (the translated functions only copy the field) -/
def txGo (cur : String → Bool) (src : Ref) (psrc : Ref) (t : Knut.Transaction) : transaction.Transaction :=
  { Src := src, Date := t.date, Description := t.description, Postings := t.postings.map (postingGo cur psrc),
    Targets := (t.targets.getD []).map (commodityGo cur) }

theorem replaceChars_quote (cs : List Char) :
    Strings.replaceChars ['"'] ['\''] cs 0 = cs.map (fun c => if c == '"' then '\'' else c) := by
  induction cs with
  | nil => rfl
  | cons c rest ih =>
    by_cases h : c = '"'
    · subst h; simp [Strings.replaceChars, List.isPrefixOf, ih]
    · have h' : ¬ '"' = c := fun e => h e.symm
      simp [Strings.replaceChars, List.isPrefixOf, ih, h, h']

theorem ReplaceAll_quote (s : String) : Strings.ReplaceAll s "\"" "'" = descText s := by
  unfold Strings.ReplaceAll descText
  have : ("\"" : String).isEmpty = false := by decide
  simp only [this, Bool.false_eq_true, if_false]
  have e1 : ("\"" : String).toList = ['"'] := by decide
  have e2 : ("'" : String).toList = ['\''] := by decide
  rw [e1, e2, replaceChars_quote]

/-- `transaction.Builder.Build`: the description's double quotes become single quotes, everything else is copied -/
theorem Builder_Build_agrees (src : Ref) (date : Int) (desc : String) (ps : List posting.Posting)
    (tg : List commodity.Commodity) :
    transaction.Builder.Build ⟨src, date, desc, ps, tg⟩ = ⟨src, date, descText desc, ps, tg⟩ := by
  simp [transaction.Builder.Build, ReplaceAll_quote]

theorem compare_Time_agrees (a b : Int) : compare.Time a b = ordGo (compare a b) := by
  unfold compare.Time
  rcases Int.lt_trichotomy a b with h | h | h
  · have : a ≠ b := by omega
    simp [h, this, Int.compare_eq_lt.mpr h, ordGo]
  · subst h; simp [ordGo]
  · have h1 : ¬ a < b := by omega
    have : a ≠ b := by omega
    simp [h1, this, Int.compare_eq_gt.mpr h, ordGo]

/-- the loop of `transaction.Compare` from index `i` on: the first pair of postings that differs decides, otherwise the
index of the first posting that has no partner is returned -/
theorem Compare_loop_agrees (cur : String → Bool) (s1 s2 : Ref) (t u : transaction.Transaction) :
    ∀ (ps qs : List Knut.Posting) (i : Nat) (fuel : Nat),
      t.Postings.drop i = ps.map (postingGo cur s1) → u.Postings.drop i = qs.map (postingGo cur s2) →
      ps.length ≤ fuel →
      transaction.Compare.loop1 t u fuel (i : Int) =
        if (ps.zip qs).all (fun pq => cmpPosting pq.1 pq.2 == .eq) then
          GoSem.Outcome.ok (Flow.next ((i + min ps.length qs.length : Nat) : Int))
        else GoSem.Outcome.ok (Flow.ret (ordGo (cmpPostings ps qs))) := by
  intro ps
  induction ps with
  | nil =>
    intro qs i fuel hp hq hf
    have hlen : t.Postings.length ≤ i := by
      have := congrArg List.length hp
      simp at this; omega
    unfold transaction.Compare.loop1
    have : ¬ ((i : Int) < (t.Postings.length : Int)) := by omega
    simp [this]
  | cons p ps ih =>
    intro qs i fuel hp hq hf
    have hpl : i < t.Postings.length := by
      have := congrArg List.length hp
      simp at this; omega
    have hpi : t.Postings[i] = postingGo cur s1 p := by
      have := congrArg (fun l => l[0]?) hp
      simp [List.getElem?_drop, List.getElem?_eq_getElem hpl] at this
      exact this
    cases qs with
    | nil =>
      have hlen : u.Postings.length ≤ i := by
        have := congrArg List.length hq
        simp at this; omega
      unfold transaction.Compare.loop1
      have h2 : ¬ ((i : Int) < (u.Postings.length : Int)) := by omega
      simp [h2]
    | cons q qs =>
      have hql : i < u.Postings.length := by
        have := congrArg List.length hq
        simp at this; omega
      have hqi : u.Postings[i] = postingGo cur s2 q := by
        have := congrArg (fun l => l[0]?) hq
        simp [List.getElem?_drop, List.getElem?_eq_getElem hql] at this
        exact this
      cases fuel with
      | zero => simp at hf
      | succ n =>
        unfold transaction.Compare.loop1
        have h1 : ((i : Int) < (t.Postings.length : Int)) := by omega
        have h2 : ((i : Int) < (u.Postings.length : Int)) := by omega
        simp only [len, h1, h2, decide_true, Bool.and_self, if_true]
        rw [index_ok _ _ (by omega) (by simpa using hpl), index_ok _ _ (by omega) (by simpa using hql)]
        simp only [GoSem.Outcome.bind, Int.toNat_natCast, hpi, hqi, posting_Compare_agrees]
        have hp' : t.Postings.drop (i + 1) = ps.map (postingGo cur s1) := by
          have := congrArg List.tail hp
          simpa [List.tail_drop] using this
        have hq' : u.Postings.drop (i + 1) = qs.map (postingGo cur s2) := by
          have := congrArg List.tail hq
          simpa [List.tail_drop] using this
        have ihh := ih qs (i + 1) n hp' hq' (by simpa using hf)
        by_cases hc : cmpPosting p q = .eq
        · have e : ((i : Int) + 1) = ((i + 1 : Nat) : Int) := by omega
          simp only [hc, ordGo, decide_true, Bool.not_true, Bool.false_eq_true, if_false, e, ihh]
          simp only [List.zip_cons_cons, List.all_cons, hc, beq_self_eq_true, Bool.true_and, cmpPostings, Ordering.then,
            List.length_cons]
          have : i + 1 + min ps.length qs.length = i + min (ps.length + 1) (qs.length + 1) := by omega
          rw [this]
        · have : ordGo (cmpPosting p q) ≠ 0 := by simpa using hc
          simp only [this, decide_false, Bool.not_false, if_true]
          have hb : (cmpPosting p q == Ordering.eq) = false := by simpa using hc
          simp only [List.zip_cons_cons, List.all_cons, hb, Bool.false_and, Bool.false_eq_true, if_false, cmpPostings]
          cases hcp : cmpPosting p q <;> simp_all [Ordering.then]

theorem cmpPostings_all_eq : ∀ (ps qs : List Knut.Posting),
    (ps.zip qs).all (fun pq => cmpPosting pq.1 pq.2 == .eq) = true →
    ordGo (cmpPostings ps qs) = cmpOrdered (ps.length : Int) (qs.length : Int)
  | [], [], _ => by simp [cmpPostings, ordGo, cmpOrdered]
  | [], _ :: _, _ => by simp [cmpPostings, ordGo, cmpOrdered] <;> omega
  | _ :: _, [], _ => by simp [cmpPostings, ordGo, cmpOrdered] <;> omega
  | p :: ps, q :: qs, h => by
    simp only [List.zip_cons_cons, List.all_cons, Bool.and_eq_true, beq_iff_eq] at h
    have ih := cmpPostings_all_eq ps qs h.2
    simp only [cmpPostings, h.1, Ordering.then, ih, List.length_cons, cmpOrdered]
    have e1 : ((ps.length + 1 : Nat) : Int) < ((qs.length + 1 : Nat) : Int) ↔ (ps.length : Int) < (qs.length : Int) := by omega
    have e2 : ((qs.length + 1 : Nat) : Int) < ((ps.length + 1 : Nat) : Int) ↔ (qs.length : Int) < (ps.length : Int) := by omega
    simp only [e1, e2]

/-- `transaction.Compare` (date, description, postings pairwise, number of postings) is the model's `cmpTx`; the loop
never runs out of its fuel `fuelLt 0 len(t.Postings)` and never indexes out of range -/
theorem Compare_agrees (cur : String → Bool) (s1 p1 s2 p2 : Ref) (t u : Knut.Transaction) :
    transaction.Compare (txGo cur s1 p1 t) (txGo cur s2 p2 u) = GoSem.Outcome.ok (ordGo (cmpTx t u)) := by
  unfold transaction.Compare cmpTx
  simp only [txGo, compare_Time_agrees, cmpOrdered_string, ordGo_then, cmpStr]
  have z : ordGo .eq = 0 := rfl
  by_cases h1 : compare t.date u.date = .eq
  · by_cases h2 : compare t.description u.description = .eq
    · have hl := Compare_loop_agrees cur p1 p2 (txGo cur s1 p1 t) (txGo cur s2 p2 u) t.postings u.postings 0
        (fuelLt 0 (len (t.postings.map (postingGo cur p1)))) (by simp [txGo]) (by simp [txGo]) (by simp [fuelLt])
      simp only [txGo, Int.natCast_zero] at hl
      simp only [h1, h2, z, decide_true, Bool.not_true, Bool.false_eq_true, if_false, if_true, hl]
      by_cases hall : (t.postings.zip u.postings).all (fun pq => cmpPosting pq.1 pq.2 == .eq) = true
      · simp only [hall, if_true, GoSem.Outcome.bind, cmpPostings_all_eq _ _ hall, len, List.length_map]
      · simp only [hall, Bool.false_eq_true, if_false, GoSem.Outcome.bind]
    · have : ordGo (compare t.description u.description) ≠ 0 := by simpa using h2
      simp only [h1, z, this, decide_true, decide_false, Bool.not_true, Bool.not_false, Bool.false_eq_true, if_false, if_true]
  · have : ordGo (compare t.date u.date) ≠ 0 := by simpa using h1
    simp only [this, decide_false, Bool.not_false, if_true, if_false]

/-- non-vacuity: equal dates and descriptions, the second posting decides -/
example : transaction.Compare
    ⟨⟨0⟩, 5, "a \"b\"", [⟨⟨0⟩, 1, 0, accountGo ⟨["Assets", "A"]⟩, accountGo ⟨["Assets", "B"]⟩, ⟨"CHF", false⟩⟩], []⟩
    ⟨⟨0⟩, 5, "a \"b\"", [⟨⟨0⟩, 2, 0, accountGo ⟨["Assets", "A"]⟩, accountGo ⟨["Assets", "B"]⟩, ⟨"CHF", false⟩⟩], []⟩
    = GoSem.Outcome.ok (-1) := by decide +kernel
example : (transaction.Builder.Build ⟨⟨0⟩, 5, "a \"b\"", [], []⟩).Description = "a 'b'" := by decide +kernel

end Knut.FactsAgree.TransTransaction
