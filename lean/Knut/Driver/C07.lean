import Knut.Wire
import Knut.Syntax.Parser
import Knut.Syntax.Errors
import Knut.Spec.SyntaxTree
/-! Driver ops for C07 (UTF-8 decoding, parser model, tree/error monitors). Glue only: encoding and decoding
of the line protocol; everything it calls is the model / the predicates the theorems are about. -/
namespace Knut.Driver.C07
open Knut Knut.Wire Knut.Syntax Knut.Utf8

/-- prefix encoding of a node: kind, start, stop, number of children, children -/
partial def encodeNode (n : Node) (acc : Array Nat) : Array Nat :=
  match n with
  | .mk k r cs => cs.foldl (fun a c => encodeNode c a) (((acc.push k).push r.start).push r.stop |>.push cs.length)

def joinNats (xs : Array Nat) : String :=
  if xs.size = 0 then "-" else
  (xs.foldl (fun (s : String) x => if s.isEmpty then toString x else (s.push ',') ++ toString x) "")

def dumpNode (n : Node) : String := joinNats (encodeNode n #[])

def parseNats (s : String) : Option (List Nat) :=
  if s = "-" then some [] else (splitOn s ',').mapM (fun f => f.toNat?)

/-- decoder of `encodeNode`; returns the node and the unread rest -/
partial def decodeNode : List Nat → Option (Node × List Nat)
  | k :: a :: b :: n :: rest =>
    let rec kids (n : Nat) (rest : List Nat) (acc : Array Node) : Option (Array Node × List Nat) :=
      if n = 0 then some (acc, rest) else
      match decodeNode rest with
      | some (c, rest') => kids (n - 1) rest' (acc.push c)
      | none => none
    match kids n rest #[] with
    | some (cs, rest') => some (.mk k ⟨a, b⟩ cs.toList, rest')
    | none => none
  | _ => none

def showFrames (e : Err) : String :=
  ",".intercalate (e.map fun
    | .at _ r => s!"a{r.start}:{r.stop}"
    | .zero => "z"
    | .eof => "e")

def parseFrames (s : String) : Option Err :=
  if s = "-" then some [] else
  (splitOn s ',').mapM fun f =>
    if f = "z" then some Frame.zero
    else if f = "e" then some Frame.eof
    else match splitOn (f.drop 1).toString ':' with
      | [a, b] => do let x ← a.toNat?; let y ← b.toNat?; pure (Frame.at "" ⟨x, y⟩)
      | _ => none

def showToks (ts : List Tok) : String :=
  if ts.isEmpty then "-" else ",".intercalate (ts.map fun t => s!"{t.r}:{t.bytes.length}")

/-! ### scripts of scanner calls (the exported `scanner.Scanner` API, incl. `ReadUntil` and `ReadN`) -/

def predOf : Nat → Option (Nat → Bool)
  | 0 => some isDigit
  | 1 => some isLetter
  | 2 => some isAlphanumeric
  | 3 => some isWhitespace
  | 4 => some (fun r => !isNewlineOrEOF r)
  | 5 => some (fun r => r != 34)
  | 6 => some (fun r => r == 97)
  | 7 => some (fun _ => true)
  | 8 => some (fun _ => false)
  | _ => none

/-- one scanner call of a script; `none` = malformed script -/
def scanOp (op : String) (s : St) : Option (Res Range) :=
  let arg := (op.drop 1).toString
  match op.front with
  | 'A' => some (match advance s with | .ok _ s' => .ok (rng s'.off s') s' | .err e s' => .err e s')
  | 'W' => (arg.toNat?.bind predOf).map fun p => readWhile p s
  | 'O' => (arg.toNat?.bind predOf).map fun p => readWhile1 "x" p s
  | 'U' => (arg.toNat?.bind predOf).map fun p => readUntil "x" p s
  | 'P' => (arg.toNat?.bind predOf).map fun p => readCharacterWith "x" p s
  | 'C' => arg.toNat?.map fun r => readCharacter r s
  | 'N' => arg.toNat?.map fun n => readN n s
  | 'S' => (unhexStr arg).map fun str => readString str s
  | 'L' => ((splitOn arg '.').mapM unhexStr).map fun ss =>
      match readAlternative ss s with
      | .ok (r, _) s' => .ok r s'
      | .err e s' => .err e s'
  | _ => none

def showCur (s : St) : String := if atEOF s then "-1" else toString (cur s)

partial def runScript (path : String) (all : List Tok) (ops : List String) (s : St) (acc : String) : String :=
  match ops with
  | [] => acc
  | op :: rest =>
    match scanOp op s with
    | none => acc ++ ";bad"
    | some (.ok r s') => runScript path all rest s' (acc ++ s!";ok:{r.start}:{r.stop}:{s'.off}:{showCur s'}")
    | some (.err e s') => acc ++ s!";err:{showFrames e}:{s'.off}:" ++ hexStr (renderErr path all e)

def handleScan (fields : List String) : Option String :=
  match fields with
  | ["c07scan", path, hex, script] =>
    match unhexStr path, unhexBytes hex with
    | some path, some b =>
      let toks := decodeAll b.toList
      match start toks with
      | .err e s' => some (s!"err:{showFrames e}:{s'.off}:" ++ hexStr (renderErr path toks e))
      | .ok _ s => some (runScript path toks (splitOn script ',') s s!"ok:{s.off}:{showCur s}")
    | _, _ => some "bad-op"
  | _ => none

def handleStr (fields : List String) : String :=
  match fields with
  | ["utf8", hex] =>
    match unhexBytes hex with
    | some b => showToks (decodeAll b.toList)
    | none => "bad-op"
  | ["c07parse", path, hex] =>
    match unhexStr path, unhexBytes hex with
    | some path, some b =>
      let text := b.toList
      match parseText path text with
      | .ok f => "ok " ++ dumpNode f.toNode
      | .error e => "err " ++ showFrames e ++ " " ++ hexStr (renderErr path (decodeAll text) e)
    | _, _ => "bad-op"
  | ["c07tree", hex, dump] =>
    match unhexBytes hex, (parseNats dump).bind decodeNode with
    | some b, some (root, []) =>
      let text := b.toList
      let tops := root.children.map Node.range
      let wf := Spec.Syntax.nodeWF 0 text.length root
      let sorted := Spec.Syntax.sortedDisjoint 0 tops
      let gaps := (Spec.Syntax.gapsOf text 0 tops).all Spec.Syntax.gapOK
      let cover := Spec.Syntax.interleave (Spec.Syntax.gapsOf text 0 tops) (tops.map fun r => Spec.Syntax.slice text r.start r.stop) == text
      if Spec.Syntax.treeOK text root then "ok"
      else s!"fail nested={wf} sorted={sorted} gaps={gaps} cover={cover}"
    | _, _ => "bad-op"
  | ["c07err", len, frames] =>
    match len.toNat?, parseFrames frames with
    | some len, some e => if Spec.Syntax.errOK len e then "ok" else "fail"
    | _, _ => "bad-op"
  | _ => "no-such-op"

def handle (fields : List String) : Option String :=
  match handleScan fields with
  | some r => some r
  | none =>
    let r := handleStr fields
    if r = "no-such-op" then none else some r

end Knut.Driver.C07
