package main

// Differential stream `gosemsyn` (run as part of C11, after `gosem`): the primitives that lean/Knut/GoSem/Syntax.lean adds for the
// translation of lib/syntax/printer (harness/trans_syntax_printer.go), each against real Go on byte strings that include invalid,
// truncated and overlong UTF-8:
//   runecount   utf8.RuneCountInString                       Syn.RuneCountInString
//   sw          fmt.Sprintf("%Ns" / "%-Ns", s)                 Syn.Fmt.sW
//   repeat      strings.Repeat (negative counts panic)         Syn.Strings.Repeat
//   join        strings.Join                                  Syn.Strings.Join
//   write       (*bytes.Buffer).Write through io.Writer       Syn.Writer.Write (content afterwards, n, err)
//   wstring     io.WriteString to a bytes.Buffer behind a writer WITHOUT WriteString (= Write([]byte(s)))
//   posting     fmt.Fprintf(w, "%s %s %10s %s", …) into a bytes.Buffer: the composition the translator builds for printPosting

import (
	"bytes"
	"fmt"
	"io"
	"strings"
	"unicode/utf8"
)

// a writer that has a Write method only (as printer.Printer): io.WriteString must go through Write
type gosemSynWriter struct {
	w     io.Writer
	calls int
}

func (g *gosemSynWriter) Write(bs []byte) (int, error) {
	g.calls++
	return g.w.Write(bs)
}

func gosemSynSummary(s string) string {
	if len(s) <= 4096 {
		return Hex(s)
	}
	return fmt.Sprintf("len=%d head=%s tail=%s", len(s), Hex(s[:32]), Hex(s[len(s)-32:]))
}

func runGoSemSynStream(c *Ctx, n int) {
	bt := c.NewBatch()
	defer bt.Flush()
	cmp := func(i int, op string, in map[string]any, impl string, fields ...string) {
		in["op"] = op
		bt.Add(func(model string) { c.Compare("gosemsyn", i, "gosemsyn "+op, in, impl, model) }, append([]string{"gosemsyn"}, fields...)...)
	}
	pieces := []string{"", "a", "Assets:Bank", "Zürich", "日本", "€", " ", "é", "\xff", "\xc3", "\xe2\x82", "\xed\xa0\x80", "\xc0\x80", "\xf4\x90\x80\x80",
		"\xf0\x9f\x98\x80", "x\"y", "1.50", "CHF", "\n", "%", "\x00"}
	str := func(r *RNG) string {
		var b strings.Builder
		for k := r.Intn(4); k > 0; k-- {
			b.WriteString(Pick(r, pieces))
		}
		return b.String()
	}
	for i := 0; i < n; i++ {
		if !c.Want("gosemsyn", i) {
			continue
		}
		r := c.Rng("gosemsyn", i)
		c.Evals++
		s := str(r)
		cmp(i, "runecount", map[string]any{"s": Hex(s)}, itoa(utf8.RuneCountInString(s)), "runecount", Hex(s))
		// constant widths in the format
		w := r.Range(0, 24)
		minus := r.Bool()
		f := "%" + map[bool]string{true: "-", false: ""}[minus] + itoa(w) + "s"
		cmp(i, "sw", map[string]any{"s": Hex(s), "format": f}, Hex(fmt.Sprintf(f, s)), "sw", itoa(gosemB2i(minus)), itoa(w), Hex(s))
		// strings.Repeat: negative counts panic; long outputs are compared by length, head and tail
		var cnt int
		switch r.Intn(20) {
		case 0:
			cnt = Pick(r, []int{1000000, 1000001, 70000})
		case 1, 2, 3:
			cnt = r.Range(-5, 0)
		default:
			cnt = r.Range(0, 40)
		}
		rs := Pick(r, []string{" ", " ", " ", "", "ab", "é", "\xff"})
		cmp(i, "repeat", map[string]any{"s": Hex(rs), "n": cnt}, gosemTry(func() string { return gosemSynSummary(strings.Repeat(rs, cnt)) }), "repeat", itoa(cnt), Hex(rs))
		c.Class(fmt.Sprintf("gosemsyn/repeat/n%s/big%v/empty%v", sign(cnt), cnt > 4096, rs == ""))
		// strings.Join
		parts := make([]string, r.Intn(5))
		enc := make([]string, len(parts))
		for k := range parts {
			parts[k] = str(r)
			enc[k] = "x" + Hex(parts[k])
		}
		sep := Pick(r, []string{",", "", ", ", "é", "\xff"})
		pe := strings.Join(enc, ",")
		if pe == "" {
			pe = "-"
		}
		cmp(i, "join", map[string]any{"parts": enc, "sep": Hex(sep)}, Hex(strings.Join(parts, sep)), "join", Hex(sep), pe)
		// io.Writer = bytes.Buffer
		w0, bs := str(r), str(r)
		var buf bytes.Buffer
		buf.WriteString(w0)
		var wr io.Writer = &buf
		nw, err := wr.Write([]byte(bs))
		cmp(i, "write", map[string]any{"before": Hex(w0), "bytes": Hex(bs)}, fmt.Sprintf("%s %d %v", Hex(buf.String()), nw, err), "write", Hex(w0), Hex(bs))
		var buf2 bytes.Buffer
		buf2.WriteString(w0)
		g := &gosemSynWriter{w: &buf2}
		nw, err = io.WriteString(g, bs)
		cmp(i, "wstring", map[string]any{"before": Hex(w0), "s": Hex(bs)}, fmt.Sprintf("%s %d %v calls=%d", Hex(buf2.String()), nw, err, g.calls), "wstring", Hex(w0), Hex(bs))
		// the format of printPosting through Fprintf: one Write with the whole line
		a, b, q, cm := str(r), str(r), str(r), str(r)
		pad := r.Range(0, 30)
		var buf3 bytes.Buffer
		g3 := &gosemSynWriter{w: &buf3}
		nw, err = fmt.Fprintf(g3, "%s %s %10s %s", a, b, q, cm)
		cmp(i, "posting", map[string]any{"pad": pad, "credit": Hex(a), "debit": Hex(b), "quantity": Hex(q), "commodity": Hex(cm)},
			fmt.Sprintf("%s %d %v calls=%d", Hex(buf3.String()), nw, err, g3.calls), "posting", itoa(pad), Hex(a), Hex(b), Hex(q), Hex(cm))
	}
}
