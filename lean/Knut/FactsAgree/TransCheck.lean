import Knut.Generated.TransCheck
import Knut.FactsAgree.TransTransaction
import Knut.Model.Check
/-!
# The translated `lib/journal/check` (open, posting, balance, close) agrees with the model

`Knut/Generated/TransCheck.lean` (with `TransSet`, `TransAmounts`) is regenerated from /repo on every run.  The checker's state
is a pair of Go maps; the model keeps a list of open accounts and an association list of positions.  Agreement is stated
through `StEquiv`: every lookup agrees.  `Checker.close` ranges over a map and deletes: the translated function takes the
iteration order as an explicit list, and the theorem holds for EVERY order that reaches all keys of the map.
-/
namespace Knut.FactsAgree.TransCheck
open Knut Knut.GoSem
open Knut.Generated.Go
open Knut.FactsAgree.TransAccount Knut.FactsAgree.TransPosting

theorem accountGo_inj {a b : Knut.Account} (h : accountGo a = accountGo b) : a = b := by
  have := congrArg account.Account.segments h
  cases a; cases b; simpa [accountGo] using this

theorem commodityGo_inj (cur : String → Bool) {a b : Knut.Commodity} (h : commodityGo cur a = commodityGo cur b) : a = b := by
  simpa [commodityGo] using congrArg commodity.Commodity.name h

/-- `amounts.AccountCommodityKey(account, commodity)` -/
def keyGo (cur : String → Bool) (p : Position) : amounts.Key :=
  amounts.AccountCommodityKey (accountGo p.1) (commodityGo cur p.2)

theorem keyGo_inj (cur : String → Bool) {p q : Position} (h : keyGo cur p = keyGo cur q) : p = q := by
  unfold keyGo amounts.AccountCommodityKey at h
  have h1 := accountGo_inj (congrArg amounts.Key.Account h)
  have h2 := commodityGo_inj cur (congrArg amounts.Key.Commodity h)
  exact Prod.ext h1 h2

theorem keyGo_Account (cur : String → Bool) (p : Position) : (keyGo cur p).Account = accountGo p.1 := rfl

section amap
variable {κ ν : Type} [DecidableEq κ]

theorem mem_of_find? {m : Knut.AMap κ ν} {k : κ} {v : ν} (h : Knut.AMap.find? m k = some v) : (k, v) ∈ m := by
  induction m with
  | nil => simp at h
  | cons e rest ih =>
    obtain ⟨a, b⟩ := e
    by_cases hak : a = k
    · simp only [Knut.AMap.find?, hak, if_true, Option.some.injEq] at h
      subst hak; subst h; simp
    · simp only [Knut.AMap.find?, hak, if_false] at h
      exact List.mem_cons_of_mem _ (ih h)

theorem find?_of_mem_nodup {m : Knut.AMap κ ν} {k : κ} {v : ν} (hn : (m.map Prod.fst).Nodup) (h : (k, v) ∈ m) :
    Knut.AMap.find? m k = some v := by
  induction m with
  | nil => simp at h
  | cons e rest ih =>
    obtain ⟨a, b⟩ := e
    simp only [List.map_cons, List.nodup_cons] at hn
    rcases List.mem_cons.mp h with h | h
    · cases h; simp [Knut.AMap.find?]
    · have : a ≠ k := by
        intro e; subst e
        exact hn.1 (List.mem_map.mpr ⟨(a, v), h, rfl⟩)
      simp only [Knut.AMap.find?, this, if_false]
      exact ih hn.2 h

theorem keys_set_sub (m : Knut.AMap κ ν) (k : κ) (v : ν) (x : κ) (hx : x ∈ (Knut.AMap.set m k v).map Prod.fst) :
    x = k ∨ x ∈ m.map Prod.fst := by
  induction m with
  | nil => simp [Knut.AMap.set] at hx; exact Or.inl hx
  | cons e rest ih =>
    obtain ⟨a, b⟩ := e
    by_cases hak : a = k
    · simp only [Knut.AMap.set, hak, if_true, List.map_cons, List.mem_cons] at hx ⊢
      rcases hx with hx | hx
      · exact Or.inl hx
      · exact Or.inr (Or.inr hx)
    · simp only [Knut.AMap.set, hak, if_false, List.map_cons, List.mem_cons] at hx ⊢
      rcases hx with hx | hx
      · exact Or.inr (Or.inl hx)
      · rcases ih hx with h | h
        · exact Or.inl h
        · exact Or.inr (Or.inr h)

theorem keys_set_nodup (m : Knut.AMap κ ν) (k : κ) (v : ν) (hn : (m.map Prod.fst).Nodup) :
    ((Knut.AMap.set m k v).map Prod.fst).Nodup := by
  induction m with
  | nil => simp [Knut.AMap.set]
  | cons e rest ih =>
    obtain ⟨a, b⟩ := e
    simp only [List.map_cons, List.nodup_cons] at hn
    by_cases hak : a = k
    · subst hak
      simp only [Knut.AMap.set, if_true, List.map_cons, List.nodup_cons]
      exact hn
    · simp only [Knut.AMap.set, hak, if_false, List.map_cons, List.nodup_cons]
      refine ⟨?_, ih hn.2⟩
      intro hx
      rcases keys_set_sub rest k v a hx with h | h
      · exact hak h
      · exact hn.1 h

theorem find?_filter_key (m : Knut.AMap κ ν) (pr : κ → Bool) (k : κ) :
    Knut.AMap.find? (m.filter (fun e => pr e.1)) k = if pr k then Knut.AMap.find? m k else none := by
  induction m with
  | nil => simp
  | cons e rest ih =>
    obtain ⟨a, b⟩ := e
    by_cases hp : pr a = true
    · simp only [List.filter, hp, Knut.AMap.find?]
      by_cases hak : a = k
      · subst hak; simp [hp]
      · simp only [hak, if_false]; exact ih
    · have hp' : pr a = false := by simpa using hp
      simp only [List.filter, hp', Knut.AMap.find?]
      by_cases hak : a = k
      · subst hak; simp only [if_true, hp', Bool.false_eq_true, if_false]
        rw [ih]; simp [hp']
      · simp only [hak, if_false]; exact ih

omit [DecidableEq κ] in
theorem filter_keys_nodup (m : Knut.AMap κ ν) (pr : κ × ν → Bool) (hn : (m.map Prod.fst).Nodup) :
    ((m.filter pr).map Prod.fst).Nodup := by
  have : ((m.filter pr).map Prod.fst).Sublist (m.map Prod.fst) := (List.filter_sublist).map _
  exact this.nodup hn

end amap

/-- the Go checker state and the model state answer every lookup alike -/
structure StEquiv (cur : String → Bool) (g : check.Checker) (st : CheckState) : Prop where
  nocheck : g.NoCheck = false
  accounts : ∀ a : Knut.Account, set.Set.Has g.accounts (accountGo a) = st.accounts.contains a
  quantities : ∀ p : Position, Knut.AMap.find? g.quantities (keyGo cur p) = Knut.AMap.find? st.quantities p
  keys : ∀ k : amounts.Key, (Knut.AMap.find? g.quantities k).isSome → ∃ p, k = keyGo cur p
  nodup : (st.quantities.map Prod.fst).Nodup

def openGo (src : Ref) (o : Knut.Open) : open_.Open := ⟨src, o.date, accountGo o.account⟩
def closeGo (src : Ref) (c : Knut.Close) : close.Close := ⟨src, c.date, accountGo c.account⟩
def balanceGo (cur : String → Bool) (src : Ref) (b : Knut.Balance) : assertion.Balance :=
  ⟨src, accountGo b.account, b.quantity, commodityGo cur b.commodity⟩

/-- the message of a `check.Error` for each kind of the model -/
def msgOf : CheckErrKind → String
  | .alreadyOpen => "account is already open"
  | .notOpen => "account is not open"
  | .failedAssertion => "failed assertion: %s has position: %s %s"
  | .nonzeroPosition => "account has nonzero position: %s %s"

theorem Has_set {T : Type} [DecidableEq T] [GoZero T] (s : set.Set T) (a b : T) :
    set.Set.Has (set.Set.Add s a) b = (decide (a = b) || set.Set.Has s b) := by
  unfold set.Set.Has set.Set.Add
  simp only [Knut.AMap.find?_set]
  by_cases h : a = b <;> simp [h]

theorem Has_remove {T : Type} [DecidableEq T] [GoZero T] (s : set.Set T) (a b : T) :
    set.Set.Has (set.Set.Remove s a) b = (!decide (a = b) && set.Set.Has s b) := by
  unfold set.Set.Has set.Set.Remove
  simp only [Knut.AMap.find?_erase]
  by_cases h : a = b <;> simp [h]

theorem open_agrees (cur : String → Bool) {g : check.Checker} {st : CheckState} (h : StEquiv cur g st) (src : Ref) (o : Knut.Open) :
    match check.Checker.open_ g (openGo src o), Check.openAcc st o with
    | (g', none), .ok st' => StEquiv cur g' st'
    | (g', some e), .error err => g' = g ∧ e.msg = msgOf err.kind
    | _, _ => False := by
  unfold check.Checker.open_ Check.openAcc
  simp only [openGo, h.accounts]
  by_cases hc : st.accounts.contains o.account = true
  · simp only [hc, if_true]
    exact ⟨trivial, rfl⟩
  · simp only [hc, Bool.false_eq_true, if_false]
    refine ⟨h.nocheck, ?_, h.quantities, h.keys, h.nodup⟩
    intro a
    simp only [Has_set, h.accounts, List.contains_cons]
    by_cases e : o.account = a
    · subst e; simp
    · have : accountGo o.account ≠ accountGo a := fun x => e (accountGo_inj x)
      have e' : (a == o.account) = false := by simpa using fun x => e x.symm
      simp [this, e']

theorem posting_agrees (cur : String → Bool) {g : check.Checker} {st : CheckState} (h : StEquiv cur g st)
    (s1 s2 s3 : Ref) (t : Knut.Transaction) (p : Knut.Posting) :
    match check.Checker.posting g (TransTransaction.txGo cur s1 s2 t) (postingGo cur s3 p), Check.posting st t p with
    | (g', none), .ok st' => StEquiv cur g' st'
    | (g', some e), .error err => g' = g ∧ e.msg = "account %s is not open" ∧ err.kind = .notOpen
    | _, _ => False := by
  unfold check.Checker.posting Check.posting
  simp only [postingGo, h.accounts, IsAL_agrees]
  by_cases hc : st.accounts.contains p.account = true
  · simp only [hc, Bool.not_true, Bool.false_eq_true, if_false]
    by_cases hal : p.account.isAL = true
    · simp only [hal, if_true]
      refine ⟨h.nocheck, h.accounts, ?_, ?_, keys_set_nodup _ _ _ h.nodup⟩
      · intro q
        have hk : amounts.AccountCommodityKey (accountGo p.account) (commodityGo cur p.commodity) = keyGo cur (p.account, p.commodity) := rfl
        simp only [amounts.Amounts.Add, hk, Knut.AMap.find?_set, Knut.AMap.get, h.quantities, Decimal.Add]
        by_cases e : (p.account, p.commodity) = q
        · subst e; simp
        · have : keyGo cur (p.account, p.commodity) ≠ keyGo cur q := fun x => e (keyGo_inj cur x)
          simp only [this, e, if_false]
      · intro k hk
        have hk0 : amounts.AccountCommodityKey (accountGo p.account) (commodityGo cur p.commodity) = keyGo cur (p.account, p.commodity) := rfl
        simp only [amounts.Amounts.Add, hk0, Knut.AMap.find?_set] at hk
        by_cases e : keyGo cur (p.account, p.commodity) = k
        · exact ⟨_, e.symm⟩
        · simp only [e, if_false] at hk
          exact h.keys k hk
    · simp only [hal, Bool.false_eq_true, if_false]
      exact h
  · simp only [hc, Bool.not_false, if_true]
    simp

theorem balance_agrees (cur : String → Bool) {g : check.Checker} {st : CheckState} (h : StEquiv cur g st)
    (s1 s2 : Ref) (a : Knut.Assertion) (b : Knut.Balance) :
    match check.Checker.balance g ⟨s1, a.date, a.balances.map (balanceGo cur s2)⟩ (balanceGo cur s2 b), Check.balance st a b with
    | none, .ok st' => st' = st
    | some e, .error err => e.msg = msgOf err.kind
    | _, _ => False := by
  unfold check.Checker.balance Check.balance
  simp only [balanceGo, h.accounts, h.nocheck]
  by_cases hc : st.accounts.contains b.account = true
  · simp only [hc, Bool.not_true, Bool.false_eq_true, if_false]
    have hk : amounts.AccountCommodityKey (accountGo b.account) (commodityGo cur b.commodity) = keyGo cur (b.account, b.commodity) := rfl
    simp only [hk, Knut.AMap.get, h.quantities, Decimal.Equal]
    by_cases hq : (Knut.AMap.find? st.quantities (b.account, b.commodity)).getD 0 = b.quantity
    · simp [hq]
    · simp [hq, msgOf]
  · simp only [hc, Bool.not_false, if_true]
    rfl

/-- the loop of `Checker.close` stops with the error as soon as SOME position of the account is not zero — whatever the
iteration order, provided the order reaches that position -/
theorem close_loop_error (c : close.Close) (k : amounts.Key) (v : Rat) (hacc : k.Account = c.Account) (hv : v ≠ 0) :
    ∀ (order : List amounts.Key) (g : check.Checker), k ∈ order → Knut.AMap.find? g.quantities k = some v →
      ∃ g', check.Checker.close.range1 c order g = Flow.ret (g', some ⟨"account has nonzero position: %s %s"⟩) := by
  intro order
  induction order with
  | nil => intro g hk; simp at hk
  | cons el rest ih =>
    intro g hk hf
    unfold check.Checker.close.range1
    by_cases hel : el = k
    · subst hel
      simp [hf, Knut.AMap.get, hacc, hv]
    · have hk' : k ∈ rest := by
        rcases List.mem_cons.mp hk with h | h
        · exact absurd h.symm hel
        · exact h
      by_cases hp : (Knut.AMap.find? g.quantities el).isSome = true
      · simp only [hp, Bool.not_true, Bool.false_eq_true, if_false]
        by_cases ha : el.Account = c.Account
        · simp only [ha, decide_true, Bool.not_true, Bool.false_eq_true, if_false]
          by_cases hz : (Knut.AMap.get g.quantities el (GoZero.zero : Rat)) = 0
          · simp only [Decimal.IsZero, hz, decide_true, Bool.not_true, Bool.false_eq_true, if_false]
            apply ih _ hk'
            simp only [Knut.AMap.find?_erase, hel, if_false, hf]
          · simp only [Decimal.IsZero, hz, decide_false, Bool.not_false, if_true]
            exact ⟨_, rfl⟩
        · simp only [ha, decide_false, Bool.not_false, if_true]
          exact ih g hk' hf
      · simp only [hp, Bool.not_false, if_true]
        exact ih g hk' hf

/-- when every position of the account is zero the loop deletes exactly the positions of the account that the order reaches -/
theorem close_loop_ok (c : close.Close) :
    ∀ (order : List amounts.Key) (g : check.Checker),
      (∀ k v, Knut.AMap.find? g.quantities k = some v → k.Account = c.Account → v = 0) →
      ∃ q', check.Checker.close.range1 c order g = Flow.next { g with quantities := q' } ∧
        ∀ k, Knut.AMap.find? q' k = if k ∈ order ∧ k.Account = c.Account then none else Knut.AMap.find? g.quantities k := by
  intro order
  induction order with
  | nil =>
    intro g _
    exact ⟨g.quantities, by simp [check.Checker.close.range1], by simp⟩
  | cons el rest ih =>
    intro g hz
    unfold check.Checker.close.range1
    by_cases hp : (Knut.AMap.find? g.quantities el).isSome = true
    · simp only [hp, Bool.not_true, Bool.false_eq_true, if_false]
      by_cases ha : el.Account = c.Account
      · obtain ⟨v, hv⟩ := Option.isSome_iff_exists.mp hp
        have hv0 := hz el v hv ha
        simp only [ha, decide_true, Bool.not_true, Bool.false_eq_true, if_false, Knut.AMap.get, hv, Option.getD_some,
          Decimal.IsZero, hv0]
        obtain ⟨q', h1, h2⟩ := ih { g with quantities := Knut.AMap.erase g.quantities el } (by
          intro k v hk hka
          simp only [Knut.AMap.find?_erase] at hk
          by_cases e : el = k
          · simp [e] at hk
          · simp only [e, if_false] at hk; exact hz k v hk hka)
        refine ⟨q', h1, ?_⟩
        intro k
        rw [h2 k]
        simp only [Knut.AMap.find?_erase, List.mem_cons]
        by_cases e : el = k
        · subst e; simp [ha]
        · have e' : ¬ k = el := fun x => e x.symm
          simp [e, e']
      · simp only [ha, decide_false, Bool.not_false, if_true]
        obtain ⟨q', h1, h2⟩ := ih g hz
        refine ⟨q', h1, ?_⟩
        intro k
        rw [h2 k]
        simp only [List.mem_cons]
        by_cases e : k = el
        · subst e; simp [ha]
        · simp [e]
    · simp only [hp, Bool.not_false, if_true]
      obtain ⟨q', h1, h2⟩ := ih g hz
      refine ⟨q', h1, ?_⟩
      intro k
      rw [h2 k]
      simp only [List.mem_cons]
      by_cases e : k = el
      · subst e
        have : Knut.AMap.find? g.quantities k = none := by simpa using hp
        simp [this]
      · simp [e]

/-- `Checker.close` for EVERY iteration order of the map `ch.quantities` (any list that contains all keys of the map; it
may repeat keys and contain others): the verdict is the model's, and on success the states agree again.  When the close fails
on a non-zero position, WHICH of several such positions the message names, and which zero positions are already deleted,
depends on the order; neither is observable in the model (the run stops with the error). -/
theorem close_agrees (cur : String → Bool) {g : check.Checker} {st : CheckState} (h : StEquiv cur g st) (src : Ref)
    (c : Knut.Close) (order : List amounts.Key)
    (hcov : ∀ k, (Knut.AMap.find? g.quantities k).isSome → k ∈ order) :
    match check.Checker.close g (closeGo src c) order, Check.close st c with
    | (g', none), .ok st' => StEquiv cur g' st'
    | (_, some e), .error err => e.msg = msgOf err.kind
    | _, _ => False := by
  unfold check.Checker.close Check.close
  by_cases hany : st.quantities.any (fun e => e.1.1 = c.account && e.2 ≠ 0) = true
  · -- some position of the account is not zero
    obtain ⟨e, hem, hep⟩ := List.any_eq_true.mp hany
    simp only [Bool.and_eq_true, decide_eq_true_eq, ne_eq, decide_not, Bool.not_eq_eq_eq_not, Bool.not_true,
      decide_eq_false_iff_not] at hep
    have hf : Knut.AMap.find? st.quantities e.1 = some e.2 := find?_of_mem_nodup h.nodup (by simpa using hem)
    have hg : Knut.AMap.find? g.quantities (keyGo cur e.1) = some e.2 := by rw [h.quantities]; exact hf
    obtain ⟨g', hr⟩ := close_loop_error (closeGo src c) (keyGo cur e.1) e.2 (by simp [keyGo_Account, closeGo, hep.1]) hep.2
      order g (hcov _ (by simp [hg])) hg
    simp only [hr, hany, if_true]
    rfl
  · have hany' : st.quantities.any (fun e => e.1.1 = c.account && e.2 ≠ 0) = false := by simpa using hany
    have hz : ∀ k v, Knut.AMap.find? g.quantities k = some v → k.Account = (closeGo src c).Account → v = 0 := by
      intro k v hk hka
      obtain ⟨p, rfl⟩ := h.keys k (by simp [hk])
      rw [h.quantities] at hk
      have hm := mem_of_find? hk
      have := List.any_eq_false.mp hany' (p, v) hm
      have hpa : p.1 = c.account := accountGo_inj (by simpa [keyGo_Account, closeGo] using hka)
      simpa [hpa] using this
    obtain ⟨q', hr, hq⟩ := close_loop_ok (closeGo src c) order g hz
    simp only [hr, hany', Bool.false_eq_true, if_false]
    have hacc : set.Set.Has g.accounts (closeGo src c).Account = st.accounts.contains c.account := h.accounts c.account
    by_cases hc : st.accounts.contains c.account = true
    · simp only [hacc, hc, Bool.not_true, Bool.false_eq_true, if_false]
      refine ⟨h.nocheck, ?_, ?_, ?_, filter_keys_nodup _ _ h.nodup⟩
      · intro a
        simp only [closeGo, Has_remove, h.accounts]
        by_cases e : c.account = a
        · subst e; simp
        · have : accountGo c.account ≠ accountGo a := fun x => e (accountGo_inj x)
          have e' : ¬ a = c.account := fun x => e x.symm
          simp [this, e', List.contains_eq_mem, List.mem_filter]
      · intro p
        rw [hq]
        have hfm := find?_filter_key st.quantities (fun k : Position => !decide (k.1 = c.account)) p
        have hfilt : st.quantities.filter (fun e => e.1.1 ≠ c.account) =
            st.quantities.filter (fun e => (fun k : Position => !decide (k.1 = c.account)) e.1) := by
          congr 1; funext e; simp
        rw [hfilt, hfm]
        by_cases hp : p.1 = c.account
        · have hka : (keyGo cur p).Account = (closeGo src c).Account := by simp [keyGo_Account, closeGo, hp]
          simp only [hka, and_true, hp, decide_true, Bool.not_true, Bool.false_eq_true, if_false]
          by_cases ho : keyGo cur p ∈ order
          · simp [ho]
          · simp only [ho, if_false]
            cases hfg : Knut.AMap.find? g.quantities (keyGo cur p) with
            | none => rfl
            | some v => exact absurd (hcov _ (by simp [hfg])) ho
        · have hka : ¬ (keyGo cur p).Account = (closeGo src c).Account := by
            intro x; exact hp (accountGo_inj (by simpa [keyGo_Account, closeGo] using x))
          simp only [hka, and_false, if_false, hp, decide_false, Bool.not_false, if_true]
          exact h.quantities p
      · intro k hk
        rw [hq] at hk
        split at hk
        · simp at hk
        · exact h.keys k hk
    · simp only [hacc, hc, Bool.not_false, if_true]
      rfl

/-- non-vacuity: closing an account whose only position is zero deletes the position and the account -/
example : (check.Checker.close
    ⟨false, false, [(amounts.AccountCommodityKey (accountGo ⟨["Assets", "A"]⟩) ⟨"CHF", false⟩, 0)], [(accountGo ⟨["Assets", "A"]⟩, ())], []⟩
    ⟨⟨0⟩, 7, accountGo ⟨["Assets", "A"]⟩⟩
    [amounts.AccountCommodityKey (accountGo ⟨["Assets", "A"]⟩) ⟨"CHF", false⟩]) = (⟨false, false, [], [], []⟩, none) := by
  decide +kernel

end Knut.FactsAgree.TransCheck
