import Knut.Proofs.MTM
import Knut.Proofs.Check
/-!
# C03: the balance pipeline model, projected on one position, IS the single-position valuation trace

`Proofs/MTM.lean` proves the mark-to-market bound for a trace `MTM.run` of ONE position `(a, c)`.  This file supplies
the association-list bookkeeping that ties the trace to `Balance.valuateDay` / `Balance.valuationStage`:

* `addQty_get` – `Valuate`'s quantity map grows, at an asset/liability position, by the quantities booked on it;
* `adjustments_valOn` – of all value adjustments of a day, exactly the one of `(a, c)` lands on `(a, c)`, and it is
  `MTM.adjustment Q pp cp` (keys of the quantity map are distinct: `AMap.NodupKeys`);
* `mapM_valueTx_on`, `valued_user`, `valued_qtyZero` – valuation gives the day's bookings on `(a, c)` values summing to
  `MTM.booked` and leaves the adjustments alone;
* `valuateDay_position` – one day = one `MTM.stepDay`;
* `valuationRun`, `traceOf`, `valuationRun_trace` – the fold over the days = `MTM.run` on the extracted trace;
* `dayQ`, `pipelineRun`, `traceOfRun`, `pipelineRun_trace`, `run_pipelineRun` – the same for ALL stages (`Balance.dayTxs`:
  check, ComputePrices, Valuate, Filter, CloseAccounts) on days inside the window, and `Balance.run` is that fold;
* `entryVal_flatMap` – in a plain valued report the inserts on `(a, c)` total the values of the postings on `(a, c)`.

Prices enter through `PriceIs np c p` ("if `c` has a price in `np` it is `p`"), so that days on which `c` has no price
yet (possible only while the position is closed and nothing is booked on it) need no special case.
-/
namespace Knut.MTM
open Knut Knut.Dec

def onPos (a : Account) (c : Commodity) (p : Posting) : Bool := decide (p.account = a) && decide (p.commodity = c)


/-- the postings of a list of transactions on the position `(a, c)` -/
def posOn (a : Account) (c : Commodity) (ts : List Transaction) : List Posting :=
  (ts.flatMap (·.postings)).filter (onPos a c)

/-- quantities booked on `(a, c)` -/
def qtysOn (a : Account) (c : Commodity) (ts : List Transaction) : List Rat := (posOn a c ts).map (·.quantity)

/-- sum of the values booked on `(a, c)` -/
def valOn (a : Account) (c : Commodity) (ts : List Transaction) : Rat := ((posOn a c ts).map (·.value)).sum

theorem posOn_nil (a : Account) (c : Commodity) : posOn a c [] = [] := rfl

theorem posOn_append (a : Account) (c : Commodity) (xs ys : List Transaction) :
    posOn a c (xs ++ ys) = posOn a c xs ++ posOn a c ys := by
  unfold posOn
  rw [List.flatMap_append, List.filter_append]

theorem posOn_cons (a : Account) (c : Commodity) (t : Transaction) (ts : List Transaction) :
    posOn a c (t :: ts) = t.postings.filter (onPos a c) ++ posOn a c ts := by
  unfold posOn
  rw [List.flatMap_cons, List.filter_append]

theorem sum_append_rat (xs ys : List Rat) : (xs ++ ys).sum = xs.sum + ys.sum := by
  induction xs with
  | nil => simp only [List.nil_append, List.sum_nil, Rat.zero_add]
  | cons x xs ih => simp only [List.cons_append, List.sum_cons, ih]; grind

theorem valOn_append (a : Account) (c : Commodity) (xs ys : List Transaction) :
    valOn a c (xs ++ ys) = valOn a c xs + valOn a c ys := by
  unfold valOn
  rw [posOn_append, List.map_append, sum_append_rat]

theorem qtysOn_append (a : Account) (c : Commodity) (xs ys : List Transaction) :
    qtysOn a c (xs ++ ys) = qtysOn a c xs ++ qtysOn a c ys := by
  unfold qtysOn
  rw [posOn_append, List.map_append]

/-! ### (1) the quantity of one position under `addQty` -/

def addQtyP (q : AMap Position Rat) (p : Posting) : AMap Position Rat :=
  if p.quantity = 0 then q
  else if p.account.isAL then q.set (p.account, p.commodity) (q.get (p.account, p.commodity) 0 + p.quantity)
  else q

theorem addQty_eq (q : AMap Position Rat) (ts : List Transaction) :
    Balance.addQty q ts = (ts.flatMap (·.postings)).foldl addQtyP q := by
  unfold Balance.addQty
  induction ts generalizing q with
  | nil => rfl
  | cons t ts ih =>
    rw [List.foldl_cons, ih, List.flatMap_cons, List.foldl_append]
    rfl

theorem addQtyP_get (q : AMap Position Rat) (p : Posting) (a : Account) (c : Commodity) (hal : a.isAL = true) :
    (addQtyP q p).get (a, c) 0 =
      q.get (a, c) 0 + (if onPos a c p = true then p.quantity else 0) := by
  unfold addQtyP onPos
  by_cases hq : p.quantity = 0
  · simp only [hq, if_true]; split <;> grind
  · simp only [hq, if_false]
    by_cases hk : p.account = a ∧ p.commodity = c
    · obtain ⟨h1, h2⟩ := hk
      subst h1; subst h2
      simp only [hal, if_true, AMap.get_set, decide_true, Bool.and_self]
    · have hne : ¬ ((p.account, p.commodity) = (a, c)) := by
        intro e; injection e with e1 e2; exact hk ⟨e1, e2⟩
      have hb : (decide (p.account = a) && decide (p.commodity = c)) = false := by
        simp only [Bool.and_eq_false_iff, decide_eq_false_iff_not]
        by_cases h1 : p.account = a
        · right; intro h2; exact hk ⟨h1, h2⟩
        · left; exact h1
      rw [hb]
      split
      · rw [AMap.get_set]; simp only [hne, if_false]; grind
      · grind

theorem foldl_addQtyP_get (ps : List Posting) (q : AMap Position Rat) (a : Account) (c : Commodity) (hal : a.isAL = true) :
    (ps.foldl addQtyP q).get (a, c) 0 =
      q.get (a, c) 0 + ((ps.filter (onPos a c)).map (·.quantity)).sum := by
  induction ps generalizing q with
  | nil => simp only [List.foldl_nil, List.filter_nil, List.map_nil, List.sum_nil, Rat.add_zero]
  | cons p ps ih =>
    rw [List.foldl_cons, ih, addQtyP_get q p a c hal, List.filter_cons]
    split
    · simp only [List.map_cons, List.sum_cons]; grind
    · grind

/-- **(1), general form**: `addQty` adds to an asset/liability position the quantities booked on it -/
theorem addQty_get (q : AMap Position Rat) (ts : List Transaction) (a : Account) (c : Commodity) (hal : a.isAL = true) :
    (Balance.addQty q ts).get (a, c) 0 = q.get (a, c) 0 + (qtysOn a c ts).sum := by
  rw [addQty_eq, foldl_addQtyP_get _ _ _ _ hal]
  rfl

theorem addQtyP_nodup (q : AMap Position Rat) (p : Posting) (h : AMap.NodupKeys q) : AMap.NodupKeys (addQtyP q p) := by
  unfold addQtyP
  split
  · exact h
  · split
    · exact AMap.nodup_set h _ _
    · exact h

theorem addQty_nodup (q : AMap Position Rat) (ts : List Transaction) (h : AMap.NodupKeys q) :
    AMap.NodupKeys (Balance.addQty q ts) := by
  rw [addQty_eq]
  generalize ts.flatMap (·.postings) = ps
  induction ps generalizing q with
  | nil => exact h
  | cons p ps ih => exact ih _ (addQtyP_nodup q p h)

theorem valuationAccount_ne (a a' : Account) (hal : a.isAL = true) : valuationAccountFor a' ≠ a := by
  intro he
  have := valuationAccount_not_AL a'
  rw [he, hal] at this
  cases this

/-- the value a value-adjustment transaction of position `(a', c')` puts on position `(a, c)` -/
theorem build_valOn (a a' : Account) (c c' : Commodity) (g : Rat) (hal : a.isAL = true) :
    (((postingBuild (valuationAccountFor a') a' c' 0 g).filter (onPos a c)).map (·.value)).sum =
      if a' = a ∧ c' = c then g else 0 := by
  have hne := valuationAccount_ne a a' hal
  unfold postingBuild onPos
  by_cases hg : g < 0
  · by_cases hk : a' = a ∧ c' = c
    · obtain ⟨h1, h2⟩ := hk; subst h1; subst h2
      simp [hg, hne, Rat.neg_neg, Rat.add_zero]
    · simp only [hk, if_false]
      by_cases h1 : a' = a
      · have h2 : ¬ c' = c := fun h => hk ⟨h1, h⟩
        simp [hg, h1, h2]
      · simp [hg, hne, h1]
  · by_cases hk : a' = a ∧ c' = c
    · obtain ⟨h1, h2⟩ := hk; subst h1; subst h2
      simp [hg, hne, Rat.add_zero]
    · simp only [hk, if_false]
      by_cases h1 : a' = a
      · have h2 : ¬ c' = c := fun h => hk ⟨h1, h⟩
        simp [hg, h1, h2]
      · simp [hg, hne, h1]

theorem build_qty_zero (cr dr : Account) (c : Commodity) (g : Rat) :
    ∀ p ∈ postingBuild cr dr c 0 g, p.quantity = 0 := by
  intro p hp
  unfold postingBuild at hp
  simp only [List.mem_cons, List.not_mem_nil, or_false] at hp
  rcases hp with rfl | rfl <;> simp only <;> split <;> simp

/-! ### (2a) the adjustments -/

/-- `p` is the price of `c` if there is one -/
def PriceIs (np : Option Prices.NPrices) (c : Commodity) (p : Rat) : Prop :=
  ∀ x, Balance.lookupPrice np c = .ok x → x = p

theorem priceIs_of_ok {np : Option Prices.NPrices} {c : Commodity} {p : Rat}
    (h : Balance.lookupPrice np c = .ok p) : PriceIs np c p := by
  intro x hx; rw [h] at hx; injection hx with hx; exact hx.symm

/-- all postings of the transactions have quantity 0 -/
def QtyZero (ts : List Transaction) : Prop := ∀ t ∈ ts, ∀ p ∈ t.postings, p.quantity = 0

theorem valOn_single (a : Account) (c : Commodity) (t : Transaction) :
    valOn a c [t] = ((t.postings.filter (onPos a c)).map (·.value)).sum := by
  unfold valOn
  rw [posOn_cons, posOn_nil, List.append_nil]

theorem multiply_eq (x y : Rat) : Prices.multiply x y = trunc 8 (x * y) := rfl

/-- one step of `Valuate.DayStart`, seen from position `(a, c)` -/
theorem adjustStep_valOn (v : Commodity) (date : Int) (prev cur : Option Prices.NPrices)
    (acc res : List Transaction) (e : Position × Rat) (a : Account) (c : Commodity) (pp cp : Rat)
    (hc : c ≠ v) (hal : a.isAL = true)
    (hpp : PriceIs prev c pp) (hcp : PriceIs cur c cp)
    (h : Balance.adjustStep v date prev cur acc e = .ok res) :
    valOn a c res = valOn a c acc + (if e.1 = (a, c) then adjustment e.2 pp cp else 0) ∧
    (QtyZero acc → QtyZero res) := by
  obtain ⟨⟨a', c'⟩, q⟩ := e
  unfold Balance.adjustStep at h
  simp only at h ⊢
  split at h
  · rename_i hcond
    injection h with h; subst h
    refine ⟨?_, fun x => x⟩
    split
    · rename_i hk
      injection hk with h1 h2; subst h1; subst h2
      have hq : q = 0 := by simpa [hc, hal] using hcond
      unfold adjustment adjSkipped
      simp [hq, Rat.add_zero]
    · rw [Rat.add_zero]
  · simp only [bind, Except.bind] at h
    cases hp : Balance.lookupPrice prev c' with
    | error x => rw [hp] at h; cases h
    | ok pp' =>
      rw [hp] at h; simp only at h
      cases hcu : Balance.lookupPrice cur c' with
      | error x => rw [hcu] at h; cases h
      | ok cp' =>
        rw [hcu] at h; simp only at h
        split at h
        · rename_i hd
          injection h with h; subst h
          refine ⟨?_, fun x => x⟩
          split
          · rename_i hk
            injection hk with h1 h2; subst h1; subst h2
            have e1 := hpp _ hp
            have e2 := hcp _ hcu
            subst e1; subst e2
            unfold adjustment adjSkipped
            simp [hd, Rat.add_zero]
          · rw [Rat.add_zero]
        · rename_i hd
          injection h with h; subst h
          constructor
          · rw [valOn_append, valOn_single]
            simp only
            rw [build_valOn a a' c c' _ hal]
            by_cases hk : a' = a ∧ c' = c
            · obtain ⟨h1, h2⟩ := hk; subst h1; subst h2
              have e1 := hpp _ hp
              have e2 := hcp _ hcu
              subst e1; subst e2
              rename_i hcond
              have hq : ¬ q = 0 := by
                intro hq; apply hcond; simp [hq]
              unfold adjustment adjSkipped
              simp [hd, hq, multiply_eq]
            · have : ¬ ((a', c') = (a, c)) := by
                intro e; injection e with e1 e2; exact hk ⟨e1, e2⟩
              simp only [hk, this, if_false]
          · intro hz t ht
            rcases List.mem_append.mp ht with ht | ht
            · exact hz t ht
            · simp only [List.mem_cons, List.not_mem_nil, or_false] at ht
              subst ht
              exact build_qty_zero _ _ _ _

/-- the sum of `f` over the entries of an association list with key `k` -/
def sumKey (f : Rat → Rat) (k : Position) (q : AMap Position Rat) : Rat :=
  ((q.filter (fun e => decide (e.1 = k))).map (fun e => f e.2)).sum

theorem foldlM_adjust_valOn (v : Commodity) (date : Int) (prev cur : Option Prices.NPrices)
    (a : Account) (c : Commodity) (pp cp : Rat)
    (hc : c ≠ v) (hal : a.isAL = true)
    (hpp : PriceIs prev c pp) (hcp : PriceIs cur c cp) :
    ∀ (q : AMap Position Rat) (acc res : List Transaction),
      q.foldlM (Balance.adjustStep v date prev cur) acc = .ok res →
      valOn a c res = valOn a c acc + sumKey (fun x => adjustment x pp cp) (a, c) q ∧
      (QtyZero acc → QtyZero res) := by
  intro q
  induction q with
  | nil =>
    intro acc res h
    simp only [List.foldlM_nil, pure, Except.pure] at h
    injection h with h; subst h
    exact ⟨by unfold sumKey; simp [Rat.add_zero], fun x => x⟩
  | cons e rest ih =>
    intro acc res h
    simp only [List.foldlM_cons, bind, Except.bind] at h
    cases hs : Balance.adjustStep v date prev cur acc e with
    | error x => rw [hs] at h; cases h
    | ok acc' =>
      rw [hs] at h; simp only at h
      obtain ⟨s1, s2⟩ := adjustStep_valOn v date prev cur acc acc' e a c pp cp hc hal hpp hcp hs
      obtain ⟨i1, i2⟩ := ih acc' res h
      refine ⟨?_, fun hz => i2 (s2 hz)⟩
      rw [i1, s1]
      unfold sumKey
      rw [List.filter_cons]
      by_cases hk : e.1 = (a, c)
      · simp only [hk, decide_true, if_true, List.map_cons, List.sum_cons]; grind
      · simp only [hk, decide_false, if_false, Bool.false_eq_true]; grind

theorem sumKey_nodup (f : Rat → Rat) (hf : f 0 = 0) (k : Position) (q : AMap Position Rat)
    (hn : AMap.NodupKeys q) : sumKey f k q = f (q.get k 0) := by
  induction q with
  | nil => unfold sumKey AMap.get; simp [hf]
  | cons e rest ih =>
    obtain ⟨k', x⟩ := e
    unfold AMap.NodupKeys at hn
    simp only [List.map_cons, List.nodup_cons] at hn
    have ih' := ih hn.2
    unfold sumKey at ih' ⊢
    rw [List.filter_cons]
    by_cases hk : k' = k
    · subst hk
      have hnone : rest.filter (fun e => decide (e.1 = k')) = [] := by
        rw [List.filter_eq_nil_iff]
        intro e he
        simp only [decide_eq_true_eq]
        intro h
        exact hn.1 (List.mem_map.mpr ⟨e, he, h⟩)
      simp only [decide_true, if_true, List.map_cons, List.sum_cons, hnone, List.map_nil, List.sum_nil,
        Rat.add_zero]
      unfold AMap.get AMap.find?
      simp
    · simp only [hk, decide_false, if_false, Bool.false_eq_true]
      rw [ih']
      unfold AMap.get
      conv => rhs; unfold AMap.find?
      simp [hk]

theorem adjustment_zero (pp cp : Rat) : adjustment 0 pp cp = 0 := by
  unfold adjustment adjSkipped; simp

/-- **the adjustments of one day, seen from `(a, c)`**: exactly the `adjustment` term of the trace -/
theorem adjustments_valOn (v : Commodity) (date : Int) (prev cur : Option Prices.NPrices)
    (q : AMap Position Rat) (adj : List Transaction) (a : Account) (c : Commodity) (pp cp : Rat)
    (hc : c ≠ v) (hal : a.isAL = true) (hn : AMap.NodupKeys q)
    (hpp : PriceIs prev c pp) (hcp : PriceIs cur c cp)
    (h : Balance.adjustments v date prev cur q = .ok adj) :
    valOn a c adj = adjustment (q.get (a, c) 0) pp cp ∧ QtyZero adj := by
  unfold Balance.adjustments at h
  obtain ⟨h1, h2⟩ := foldlM_adjust_valOn v date prev cur a c pp cp hc hal hpp hcp q [] adj h
  constructor
  · rw [h1, sumKey_nodup _ (adjustment_zero pp cp) _ _ hn]
    unfold valOn posOn
    simp [Rat.zero_add]
  · exact h2 (fun t ht => by cases ht)

/-! ### (2b) the valuation of the day's postings -/

/-- the value `Valuate.Posting` leaves on a posting in a commodity `≠ V` priced `cp` -/
def valued (cp : Rat) (p : Posting) : Rat := if p.quantity = 0 then p.value else trunc 8 (p.quantity * cp)

theorem valuePosting_on (v : Commodity) (cur : Option Prices.NPrices) (c : Commodity) (cp : Rat)
    (hc : c ≠ v) (hcp : PriceIs cur c cp) (p p' : Posting) (h : Balance.valuePosting v cur p = .ok p') :
    p'.account = p.account ∧ p'.commodity = p.commodity ∧ (p.commodity = c → p'.value = valued cp p) := by
  unfold Balance.valuePosting at h
  unfold valued
  by_cases hq : p.quantity = 0
  · simp only [hq, if_true] at h ⊢
    injection h with h; subst h
    exact ⟨rfl, rfl, fun _ => rfl⟩
  · simp only [hq, if_false] at h ⊢
    by_cases hv : p.commodity = v
    · simp only [hv, if_true] at h
      injection h with h; subst h
      refine ⟨rfl, hv.symm, fun e => ?_⟩
      exact absurd (e.symm.trans hv) hc
    · simp only [hv, if_false, bind, Except.bind] at h
      cases hl : Balance.lookupPrice cur p.commodity with
      | error x => rw [hl] at h; cases h
      | ok pr =>
        rw [hl] at h; simp only at h
        injection h with h; subst h
        refine ⟨rfl, rfl, fun e => ?_⟩
        rw [e] at hl
        have := hcp _ hl
        subst this
        rfl

theorem mapM_valuePosting_on (v : Commodity) (cur : Option Prices.NPrices) (a : Account) (c : Commodity) (cp : Rat)
    (hc : c ≠ v) (hcp : PriceIs cur c cp) :
    ∀ (ps ps' : List Posting), ps.mapM (Balance.valuePosting v cur) = .ok ps' →
      ((ps'.filter (onPos a c)).map (·.value)).sum = ((ps.filter (onPos a c)).map (valued cp)).sum
  | [], ps', h => by
    simp only [List.mapM_nil, pure, Except.pure] at h
    injection h with h; subst h
    rfl
  | p :: rest, ps', h => by
    simp only [List.mapM_cons, bind, Except.bind] at h
    cases hp : Balance.valuePosting v cur p with
    | error e => rw [hp] at h; cases h
    | ok p' =>
      rw [hp] at h; simp only at h
      cases hr : rest.mapM (Balance.valuePosting v cur) with
      | error e => rw [hr] at h; cases h
      | ok rest' =>
        rw [hr] at h; simp only [pure, Except.pure] at h
        injection h with h; subst h
        have ih := mapM_valuePosting_on v cur a c cp hc hcp rest rest' hr
        obtain ⟨h1, h2, h3⟩ := valuePosting_on v cur c cp hc hcp p p' hp
        have hon : onPos a c p' = onPos a c p := by unfold onPos; rw [h1, h2]
        rw [List.filter_cons, List.filter_cons, hon]
        by_cases ho : onPos a c p = true
        · have hpc : p.commodity = c := by
            unfold onPos at ho
            simp only [Bool.and_eq_true, decide_eq_true_eq] at ho
            exact ho.2
          simp only [ho, if_true, List.map_cons, List.sum_cons, ih, h3 hpc]
        · simp only [ho, if_false, Bool.false_eq_true, ih]

theorem mapM_valueTx_on (v : Commodity) (cur : Option Prices.NPrices) (a : Account) (c : Commodity) (cp : Rat)
    (hc : c ≠ v) (hcp : PriceIs cur c cp) :
    ∀ (ts ts' : List Transaction), ts.mapM (Balance.valueTx v cur) = .ok ts' →
      valOn a c ts' = ((posOn a c ts).map (valued cp)).sum
  | [], ts', h => by
    simp only [List.mapM_nil, pure, Except.pure] at h
    injection h with h; subst h
    rfl
  | t :: rest, ts', h => by
    simp only [List.mapM_cons, bind, Except.bind] at h
    cases ht : Balance.valueTx v cur t with
    | error e => rw [ht] at h; cases h
    | ok t' =>
      rw [ht] at h; simp only at h
      cases hr : rest.mapM (Balance.valueTx v cur) with
      | error e => rw [hr] at h; cases h
      | ok rest' =>
        rw [hr] at h; simp only [pure, Except.pure] at h
        injection h with h; subst h
        have ih := mapM_valueTx_on v cur a c cp hc hcp rest rest' hr
        unfold valOn at ih ⊢
        rw [posOn_cons, posOn_cons, List.map_append, List.map_append, sum_append_rat, sum_append_rat, ih]
        unfold Balance.valueTx at ht
        simp only [bind, Except.bind] at ht
        cases hm : t.postings.mapM (Balance.valuePosting v cur) with
        | error e => rw [hm] at ht; cases ht
        | ok ps =>
          rw [hm] at ht; simp only at ht
          injection ht with ht; subst ht
          simp only
          rw [mapM_valuePosting_on v cur a c cp hc hcp _ _ hm]

/-- zero-quantity postings on `(a, c)` carry no value (what the journal's own postings satisfy: they are built
with value 0) -/
def Unvalued (a : Account) (c : Commodity) (ts : List Transaction) : Prop :=
  ∀ t ∈ ts, ∀ p ∈ t.postings, p.account = a → p.commodity = c → p.quantity = 0 → p.value = 0

theorem mem_posOn {a : Account} {c : Commodity} {ts : List Transaction} {p : Posting} (h : p ∈ posOn a c ts) :
    ∃ t ∈ ts, p ∈ t.postings ∧ p.account = a ∧ p.commodity = c := by
  unfold posOn at h
  rw [List.mem_filter, List.mem_flatMap] at h
  obtain ⟨⟨t, ht, hp⟩, ho⟩ := h
  unfold onPos at ho
  simp only [Bool.and_eq_true, decide_eq_true_eq] at ho
  exact ⟨t, ht, hp, ho.1, ho.2⟩

theorem valued_booked (cp : Rat) (ps : List Posting) (h : ∀ p ∈ ps, p.quantity = 0 → p.value = 0) :
    (ps.map (valued cp)).sum = booked cp (ps.map (·.quantity)) := by
  unfold booked
  induction ps with
  | nil => rfl
  | cons p rest ih =>
    have ih' := ih (fun x hx => h x (List.mem_cons_of_mem _ hx))
    simp only [List.map_cons, List.sum_cons, ih', List.filter_cons]
    by_cases hq : p.quantity = 0
    · have hv := h p List.mem_cons_self hq
      unfold valued
      simp [hq, hv, Rat.zero_add]
    · unfold valued
      simp [hq]

theorem valued_user (a : Account) (c : Commodity) (cp : Rat) (ts : List Transaction) (h : Unvalued a c ts) :
    ((posOn a c ts).map (valued cp)).sum = booked cp (qtysOn a c ts) := by
  unfold qtysOn
  apply valued_booked
  intro p hp hq
  obtain ⟨t, ht, hpt, h1, h2⟩ := mem_posOn hp
  exact h t ht p hpt h1 h2 hq

theorem valued_qtyZero (a : Account) (c : Commodity) (cp : Rat) (ts : List Transaction) (h : QtyZero ts) :
    ((posOn a c ts).map (valued cp)).sum = valOn a c ts := by
  unfold valOn
  congr 1
  apply List.map_congr_left
  intro p hp
  obtain ⟨t, ht, hpt, _, _⟩ := mem_posOn hp
  unfold valued
  simp [h t ht p hpt]

theorem qtysOn_qtyZero (a : Account) (c : Commodity) (ts : List Transaction) (h : QtyZero ts) :
    (qtysOn a c ts).sum = 0 := by
  unfold qtysOn
  have : (posOn a c ts).map (·.quantity) = (posOn a c ts).map (fun _ => (0 : Rat)) := by
    apply List.map_congr_left
    intro p hp
    obtain ⟨t, ht, hpt, _, _⟩ := mem_posOn hp
    exact h t ht p hpt
  rw [this]
  generalize posOn a c ts = l
  induction l with
  | nil => rfl
  | cons x l ih => simp only [List.map_cons, List.sum_cons, ih, Rat.add_zero]

/-! ### one day -/

/-- **one call of `Balance.valuateDay`, seen from position `(a, c)`** -/
theorem valuateDay_position (v : Commodity) (st st' : BalState) (d : Day) (txs : List Transaction)
    (a : Account) (c : Commodity) (pp cp : Rat)
    (hc : c ≠ v) (hal : a.isAL = true) (hn : AMap.NodupKeys st.vQty) (hu : Unvalued a c d.transactions)
    (hpp : PriceIs st.vPrev c pp) (hcp : PriceIs st.norm c cp)
    (h : Balance.valuateDay v st d = .ok (st', txs)) :
    st'.vQty.get (a, c) 0 = st.vQty.get (a, c) 0 + (qtysOn a c d.transactions).sum ∧
    valOn a c txs = adjustment (st.vQty.get (a, c) 0) pp cp + booked cp (qtysOn a c d.transactions) ∧
    st'.vPrev = st.norm ∧ st'.norm = st.norm ∧ st'.graph = st.graph ∧ AMap.NodupKeys st'.vQty := by
  unfold Balance.valuateDay at h
  simp only [bind, Except.bind] at h
  cases ha : Balance.adjustments v d.date st.vPrev st.norm st.vQty with
  | error e => rw [ha] at h; cases h
  | ok adj =>
    rw [ha] at h; simp only at h
    cases hm : (d.transactions ++ adj).mapM (Balance.valueTx v st.norm) with
    | error e => rw [hm] at h; cases h
    | ok txsv =>
      rw [hm] at h; simp only at h
      injection h with h; injection h with h1 h2; subst h1; subst h2
      obtain ⟨a1, a2⟩ := adjustments_valOn v d.date st.vPrev st.norm st.vQty adj a c pp cp hc hal hn hpp hcp ha
      refine ⟨?_, ?_, rfl, rfl, rfl, addQty_nodup _ _ hn⟩
      · simp only
        rw [addQty_get _ _ _ _ hal, qtysOn_append, sum_append_rat, qtysOn_qtyZero a c adj a2, Rat.add_zero]
      · rw [mapM_valueTx_on v st.norm a c cp hc hcp _ _ hm, posOn_append, List.map_append, sum_append_rat,
          valued_user a c cp _ hu, valued_qtyZero a c cp adj a2, a1]
        grind

/-! ### the lift over a list of days -/

/-- the price of `c` in `np`, or `dflt` if `np` has none -/
def priceOr (np : Option Prices.NPrices) (c : Commodity) (dflt : Rat) : Rat :=
  match Balance.lookupPrice np c with
  | .ok p => p
  | .error _ => dflt

theorem priceIs_priceOr (np : Option Prices.NPrices) (c : Commodity) (dflt : Rat) :
    PriceIs np c (priceOr np c dflt) := by
  intro x hx
  unfold priceOr
  rw [hx]

theorem priceOr_of_ok {np : Option Prices.NPrices} {c : Commodity} {p : Rat} (dflt : Rat)
    (h : Balance.lookupPrice np c = .ok p) : priceOr np c dflt = p := by
  unfold priceOr; rw [h]

/-- the stages `ComputePrices → Valuate` folded over a list of days, collecting the valued transactions
(`Balance.valuationStage` is what `Balance.dayTxs` runs between the check and the filter) -/
def valuationRun (cfg : BalCfg) : BalState → List Day → Except BalErr (BalState × List Transaction)
  | st, [] => .ok (st, [])
  | st, d :: ds =>
    match Balance.valuationStage cfg st d with
    | .error e => .error e
    | .ok (st1, txs) =>
      match valuationRun cfg st1 ds with
      | .error e => .error e
      | .ok (st2, rest) => .ok (st2, txs ++ rest)

/-- the single-position trace of `(a, c)` extracted from the pipeline: yesterday's price is the price carried from the
day before (`p` before the first day), today's price is the price of `c` in the day's normalised prices (which
`Valuate` keeps as `vPrev` for the next day) or, while `c` has no price yet, the carried one; the quantities are those
of the day's postings on `(a, c)` -/
def traceOf (cfg : BalCfg) (a : Account) (c : Commodity) : Rat → BalState → List Day → List DayStep
  | _, _, [] => []
  | p, st, d :: ds =>
    match Balance.valuationStage cfg st d with
    | .error _ => []
    | .ok (st1, _) =>
      ⟨p, priceOr st1.vPrev c p, qtysOn a c d.transactions⟩ :: traceOf cfg a c (priceOr st1.vPrev c p) st1 ds

theorem consistent_traceOf (cfg : BalCfg) (a : Account) (c : Commodity) :
    ∀ (ds : List Day) (p : Rat) (st : BalState), Consistent p (traceOf cfg a c p st ds)
  | [], _, _ => trivial
  | d :: ds, p, st => by
    unfold traceOf
    split
    · trivial
    · exact ⟨rfl, consistent_traceOf cfg a c ds _ _⟩

theorem pricesDay_frame (v : Commodity) (st st' : BalState) (d : Day) (h : Balance.pricesDay v st d = .ok st') :
    st'.vQty = st.vQty ∧ st'.vPrev = st.vPrev := by
  unfold Balance.pricesDay at h
  simp only [bind, Except.bind] at h
  split at h
  · cases h
  · injection h with h; subst h; exact ⟨rfl, rfl⟩

/-- one day of the valuation stage, seen from `(a, c)`: one `stepDay` -/
theorem valuationStage_step (cfg : BalCfg) (v : Commodity) (st st' : BalState) (d : Day) (txs : List Transaction)
    (a : Account) (c : Commodity) (p : Rat) (s : St)
    (hv : cfg.valuation = some v) (hc : c ≠ v) (hal : a.isAL = true) (hn : AMap.NodupKeys st.vQty)
    (hu : Unvalued a c d.transactions) (hpp : PriceIs st.vPrev c p) (hQ : s.Q = st.vQty.get (a, c) 0)
    (h : Balance.valuationStage cfg st d = .ok (st', txs)) :
    (stepDay s ⟨p, priceOr st'.vPrev c p, qtysOn a c d.transactions⟩).W = s.W + valOn a c txs ∧
    (stepDay s ⟨p, priceOr st'.vPrev c p, qtysOn a c d.transactions⟩).Q = st'.vQty.get (a, c) 0 ∧
    AMap.NodupKeys st'.vQty := by
  unfold Balance.valuationStage at h
  rw [hv] at h
  simp only [bind, Except.bind] at h
  cases hp : Balance.pricesDay v st d with
  | error e => rw [hp] at h; cases h
  | ok stp =>
    rw [hp] at h; simp only at h
    obtain ⟨f1, f2⟩ := pricesDay_frame v st stp d hp
    have hn' : AMap.NodupKeys stp.vQty := by rw [f1]; exact hn
    have hpp' : PriceIs stp.vPrev c p := by rw [f2]; exact hpp
    obtain ⟨r1, r2, r3, _, _, r6⟩ := valuateDay_position v stp st' d txs a c p (priceOr stp.norm c p) hc hal hn' hu hpp'
      (priceIs_priceOr _ _ _) h
    rw [r3]
    unfold stepDay
    simp only
    rw [hQ, ← f1, r1, r2]
    exact ⟨by grind, rfl, r6⟩

/-- **the lift**: folding the pipeline's valuation stage over the days and projecting on `(a, c)` is `MTM.run` on
the extracted trace -/
theorem valuationRun_trace (cfg : BalCfg) (v : Commodity) (a : Account) (c : Commodity)
    (hv : cfg.valuation = some v) (hc : c ≠ v) (hal : a.isAL = true) :
    ∀ (ds : List Day) (st st' : BalState) (txs : List Transaction) (p : Rat) (s : St),
      AMap.NodupKeys st.vQty → (∀ d ∈ ds, Unvalued a c d.transactions) → PriceIs st.vPrev c p →
      s.Q = st.vQty.get (a, c) 0 → valuationRun cfg st ds = .ok (st', txs) →
      (run s (traceOf cfg a c p st ds)).W = s.W + valOn a c txs ∧
      (run s (traceOf cfg a c p st ds)).Q = st'.vQty.get (a, c) 0 ∧
      PriceIs st'.vPrev c (lastPrice p (traceOf cfg a c p st ds)) ∧
      AMap.NodupKeys st'.vQty
  | [], st, st', txs, p, s, hn, _, hpp, hQ, h => by
    unfold valuationRun at h
    injection h with h; injection h with h1 h2; subst h1; subst h2
    unfold traceOf run lastPrice
    simp only [List.foldl_nil]
    refine ⟨?_, hQ, hpp, hn⟩
    unfold valOn posOn
    simp [Rat.add_zero]
  | d :: ds, st, st', txs, p, s, hn, hu, hpp, hQ, h => by
    unfold valuationRun at h
    unfold traceOf
    cases hs : Balance.valuationStage cfg st d with
    | error e => rw [hs] at h; cases h
    | ok r =>
      obtain ⟨st1, txs1⟩ := r
      rw [hs] at h; simp only at h ⊢
      cases hr : valuationRun cfg st1 ds with
      | error e => rw [hr] at h; cases h
      | ok r2 =>
        obtain ⟨st2, rest⟩ := r2
        rw [hr] at h; simp only at h
        injection h with h; injection h with h1 h2; subst h1; subst h2
        obtain ⟨w1, w2, w3⟩ := valuationStage_step cfg v st st1 d txs1 a c p s hv hc hal hn
          (hu d List.mem_cons_self) hpp hQ hs
        obtain ⟨i1, i2, i3, i4⟩ := valuationRun_trace cfg v a c hv hc hal ds st1 st2 rest (priceOr st1.vPrev c p)
          (stepDay s ⟨p, priceOr st1.vPrev c p, qtysOn a c d.transactions⟩) w3
          (fun d' hd' => hu d' (List.mem_cons_of_mem _ hd')) (priceIs_priceOr _ _ _) w2 hr
        have hrun : ∀ (x : DayStep) (xs : List DayStep), run s (x :: xs) = run (stepDay s x) xs := fun _ _ => rfl
        have hlast : ∀ (x : DayStep) (xs : List DayStep), lastPrice p (x :: xs) = lastPrice x.pCur xs := fun _ _ => rfl
        rw [hrun, hlast]
        refine ⟨?_, i2, i3, i4⟩
        rw [i1, w1, valOn_append]
        grind


/-! ### the stages around the valuation: check, Filter, CloseAccounts -/

/-- the part of the state the Valuate/ComputePrices stages own -/
def SameVal (s t : BalState) : Prop := s.vQty = t.vQty ∧ s.vPrev = t.vPrev

/-- `CloseAccounts` accumulates non-asset/liability positions only -/
def CloseInv (st : BalState) : Prop := ∀ k ∈ st.cQty.map (·.1), k.1.isAL = false

theorem foldl_inv {α β : Type} (P : α → Prop) (f : α → β → α) (hf : ∀ s x, P s → P (f s x)) :
    ∀ (xs : List β) (s : α), P s → P (xs.foldl f s)
  | [], _, h => h
  | x :: xs, s, h => foldl_inv P f hf xs (f s x) (hf s x h)

theorem accumulate_inv (P : BalState → Prop)
    (hP : ∀ (st : BalState) (p : Posting), P st → ¬ (p.account.isAL || decide (p.account = equityAccount)) = true →
      P { st with cQty := st.cQty.set (p.account, p.commodity) (st.cQty.get (p.account, p.commodity) 0 + p.quantity),
                  cVal := st.cVal.set (p.account, p.commodity) (st.cVal.get (p.account, p.commodity) 0 + p.value) })
    (st : BalState) (ts : List Transaction) (h : P st) : P (Balance.accumulate st ts) := by
  unfold Balance.accumulate
  apply foldl_inv P _ _ ts st h
  intro s t hs
  apply foldl_inv P _ _ t.postings s hs
  intro s p hs
  split
  · exact hs
  · rename_i hc
    exact hP s p hs hc

theorem accumulate_sameVal (st : BalState) (ts : List Transaction) : SameVal (Balance.accumulate st ts) st :=
  accumulate_inv (fun s => SameVal s st) (fun _ _ h _ => h) st ts ⟨rfl, rfl⟩

theorem accumulate_closeInv (st : BalState) (ts : List Transaction) (h : CloseInv st) :
    CloseInv (Balance.accumulate st ts) := by
  apply accumulate_inv CloseInv _ st ts h
  intro s p hs hc k hk
  simp only at hk
  rcases (AMap.keys_set s.cQty _ _ k).mp hk with rfl | hk
  · simp only [Bool.or_eq_true, not_or, Bool.not_eq_true] at hc
    exact hc.1
  · exact hs k hk

theorem build_account (cr dr : Account) (c : Commodity) (q g : Rat) :
    ∀ p ∈ postingBuild cr dr c q g, p.account = cr ∨ p.account = dr := by
  intro p hp
  unfold postingBuild at hp
  simp only [List.mem_cons, List.not_mem_nil, or_false] at hp
  rcases hp with rfl | rfl <;> simp only <;> split <;> simp

theorem equityAccount_not_AL : equityAccount.isAL = false := by decide

theorem posOn_closings (a : Account) (c : Commodity) (date : Int) (cQty cVal : AMap Position Rat)
    (hal : a.isAL = true) (hk : ∀ k ∈ cQty.map (·.1), k.1.isAL = false) :
    posOn a c (Balance.closings date cQty cVal) = [] := by
  unfold posOn
  rw [List.filter_eq_nil_iff]
  intro p hp
  rw [List.mem_flatMap] at hp
  obtain ⟨t, ht, hpt⟩ := hp
  unfold Balance.closings at ht
  rw [List.mem_filterMap] at ht
  obtain ⟨⟨⟨a', c'⟩, q⟩, he, h⟩ := ht
  simp only at h
  split at h
  · cases h
  · injection h with h; subst h
    simp only at hpt
    have hna : a'.isAL = false := hk (a', c') (List.mem_map.mpr ⟨((a', c'), q), he, rfl⟩)
    unfold onPos
    have : p.account ≠ a := by
      intro e
      rcases build_account _ _ _ _ _ p hpt with h1 | h1
      · rw [← h1, e, hal] at hna; cases hna
      · have := equityAccount_not_AL; rw [← h1, e, hal] at this; cases this
    simp [this]

theorem checkStage_frame (st st' : BalState) (d : Day) (h : Balance.checkStage st d = .ok st') :
    SameVal st' st ∧ st'.cQty = st.cQty := by
  unfold Balance.checkStage at h
  split at h
  · injection h with h; subst h; exact ⟨⟨rfl, rfl⟩, rfl⟩
  · cases h

theorem valuationStage_frame (cfg : BalCfg) (st st' : BalState) (d : Day) (txs : List Transaction)
    (h : Balance.valuationStage cfg st d = .ok (st', txs)) : st'.cQty = st.cQty ∧ st'.entries = st.entries := by
  unfold Balance.valuationStage at h
  split at h
  · injection h with h; injection h with h1 h2; subst h1; exact ⟨rfl, rfl⟩
  · simp only [bind, Except.bind] at h
    cases hp : Balance.pricesDay _ st d with
    | error e => rw [hp] at h; cases h
    | ok stp =>
      rw [hp] at h; simp only at h
      have e1 : stp.cQty = st.cQty ∧ stp.entries = st.entries := by
        unfold Balance.pricesDay at hp
        simp only [bind, Except.bind] at hp
        split at hp
        · cases hp
        · injection hp with hp; subst hp; exact ⟨rfl, rfl⟩
      unfold Balance.valuateDay at h
      simp only [bind, Except.bind] at h
      split at h
      · cases h
      · split at h
        · cases h
        · injection h with h; injection h with h1 h2; subst h1; exact e1

theorem dayTxs_entries (cfg : BalCfg) (st st' : BalState) (d : Day) (txs : List Transaction)
    (h : Balance.dayTxs cfg st d = .ok (st', txs)) : st'.entries = st.entries := by
  unfold Balance.dayTxs at h
  simp only [bind, Except.bind] at h
  cases hck : Balance.checkStage st d with
  | error e => rw [hck] at h; cases h
  | ok stc =>
    rw [hck] at h; simp only at h
    cases hvs : Balance.valuationStage cfg stc d with
    | error e => rw [hvs] at h; cases h
    | ok r2 =>
      obtain ⟨st1, txs1⟩ := r2
      rw [hvs] at h; simp only at h
      injection h with h
      have e0 : stc.entries = st.entries := by
        unfold Balance.checkStage at hck
        split at hck
        · injection hck with hck; subst hck; rfl
        · cases hck
      have e1 := (valuationStage_frame cfg stc st1 d txs1 hvs).2
      unfold Balance.closeStage at h
      split at h
      · injection h with h1 h2; subst h1
        have := accumulate_inv (fun s => s.entries = st1.entries) (fun _ _ h _ => h) st1
          (Balance.filterStage cfg d txs1 ++
            if ((cfg.periods.map (·.start)).contains d.date) = true then Balance.closings d.date st1.cQty st1.cVal else []) rfl
        rw [this, e1, e0]
      · injection h with h1 h2; subst h1; rw [e1, e0]

/-- Filter and CloseAccounts do not touch the Valuate state, and what they pass on to the Query stage has, on an
asset/liability position, the postings the valuation stage produced (closings are booked between income/expense/equity
accounts and `Equity:Equity`) – provided the day is inside the window -/
theorem closeStage_position (cfg : BalCfg) (st st' : BalState) (d : Day) (txs txs' : List Transaction)
    (a : Account) (c : Commodity) (hal : a.isAL = true) (hinv : CloseInv st)
    (hspan : cfg.span.contains d.date = true)
    (h : Balance.closeStage cfg st d (Balance.filterStage cfg d txs) = (st', txs')) :
    SameVal st' st ∧ CloseInv st' ∧ posOn a c txs' = posOn a c txs := by
  unfold Balance.closeStage Balance.filterStage at h
  simp only [hspan, if_true] at h
  split at h
  · injection h with h1 h2; subst h1; subst h2
    refine ⟨accumulate_sameVal _ _, accumulate_closeInv _ _ hinv, ?_⟩
    rw [posOn_append]
    split
    · rw [posOn_closings a c _ _ _ hal hinv, List.append_nil]
    · rw [posOn_nil, List.append_nil]
  · injection h with h1 h2; subst h1; subst h2
    exact ⟨⟨rfl, rfl⟩, hinv, rfl⟩

/-- one day through ALL stages (`Balance.dayTxs`), returning also the transactions handed to the Query stage;
`Balance.day` is this with the transactions forgotten (`day_eq_dayQ`) -/
def dayQ (cfg : BalCfg) (st : BalState) (d : Day) : Except BalErr (BalState × List Transaction) :=
  match Balance.dayTxs cfg st d with
  | .error e => .error e
  | .ok (st1, txs) => .ok ({ st1 with entries := st1.entries ++ txs.flatMap (Balance.queryTx cfg) }, txs)

theorem day_eq_dayQ (cfg : BalCfg) (st : BalState) (d : Day) :
    Balance.day cfg st d = (dayQ cfg st d).map (·.1) := by
  unfold Balance.day dayQ
  simp only [bind, Except.bind]
  cases Balance.dayTxs cfg st d with
  | error e => rfl
  | ok r => rfl

/-- the whole pipeline folded over the days, collecting the transactions handed to the Query stage -/
def pipelineRun (cfg : BalCfg) : BalState → List Day → Except BalErr (BalState × List Transaction)
  | st, [] => .ok (st, [])
  | st, d :: ds =>
    match dayQ cfg st d with
    | .error e => .error e
    | .ok (st1, txs) =>
      match pipelineRun cfg st1 ds with
      | .error e => .error e
      | .ok (st2, rest) => .ok (st2, txs ++ rest)

/-- `Balance.run` is `pipelineRun` with the transactions forgotten; the report inserts are the Query stage applied to
the collected transactions -/
theorem foldlM_day_eq (cfg : BalCfg) : ∀ (ds : List Day) (st : BalState),
    ds.foldlM (Balance.day cfg) st = (pipelineRun cfg st ds).map (·.1)
  | [], st => rfl
  | d :: ds, st => by
    rw [List.foldlM_cons, day_eq_dayQ]
    unfold pipelineRun
    cases hq : dayQ cfg st d with
    | error e => rfl
    | ok r =>
      obtain ⟨st1, txs⟩ := r
      simp only [bind, Except.bind, Except.map]
      rw [foldlM_day_eq cfg ds st1]
      cases pipelineRun cfg st1 ds with
      | error e => rfl
      | ok r2 => rfl

theorem pipelineRun_entries (cfg : BalCfg) : ∀ (ds : List Day) (st st' : BalState) (txs : List Transaction),
    pipelineRun cfg st ds = .ok (st', txs) → st'.entries = st.entries ++ txs.flatMap (Balance.queryTx cfg)
  | [], st, st', txs, h => by
    unfold pipelineRun at h
    injection h with h; injection h with h1 h2; subst h1; subst h2
    simp
  | d :: ds, st, st', txs, h => by
    unfold pipelineRun at h
    cases hq : dayQ cfg st d with
    | error e => rw [hq] at h; cases h
    | ok r =>
      obtain ⟨st1, txs1⟩ := r
      rw [hq] at h; simp only at h
      cases hr : pipelineRun cfg st1 ds with
      | error e => rw [hr] at h; cases h
      | ok r2 =>
        obtain ⟨st2, rest⟩ := r2
        rw [hr] at h; simp only at h
        injection h with h; injection h with h1 h2; subst h1; subst h2
        rw [pipelineRun_entries cfg ds st1 st2 rest hr]
        unfold dayQ at hq
        cases hd : Balance.dayTxs cfg st d with
        | error e => rw [hd] at hq; cases hq
        | ok r3 =>
          obtain ⟨st3, txs3⟩ := r3
          rw [hd] at hq; simp only at hq
          injection hq with hq; injection hq with h1 h2; subst h1; subst h2
          simp only [List.flatMap_append, List.append_assoc]
          rw [dayTxs_entries cfg st st3 d txs3 hd]

def traceOfRun (cfg : BalCfg) (a : Account) (c : Commodity) : Rat → BalState → List Day → List DayStep
  | _, _, [] => []
  | p, st, d :: ds =>
    match dayQ cfg st d with
    | .error _ => []
    | .ok (st1, _) =>
      ⟨p, priceOr st1.vPrev c p, qtysOn a c d.transactions⟩ :: traceOfRun cfg a c (priceOr st1.vPrev c p) st1 ds

theorem consistent_traceOfRun (cfg : BalCfg) (a : Account) (c : Commodity) :
    ∀ (ds : List Day) (p : Rat) (st : BalState), Consistent p (traceOfRun cfg a c p st ds)
  | [], _, _ => trivial
  | d :: ds, p, st => by
    unfold traceOfRun
    split
    · trivial
    · exact ⟨rfl, consistent_traceOfRun cfg a c ds _ _⟩

/-- one day through all stages, seen from `(a, c)`: one `stepDay` -/
theorem dayQ_step (cfg : BalCfg) (v : Commodity) (st st' : BalState) (d : Day) (txs : List Transaction)
    (a : Account) (c : Commodity) (p : Rat) (s : St)
    (hv : cfg.valuation = some v) (hc : c ≠ v) (hal : a.isAL = true)
    (hn : AMap.NodupKeys st.vQty) (hinv : CloseInv st) (hspan : cfg.span.contains d.date = true)
    (hu : Unvalued a c d.transactions) (hpp : PriceIs st.vPrev c p) (hQ : s.Q = st.vQty.get (a, c) 0)
    (h : dayQ cfg st d = .ok (st', txs)) :
    (stepDay s ⟨p, priceOr st'.vPrev c p, qtysOn a c d.transactions⟩).W = s.W + valOn a c txs ∧
    (stepDay s ⟨p, priceOr st'.vPrev c p, qtysOn a c d.transactions⟩).Q = st'.vQty.get (a, c) 0 ∧
    AMap.NodupKeys st'.vQty ∧ CloseInv st' := by
  unfold dayQ at h
  cases hd : Balance.dayTxs cfg st d with
  | error e => rw [hd] at h; cases h
  | ok r =>
    obtain ⟨st3, txs3⟩ := r
    rw [hd] at h; simp only at h
    injection h with h; injection h with h1 h2; subst h1; subst h2
    unfold Balance.dayTxs at hd
    simp only [bind, Except.bind] at hd
    cases hck : Balance.checkStage st d with
    | error e => rw [hck] at hd; cases hd
    | ok stc =>
      rw [hck] at hd; simp only at hd
      cases hvs : Balance.valuationStage cfg stc d with
      | error e => rw [hvs] at hd; cases hd
      | ok r2 =>
        obtain ⟨st1, txs1⟩ := r2
        rw [hvs] at hd; simp only at hd
        injection hd with hd
        obtain ⟨⟨c1, c2⟩, c3⟩ := checkStage_frame st stc d hck
        have hinv1 : CloseInv st1 := by
          unfold CloseInv
          rw [(valuationStage_frame cfg stc st1 d txs1 hvs).1, c3]
          exact hinv
        obtain ⟨⟨k1, k2⟩, k3, k4⟩ := closeStage_position cfg st1 st3 d txs1 txs3 a c hal hinv1 hspan hd
        obtain ⟨w1, w2, w3⟩ := valuationStage_step cfg v stc st1 d txs1 a c p s hv hc hal (by rw [c1]; exact hn) hu
          (by rw [c2]; exact hpp) (by rw [c1]; exact hQ) hvs
        have hval : valOn a c txs3 = valOn a c txs1 := by unfold valOn; rw [k4]
        simp only
        rw [k1, k2, hval]
        exact ⟨w1, w2, w3, k3⟩

/-- **the lift over the whole pipeline**: `Balance.dayTxs` folded over days that lie inside the window, projected on
`(a, c)`, is `MTM.run` on the extracted trace -/
theorem pipelineRun_trace (cfg : BalCfg) (v : Commodity) (a : Account) (c : Commodity)
    (hv : cfg.valuation = some v) (hc : c ≠ v) (hal : a.isAL = true) :
    ∀ (ds : List Day) (st st' : BalState) (txs : List Transaction) (p : Rat) (s : St),
      AMap.NodupKeys st.vQty → CloseInv st → (∀ d ∈ ds, cfg.span.contains d.date = true) →
      (∀ d ∈ ds, Unvalued a c d.transactions) → PriceIs st.vPrev c p →
      s.Q = st.vQty.get (a, c) 0 → pipelineRun cfg st ds = .ok (st', txs) →
      (run s (traceOfRun cfg a c p st ds)).W = s.W + valOn a c txs ∧
      (run s (traceOfRun cfg a c p st ds)).Q = st'.vQty.get (a, c) 0 ∧
      PriceIs st'.vPrev c (lastPrice p (traceOfRun cfg a c p st ds)) ∧
      AMap.NodupKeys st'.vQty ∧ CloseInv st'
  | [], st, st', txs, p, s, hn, hinv, _, _, hpp, hQ, h => by
    unfold pipelineRun at h
    injection h with h; injection h with h1 h2; subst h1; subst h2
    unfold traceOfRun run lastPrice
    simp only [List.foldl_nil]
    refine ⟨?_, hQ, hpp, hn, hinv⟩
    unfold valOn posOn
    simp [Rat.add_zero]
  | d :: ds, st, st', txs, p, s, hn, hinv, hsp, hu, hpp, hQ, h => by
    unfold pipelineRun at h
    unfold traceOfRun
    cases hs : dayQ cfg st d with
    | error e => rw [hs] at h; cases h
    | ok r =>
      obtain ⟨st1, txs1⟩ := r
      rw [hs] at h; simp only at h ⊢
      cases hr : pipelineRun cfg st1 ds with
      | error e => rw [hr] at h; cases h
      | ok r2 =>
        obtain ⟨st2, rest⟩ := r2
        rw [hr] at h; simp only at h
        injection h with h; injection h with h1 h2; subst h1; subst h2
        obtain ⟨w1, w2, w3, w4⟩ := dayQ_step cfg v st st1 d txs1 a c p s hv hc hal hn hinv
          (hsp d List.mem_cons_self) (hu d List.mem_cons_self) hpp hQ hs
        obtain ⟨i1, i2, i3, i4⟩ := pipelineRun_trace cfg v a c hv hc hal ds st1 st2 rest (priceOr st1.vPrev c p)
          (stepDay s ⟨p, priceOr st1.vPrev c p, qtysOn a c d.transactions⟩) w3 w4
          (fun d' hd' => hsp d' (List.mem_cons_of_mem _ hd'))
          (fun d' hd' => hu d' (List.mem_cons_of_mem _ hd')) (priceIs_priceOr _ _ _) w2 hr
        have hrun : ∀ (x : DayStep) (xs : List DayStep), run s (x :: xs) = run (stepDay s x) xs := fun _ _ => rfl
        have hlast : ∀ (x : DayStep) (xs : List DayStep), lastPrice p (x :: xs) = lastPrice x.pCur xs := fun _ _ => rfl
        rw [hrun, hlast]
        refine ⟨?_, i2, i3, i4⟩
        rw [i1, w1, valOn_append]
        grind

/-- `Balance.run` succeeds iff `pipelineRun` from the empty state does, with the same final state; the report inserts
are the Query stage applied to the collected transactions -/
theorem run_pipelineRun (cfg : BalCfg) (days : List Day) (stF : BalState) (h : Balance.run cfg days = .ok stF) :
    ∃ txs, pipelineRun cfg {} days = .ok (stF, txs) ∧ stF.entries = txs.flatMap (Balance.queryTx cfg) := by
  unfold Balance.run at h
  rw [foldlM_day_eq] at h
  cases hp : pipelineRun cfg {} days with
  | error e => rw [hp] at h; cases h
  | ok r =>
    obtain ⟨st', txs⟩ := r
    rw [hp] at h
    simp only [Except.map] at h
    injection h with h; subst h
    refine ⟨txs, rfl, ?_⟩
    have := pipelineRun_entries cfg days {} st' txs hp
    rw [this]
    rfl

/-! ### the Query stage: report inserts of a plain valued report -/

/-- no `-m` mapping, no `--remap`, no account/commodity filter -/
structure Plain (cfg : BalCfg) : Prop where
  mapping : cfg.mapping = []
  remap : ∀ s, cfg.remap s = false
  acc : ∀ s, cfg.accountFilter s = true
  com : ∀ s, cfg.commodityFilter s = true

/-- the total of the report inserts on account `a`, commodity `c` (over all columns) -/
def entryVal (a : Account) (c : Commodity) (es : List Entry) : Rat :=
  ((es.filter (fun e => decide (e.account = a) && decide (e.commodity = c))).map (·.amount)).sum

theorem queryPosting_plain (cfg : BalCfg) (hp : Plain cfg) (hv : cfg.valuation.isSome = true) (t : Transaction) (p : Posting) :
    Balance.queryPosting cfg t p = some ⟨alignIn cfg.periods t.date, p.account, p.commodity, p.value⟩ := by
  unfold Balance.queryPosting mapAccount shorten mappingLevel
  simp only [hp.acc, hp.com, hp.remap, hp.mapping, hv, Bool.and_self, if_true, List.find?_nil, Bool.false_eq_true, if_false]

theorem entryVal_queryTx (cfg : BalCfg) (hp : Plain cfg) (hv : cfg.valuation.isSome = true) (a : Account) (c : Commodity)
    (t : Transaction) :
    entryVal a c (Balance.queryTx cfg t) = ((t.postings.filter (onPos a c)).map (·.value)).sum := by
  unfold Balance.queryTx entryVal
  generalize t.postings = ps
  induction ps with
  | nil => rfl
  | cons p rest ih =>
    rw [List.filterMap_cons, queryPosting_plain cfg hp hv t p]
    simp only [List.filter_cons]
    unfold onPos
    split
    · simp only [List.map_cons, List.sum_cons, ih]; rfl
    · exact ih

theorem entryVal_append (a : Account) (c : Commodity) (xs ys : List Entry) :
    entryVal a c (xs ++ ys) = entryVal a c xs + entryVal a c ys := by
  unfold entryVal
  rw [List.filter_append, List.map_append, sum_append_rat]

/-- in a plain valued report the inserts on `(a, c)` total the values of the postings on `(a, c)` -/
theorem entryVal_flatMap (cfg : BalCfg) (hp : Plain cfg) (hv : cfg.valuation.isSome = true) (a : Account) (c : Commodity)
    (txs : List Transaction) : entryVal a c (txs.flatMap (Balance.queryTx cfg)) = valOn a c txs := by
  induction txs with
  | nil => rfl
  | cons t rest ih =>
    rw [List.flatMap_cons, entryVal_append, ih, entryVal_queryTx cfg hp hv]
    unfold valOn
    rw [posOn_cons, List.map_append, sum_append_rat]

end Knut.MTM
