import Knut.FactsAgree.TransImportSupercard
/-!
# `ch.supercard`, run level: the translated `readLine` folded as `parser.parse` folds it = `Import.Supercard.run`

`cmd/importer/supercard/supercard.go`:

```go
func (p *parser) parse() error {
	p.reader.TrimLeadingSpace = true
	p.reader.Comma = ';'
	p.reader.FieldsPerRecord = 13
	if err := p.checkFirstLine(); err != nil { return err }   // FieldsPerRecord = 2 for this one Read (restored by the defer);
	                                                          // rec[0] != "sep=" || rec[1] != "" -> error
	if err := p.skipHeader(); err != nil { return err }       // `_, err := p.reader.Read(); return err` with FieldsPerRecord = 13
	p.reader.FieldsPerRecord = -1
	for {
		if err := p.readLine(); err != nil {
			if err == io.EOF { return nil }
			return err
		}
	}
}
```

`parse`, `checkFirstLine` and the loop are NOT translated (a `defer`, an endless `for` around a reader): `checkFirstLine`, `loop`,
`parse` below are their hand-written transcriptions, folding the TRANSLATED `supercard.parser.readLine`
(`Generated/TransImportSupercard.lean`, regenerated on every run) over what the `encoding/csv.Reader` delivers.  The reader stays an
`ext`; what is read by hand: its successive results are the list `deliveries recs` — the first record is read with
`FieldsPerRecord = 2`, the second with `FieldsPerRecord = 13` (another length comes together with `csv.ErrFieldCount`: `deliverN`), all
later ones with `FieldsPerRecord = -1` (any length, no error) — and when the list is used up the reader delivers `io.EOF` (`eof`).
`Commodities().Get(r[fieldWährung])` runs at most once per record: the callee as a function of its argument,
`ext2 : String → Commodity × Option Error` (`h2v`: the interned commodity for a valid name; `h2e`: an error other than `io.EOF` for an
invalid one — `Get` makes its error with `fmt.Errorf`); `TBDAccount()` always returns the one interned account `ext3`.

**`run_agrees`**: for every list of records, from a parser whose builder stands for a model builder `b`:
`Supercard.run = ok ds` ↦ `parse` returns nil and the builder stands for `b` with `ds` added in order;
`error` ↦ `parse` returns an error; `panic` ↦ `parse` panics (Go's index panic in `r[fieldBuchungstext]` on a record of fewer than
five fields after the header).  Full agreement, no `outOfFuel`.

`loop_agrees` is the same statement for the loop alone (`mapRows (row acct)`); `readLine_error_ne_eof`: the errors `readLine` makes
itself (or passes on from `Get`) do not end the loop as `io.EOF` does.
-/
namespace Knut.FactsAgree.TransImportSupercardRun
open Knut Knut.GoSem
open Knut.Generated.Go
open Knut.FactsAgree.TransAccount Knut.FactsAgree.TransPosting Knut.FactsAgree.TransJournal Knut.FactsAgree.TransImportSupercard

/-- `io.EOF` -/
def eof : Error := ⟨"EOF"⟩
/-- `csv.ErrFieldCount` (as `encoding/csv` wraps it in a `*csv.ParseError`) -/
def errFieldCount : Error := ⟨"wrong number of fields"⟩

/-- what `p.reader.Read()` returns for the record `r` when `FieldsPerRecord = n > 0` -/
def deliverN (n : Nat) (r : List String) : List String × Option Error := (r, if r.length = n then none else some errFieldCount)

/-- the successive results of `p.reader.Read()` on a file whose records are `recs`, as `parse` sets `FieldsPerRecord`: 2 for the first
record, 13 for the second, -1 (no check) from the third on; then `io.EOF` -/
def deliveries : List (List String) → List (List String × Option Error)
  | [] => []
  | [first] => [deliverN 2 first]
  | first :: header :: rows => deliverN 2 first :: deliverN 13 header :: rows.map (fun r => (r, none))

/-- `checkFirstLine` on the reader's result `rd` -/
def checkFirstLine (p : supercard.parser) (rd : List String × Option Error) : GoSem.Outcome (supercard.parser × Option Error) :=
  if rd.2.isSome then .ok (p, rd.2)
  else
    GoSem.Outcome.bind (index rd.1 0) (fun r0 =>
      GoSem.Outcome.bind (if r0 ≠ "sep=" then .ok true else GoSem.Outcome.bind (index rd.1 1) (fun r1 => .ok (decide (r1 ≠ "")))) (fun c =>
        if c then .ok (p, some ⟨"unexpected first line %q"⟩) else .ok (p, none)))

/-- the `for` loop of `parse`: `reads` = the results of the reader still to come, `io.EOF` after them -/
def loop (ext2 : String → commodity.Commodity × Option Error) (ext3 : account.Account) :
    supercard.parser → List (List String × Option Error) → GoSem.Outcome (supercard.parser × Option Error)
  | p, [] =>
    GoSem.Outcome.bind (supercard.parser.readLine p ([], some eof) (ext2 "") ext3) (fun (p', err) =>
      if err = some eof then .ok (p', none) else .ok (p', err))
  | p, rd :: reads =>
    GoSem.Outcome.bind (supercard.parser.readLine p rd (ext2 (rd.1.getD 9 "")) ext3) (fun (p', err) =>
      if err = some eof then .ok (p', none)
      else if err.isSome then .ok (p', err)
      else loop ext2 ext3 p' reads)

/-- `parser.parse`: `checkFirstLine` (first result of the reader), `skipHeader` (second result; its error, `io.EOF` included, is
returned), then the loop -/
def parse (ext2 : String → commodity.Commodity × Option Error) (ext3 : account.Account) (p : supercard.parser) :
    List (List String × Option Error) → GoSem.Outcome (supercard.parser × Option Error)
  | [] => checkFirstLine p ([], some eof)
  | first :: rest =>
    GoSem.Outcome.bind (checkFirstLine p first) (fun (p1, err) =>
      if err.isSome then .ok (p1, err)
      else match rest with
        | [] => .ok (p1, some eof)
        | hd :: reads => if hd.2.isSome then .ok (p1, hd.2) else loop ext2 ext3 p1 reads)

theorem newFromString_error_ne_eof (s : String) : (Decimal.NewFromString s).2 ≠ some eof := by
  unfold Decimal.NewFromString
  cases Parse.newFromString s with
  | some v => simp
  | none => decide

/-- an error that `parseAmount` makes is never `io.EOF` -/
theorem parseAmount_error_ne_eof (p : supercard.parser) (r : List String) (hr : r.length = 13) (q : Rat) (e : Error)
    (h : supercard.parser.parseAmount p r = .ok (q, some e)) : e ≠ eof := by
  obtain ⟨f0, f1, f2, f3, f4, f5, f6, f7, f8, f9, f10, f11, f12, rfl⟩ := len13 hr
  revert h
  unfold supercard.parser.parseAmount
  simp only [index, supercard.fieldGutschrift, supercard.fieldBelastung, GoSem.Outcome.bind]
  simp
  have h11n := newFromString_error_ne_eof f11
  have h10n := newFromString_error_ne_eof f10
  generalize Decimal.NewFromString f11 = x11 at *
  generalize Decimal.NewFromString f10 = x10 at *
  obtain ⟨v11, e11⟩ := x11
  obtain ⟨v10, e10⟩ := x10
  by_cases h11 : 0 < Strings.byteLen f11
  · simp only [h11, if_true]
    cases e11 with
    | none => intro h; simp at h
    | some e' => intro h; simp at h; rw [← h.2]; intro he; exact h11n (by rw [he])
  · simp only [h11, if_false]
    by_cases h10 : 0 < Strings.byteLen f10
    · simp only [h10, if_true]
      cases e10 with
      | none => intro h; simp at h
      | some e' => intro h; simp at h; rw [← h.2]; intro he; exact h10n (by rw [he])
    · simp only [h10, if_false]
      intro h; simp at h; rw [← h.2]; decide

/-- an error that `parseBooking` makes itself or passes on is never `io.EOF` -/
theorem parseBooking_error_ne_eof (p : supercard.parser) (r : List String) (hr : r.length = 13)
    (ext1 : commodity.Commodity × Option Error) (ext2 : account.Account) (hx : ext1.2 ≠ some eof) (q : supercard.parser) (e : Error)
    (h : supercard.parser.parseBooking p r ext1 ext2 = .ok (q, some e)) : e ≠ eof := by
  revert h
  unfold supercard.parser.parseBooking
  rw [parseWords_agrees p r hr, parseCurrency_agrees p r hr, parseDate_agrees p r hr]
  simp only [GoSem.Outcome.bind]
  cases Import.parseDate Import.layoutDMYdot (Import.fldD r 3) with
  | none => intro h; simp at h; rw [← h.2]; decide
  | some d =>
    simp only [Option.isSome_none, Bool.false_eq_true, if_false]
    cases ha : supercard.parser.parseAmount p r with
    | panic m => intro h; simp at h
    | outOfFuel => intro h; simp at h
    | ok qa =>
      obtain ⟨qv, qe⟩ := qa
      cases qe with
      | some e' =>
        have := parseAmount_error_ne_eof p r hr qv e' ha
        intro h; simp at h; rw [← h.2]; exact this
      | none =>
        simp only [Option.isSome_none, Bool.false_eq_true, if_false]
        cases hx2 : ext1.2 with
        | none => intro h; simp at h
        | some e' =>
          intro h; simp at h
          rw [← h.2]; intro he; exact hx (by rw [hx2, he])

theorem bind_ok_inv {α β : Type} {x : GoSem.Outcome α} {f : α → GoSem.Outcome β} {y : β}
    (h : GoSem.Outcome.bind x f = .ok y) : ∃ a, x = .ok a ∧ f a = .ok y := by
  cases x with
  | ok a => exact ⟨a, rfl, h⟩
  | panic m => simp [GoSem.Outcome.bind] at h
  | outOfFuel => simp [GoSem.Outcome.bind] at h

/-- an error that `readLine` makes itself or passes on (from `Get`) is never `io.EOF` -/
theorem readLine_error_ne_eof (p : supercard.parser) (r : List String)
    (ext2 : commodity.Commodity × Option Error) (ext3 : account.Account) (hx : ext2.2 ≠ some eof) (q : supercard.parser) (e : Error)
    (h : supercard.parser.readLine p (r, none) ext2 ext3 = .ok (q, some e)) : e ≠ eof := by
  unfold supercard.parser.readLine at h
  simp only [Option.isSome_none, Bool.false_eq_true, if_false] at h
  obtain ⟨t, _, h⟩ := bind_ok_inv h
  split at h
  · simp at h
  · obtain ⟨t4, _, h⟩ := bind_ok_inv h
    split at h
    · simp at h
    · split at h
      · simp at h; rw [← h.2]; decide
      · rename_i h13
        have hr : r.length = 13 := by
          have h13' : ((r.length : Int) = 13) := by
            apply Classical.byContradiction
            intro hne
            apply h13
            simp [len, hne]
          omega
        obtain ⟨t5, hpb, h⟩ := bind_ok_inv h
        obtain ⟨p5, e5⟩ := t5
        cases e5 with
        | none => simp at h
        | some e' =>
          have := parseBooking_error_ne_eof p r hr ext2 ext3 hx p5 e' hpb
          simp at h; rw [← h.2]; exact this

theorem foldl_add_append (b : Knut.Builder) (xs ys : List Knut.Directive) :
    (xs ++ ys).foldl Knut.Builder.add b = ys.foldl Knut.Builder.add (xs.foldl Knut.Builder.add b) := List.foldl_append

/-- under `h2v` / `h2e` the error of `Get` is never `io.EOF` -/
theorem ext2_ne_eof (cur : String → Bool) (ext2 : String → commodity.Commodity × Option Error)
    (h2v : ∀ s, Import.validCommodity s = true → ext2 s = (commodityGo cur s, none))
    (h2e : ∀ s, Import.validCommodity s = false → ∃ e, (ext2 s).2 = some e ∧ e ≠ eof) (s : String) : (ext2 s).2 ≠ some eof := by
  cases hv : Import.validCommodity s with
  | true => rw [h2v s hv]; simp
  | false =>
    obtain ⟨e, he, hne⟩ := h2e s hv
    rw [he]
    intro h
    exact hne (Option.some.inj h)

/-- the records after the header as the reader delivers them (`FieldsPerRecord = -1`) -/
def free (rows : List (List String)) : List (List String × Option Error) := rows.map (fun r => (r, none))

/-- the loop of `parse` on the deliveries of `rows` is `mapRows (row acct) rows` -/
theorem loop_agrees (cur : String → Bool) (acct : Knut.Account) (ext2 : String → commodity.Commodity × Option Error)
    (ext3 : account.Account)
    (h2v : ∀ s, Import.validCommodity s = true → ext2 s = (commodityGo cur s, none))
    (h2e : ∀ s, Import.validCommodity s = false → ∃ e, (ext2 s).2 = some e ∧ e ≠ eof)
    (h3 : ext3 = accountGo Import.tbd) :
    ∀ (rows : List Import.Rec) (p : supercard.parser) (b : Knut.Builder), BEquiv cur p.builder b → p.account = accountGo acct →
    match Import.mapRows (Import.Supercard.row acct) rows with
    | .ok ds => ∃ p', loop ext2 ext3 p (free rows) = .ok (p', none) ∧ p'.account = p.account ∧
        BEquiv cur p'.builder (ds.foldl Knut.Builder.add b)
    | .error => ∃ p' e, loop ext2 ext3 p (free rows) = .ok (p', some e)
    | .panic => ∃ m, loop ext2 ext3 p (free rows) = .panic m := by
  intro rows
  induction rows with
  | nil =>
    intro p b hb _
    refine ⟨p, ?_, rfl, hb⟩
    simp [free, loop, readLine_reader_error, GoSem.Outcome.bind]
  | cons r rows ih =>
    intro p b hb hacct
    have hg : r.getD 9 "" = Import.fldD r 9 := by simp [Import.fldD]
    have hrow := readLine_agrees cur p b acct r hb hacct (ext2 (Import.fldD r 9)) ext3 (h2v _)
      (fun hv => by obtain ⟨e, he, _⟩ := h2e _ hv; simp [he]) h3
    unfold Import.mapRows
    cases hrw : Import.Supercard.row acct r with
    | ok ds =>
      rw [hrw] at hrow
      obtain ⟨p1, hp1, hacc1, hb1⟩ := hrow
      have ih' := ih p1 _ hb1 (hacc1.trans hacct)
      have hl : loop ext2 ext3 p (free (r :: rows)) = loop ext2 ext3 p1 (free rows) := by
        simp only [free, List.map_cons]
        rw [loop]
        simp only [hg, hp1, GoSem.Outcome.bind]
        simp
      rw [hl]
      cases hm : Import.mapRows (Import.Supercard.row acct) rows with
      | ok ds' =>
        rw [hm] at ih'
        obtain ⟨p', hp', hacc', hb'⟩ := ih'
        refine ⟨p', hp', hacc'.trans hacc1, ?_⟩
        simpa [foldl_add_append] using hb'
      | error => rw [hm] at ih'; exact ih'
      | panic => rw [hm] at ih'; exact ih'
    | error =>
      rw [hrw] at hrow
      obtain ⟨e, he⟩ := hrow
      show ∃ p' e, _ = _
      have hee : e ≠ eof := readLine_error_ne_eof p r _ ext3 (ext2_ne_eof cur ext2 h2v h2e _) p e he
      refine ⟨p, e, ?_⟩
      simp only [free, List.map_cons]
      rw [loop]
      simp only [hg, he, GoSem.Outcome.bind]
      simp [hee]
    | panic =>
      rw [hrw] at hrow
      obtain ⟨m, hm⟩ := hrow
      show ∃ m, _ = _
      refine ⟨m, ?_⟩
      simp only [free, List.map_cons]
      rw [loop]
      simp only [hg, hm, GoSem.Outcome.bind]

/-- `checkFirstLine` on the first record as the reader delivers it with `FieldsPerRecord = 2`: no index panic -/
theorem checkFirstLine_agrees (p : supercard.parser) (first : List String) :
    checkFirstLine p (deliverN 2 first) = .ok (p,
      if first.length ≠ 2 then some errFieldCount
      else if Import.fldD first 0 ≠ "sep=" || Import.fldD first 1 ≠ "" then some ⟨"unexpected first line %q"⟩ else none) := by
  by_cases h2 : first.length = 2
  · obtain ⟨a, b, rfl⟩ : ∃ a b, first = [a, b] := by
      rcases first with _ | ⟨a, _ | ⟨b, _ | ⟨c, r⟩⟩⟩ <;> simp at h2
      exact ⟨_, _, rfl⟩
    by_cases ha : a = "sep="
    · by_cases hb : b = ""
      · simp [checkFirstLine, deliverN, index, GoSem.Outcome.bind, fldD_get, ha, hb]
      · simp [checkFirstLine, deliverN, index, GoSem.Outcome.bind, fldD_get, ha, hb]
    · simp [checkFirstLine, deliverN, index, GoSem.Outcome.bind, fldD_get, ha]
  · simp [checkFirstLine, deliverN, h2]

/-- **`parser.parse`** of `ch.supercard` over the records of a file = `Import.Supercard.run` -/
theorem run_agrees (cur : String → Bool) (acct : Knut.Account) (ext2 : String → commodity.Commodity × Option Error)
    (ext3 : account.Account)
    (h2v : ∀ s, Import.validCommodity s = true → ext2 s = (commodityGo cur s, none))
    (h2e : ∀ s, Import.validCommodity s = false → ∃ e, (ext2 s).2 = some e ∧ e ≠ eof)
    (h3 : ext3 = accountGo Import.tbd)
    (recs : List Import.Rec) (p : supercard.parser) (b : Knut.Builder) (hb : BEquiv cur p.builder b) (hacct : p.account = accountGo acct) :
    match Import.Supercard.run acct recs with
    | .ok ds => ∃ p', parse ext2 ext3 p (deliveries recs) = .ok (p', none) ∧ p'.account = p.account ∧
        BEquiv cur p'.builder (ds.foldl Knut.Builder.add b)
    | .error => ∃ p' e, parse ext2 ext3 p (deliveries recs) = .ok (p', some e)
    | .panic => ∃ m, parse ext2 ext3 p (deliveries recs) = .panic m := by
  match recs with
  | [] => exact ⟨p, eof, rfl⟩
  | [first] =>
    have hrun : Import.Supercard.run acct [first] = .error := by simp [Import.Supercard.run]
    rw [hrun]
    show ∃ p' e, _ = _
    simp only [deliveries, parse, checkFirstLine_agrees, GoSem.Outcome.bind]
    by_cases h2 : first.length = 2
    · by_cases hs : ¬Import.fldD first 0 = "sep=" ∨ ¬Import.fldD first 1 = ""
      · exact ⟨p, ⟨"unexpected first line %q"⟩, by simp [h2, hs]⟩
      · exact ⟨p, eof, by simp [h2, hs]⟩
    · exact ⟨p, errFieldCount, by simp [h2]⟩
  | first :: header :: rows =>
    unfold Import.Supercard.run
    by_cases h2 : first.length = 2
    · by_cases hs : ¬Import.fldD first 0 = "sep=" ∨ ¬Import.fldD first 1 = ""
      · have hsb : (Import.fldD first 0 ≠ "sep=" || Import.fldD first 1 ≠ "") = true := by simpa using hs
        simp only [h2, ne_eq, not_true_eq_false, if_false, hsb, if_true]
        exact ⟨p, ⟨"unexpected first line %q"⟩, by simp [deliveries, parse, checkFirstLine_agrees, GoSem.Outcome.bind, h2, hs]⟩
      · have hsb : ¬ (Import.fldD first 0 ≠ "sep=" || Import.fldD first 1 ≠ "") = true := by simpa using hs
        by_cases h13 : header.length = 13
        · have hp : parse ext2 ext3 p (deliveries (first :: header :: rows)) = loop ext2 ext3 p (free rows) := by
            simp only [deliveries, parse, checkFirstLine_agrees, GoSem.Outcome.bind]
            simp [h2, hs, deliverN, h13, free]
          simp only [h2, ne_eq, not_true_eq_false, if_false, hsb, h13, hp]
          exact loop_agrees cur acct ext2 ext3 h2v h2e h3 rows p b hb hacct
        · simp only [h2, ne_eq, not_true_eq_false, if_false, hsb, h13, not_false_eq_true, if_true]
          exact ⟨p, errFieldCount, by
            simp only [deliveries, parse, checkFirstLine_agrees, GoSem.Outcome.bind]
            simp [h2, hs, deliverN, h13]⟩
    · simp only [h2, ne_eq, not_false_eq_true, if_true]
      exact ⟨p, errFieldCount, by simp [deliveries, parse, checkFirstLine_agrees, GoSem.Outcome.bind, h2]⟩

/-- `Commodities().Get` as a function of the name: the interned commodity, or the error `fmt.Errorf` makes -/
def getGo (cur : String → Bool) (s : String) : commodity.Commodity × Option Error :=
  if Import.validCommodity s then (commodityGo cur s, none) else (GoZero.zero, some ⟨"invalid commodity name %q"⟩)

theorem getGo_valid (cur : String → Bool) (s : String) (h : Import.validCommodity s = true) : getGo cur s = (commodityGo cur s, none) := by
  simp [getGo, h]

theorem getGo_invalid (cur : String → Bool) (s : String) (h : Import.validCommodity s = false) :
    ∃ e, (getGo cur s).2 = some e ∧ e ≠ eof := ⟨⟨"invalid commodity name %q"⟩, by simp [getGo, h], by decide⟩

/-- a statement: `sep=`, the header, a `Saldovortrag` record, a booking, an eleven-field total line -/
def sample : List Import.Rec :=
  [["sep=", ""], ["h0", "h1", "h2", "h3", "h4", "h5", "h6", "h7", "h8", "h9", "h10", "h11", "h12"],
   ["1", "2", "N", "", "Saldovortrag"],
   ["1", "2", "N", "01.02.2023", "Coop  City", "Food", "12.50", "CHF", "", "CHF", "12.50", "", "02.02.2023"],
   ["", "", "", "", "Total", "", "", "", "", "", ""]]

/-- non-vacuity: the sample statement from the fresh builder: one transaction -/
example : ∃ ds, Import.Supercard.run ⟨["Liabilities", "Card"]⟩ sample = .ok ds ∧ ds.length = 1 ∧
    ∃ p', parse (getGo (fun _ => true)) (accountGo Import.tbd) ⟨accountGo ⟨["Liabilities", "Card"]⟩, journal.New⟩
        (deliveries sample) = .ok (p', none) ∧
      BEquiv (fun _ => true) p'.builder (Knut.Builder.ofList ds) := by
  have h := run_agrees (fun _ => true) ⟨["Liabilities", "Card"]⟩ (getGo (fun _ => true)) (accountGo Import.tbd)
    (getGo_valid _) (getGo_invalid _) rfl sample ⟨accountGo ⟨["Liabilities", "Card"]⟩, journal.New⟩ {} (New_agrees _) rfl
  have hok : (match Import.Supercard.run ⟨["Liabilities", "Card"]⟩ sample with | .ok ds => ds.length == 1 | _ => false) = true := by
    decide +kernel
  revert h hok
  cases Import.Supercard.run ⟨["Liabilities", "Card"]⟩ sample with
  | ok ds => exact fun h hok => ⟨ds, rfl, by simpa using hok, h.imp fun p' h => ⟨h.1, h.2.2⟩⟩
  | error => simp
  | panic => simp

/-- non-vacuity of the panic clause: a record of four fields after the header -/
example : ∃ m, parse (getGo (fun _ => true)) (accountGo Import.tbd) ⟨accountGo ⟨["Liabilities", "Card"]⟩, journal.New⟩
    (deliveries [["sep=", ""], ["h0", "h1", "h2", "h3", "h4", "h5", "h6", "h7", "h8", "h9", "h10", "h11", "h12"], ["a", "b", "c", "d"]])
    = .panic m := by
  have h := run_agrees (fun _ => true) ⟨["Liabilities", "Card"]⟩ (getGo (fun _ => true)) (accountGo Import.tbd)
    (getGo_valid _) (getGo_invalid _) rfl
    [["sep=", ""], ["h0", "h1", "h2", "h3", "h4", "h5", "h6", "h7", "h8", "h9", "h10", "h11", "h12"], ["a", "b", "c", "d"]]
    ⟨accountGo ⟨["Liabilities", "Card"]⟩, journal.New⟩ {} (New_agrees _) rfl
  have hp : Import.Supercard.run ⟨["Liabilities", "Card"]⟩
      [["sep=", ""], ["h0", "h1", "h2", "h3", "h4", "h5", "h6", "h7", "h8", "h9", "h10", "h11", "h12"], ["a", "b", "c", "d"]] = .panic := by
    decide +kernel
  rw [hp] at h
  exact h

end Knut.FactsAgree.TransImportSupercardRun
