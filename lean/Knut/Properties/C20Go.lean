import Knut.Properties.C20
import Knut.FactsAgree.TransPerformanceDay
import Knut.FactsAgree.TransWeightsSort
/-!
# C20 on the generated definitions

`Properties/C20.lean` states the clauses of C20 about the models `Performance.returns` and `Weights.*`; the agreement modules
`FactsAgree/TransPerformance*.lean` and `TransWeights*.lean` prove the definitions translated from `/repo`'s
`lib/journal/performance` and `lib/reports/weights` equal to them (under the stated reading of `float64` as exact rationals).  This
module composes them for the two clauses that are about translated code end to end:

* **returns, one line per period** (`C20_returns_every_period_go`): what the translated `ComputeValues`, `ComputeFlows` (run over the days
  by `goDays`) and `Perf` (`perfRun`) PRINT — the recorded `fmt.Printf` calls — are exactly the model's lines `returns f ds`, and their
  dates are the period ends of the requested partition inside the window, each once, in order; for EVERY admissible family of map
  iteration orders.  Hypotheses that stay: those of `returns_pipeline_agrees` — `hin` (the Go days before the two processors stand for the
  valued days `ms` of the model: what the translated stages `ComputePrices`/`check`/`Valuate` leave — per day proved in `TransProcess`, not
  composed over the journal here), `hds` (the captured set of period ends), `hdef` (every factor inside the span is defined: a division
  by zero ends the translated run, Go prints `NaN`) — and `hms` (the model's valuation of the days succeeds with `ms`).
* **weights, a group is the sum of its members** (`C20_nodeWeight_is_wsum_go`, `C20_group_sum_go`, `C20_children_rendered_once_go`): on the
  tree that `NewReport`, ANY log of `Report.Add` calls, `PropagateWeights`, `SortWeighted` leave, for every admissible family of iteration
  orders (`Orders`, and a permutation of each node's children for the sort), read off the Go tree with `weightAt`.

The other clauses of C20 (`C20_weights_share`, `C20_top_sums_to_one`, the zero/ratio clauses) are about `weights.Query.Execute` and
the flows/values, whose translation is covered per function by the agreement modules; their composition with the untranslated
`Query.Execute` (an in-place `append` into a shared array) stays on the model.
-/
namespace Knut.C20Go
open Knut Knut.GoSem Knut.Performance Knut.Weights Knut.PortfolioSpec
open Knut.Generated.Go
open Knut.FactsAgree.TransPerformance Knut.FactsAgree.TransWeights

/-! ## returns -/

/-- the date operand of a recorded `Printf("%v: %0.1f%%\n", d.Date, …)` -/
def dateOf (c : Stdout.PrintfCall) : Int :=
  match c.args with
  | .time d :: _ => d
  | _ => 0

theorem dateOf_lineGo (l : Int × Option Rat) : dateOf (lineGo l) = l.1 := rfl

/-- **what the translated pipeline prints is `returns`, one line per period**: the recorded `Printf` calls of the translated `Perf` are
the model's lines (`lineGo`: the date and 100 × the return, exact), and their dates are the period ends inside the window -/
theorem C20_returns_every_period_go (cur : String → Bool) (f : Flags) (ds : List Directive) (lines : List (Int × Option Rat))
    (h : returns f ds = .ok lines) (part : Knut.Partition) (days : List Knut.Day) (hs : setup f ds = .ok (part, days))
    (ms : List (Int × List Knut.Transaction)) (hms : valuedDays f.cfg ({} : PState).bal days = some ms)
    (ds0 : set.Set Int) (hds : ∀ x, set.Set.Has ds0 x = part.endDates.contains x) (j : journal.Builder)
    (xs : List (journal.Day × DayOrders))
    (hin : ∀ (i : Nat) (h1 : i < xs.length) (h2 : i < ms.length),
      DayIn cur f.cfg ((ms.take i).foldl (fun v m => Performance.valuesDay f.cfg v m.2) []) xs[i] ms[i])
    (hlen : xs.length = ms.length)
    (hdef : ∀ dp ∈ perfDaysV f.cfg ([], []) ms, (Performance.perfSpan part).contains dp.date = true → (Performance.factor dp).isSome) :
    ∃ gds r' out, goDays (calcGo cur f.cfg) (performance.Calculator.ComputeValues.init (calcGo cur f.cfg),
        performance.Calculator.ComputeFlows.init (calcGo cur f.cfg)) xs = .ok gds ∧
      perfRun (Knut.FactsAgree.TransDate.partitionGo part) (performance.Perf.init j (Knut.FactsAgree.TransDate.partitionGo part) ds0) gds =
        .ok ⟨ds0, part.startDates, r', out⟩ ∧
      out = lines.map lineGo ∧
      out.map dateOf = part.endDates.filter (fun e => part.span.contains e) ∧
      (part.span.start ≤ part.span.stop → out.map dateOf = part.endDates) := by
  obtain ⟨gds, r', h1, h2⟩ := returns_pipeline_agrees cur f.cfg part ds0 hds j xs ms hin hlen hdef
  have hpf := perfFrom_perfDaysV f.cfg days ({} : PState) ms hms
  have hl : lines = Performance.perfLines (Performance.perfSpan part) part.endDates (some 1) (perfDaysV f.cfg ([], []) ms) := by
    unfold returns at h
    rw [hs] at h
    simp only at h
    rw [hpf] at h
    simp only at h
    injection h with h
    exact h.symm
  obtain ⟨part', days', hs', hd1, hd2⟩ := C20.C20_returns_every_period f ds lines h
  rw [hs] at hs'
  injection hs' with hs'
  injection hs' with hp' _
  subst hp'
  refine ⟨gds, r', lines.map lineGo, h1, by rw [hl]; exact h2, rfl, ?_, ?_⟩
  · rw [List.map_map]
    have : (dateOf ∘ lineGo) = (fun l : Int × Option Rat => l.1) := by funext l; rfl
    rw [this]; exact hd1
  · intro hle
    rw [List.map_map]
    have : (dateOf ∘ lineGo) = (fun l : Int × Option Rat => l.1) := by funext l; rfl
    rw [this]; exact hd2 hle

/-! ## weights -/

/-- the three steps of the report on a log of adds: `NewReport`, the adds, `PropagateWeights`, `SortWeighted` -/
def reportGo (L : Log) (o1 : List String → List Int) (o2 o3 : List String → List String) : GoSem.Outcome weights.Report :=
  (addAll weights.NewReport L).bind fun r =>
    (weights.Report.PropagateWeights r o1 o2).bind fun r1 =>
      weights.Report.SortWeighted r1 o3

/-- the weight the Go tree holds for the node at `q` on date `d` (an absent node, a nil map, an absent entry: 0 — displayed empty) -/
def weightAt (T : Node) (q : List String) (d : Int) : Rat :=
  (((MNode.nodeAt? T q).bind (fun m => m.Value.Weights)).bind (fun W => AMap.find? W d)).getD 0

/-- admissible iteration orders for the whole report: `Orders` for the traversal of `PropagateWeights` on the tree after the adds, and
for the traversal of `SortWeighted` a permutation of every node's children -/
def OrdersOK (L : Log) (o1 : List String → List Int) (o2 o3 : List String → List String) : Prop :=
  (∀ r, addAll weights.NewReport L = .ok r → Orders L [] r.weights o1 o2) ∧
  (∀ r T, addAll weights.NewReport L = .ok r → weights.Report.PropagateWeights r o1 o2 = .ok { r with weights := T } →
    ∀ q m, MNode.nodeAt? T q = some m → (o3 q).Perm (AMap.keys m.Children))

/-- **the bridge**: the report of the translated code never panics, and every node of its tree is the node of its path in the model's
terms -/
theorem reportGo_ok (L : Log) (o1 : List String → List Int) (o2 o3 : List String → List String) (ho : OrdersOK L o1 o2 o3) :
    ∃ R, reportGo L o1 o2 o3 = .ok R ∧ (∀ d, set.Set.Has R.dates d = (L.map (·.date)).contains d) ∧
      ∀ q m, MNode.nodeAt? R.weights q = some m →
        m.Value.Weight = Weights.sortKey L q ∧
        (∃ W, m.Value.Weights = some W ∧ ∀ d, AMap.find? W d = Weights.nodeWeight L q d) ∧
        AMap.keys m.Children = Weights.childSegs L q ∧
        m.SortedKeys = Weights.sortedChildren L false q := by
  obtain ⟨r, hr, hdates, hrest⟩ := Report_pipeline_agrees L o1 o2 o3
  obtain ⟨T, hT, hrest2⟩ := hrest (ho.1 r hr)
  obtain ⟨T', hT', hnodes⟩ := hrest2 (ho.2 r T hr hT)
  refine ⟨{ r with weights := T' }, ?_, hdates, ?_⟩
  · unfold reportGo
    rw [hr]; simp only [GoSem.Outcome.bind]
    rw [hT]
    exact hT'
  · intro q m hm
    obtain ⟨a, ⟨W, hW, _, hWd⟩, c, e⟩ := hnodes q m hm
    exact ⟨a, ⟨W, hW, hWd⟩, c, e⟩

/-- **the displayed weight of a node is `wsum`**: the sum of the weights added at or below its path on that date -/
theorem C20_nodeWeight_is_wsum_go (L : Log) (o1 : List String → List Int) (o2 o3 : List String → List String)
    (ho : OrdersOK L o1 o2 o3) {R : weights.Report} (hR : reportGo L o1 o2 o3 = .ok R) (q : List String) (m : Node)
    (hm : MNode.nodeAt? R.weights q = some m) (d : Int) : weightAt R.weights q d = wsum L q d := by
  obtain ⟨R', hR', _, hn⟩ := reportGo_ok L o1 o2 o3 ho
  rw [hR] at hR'; injection hR' with e; subst e
  obtain ⟨_, ⟨W, hW, hWd⟩, _, _⟩ := hn q m hm
  unfold weightAt
  simp only [hm, Option.bind_some, hW, hWd]
  exact C20.C20_nodeWeight_is_wsum L q d

theorem find?_isSome_of_mem_keys {κ ν : Type} [DecidableEq κ] (m : AMap κ ν) (k : κ) (h : k ∈ AMap.keys m) :
    ∃ v, AMap.find? m k = some v := by
  induction m with
  | nil => simp [AMap.keys] at h
  | cons e rest ih =>
    obtain ⟨a, b⟩ := e
    by_cases hak : a = k
    · exact ⟨b, by simp [AMap.find?, hak]⟩
    · simp only [AMap.keys, List.map_cons, List.mem_cons] at h
      rcases h with h | h
      · exact absurd h.symm hak
      · obtain ⟨v, hv⟩ := ih h
        exact ⟨v, by simp [AMap.find?, hak, hv]⟩

/-- **a group's weight is the sum of its members** (plus what was added on the group node itself), on the Go tree: the weight of a
node is `ownSum` plus the weights of the nodes of its `Children` -/
theorem C20_group_sum_go (L : Log) (o1 : List String → List Int) (o2 o3 : List String → List String)
    (ho : OrdersOK L o1 o2 o3) {R : weights.Report} (hR : reportGo L o1 o2 o3 = .ok R) (q : List String) (m : Node)
    (hm : MNode.nodeAt? R.weights q = some m) (d : Int) :
    weightAt R.weights q d = ownSum L q d + ((AMap.keys m.Children).map (fun s => weightAt R.weights (q ++ [s]) d)).sum := by
  rw [C20_nodeWeight_is_wsum_go L o1 o2 o3 ho hR q m hm d, C20.C20_group_sum L q d]
  obtain ⟨R', hR', _, hn⟩ := reportGo_ok L o1 o2 o3 ho
  rw [hR] at hR'; injection hR' with e; subst e
  obtain ⟨_, _, hkeys, _⟩ := hn q m hm
  rw [← hkeys]
  congr 2
  apply List.map_congr_left
  intro s hs
  obtain ⟨c, hc⟩ := find?_isSome_of_mem_keys m.Children s hs
  have hcn : MNode.nodeAt? R.weights (q ++ [s]) = some c := by
    rw [MNode.nodeAt?_append, hm]
    simp [MNode.nodeAt?_cons, hc]
  exact (C20_nodeWeight_is_wsum_go L o1 o2 o3 ho hR (q ++ [s]) c hcn d).symm

/-- **every member is rendered once**: the order in which `renderNode` walks a node's children (`Sorted`) is a permutation of its
children -/
theorem C20_children_rendered_once_go (L : Log) (o1 : List String → List Int) (o2 o3 : List String → List String)
    (ho : OrdersOK L o1 o2 o3) {R : weights.Report} (hR : reportGo L o1 o2 o3 = .ok R) (q : List String) (m : Node)
    (hm : MNode.nodeAt? R.weights q = some m) : m.SortedKeys.Perm (AMap.keys m.Children) := by
  obtain ⟨R', hR', _, hn⟩ := reportGo_ok L o1 o2 o3 ho
  rw [hR] at hR'; injection hR' with e; subst e
  obtain ⟨_, _, hkeys, hsorted⟩ := hn q m hm
  rw [hkeys, hsorted]
  exact C20.C20_children_rendered_once L false q

/-- the iteration orders cannot show: two admissible families give trees that agree on every weight -/
theorem C20_orders_irrelevant_go (L : Log) (o1 o1' : List String → List Int) (o2 o3 o2' o3' : List String → List String)
    (ho : OrdersOK L o1 o2 o3) (ho' : OrdersOK L o1' o2' o3') {R R' : weights.Report}
    (hR : reportGo L o1 o2 o3 = .ok R) (hR' : reportGo L o1' o2' o3' = .ok R') (q : List String) (m m' : Node)
    (hm : MNode.nodeAt? R.weights q = some m) (hm' : MNode.nodeAt? R'.weights q = some m') (d : Int) :
    weightAt R.weights q d = weightAt R'.weights q d ∧ m.SortedKeys = m'.SortedKeys := by
  refine ⟨by rw [C20_nodeWeight_is_wsum_go L o1 o2 o3 ho hR q m hm d, C20_nodeWeight_is_wsum_go L o1' o2' o3' ho' hR' q m' hm' d], ?_⟩
  obtain ⟨R1, hR1, _, hn1⟩ := reportGo_ok L o1 o2 o3 ho
  obtain ⟨R2, hR2, _, hn2⟩ := reportGo_ok L o1' o2' o3' ho'
  rw [hR] at hR1; injection hR1 with e; subst e
  rw [hR'] at hR2; injection hR2 with e; subst e
  rw [(hn1 q m hm).2.2.2, (hn2 q m' hm').2.2.2]

/-! ### Non-vacuity: the empty log of adds (a query that matched nothing): every order family is admissible, the report is the empty
tree -/
example : ∃ R, reportGo [] (fun _ => []) (fun _ => []) (fun _ => []) = .ok R := by
  have ho : OrdersOK [] (fun _ => []) (fun _ => []) (fun _ => []) := by
    constructor
    · intro r hr
      simp only [addAll] at hr
      injection hr with hr; subst hr
      refine ⟨?_, fun _ => List.nodup_nil, fun q a ha => by simp [Knut.FactsAgree.TransWeights.below] at ha⟩
      intro q m hm
      cases q with
      | nil => simp only [MNode.nodeAt?_nil, Option.some.injEq] at hm; subst hm; simp [weights.NewReport, MNode.new, AMap.keys]
      | cons s rest => simp [MNode.nodeAt?_cons, weights.NewReport, MNode.new, AMap.find?] at hm
    · intro r T hr hT q m hm
      obtain ⟨r0, hr0, hrest⟩ := PropagateWeights_model [] (fun _ => []) (fun _ => [])
      rw [hr] at hr0; injection hr0 with e; subst e
      have hord : Orders [] [] r.weights (fun _ => []) (fun _ => []) := by
        simp only [addAll] at hr
        injection hr with hr; subst hr
        refine ⟨?_, fun _ => List.nodup_nil, fun q a ha => by simp [Knut.FactsAgree.TransWeights.below] at ha⟩
        intro q m hm
        cases q with
        | nil => simp only [MNode.nodeAt?_nil, Option.some.injEq] at hm; subst hm; simp [weights.NewReport, MNode.new, AMap.keys]
        | cons s rest => simp [MNode.nodeAt?_cons, weights.NewReport, MNode.new, AMap.find?] at hm
      obtain ⟨T0, hT0, hnodes⟩ := hrest hord
      rw [hT] at hT0
      injection hT0 with e
      have eT : T = T0 := by simpa using congrArg weights.Report.weights e
      subst eT
      obtain ⟨_, _, hk⟩ := hnodes q m hm
      rw [hk]
      simp [childSegs, Weights.below, dedup]
  obtain ⟨R, hR, _⟩ := reportGo_ok [] _ _ _ ho
  exact ⟨R, hR⟩

end Knut.C20Go
