package main

import (
	"fmt"
	"os"
	"path/filepath"
	"strings"
	"time"

	"github.com/shopspring/decimal"
)

func init() { runners["C16"] = runC16 }

// ---------------------------------------------------------------- a small line-based beancount reader

type c16Posting struct {
	Account string
	Amount  string
	Cur     string
}

type c16Entry struct {
	Kind     byte // 'o' open, 'c' close, 't' transaction
	Day      int
	Account  string // o, c
	Desc     string // t
	Postings []c16Posting
}

// c16Read reads the text `knut transcode` writes: the option line, then open / close / transaction entries,
// each followed by a blank line. A transaction is `<date> * "<description>"` (the description may span lines
// but cannot contain a double quote) followed by posting lines `  <account> <amount> <currency>`.
func c16Read(text string) (currency string, entries []c16Entry, err error) {
	const head = "option \"operating_currency\" \""
	if !strings.HasPrefix(text, head) {
		return "", nil, fmt.Errorf("no option line")
	}
	rest := text[len(head):]
	q := strings.Index(rest, "\"\n\n")
	if q < 0 {
		return "", nil, fmt.Errorf("unterminated option line")
	}
	currency = rest[:q]
	rest = rest[q+3:]
	line := func() string {
		k := strings.IndexByte(rest, '\n')
		if k < 0 {
			l := rest
			rest = ""
			return l
		}
		l := rest[:k]
		rest = rest[k+1:]
		return l
	}
	for rest != "" {
		if len(rest) < 11 {
			return currency, entries, fmt.Errorf("trailing garbage %q", rest)
		}
		t, perr := time.Parse("2006-01-02", rest[:10])
		if perr != nil {
			return currency, entries, fmt.Errorf("bad date %q", rest[:10])
		}
		day := dayNum(t)
		rest = rest[10:]
		switch {
		case strings.HasPrefix(rest, " open "), strings.HasPrefix(rest, " close "):
			kind := byte('o')
			if strings.HasPrefix(rest, " close ") {
				kind = 'c'
				rest = rest[len(" close "):]
			} else {
				rest = rest[len(" open "):]
			}
			acc := line()
			if acc == "" || strings.ContainsAny(acc, " \t\"") {
				return currency, entries, fmt.Errorf("bad account %q", acc)
			}
			if line() != "" {
				return currency, entries, fmt.Errorf("no blank line after open/close of %s", acc)
			}
			entries = append(entries, c16Entry{Kind: kind, Day: day, Account: acc})
		case strings.HasPrefix(rest, " * \""):
			rest = rest[len(" * \""):]
			k := strings.IndexByte(rest, '"')
			if k < 0 || !strings.HasPrefix(rest[k:], "\"\n") {
				return currency, entries, fmt.Errorf("unterminated description")
			}
			e := c16Entry{Kind: 't', Day: day, Desc: rest[:k]}
			rest = rest[k+2:]
			for strings.HasPrefix(rest, "  ") {
				f := strings.Split(strings.TrimPrefix(line(), "  "), " ")
				if len(f) != 3 || f[0] == "" {
					return currency, entries, fmt.Errorf("bad posting line %q", strings.Join(f, " "))
				}
				if _, derr := decimal.NewFromString(f[1]); derr != nil {
					return currency, entries, fmt.Errorf("bad amount %q", f[1])
				}
				e.Postings = append(e.Postings, c16Posting{f[0], f[1], f[2]})
			}
			if line() != "" {
				return currency, entries, fmt.Errorf("no blank line after transaction %q", e.Desc)
			}
			entries = append(entries, e)
		default:
			return currency, entries, fmt.Errorf("unknown entry %q", clipN(rest, 40))
		}
	}
	return currency, entries, nil
}

// c16Wire is the entry list in the driver's form (see lean/Knut/Driver/C16.lean).
func c16Wire(es []c16Entry) string {
	if len(es) == 0 {
		return "-"
	}
	parts := make([]string, len(es))
	for i, e := range es {
		switch e.Kind {
		case 'o', 'c':
			parts[i] = fmt.Sprintf("%c~%d~%s", e.Kind, e.Day, Hex(e.Account))
		default:
			ps := make([]string, len(e.Postings))
			for k, p := range e.Postings {
				ps[k] = Hex(p.Account) + "," + p.Amount
			}
			pf := strings.Join(ps, ";")
			if pf == "" {
				pf = "-"
			}
			parts[i] = fmt.Sprintf("t~%d~%s~%s", e.Day, Hex(e.Desc), pf)
		}
	}
	return strings.Join(parts, "|")
}

// ---------------------------------------------------------------- the ledger invariants, evaluated in Go on the real output

func c16IsAL(a string) bool {
	return a == "Assets" || a == "Liabilities" || strings.HasPrefix(a, "Assets:") || strings.HasPrefix(a, "Liabilities:")
}

// c16ValuationAccount is Registry.ValuationAccountFor: Income + the path without its first segment.
func c16ValuationAccount(a string) string {
	segs := strings.Split(a, ":")
	return strings.Join(append([]string{"Income"}, segs[1:]...), ":")
}

// c16AdjustmentLeg: account is the generated valuation account of the asset/liability account whose value adjustment e is.
func c16AdjustmentLeg(e c16Entry, account string) bool {
	const pre = "Adjust value of "
	for _, q := range e.Postings {
		suf := " in account " + q.Account
		if c16IsAL(q.Account) && account == c16ValuationAccount(q.Account) && len(e.Desc) >= len(pre)+len(suf) &&
			strings.HasPrefix(e.Desc, pre) && strings.HasSuffix(e.Desc, suf) {
			return true
		}
	}
	return false
}

// c16OpenOn: some open of a dated o <= day with no close of a dated in [o, day).
func c16OpenOn(es []c16Entry, a string, day int) bool {
	for _, o := range es {
		if o.Kind != 'o' || o.Account != a || o.Day > day {
			continue
		}
		closed := false
		for _, c := range es {
			if c.Kind == 'c' && c.Account == a && o.Day <= c.Day && c.Day < day {
				closed = true
				break
			}
		}
		if !closed {
			return true
		}
	}
	return false
}

type c16Verdict struct {
	Unbalanced   []string
	OutOfOrder   []string
	Unopened     []string // uses of accounts that are not open, other than generated valuation accounts
	UnopenedVal  []string // generated valuation accounts that are never opened (known finding)
	WrongCur     []string
	AdjustmentTx int
	UserTx       int
}

func c16Evaluate(cur string, es []c16Entry) c16Verdict {
	var v c16Verdict
	for i, e := range es {
		if i > 0 && es[i-1].Day > e.Day {
			v.OutOfOrder = append(v.OutOfOrder, fmt.Sprintf("entry %d (%s) follows %s", i, fmtDate(e.Day), fmtDate(es[i-1].Day)))
		}
		if e.Kind != 't' {
			continue
		}
		sum := decimal.Zero
		isAdj := false
		for _, p := range e.Postings {
			d, _ := decimal.NewFromString(p.Amount)
			sum = sum.Add(d)
			if p.Cur != c16Strip(cur) {
				v.WrongCur = append(v.WrongCur, p.Cur)
			}
			if !c16OpenOn(es, p.Account, e.Day) {
				use := fmt.Sprintf("%s in %s %q", p.Account, fmtDate(e.Day), e.Desc)
				if c16AdjustmentLeg(e, p.Account) {
					v.UnopenedVal = append(v.UnopenedVal, use)
				} else {
					v.Unopened = append(v.Unopened, use)
				}
			}
			if c16AdjustmentLeg(e, p.Account) {
				isAdj = true
			}
		}
		if isAdj {
			v.AdjustmentTx++
		} else {
			v.UserTx++
		}
		if !sum.IsZero() {
			v.Unbalanced = append(v.Unbalanced, fmt.Sprintf("%s %q sums to %s", fmtDate(e.Day), e.Desc, sum))
		}
	}
	return v
}

func c16Strip(v string) string {
	var b strings.Builder
	for _, ch := range v {
		if (ch >= 'a' && ch <= 'z') || (ch >= 'A' && ch <= 'Z') {
			b.WriteRune(ch)
		} else {
			b.WriteByte('X')
		}
	}
	return b.String()
}

// ---------------------------------------------------------------- generators

type c16Case struct {
	Stream string
	Idx    int
	J      *Journal
	Text   string
	V      string // the -v argument
	NoV    bool   // no -v flag at all
	Tags   []string
	Code   int
	Stdout string
	Stderr string
}

func (tc *c16Case) Args(path string) []string {
	if tc.NoV {
		return []string{"transcode", path}
	}
	return []string{"transcode", "-v", tc.V, path}
}

func (tc *c16Case) Input() map[string]any {
	a := "transcode -v " + tc.V + " FILE"
	if tc.NoV {
		a = "transcode FILE"
	}
	return map[string]any{"journal": tc.Text, "args": a, "wire_journal": tc.J.Wire()}
}

func c16RenameAccount(j *Journal, from, to string) {
	ren := func(s string) string {
		if s == from {
			return to
		}
		if strings.HasPrefix(s, from+":") {
			return to + s[len(from):]
		}
		return s
	}
	for i := range j.Dirs {
		d := &j.Dirs[i]
		d.Account = ren(d.Account)
		for k := range d.Balances {
			d.Balances[k].Account = ren(d.Balances[k].Account)
		}
		bks := append([]JBook(nil), d.Bookings...)
		for k := range bks {
			bks[k].Credit, bks[k].Debit = ren(bks[k].Credit), ren(bks[k].Debit)
		}
		d.Bookings = bks
	}
}

// c16Ties makes the per-day transaction sort meet ties: equal descriptions on a day, a transaction followed by
// its exact reversal (net zero, so that the generator's balance assertions stay true), exact duplicates of such a pair.
func c16Ties(r *RNG, j *Journal) bool {
	var out []JDir
	changed := false
	for _, d := range j.Dirs {
		if d.Kind != 't' || d.Accrual != nil {
			out = append(out, d)
			continue
		}
		if r.Chance(1, 2) {
			d.Desc = Pick(r, []string{"same", "same", "Same", "", "Adjust value of USD in account Assets:Bank"})
			changed = true
		}
		out = append(out, d)
		if r.Chance(1, 3) {
			rev := d
			rev.Bookings = nil
			for _, b := range d.Bookings {
				rev.Bookings = append(rev.Bookings, JBook{b.Debit, b.Credit, b.Qty, b.Com})
			}
			n := 1
			if r.Chance(1, 3) {
				n = 2
			}
			for k := 0; k < n; k++ {
				if k > 0 {
					out = append(out, d)
				}
				out = append(out, rev)
			}
			changed = true
		}
	}
	j.Dirs = out
	return changed
}

func c16GenCase(c *Ctx, stream string, i int, malformed bool) *c16Case {
	r := c.Rng(stream, i)
	val := Pick(r, []string{"CHF", "CHF", "CHF", "USD", "EUR", "CH2", "Ünit", "X9Y", "chf"})
	o := JGenOpts{MaxAccounts: r.Range(2, 8), MaxDays: r.Range(1, 9), Unicode: true, BaseDay: 737000 + r.Intn(1500),
		SpanDays: Pick(r, []int{0, 1, 5, 12, 40, 400}), ManyDecimals: r.Chance(1, 2), Prices: true, Valuation: val, ChainPrices: r.Chance(1, 3),
		ManyPricesPerDay: r.Chance(1, 4), DupPrices: r.Chance(1, 4)}
	if malformed {
		o.Mutate = r.Chance(1, 2)
		o.DropPrices = r.Chance(1, 3)
	}
	lifecycle := stream == "lifecycle"
	if lifecycle {
		// accounts that hold positions over night, are emptied (wholly, partly, in several bookings), closed on the emptying
		// day or later, re-opened and used again, over more days than the other streams have
		o.BookOut = true
		o.MaxDays = r.Range(3, 14)
		o.MaxAccounts = r.Range(2, 6)
		o.SpanDays = Pick(r, []int{3, 6, 13, 20, 40, 400})
	}
	j, tags := GenJournal(r, o)
	tc := &c16Case{Stream: stream, Idx: i, J: j, V: val, Tags: tags}
	if r.Chance(1, 6) {
		// a user account under the prefix beancount.Transcode looks for
		for _, d := range j.Dirs {
			if d.Kind == 'o' && strings.HasPrefix(d.Account, "Equity:") {
				c16RenameAccount(j, d.Account, "Equity:Valuation:"+strings.ReplaceAll(strings.TrimPrefix(d.Account, "Equity:"), ":", ""))
				tc.Tags = append(tc.Tags, "user-account-with-valuation-prefix")
				break
			}
		}
	}
	if r.Chance(1, 2) && c16Ties(r, j) {
		tc.Tags = append(tc.Tags, "sort-ties")
	}
	if r.Chance(2, 3) {
		// re-price commodities on later days (also on days without any other directive, and after the last one), so that
		// value adjustments occur; sometimes with the unchanged price (no adjustment then)
		var prices []JDir
		lo, hi := 1<<30, 0
		for _, d := range j.Dirs {
			if d.Kind == 'p' {
				prices = append(prices, d)
			}
			lo, hi = min(lo, d.Date), max(hi, d.Date)
		}
		for k := r.Range(1, 4); k > 0 && len(prices) > 0; k-- {
			pd := Pick(r, prices)
			pd.Date = lo + r.Intn(hi-lo+3)
			if !r.Chance(1, 5) {
				pd.Price = fmt.Sprintf("%d.%0*d", r.Range(0, 300), r.Range(1, 4), r.Range(1, 9))
			}
			j.Dirs = append(j.Dirs, pd)
			tc.Tags = append(tc.Tags, "re-priced")
		}
	}
	if lifecycle {
		// prices keep moving while accounts are emptied, closed and re-opened: further quotes of already quoted pairs on the
		// quote's day or any later day of the journal (also between its days and after the last one); with such a quote on
		// a closing day the closed account's last value adjustment is due, after it none may follow
		var prices []JDir
		hi := 0
		for _, d := range j.Dirs {
			if d.Kind == 'p' {
				prices = append(prices, d)
			}
			hi = max(hi, d.Date)
		}
		var days []int
		seen := map[int]bool{}
		for _, d := range j.Dirs {
			if !seen[d.Date] {
				seen[d.Date] = true
				days = append(days, d.Date)
			}
		}
		days = append(days, hi+1, hi+2)
		for k := r.Range(0, 2*len(days)); k > 0 && len(prices) > 0; k-- {
			pd := Pick(r, prices)
			day := Pick(r, days)
			if r.Chance(1, 4) {
				day = pd.Date + r.Intn(hi-pd.Date+3)
			}
			if day < pd.Date {
				continue
			}
			pd.Date = day
			pd.Price = fmt.Sprintf("%d.%0*d", r.Range(0, 300), r.Range(1, 4), r.Range(1, 9))
			j.Dirs = append(j.Dirs, pd)
			tc.Tags = append(tc.Tags, "re-priced")
		}
	}
	if malformed {
		switch r.Intn(8) {
		case 0:
			tc.NoV = true
			tc.Tags = append(tc.Tags, "no-valuation-flag")
		case 1:
			tc.V = Pick(r, []string{"", "A-B", "$", "C HF", "CHF:", "\"", "É!"})
			tc.Tags = append(tc.Tags, "invalid-valuation")
		case 2:
			tc.V = Pick(r, []string{"NOPE", "ZZZ"}) // a commodity without any price
			tc.Tags = append(tc.Tags, "unpriced-valuation")
		case 3:
			if len(j.Dirs) > 0 { // a zero price cannot be inserted
				d := j.Dirs[r.Intn(len(j.Dirs))].Date
				j.Dirs = append(j.Dirs, JDir{Kind: 'p', Date: d, Com: "USD", Price: Pick(r, []string{"0", "0.00"}), Target: val})
				tc.Tags = append(tc.Tags, "zero-price")
			}
		case 4:
			if len(j.Dirs) > 0 { // a booking in a commodity that never gets a price
				d := j.Dirs[len(j.Dirs)-1].Date
				for _, x := range j.Dirs {
					if x.Kind == 'o' {
						j.Dirs = append(j.Dirs, JDir{Kind: 't', Date: d, Desc: "unpriced", Bookings: []JBook{{x.Account, x.Account, "1", "NOPRICE"}}})
						tc.Tags = append(tc.Tags, "unpriced-commodity")
						break
					}
				}
			}
		}
	}
	tc.Text, _ = j.Text()
	return tc
}

func (tc *c16Case) run(c *Ctx, dir string) {
	path := filepath.Join(dir, fmt.Sprintf("%s%d.knut", tc.Stream, tc.Idx+100000))
	os.WriteFile(path, []byte(tc.Text), 0o644)
	tc.Code, tc.Stdout, tc.Stderr = runKnut(c.KnutBin, 20*time.Second, nil, tc.Args(path)...)
	os.Remove(path)
}

func (tc *c16Case) implOutcome() string {
	switch {
	case strings.Contains(tc.Stderr, "panic:") || strings.Contains(tc.Stderr, "goroutine "):
		return "panic"
	case tc.Code == 0:
		return "ok " + Hex(tc.Stdout)
	case tc.Code == -2:
		return "timeout"
	default:
		return "error"
	}
}

// c16Check compares one case with the model and evaluates the ledger invariants on the real output.
// It reports whether the model and the implementation agree.
func c16Check(c *Ctx, bt *Batch, tc *c16Case, agreed *bool) {
	c.Evals++
	in := tc.Input()
	impl := tc.implOutcome()
	for _, t := range tc.Tags {
		c.Tag(t)
	}
	vf := "none"
	if !tc.NoV {
		vf = Hex(tc.V)
	}
	wire := tc.J.Wire()
	bt.Add(func(model string) {
		if model == "unsupported" {
			c.Tag("model-unsupported")
			return
		}
		if !c.Compare(tc.Stream, tc.Idx, "transcode", in, impl, modelOutcomeCanon(model)) {
			*agreed = false
			f := &c.Findings[len(c.Findings)-1]
			if strings.HasPrefix(model, "ok ") {
				f.Model = clip(UnHex(strings.TrimPrefix(model, "ok ")))
			}
			f.Impl = clip(fmt.Sprintf("exit %d\n%s\n%s", tc.Code, tc.Stdout, tc.Stderr))
		}
	}, "transcode", vf, wire)
	sig := []string{}
	for _, t := range tc.Tags {
		switch t {
		case "sort-ties", "user-account-with-valuation-prefix", "price-chained", "price-inverse", "close", "unicode", "zero-amount", "negative-amount":
			sig = append(sig, t[:4])
		case "book-out", "close-on-emptying-day":
			sig = append(sig, t)
		}
		if strings.HasPrefix(t, "mutated:") || strings.HasSuffix(t, "-valuation") || strings.HasSuffix(t, "-flag") || strings.HasPrefix(t, "unpriced") || t == "zero-price" {
			sig = append(sig, t)
		}
	}
	if tc.Code != 0 {
		c.Tag("rejected")
		c.Class(fmt.Sprintf("c16/%s/%s/n%s", strings.Fields(impl)[0], strings.Join(dedup(sig), "+"), bucket(len(tc.J.Dirs))))
		// a failing command writes nothing to stdout and never panics
		c.Monitor(tc.Stream, tc.Idx, "clean_failure", in, impl == "error" && tc.Stdout == "" && strings.TrimSpace(tc.Stderr) != "",
			fmt.Sprintf("exit %d stdout %q stderr %q", tc.Code, clip(tc.Stdout), clip(tc.Stderr)))
		return
	}
	c.Tag("accepted")
	cur, es, err := c16Read(tc.Stdout)
	if !c.Monitor(tc.Stream, tc.Idx, "beancount_readable", in, err == nil, fmt.Sprintf("%v\n%s", err, tc.Stdout)) {
		return
	}
	v := c16Evaluate(cur, es)
	if v.AdjustmentTx > 0 {
		c.Tag("value-adjustments")
		sig = append(sig, "adj")
	}
	if len(v.UnopenedVal) > 0 {
		sig = append(sig, "valacc")
	}
	c.Class(fmt.Sprintf("c16/ok/%s/v%s/tx%s/n%s", strings.Join(dedup(sig), "+"), tc.V, bucket(v.UserTx+v.AdjustmentTx), bucket(len(tc.J.Dirs))))
	out := "\n" + tc.Stdout
	c.Monitor(tc.Stream, tc.Idx, "operating_currency", in, cur == tc.V && len(v.WrongCur) == 0,
		fmt.Sprintf("option names %q, -v is %q, postings in %v%s", cur, tc.V, v.WrongCur, out))
	c.Monitor(tc.Stream, tc.Idx, "balanced", in, len(v.Unbalanced) == 0, strings.Join(v.Unbalanced, "; ")+out)
	c.Monitor(tc.Stream, tc.Idx, "chronological", in, len(v.OutOfOrder) == 0, strings.Join(v.OutOfOrder, "; ")+out)
	c.Monitor(tc.Stream, tc.Idx, "open_before_use_and_not_after_close", in, len(v.Unopened) == 0, "not open: "+strings.Join(v.Unopened, "; ")+out)
	if len(v.UnopenedVal) > 0 {
		c.MonitorKnown(tc.Stream, tc.Idx, "open_before_use_and_not_after_close", in, "generated valuation account never opened: "+strings.Join(v.UnopenedVal, "; ")+out, "valuation-account-not-opened")
	}
	// without loss or duplication (model-free part): every transaction of the journal appears in the output (same day,
	// description and posting accounts, with multiplicity); what remains must be shaped like a value adjustment
	outKeys := map[string]int{}
	txKey := func(day int, desc string, accounts []string) string {
		return fmt.Sprintf("%d|%s|%s", day, Hex(desc), strings.Join(accounts, ","))
	}
	for _, e := range es {
		if e.Kind == 't' {
			var as []string
			for _, p := range e.Postings {
				as = append(as, p.Account)
			}
			outKeys[txKey(e.Day, e.Desc, as)]++
		}
	}
	var lost []string
	for _, d := range tc.J.Dirs {
		if d.Kind != 't' {
			continue
		}
		var as []string
		for _, b := range d.Bookings {
			q, _ := decimal.NewFromString(b.Qty)
			if q.IsNegative() {
				as = append(as, b.Debit, b.Credit)
			} else {
				as = append(as, b.Credit, b.Debit)
			}
		}
		k := txKey(d.Date, d.Desc, as)
		if outKeys[k] == 0 {
			lost = append(lost, fmt.Sprintf("%s %q", fmtDate(d.Date), d.Desc))
		} else {
			outKeys[k]--
		}
	}
	var extra []string
	for _, e := range es {
		if e.Kind != 't' {
			continue
		}
		var as []string
		isAdj := false
		for _, p := range e.Postings {
			as = append(as, p.Account)
			isAdj = isAdj || c16AdjustmentLeg(e, p.Account)
		}
		if k := txKey(e.Day, e.Desc, as); outKeys[k] > 0 && !isAdj {
			outKeys[k]--
			extra = append(extra, fmt.Sprintf("%s %q", fmtDate(e.Day), e.Desc))
		}
	}
	c.Monitor(tc.Stream, tc.Idx, "user_transactions_kept", in, len(lost) == 0 && len(extra) == 0,
		fmt.Sprintf("journal transactions missing from the output: %v; output transactions that are neither in the journal nor value adjustments: %v%s", lost, extra, out))
	// the Lean predicates (BeancountSpec.ledgerOK) on the real output, incl. "transactions = valued transactions of the journal"
	bt.Add(func(mon string) {
		switch {
		case mon == "ok" || mon == "unsupported":
			c.Monitored++
		case mon == "known valuation-account-not-opened":
			c.Monitored++ // recorded above by the Go evaluation
			if len(v.UnopenedVal) == 0 {
				c.Monitor(tc.Stream, tc.Idx, "lean_and_go_lifecycle_agree", in, false, "Lean: "+mon+", Go: all accounts open"+out)
			}
		default:
			f := strings.Fields(mon)
			detail := mon
			if len(f) == 3 && f[0] == "fail" {
				detail = f[1] + ": " + UnHex(f[2])
			}
			c.Monitor(tc.Stream, tc.Idx, "ledgerOK", in, false, detail+out)
		}
	}, "c16mon", Hex(tc.V), wire, c16Wire(es))
}

// c16Witness runs the journal of Properties/C16.lean `witness` (the known finding) against the real binary: the entries
// read from the real output must be the ones the Lean witness states.
func c16Witness(c *Ctx, dir string) {
	if !c.Want("witness", 0) {
		return
	}
	j := &Journal{Dirs: []JDir{
		{Kind: 'p', Date: 737425, Com: "USD", Price: "0.95", Target: "CHF"},
		{Kind: 'o', Date: 737425, Account: "Assets:Bank"},
		{Kind: 'o', Date: 737425, Account: "Equity:E"},
		{Kind: 't', Date: 737425, Desc: "start", Bookings: []JBook{{"Equity:E", "Assets:Bank", "100", "USD"}}},
		{Kind: 'p', Date: 737426, Com: "USD", Price: "0.97", Target: "CHF"},
	}}
	tc := &c16Case{Stream: "witness", Idx: 0, J: j, V: "CHF"}
	tc.Text, _ = j.Text()
	tc.run(c, dir)
	ok := true
	bt := c.NewBatch()
	c16Check(c, bt, tc, &ok)
	bt.Flush()
	_, es, _ := c16Read(tc.Stdout)
	want := "o~737425~" + Hex("Assets:Bank") + "|o~737425~" + Hex("Equity:E") +
		"|t~737425~" + Hex("start") + "~" + Hex("Equity:E") + ",-95;" + Hex("Assets:Bank") + ",95" +
		"|t~737426~" + Hex("Adjust value of USD in account Assets:Bank") + "~" + Hex("Income:Bank") + ",-2;" + Hex("Assets:Bank") + ",2"
	c.Compare("witness", 0, "witness-entries", tc.Input(), c16Wire(es), want)
}

func runC16(c *Ctx) {
	dir := filepath.Join(c.WorkDir, "c16")
	os.MkdirAll(dir, 0o755)
	runStream := func(stream string, lo, hi int, malformed bool) (disagree []int) {
		for a := lo; a < hi; a += 5000 { // bounded memory: 5000 cases at a time
			var cases []*c16Case
			for i := a; i < min(a+5000, hi); i++ {
				if c.Want(stream, i) {
					cases = append(cases, c16GenCase(c, stream, i, malformed))
				}
			}
			parallelFor(len(cases), 16, func(k int) { cases[k].run(c, dir) })
			bt := c.NewBatch()
			flags := make([]bool, len(cases))
			for k, tc := range cases {
				flags[k] = true
				c16Check(c, bt, tc, &flags[k])
				if tc.Idx < 2 && stream == "transcode" {
					c.Sample(map[string]any{"args": tc.Input()["args"], "journal": tc.Text, "stdout": tc.Stdout})
				}
			}
			bt.Flush()
			for k, ok := range flags {
				if !ok {
					disagree = append(disagree, cases[k].Idx)
				}
			}
		}
		return
	}
	c16Witness(c, dir)
	n := c.N(10000, 300000)
	d1 := runStream("transcode", 0, n, false)
	d2 := runStream("malformed", 0, n/4, true)
	d2 = append(d2, runStream("lifecycle", 0, n/4, false)...)
	runDecStream(c, c.N(2000, 20000))
	// directed search: when code and model differ, widen the round (3x the budget of the stream, fresh indices):
	// the invariants are evaluated on the real output of every additional case
	if (len(d1) > 0 || len(d2) > 0) && !c.Replay {
		c.Notes = append(c.Notes, fmt.Sprintf("directed search: %d+%d disagreements, %d additional cases", len(d1), len(d2), 3*n))
		runStream("transcode", n, 4*n, false)
	} else if c.Replay && c.OnlyStr == "transcode" && c.OnlyIndex >= n {
		runStream("transcode", c.OnlyIndex, c.OnlyIndex+1, false)
	}
}
