import Knut.Generated.TransReport
import Knut.FactsAgree.TransAmountsSum
import Knut.Model.BalanceReport
/-!
# The translated `Renderer.render` (the rows of one account or total) agrees with `BalanceReport.renderVals`

`render(t, indent, name, neg, vals)` only WRITES to the table: the translated function returns the LOG of the builder calls
(`TableCall`; a row is identified by the number of the `AddRow` call that created it).  Nothing of package table is
translated; `interp` reads a log with the model's table (`Model/Table.lean`, whose builder and renderers C17 compares with
`table.go`): `AddRow` opens a row, the row methods append a cell to THEIR row, `FillEmpty` pads to the table's width.

* `render_log`: the log `render` returns is the given log followed by one block of calls per commodity (closed form).
* `render_agrees`: read with `interp`, `render` appends exactly `BalanceReport.renderVals` — one row per commodity of
  `vals.CommoditiesSorted()` (name cell in the first, commodity column when drawn, one number per end date: cumulative unless
  `Diff`, negated when `neg`), or the name and empty cells when there are no amounts.
-/
namespace Knut.FactsAgree.TransRender
open Knut Knut.GoSem
open Knut.Generated.Go
open Knut.Table (Cell Align)
open Knut.FactsAgree.TransAmountsSum

abbrev TC := table.TableCall

/-! ## the log `render` writes -/

/-- the number cells of one row: the amounts at the end dates, cumulative unless `Diff`, negated when `neg` -/
def numCalls (diff neg : Bool) (vals : amounts.Amounts) (r : Nat) (com : commodity.Commodity) : List Int → Rat → List TC
  | [], _ => []
  | d :: rest, total =>
    let v := AMap.get vals (amounts.DateCommodityKey d com) 0
    let total' := if diff then total else total + v
    let shown := if diff then v else total + v
    table.TableCall.Row_AddDecimal r (if neg then -shown else shown) :: numCalls diff neg vals r com rest total'

/-- the calls for the row of the `i`-th commodity -/
def rowCalls (rn : balance.Renderer) (indent : Int) (name : String) (neg : Bool) (vals : amounts.Amounts) (r i : Nat)
    (com : commodity.Commodity) : List TC :=
  [table.TableCall.AddRow, if i = 0 then table.TableCall.Row_AddIndented r name indent else table.TableCall.Row_AddEmpty r] ++
  (if rn.drawCommsColumn then
    [if com ≠ GoZero.zero then table.TableCall.Row_AddText r com.name table.Left
     else if rn.Valuation ≠ GoZero.zero then table.TableCall.Row_AddText r rn.Valuation.name table.Left
     else table.TableCall.Row_AddEmpty r]
   else []) ++
  numCalls rn.Diff neg vals r com (date.Partition.EndDates rn.partition) 0

/-- the blocks of the commodities `l`, the first of them being number `k` and written to row `r0` -/
def blocks (rn : balance.Renderer) (indent : Int) (name : String) (neg : Bool) (vals : amounts.Amounts) :
    List commodity.Commodity → Nat → Nat → List TC
  | [], _, _ => []
  | c :: rest, k, r0 => rowCalls rn indent name neg vals r0 k c ++ blocks rn indent name neg vals rest (k + 1) (r0 + 1)

theorem rows_append (a b : table.TableLog) : table.TableLog.rows (a ++ b) = table.TableLog.rows a + table.TableLog.rows b := by
  simp [table.TableLog.rows, List.filter_append]

theorem rows_numCalls (diff neg : Bool) (vals : amounts.Amounts) (r : Nat) (com : commodity.Commodity) (ds : List Int) (total : Rat) :
    table.TableLog.rows (numCalls diff neg vals r com ds total) = 0 := by
  induction ds generalizing total with
  | nil => rfl
  | cons d rest ih =>
    have := ih (if diff then total else total + AMap.get vals (amounts.DateCommodityKey d com) 0)
    simpa [numCalls, table.TableLog.rows, List.filter_cons] using this

theorem rows_rowCalls (rn : balance.Renderer) (indent : Int) (name : String) (neg : Bool) (vals : amounts.Amounts) (r i : Nat)
    (com : commodity.Commodity) : table.TableLog.rows (rowCalls rn indent name neg vals r i com) = 1 := by
  unfold rowCalls
  rw [rows_append, rows_append, rows_numCalls]
  have h1 : table.TableLog.rows [table.TableCall.AddRow, if i = 0 then table.TableCall.Row_AddIndented r name indent else table.TableCall.Row_AddEmpty r] = 1 := by
    by_cases h : i = 0 <;> simp [table.TableLog.rows, h]
  have h2 : table.TableLog.rows (if rn.drawCommsColumn then
      [if com ≠ GoZero.zero then table.TableCall.Row_AddText r com.name table.Left
       else if rn.Valuation ≠ GoZero.zero then table.TableCall.Row_AddText r rn.Valuation.name table.Left
       else table.TableCall.Row_AddEmpty r] else []) = 0 := by
    by_cases h : rn.drawCommsColumn <;> by_cases h3 : com = GoZero.zero <;> by_cases h4 : rn.Valuation = GoZero.zero <;>
      simp [table.TableLog.rows, h, h3, h4]
  rw [h1, h2]

/-- the body of the inner loop over the end dates (as generated) -/
def innerStep (diff neg : Bool) (vals : amounts.Amounts) (row : Nat) (com : commodity.Commodity)
    (st : table.TableLog × Rat) (date : Int) : table.TableLog × Rat :=
  let v : Rat := AMap.get vals (amounts.DateCommodityKey date com) (GoZero.zero : Rat)
  let st13 : Rat × Rat := if (!diff) then (Decimal.Add st.2 v, Decimal.Add st.2 v) else (st.2, v)
  (st.1 ++ [table.TableCall.Row_AddDecimal row (if neg then Decimal.Neg st13.2 else st13.2)], st13.1)

theorem inner_eq (diff neg : Bool) (vals : amounts.Amounts) (row : Nat) (com : commodity.Commodity) (ds : List Int)
    (t : table.TableLog) (total : Rat) :
    (List.foldl (innerStep diff neg vals row com) (t, total) ds).1 = t ++ numCalls diff neg vals row com ds total := by
  induction ds generalizing t total with
  | nil => simp [numCalls]
  | cons d rest ih =>
    have hstep : innerStep diff neg vals row com (t, total) d =
        (t ++ [table.TableCall.Row_AddDecimal row (if neg then -(if diff then AMap.get vals (amounts.DateCommodityKey d com) 0
            else total + AMap.get vals (amounts.DateCommodityKey d com) 0)
          else (if diff then AMap.get vals (amounts.DateCommodityKey d com) 0 else total + AMap.get vals (amounts.DateCommodityKey d com) 0))],
         if diff then total else total + AMap.get vals (amounts.DateCommodityKey d com) 0) := by
      cases diff <;> simp [innerStep]
    rw [List.foldl_cons, hstep, ih]
    simp [numCalls, List.append_assoc]

/-- the body of the loop over the commodities (as generated) -/
def outerStep (rn : balance.Renderer) (indent : Int) (name : String) (neg : Bool) (vals : amounts.Amounts)
    (st : table.TableLog) (el : commodity.Commodity × Nat) : table.TableLog :=
  let t : table.TableLog := st ++ [table.TableCall.AddRow]
  let row : Nat := table.TableLog.rows t - 1
  let t : table.TableLog :=
    if decide ((el.2 : Int) = 0) then t ++ [table.TableCall.Row_AddIndented row name indent] else t ++ [table.TableCall.Row_AddEmpty row]
  let t : table.TableLog :=
    if rn.drawCommsColumn then
      if (!decide (el.1 = (GoZero.zero : commodity.Commodity))) then t ++ [table.TableCall.Row_AddText row (commodity.Commodity.Name el.1) table.Left]
      else if (!decide (rn.Valuation = (GoZero.zero : commodity.Commodity))) then
        t ++ [table.TableCall.Row_AddText row (commodity.Commodity.Name rn.Valuation) table.Left]
      else t ++ [table.TableCall.Row_AddEmpty row]
    else t
  (List.foldl (innerStep rn.Diff neg vals row el.1) (t, (GoZero.zero : Rat)) (date.Partition.EndDates rn.partition)).1

/-- `render`, its loops named -/
theorem render_unfold (rn : balance.Renderer) (t : table.TableLog) (indent : Int) (name : String) (neg : Bool)
    (vals : amounts.Amounts) (order : List amounts.Key) :
    balance.Renderer.render rn t indent name neg vals order =
      if decide (len vals = (0 : Int)) then
        t ++ [table.TableCall.AddRow] ++ [table.TableCall.Row_AddIndented (table.TableLog.rows (t ++ [table.TableCall.AddRow]) - 1) name indent] ++
          [table.TableCall.Row_FillEmpty (table.TableLog.rows (t ++ [table.TableCall.AddRow]) - 1)]
      else List.foldl (outerStep rn indent name neg vals) t (List.zipIdx (amounts.Amounts.CommoditiesSorted vals order)) := rfl

theorem rows_snoc_AddRow (t : table.TableLog) : table.TableLog.rows (t ++ [table.TableCall.AddRow]) - 1 = table.TableLog.rows t := by
  rw [rows_append]; simp [table.TableLog.rows]

theorem outerStep_eq (rn : balance.Renderer) (indent : Int) (name : String) (neg : Bool) (vals : amounts.Amounts)
    (T : table.TableLog) (c : commodity.Commodity) (i : Nat) :
    outerStep rn indent name neg vals T (c, i) = T ++ rowCalls rn indent name neg vals (table.TableLog.rows T) i c := by
  unfold outerStep rowCalls
  simp only [rows_snoc_AddRow, inner_eq, commodity.Commodity.Name, zero_rat]
  have hi : ((i : Int) = 0) ↔ i = 0 := by omega
  by_cases h0 : i = 0 <;> by_cases hd : rn.drawCommsColumn <;> by_cases hc : c = GoZero.zero <;> by_cases hv : rn.Valuation = GoZero.zero <;>
    simp [h0, hd, hc, hv, List.append_assoc]

theorem outer_eq (rn : balance.Renderer) (indent : Int) (name : String) (neg : Bool) (vals : amounts.Amounts)
    (l : List commodity.Commodity) (k : Nat) (T : table.TableLog) :
    List.foldl (outerStep rn indent name neg vals) T (List.zipIdx l k) =
      T ++ blocks rn indent name neg vals l k (table.TableLog.rows T) := by
  induction l generalizing k T with
  | nil => simp [blocks]
  | cons c rest ih =>
    rw [List.zipIdx_cons, List.foldl_cons, outerStep_eq, ih, rows_append, rows_rowCalls]
    simp [blocks, List.append_assoc]

/-- **the log of `render`**: the given log, then `AddRow`, the name cell and `FillEmpty` when there are no amounts, and otherwise
one block of calls per commodity of `vals.CommoditiesSorted()`: `AddRow`, the name cell (first block) or an empty cell, the
commodity cell when the column is drawn, one number per end date -/
theorem render_log (rn : balance.Renderer) (t : table.TableLog) (indent : Int) (name : String) (neg : Bool)
    (vals : amounts.Amounts) (order : List amounts.Key) :
    balance.Renderer.render rn t indent name neg vals order =
      if vals = [] then
        t ++ [table.TableCall.AddRow, table.TableCall.Row_AddIndented (table.TableLog.rows t) name indent,
          table.TableCall.Row_FillEmpty (table.TableLog.rows t)]
      else t ++ blocks rn indent name neg vals (amounts.Amounts.CommoditiesSorted vals order) 0 (table.TableLog.rows t) := by
  rw [render_unfold, outer_eq, rows_snoc_AddRow]
  have : (len vals = (0 : Int)) ↔ vals = [] := by
    cases vals with
    | nil => simp [len]
    | cons a rest => simp only [len, List.length_cons]; constructor
                     · intro h; omega
                     · intro h; cases h
  by_cases h : vals = []
  · simp [h]
  · have h' : ¬ len vals = (0 : Int) := fun e => h (this.1 e)
    simp [h]

/-! ## reading a log with the model's table -/

/-- the state of reading a log: the model's table, the positions (in its rows) of the rows created by `AddRow`, and whether
every call so far has a meaning in the model (`AddPercent`, a row that does not exist, `FillEmpty` of a row longer than the
table is wide do not) -/
structure TS where
  tbl : Knut.Table.Table
  own : List Nat
  ok : Bool

/-- `table.Alignment` -/
def alignOf (a : Int) : Align := if a = 0 then .left else if a = 1 then .right else .center

def addCell (s : TS) (r : Nat) (c : Cell) : TS :=
  match s.own[r]? with
  | some pos => { s with tbl := { s.tbl with rows := s.tbl.rows.modify pos (· ++ [c]) } }
  | none => { s with ok := false }

def step (s : TS) : TC → TS
  | .New gs => ⟨Knut.Table.Table.new (gs.map Int.toNat), [], s.ok⟩
  | .AddRow => ⟨{ s.tbl with rows := s.tbl.rows ++ [[]] }, s.own ++ [s.tbl.rows.length], s.ok⟩
  | .AddSeparatorRow => { s with tbl := s.tbl.addSeparatorRow }
  | .AddEmptyRow => { s with tbl := s.tbl.addEmptyRow }
  | .Row_AddEmpty r => addCell s r .empty
  | .Row_AddText r c a => addCell s r (.text c.toList (alignOf a) 0)
  | .Row_AddIndented r c i => addCell s r (.text c.toList .left i)
  | .Row_AddDecimal r n => addCell s r (.num n)
  | .Row_AddPercent _ _ => { s with ok := false }
  | .Row_FillEmpty r =>
    match s.own[r]? with
    | some pos =>
      match s.tbl.rows[pos]? with
      | some row =>
        if row.length ≤ s.tbl.width then
          { s with tbl := { s.tbl with rows := s.tbl.rows.modify pos (· ++ List.replicate (s.tbl.width - row.length) .empty) } }
        else { s with ok := false }
      | none => { s with ok := false }
    | none => { s with ok := false }

/-- the table a log builds -/
def interp (log : table.TableLog) : TS := log.foldl step ⟨⟨[], []⟩, [], true⟩

theorem interp_append (a b : table.TableLog) : interp (a ++ b) = b.foldl step (interp a) := by
  simp [interp, List.foldl_append]

/-- the cell a cell-adding call on row `r` appends -/
def cellOf (r : Nat) : TC → Option Cell
  | .Row_AddEmpty r' => if r' = r then some .empty else none
  | .Row_AddText r' c a => if r' = r then some (.text c.toList (alignOf a) 0) else none
  | .Row_AddIndented r' c i => if r' = r then some (.text c.toList .left i) else none
  | .Row_AddDecimal r' n => if r' = r then some (.num n) else none
  | _ => none

theorem modify_last {α : Type} (R : List α) (cur : α) (f : α → α) : (R ++ [cur]).modify R.length f = R ++ [f cur] := by
  induction R with
  | nil => rfl
  | cons a rest ih => simp [List.modify_succ_cons, ih]

/-- cell-adding calls on the row that was opened last append their cells to it -/
theorem fold_cells (cols : List Nat) (R : List (List Cell)) (own : List Nat) (ok : Bool) (r : Nat) (hr : own[r]? = some R.length)
    (calls : List TC) (cells : List Cell) (hc : calls.map (cellOf r) = cells.map some) (cur : List Cell) :
    calls.foldl step ⟨⟨cols, R ++ [cur]⟩, own, ok⟩ = ⟨⟨cols, R ++ [cur ++ cells]⟩, own, ok⟩ := by
  induction calls generalizing cells cur with
  | nil =>
    cases cells with
    | nil => simp
    | cons c rest => simp at hc
  | cons call rest ih =>
    cases cells with
    | nil => simp at hc
    | cons c crest =>
      simp only [List.map_cons, List.cons.injEq] at hc
      obtain ⟨h1, h2⟩ := hc
      have hstep : step ⟨⟨cols, R ++ [cur]⟩, own, ok⟩ call = ⟨⟨cols, R ++ [cur ++ [c]]⟩, own, ok⟩ := by
        have cellCase : ∀ (r' : Nat) (c' : Cell), (if r' = r then some c' else none) = some c →
            addCell ⟨⟨cols, R ++ [cur]⟩, own, ok⟩ r' c' = ⟨⟨cols, R ++ [cur ++ [c]]⟩, own, ok⟩ := by
          intro r' c' h
          by_cases hrr : r' = r
          · subst hrr
            simp only [if_true, Option.some.injEq] at h; subst h
            simp [addCell, hr, modify_last]
          · simp [hrr] at h
        cases call with
        | Row_AddEmpty r' => exact cellCase r' _ h1
        | Row_AddText r' c' a => exact cellCase r' _ h1
        | Row_AddIndented r' c' i => exact cellCase r' _ h1
        | Row_AddDecimal r' n => exact cellCase r' _ h1
        | New gs => simp [cellOf] at h1
        | Row_AddPercent r' n => simp [cellOf] at h1
        | Row_FillEmpty r' => simp [cellOf] at h1
        | AddEmptyRow => simp [cellOf] at h1
        | AddRow => simp [cellOf] at h1
        | AddSeparatorRow => simp [cellOf] at h1
      rw [List.foldl_cons, hstep, ih crest h2]
      simp [List.append_assoc]

/-! ## the rows -/

/-- the number cells of a row (model side) -/
def numCells (diff neg : Bool) (cell : Int → Rat) : List Int → Rat → List Cell
  | [], _ => []
  | d :: rest, total =>
    Cell.num (if neg then -(if diff then cell d else total + cell d) else (if diff then cell d else total + cell d)) ::
      numCells diff neg cell rest (if diff then total else total + cell d)

theorem numCalls_cells (diff neg : Bool) (vals : amounts.Amounts) (r : Nat) (com : commodity.Commodity) (ds : List Int) (total : Rat) :
    (numCalls diff neg vals r com ds total).map (cellOf r) =
      (numCells diff neg (fun d => AMap.get vals (amounts.DateCommodityKey d com) 0) ds total).map some := by
  induction ds generalizing total with
  | nil => rfl
  | cons d rest ih => simp [numCalls, numCells, cellOf, ih]

/-- the number cells of `BalanceReport.renderVals` -/
theorem model_nums (diff neg : Bool) (cell : Int → Rat) (ds : List Int) (acc : List Cell) (total : Rat) :
    (ds.foldl (fun (acc : List Cell × Rat) d =>
        let v := cell d
        let (shown, total) := if diff then (v, acc.2) else (acc.2 + v, acc.2 + v)
        (acc.1 ++ [Cell.num (if neg then -shown else shown)], total)) (acc, total)).1 = acc ++ numCells diff neg cell ds total := by
  generalize hf : (fun (acc : List Cell × Rat) d =>
        let v := cell d
        let (shown, total) := if diff then (v, acc.2) else (acc.2 + v, acc.2 + v)
        (acc.1 ++ [Cell.num (if neg then -shown else shown)], total)) = f
  have hstep : ∀ (acc : List Cell) (total : Rat) (d : Int), f (acc, total) d =
      (acc ++ [Cell.num (if neg then -(if diff then cell d else total + cell d) else (if diff then cell d else total + cell d))],
        if diff then total else total + cell d) := by
    intro acc total d; subst hf; cases diff <;> rfl
  induction ds generalizing acc total with
  | nil => simp [numCells]
  | cons d rest ih =>
    rw [List.foldl_cons, hstep, ih]
    simp [numCells, List.append_assoc]

theorem numCells_congr (diff neg : Bool) (c1 c2 : Int → Rat) (ds : List Int) (total : Rat) (h : ∀ d ∈ ds, c1 d = c2 d) :
    numCells diff neg c1 ds total = numCells diff neg c2 ds total := by
  induction ds generalizing total with
  | nil => rfl
  | cons d rest ih =>
    simp only [numCells, h d List.mem_cons_self]
    rw [ih _ (fun x hx => h x (List.mem_cons_of_mem _ hx))]

/-- any fold whose step appends the number cell of the date and updates the running total -/
theorem fold_nums (diff neg : Bool) (cell : Int → Rat) (f : List Cell × Rat → Int → List Cell × Rat)
    (hstep : ∀ (acc : List Cell) (total : Rat) (d : Int), f (acc, total) d =
      (acc ++ [Cell.num (if neg then -(if diff then cell d else total + cell d) else (if diff then cell d else total + cell d))],
        if diff then total else total + cell d))
    (ds : List Int) (acc : List Cell) (total : Rat) : (ds.foldl f (acc, total)).1 = acc ++ numCells diff neg cell ds total := by
  induction ds generalizing acc total with
  | nil => simp [numCells]
  | cons d rest ih =>
    rw [List.foldl_cons, hstep, ih]
    simp [numCells, List.append_assoc]

/-- the cells of the row of the `i`-th commodity -/
def rowCells (rn : balance.Renderer) (indent : Int) (name : String) (neg : Bool) (vals : amounts.Amounts) (i : Nat)
    (com : commodity.Commodity) : List Cell :=
  [if i = 0 then Cell.text name.toList .left indent else .empty] ++
  (if rn.drawCommsColumn then
    [if com ≠ GoZero.zero then Cell.text com.name.toList .left 0
     else if rn.Valuation ≠ GoZero.zero then Cell.text rn.Valuation.name.toList .left 0 else .empty]
   else []) ++
  numCells rn.Diff neg (fun d => AMap.get vals (amounts.DateCommodityKey d com) 0) (date.Partition.EndDates rn.partition) 0

/-- one block of calls opens one row and fills it -/
theorem block_fold (rn : balance.Renderer) (indent : Int) (name : String) (neg : Bool) (vals : amounts.Amounts) (i : Nat)
    (com : commodity.Commodity) (s : TS) :
    (rowCalls rn indent name neg vals s.own.length i com).foldl step s =
      ⟨{ s.tbl with rows := s.tbl.rows ++ [rowCells rn indent name neg vals i com] }, s.own ++ [s.tbl.rows.length], s.ok⟩ := by
  obtain ⟨⟨cols, R⟩, own, ok⟩ := s
  have hsplit : rowCalls rn indent name neg vals own.length i com = table.TableCall.AddRow ::
      (([if i = 0 then table.TableCall.Row_AddIndented own.length name indent else table.TableCall.Row_AddEmpty own.length] ++
      (if rn.drawCommsColumn then
        [if com ≠ GoZero.zero then table.TableCall.Row_AddText own.length com.name table.Left
         else if rn.Valuation ≠ GoZero.zero then table.TableCall.Row_AddText own.length rn.Valuation.name table.Left
         else table.TableCall.Row_AddEmpty own.length]
       else [])) ++ numCalls rn.Diff neg vals own.length com (date.Partition.EndDates rn.partition) 0) := by
    simp [rowCalls]
  have hstep : step ⟨⟨cols, R⟩, own, ok⟩ table.TableCall.AddRow = ⟨⟨cols, R ++ [[]]⟩, own ++ [R.length], ok⟩ := rfl
  have hr : (own ++ [R.length])[own.length]? = some R.length := by simp
  show (rowCalls rn indent name neg vals own.length i com).foldl step ⟨⟨cols, R⟩, own, ok⟩ = _
  rw [hsplit, List.foldl_cons, hstep]
  have := fold_cells cols R (own ++ [R.length]) ok own.length hr
    (([if i = 0 then table.TableCall.Row_AddIndented own.length name indent else table.TableCall.Row_AddEmpty own.length] ++
      (if rn.drawCommsColumn then
        [if com ≠ GoZero.zero then table.TableCall.Row_AddText own.length com.name table.Left
         else if rn.Valuation ≠ GoZero.zero then table.TableCall.Row_AddText own.length rn.Valuation.name table.Left
         else table.TableCall.Row_AddEmpty own.length]
       else [])) ++ numCalls rn.Diff neg vals own.length com (date.Partition.EndDates rn.partition) 0)
    (rowCells rn indent name neg vals i com)
    (by
      unfold rowCells
      simp only [List.map_append, numCalls_cells]
      congr 1
      by_cases h0 : i = 0 <;> by_cases hd : rn.drawCommsColumn <;> by_cases hc : com = GoZero.zero <;>
        by_cases hv : rn.Valuation = GoZero.zero <;> simp [h0, hd, hc, hv, cellOf, alignOf, table.Left]) []
  simpa using this

theorem blocks_fold (rn : balance.Renderer) (indent : Int) (name : String) (neg : Bool) (vals : amounts.Amounts)
    (l : List commodity.Commodity) (k : Nat) (s : TS) :
    ∃ own', (blocks rn indent name neg vals l k s.own.length).foldl step s =
      ⟨{ s.tbl with rows := s.tbl.rows ++ (l.zipIdx k).map (fun e => rowCells rn indent name neg vals e.2 e.1) }, own', s.ok⟩ ∧
      own'.length = s.own.length + l.length := by
  induction l generalizing k s with
  | nil => exact ⟨s.own, by simp [blocks], by simp⟩
  | cons c rest ih =>
    simp only [blocks, List.foldl_append, block_fold]
    have := ih (k + 1) ⟨{ s.tbl with rows := s.tbl.rows ++ [rowCells rn indent name neg vals k c] }, s.own ++ [s.tbl.rows.length], s.ok⟩
    simp only [List.length_append, List.length_cons, List.length_nil, Nat.zero_add] at this
    obtain ⟨own', h1, h2⟩ := this
    refine ⟨own', ?_, by rw [h2]; simp; omega⟩
    rw [h1]
    simp [List.zipIdx_cons, List.append_assoc]

/-- the model's cell of a Go commodity: nil is "no commodity column entry" -/
def comOpt (g : commodity.Commodity) : Option Knut.Commodity := if g = GoZero.zero then none else some g.name

theorem CommoditiesSorted_nil (order : List amounts.Key) : amounts.Amounts.CommoditiesSorted [] order = [] := by
  have h : ∀ (s : set.Set commodity.Commodity), amounts.Amounts.Commodities.range1 [] order s = s := by
    induction order with
    | nil => intro s; rfl
    | cons k rest ih => intro s; simp [amounts.Amounts.Commodities.range1, AMap.find?, ih]
  simp [amounts.Amounts.CommoditiesSorted, amounts.Amounts.Commodities, h, sortedKeys, set.New]

theorem CommoditiesSorted_ne_nil {vals : amounts.Amounts} (hne : vals ≠ []) {order : List amounts.Key}
    (hp : order.Perm (AMap.keys vals)) : amounts.Amounts.CommoditiesSorted vals order ≠ [] := by
  obtain ⟨_, hm⟩ := Commodities_agrees vals hp
  cases vals with
  | nil => exact absurd rfl hne
  | cons e rest =>
    have hmem : e.1.Commodity ∈ AMap.keys (amounts.Amounts.Commodities (e :: rest) order) :=
      (hm _).2 ⟨e.1, by simp [AMap.keys], rfl⟩
    intro h
    unfold amounts.Amounts.CommoditiesSorted sortedKeys at h
    have hperm := List.mergeSort_perm (List.map Prod.fst (amounts.Amounts.Commodities (e :: rest) order))
      (fun a b => decide (commodity.Compare a b ≠ 1))
    simp only at h
    rw [h] at hperm
    have : e.1.Commodity ∈ ([] : List commodity.Commodity) := hperm.mem_iff.2 hmem
    simp at this

/-- **`Renderer.render` against the model**: read with `interp`, the log `render` returns is the given table with the rows of
`BalanceReport.renderVals` appended — for the commodities `vals.CommoditiesSorted()` (any iteration order of `vals`), the cells
being the amounts `vals[DateCommodityKey(date, commodity)]`.  Columns and validity are unchanged (the table is one name column,
the commodity column when drawn, one column per end date; this is what `FillEmpty` fills up to) -/
theorem render_agrees (rc : RenderCfg) (rn : balance.Renderer) (t : table.TableLog) (indent : Nat) (name : String) (neg : Bool)
    (vals : amounts.Amounts) (order : List amounts.Key) (cell : Option Knut.Commodity → Int → Rat)
    (hdiff : rc.diff = rn.Diff) (hends : rc.endDates = date.Partition.EndDates rn.partition)
    (hval : rc.valuation = if rn.Valuation = GoZero.zero then none else some rn.Valuation.name)
    (horder : order.Perm (AMap.keys vals))
    (hcell : ∀ g ∈ amounts.Amounts.CommoditiesSorted vals order, ∀ d ∈ date.Partition.EndDates rn.partition,
      cell (comOpt g) d = AMap.get vals (amounts.DateCommodityKey d g) 0)
    (hown : (interp t).own.length = table.TableLog.rows t)
    (hwidth : (interp t).tbl.width = 1 + (if rn.drawCommsColumn then 1 else 0) + rc.endDates.length) :
    (interp (balance.Renderer.render rn t indent name neg vals order)).tbl.columns = (interp t).tbl.columns ∧
    (interp (balance.Renderer.render rn t indent name neg vals order)).ok = (interp t).ok ∧
    (interp (balance.Renderer.render rn t indent name neg vals order)).tbl.rows = (interp t).tbl.rows ++
      BalanceReport.renderVals rc rn.drawCommsColumn indent name neg ((amounts.Amounts.CommoditiesSorted vals order).map comOpt) cell := by
  rw [render_log]
  by_cases hv : vals = []
  · subst hv
    simp only [if_true, interp_append, CommoditiesSorted_nil, List.map_nil]
    generalize hs : interp t = s at hown hwidth
    obtain ⟨⟨cols, R⟩, own, ok⟩ := s
    simp only at hown
    rw [← hown]
    have h1 : step ⟨⟨cols, R⟩, own, ok⟩ table.TableCall.AddRow = ⟨⟨cols, R ++ [[]]⟩, own ++ [R.length], ok⟩ := rfl
    have hr : (own ++ [R.length])[own.length]? = some R.length := by simp
    have h2 : step ⟨⟨cols, R ++ [[]]⟩, own ++ [R.length], ok⟩ (table.TableCall.Row_AddIndented own.length name indent) =
        ⟨⟨cols, R ++ [[Cell.text name.toList .left indent]]⟩, own ++ [R.length], ok⟩ := by
      simp [step, addCell, modify_last]
    have hw : (1 : Nat) ≤ cols.length := by
      have : cols.length = 1 + (if rn.drawCommsColumn then 1 else 0) + rc.endDates.length := hwidth
      omega
    have h3 : step ⟨⟨cols, R ++ [[Cell.text name.toList .left indent]]⟩, own ++ [R.length], ok⟩ (table.TableCall.Row_FillEmpty own.length) =
        ⟨⟨cols, R ++ [[Cell.text name.toList .left indent] ++ List.replicate (cols.length - 1) .empty]⟩, own ++ [R.length], ok⟩ := by
      simp [step, Knut.Table.Table.width, hw, modify_last]
    simp only [List.foldl_cons, List.foldl_nil, h1, h2, h3, true_and]
    unfold BalanceReport.renderVals
    have : cols.length = 1 + (if rn.drawCommsColumn then 1 else 0) + rc.endDates.length := hwidth
    simp [this]
  · have hne := CommoditiesSorted_ne_nil hv horder
    simp only [hv, if_false, interp_append]
    rw [← hown]
    obtain ⟨own', h1, _⟩ := blocks_fold rn indent name neg vals (amounts.Amounts.CommoditiesSorted vals order) 0 (interp t)
    rw [h1]
    refine ⟨rfl, rfl, ?_⟩
    simp only
    congr 1
    unfold BalanceReport.renderVals
    have hemp : ((amounts.Amounts.CommoditiesSorted vals order).map comOpt).isEmpty = false := by
      cases h : amounts.Amounts.CommoditiesSorted vals order with
      | nil => exact absurd h hne
      | cons a rest => rfl
    simp only [hemp, Bool.false_eq_true, if_false]
    rw [List.zipIdx_map, List.map_map]
    apply List.map_congr_left
    intro e he
    obtain ⟨g, i⟩ := e
    have hg : g ∈ amounts.Amounts.CommoditiesSorted vals order := (List.mem_zipIdx he).2.2 ▸ List.getElem_mem _
    have hnums : ∀ (f : List Cell × Rat → Int → List Cell × Rat),
        (∀ (acc : List Cell) (total : Rat) (d : Int), f (acc, total) d =
          (acc ++ [Cell.num (if neg then -(if rc.diff then cell (comOpt g) d else total + cell (comOpt g) d)
              else (if rc.diff then cell (comOpt g) d else total + cell (comOpt g) d))],
            if rc.diff then total else total + cell (comOpt g) d)) →
        (rc.endDates.foldl f ([], 0)).1 =
          numCells rn.Diff neg (fun d => AMap.get vals (amounts.DateCommodityKey d g) 0) (date.Partition.EndDates rn.partition) 0 := by
      intro f hf
      rw [fold_nums rc.diff neg (cell (comOpt g)) f hf, hdiff, hends]
      exact numCells_congr _ _ _ _ _ _ (hcell g hg)
    simp only [Function.comp, Prod.map, id]
    rw [hnums _ (by intro acc total d; cases h : rc.diff <;> simp)]
    unfold rowCells comOpt
    by_cases hgz : g = GoZero.zero
    · by_cases hvz : rn.Valuation = GoZero.zero
      · simp [hgz, hval, hvz]
      · simp [hgz, hval, hvz]
    · simp [hgz]

/-! ## the invariant `own.length = rows` and non-vacuity -/

theorem step_own (s : TS) (c : TC) (hc : ∀ gs, c ≠ table.TableCall.New gs) :
    (step s c).own.length = s.own.length + table.TableLog.rows [c] := by
  cases c with
  | New gs => exact absurd rfl (hc gs)
  | AddRow => simp [step, table.TableLog.rows]
  | AddSeparatorRow => simp [step, table.TableLog.rows]
  | AddEmptyRow => simp [step, table.TableLog.rows]
  | Row_AddPercent r n => simp [step, table.TableLog.rows]
  | Row_AddEmpty r => simp only [step, addCell, table.TableLog.rows]; cases s.own[r]? <;> simp
  | Row_AddText r c a => simp only [step, addCell, table.TableLog.rows]; cases s.own[r]? <;> simp
  | Row_AddIndented r c i => simp only [step, addCell, table.TableLog.rows]; cases s.own[r]? <;> simp
  | Row_AddDecimal r n => simp only [step, addCell, table.TableLog.rows]; cases s.own[r]? <;> simp
  | Row_FillEmpty r =>
    simp only [step, table.TableLog.rows]
    split
    · split
      · split <;> simp
      · simp
    · simp

/-- a table that was created by `table.New` and written to since: the rows `AddRow` created are numbered as the log counts them
(the hypothesis `hown` of `render_agrees`) -/
theorem own_rows (gs : List Int) (log : table.TableLog) (hlog : ∀ c ∈ log, ∀ gs, c ≠ table.TableCall.New gs) :
    (interp (table.TableCall.New gs :: log)).own.length = table.TableLog.rows (table.TableCall.New gs :: log) := by
  have key : ∀ (log : table.TableLog) (s : TS), (∀ c ∈ log, ∀ gs, c ≠ table.TableCall.New gs) →
      (log.foldl step s).own.length = s.own.length + table.TableLog.rows log := by
    intro log
    induction log with
    | nil => intro s _; simp [table.TableLog.rows]
    | cons c rest ih =>
      intro s h
      rw [List.foldl_cons, ih _ (fun x hx => h x (List.mem_cons_of_mem _ hx)), step_own s c (h c List.mem_cons_self)]
      have : table.TableLog.rows (c :: rest) = table.TableLog.rows [c] + table.TableLog.rows rest := by
        rw [← rows_append]; rfl
      omega
  have h0 : table.TableLog.rows (table.TableCall.New gs :: log) = table.TableLog.rows log := by
    simp [table.TableLog.rows]
  rw [h0]
  simp only [interp, List.foldl_cons]
  rw [key log _ hlog]
  simp [step]

private def exVals : amounts.Amounts :=
  amountsOf [(amounts.DateCommodityKey 5 ⟨"CHF", true⟩, 3), (amounts.DateCommodityKey 9 ⟨"CHF", true⟩, 4), (amounts.DateCommodityKey 9 ⟨"USD", true⟩, -1)]
private def exRn : balance.Renderer :=
  { Valuation := GoZero.zero, SortAlphabetically := false, Diff := false, drawCommsColumn := true,
    partition := { span := ⟨1, 9⟩, interval := 0, periods := [⟨1, 5⟩, ⟨6, 9⟩] } }

/-- the block of calls of one commodity row (cumulative, negated) and the row the model's table gets from it -/
example :
    blocks exRn 2 "Bank" true exVals [⟨"CHF", true⟩] 0 0 =
      [table.TableCall.AddRow, table.TableCall.Row_AddIndented 0 "Bank" 2, table.TableCall.Row_AddText 0 "CHF" table.Left,
       table.TableCall.Row_AddDecimal 0 (-3), table.TableCall.Row_AddDecimal 0 (-7)] ∧
    (interp (table.TableCall.New [1, 1, 2] :: blocks exRn 2 "Bank" true exVals [⟨"CHF", true⟩] 0 0)).tbl.rows =
      [[Cell.text "Bank".toList .left 2, Cell.text "CHF".toList .left 0, Cell.num (-3), Cell.num (-7)]] := by
  decide +kernel

end Knut.FactsAgree.TransRender
