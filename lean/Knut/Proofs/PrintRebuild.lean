import Knut.Proofs.PrintJournal
import Knut.Proofs.PrintSort
import Knut.Proofs.LifecyclePerm
/-!
# The builder rebuilds the printed journal from its directives (C09)

`journalDirs j` are the directives of `j` day by day in print order. Feeding them to `journal.Builder` gives the days of
`j` again, each with its transactions sorted (`normDay`), provided `j` is what a builder produces: days in strictly
increasing date order, none empty, every directive filed under its own date (`JournalShape`). `journal.Print` does not
distinguish `j` from the rebuilt journal (`print_normDays`): sorting is idempotent and the padding is a maximum.
-/
namespace Knut.FromSyntax
open Knut Knut.JournalPrinter

/-- a day with its transactions in `journal.Sort` order -/
def normDay (d : Day) : Day := { d with transactions := sortTxs d.transactions }

/-- what the builder guarantees about a day: it is not empty and holds directives of its own date only -/
def DayShape (d : Day) : Prop := dayDirs d ≠ [] ∧ ∀ x ∈ dayDirs d, x.date = d.date

instance (d : Day) : Decidable (DayShape d) := by unfold DayShape; exact inferInstance

/-- what the builder guarantees about the list of days -/
def JournalShape (j : List Day) : Prop := Sorted j ∧ ∀ d ∈ j, DayShape d

instance (j : List Day) : Decidable (JournalShape j) := by unfold JournalShape Sorted; exact inferInstance

theorem collect_nil_of_ne {α : Type} (k : Kind α) (ds : List Directive) (y : Int) (h : ∀ x ∈ ds, x.date ≠ y) :
    collect k ds y = [] := by
  unfold collect
  apply List.filterMap_eq_nil_iff.mpr
  intro x hx
  simp [h x hx]

theorem collect_append {α : Type} (k : Kind α) (a b : List Directive) (y : Int) :
    collect k (a ++ b) y = collect k a y ++ collect k b y := by
  unfold collect; exact List.filterMap_append

theorem collect_same {α : Type} (k : Kind α) (ds : List Directive) (y : Int) (h : ∀ x ∈ ds, x.date = y) :
    collect k ds y = ds.filterMap k.pick := by
  unfold collect
  induction ds with
  | nil => rfl
  | cons x rest ih =>
    simp only [List.filterMap_cons, h x List.mem_cons_self, if_true]
    rw [ih (fun z hz => h z (List.mem_cons_of_mem _ hz))]

theorem fm_none {α β : Type} (l : List α) : l.filterMap (fun _ => (none : Option β)) = [] := by
  induction l with
  | nil => rfl
  | cons x rest ih => simp

theorem filterMap_dayDirs_tx (d : Day) : (dayDirs d).filterMap txKind.pick = sortTxs d.transactions := by
  simp [dayDirs, txKind, List.filterMap_append, List.filterMap_map, Function.comp_def, fm_none]
theorem filterMap_dayDirs_open (d : Day) : (dayDirs d).filterMap openKind.pick = d.openings := by
  simp [dayDirs, openKind, List.filterMap_append, List.filterMap_map, Function.comp_def, fm_none]
theorem filterMap_dayDirs_close (d : Day) : (dayDirs d).filterMap closeKind.pick = d.closings := by
  simp [dayDirs, closeKind, List.filterMap_append, List.filterMap_map, Function.comp_def, fm_none]
theorem filterMap_dayDirs_price (d : Day) : (dayDirs d).filterMap priceKind.pick = d.prices := by
  simp [dayDirs, priceKind, List.filterMap_append, List.filterMap_map, Function.comp_def, fm_none]
theorem filterMap_dayDirs_assert (d : Day) : (dayDirs d).filterMap assertKind.pick = d.assertions := by
  simp [dayDirs, assertKind, List.filterMap_append, List.filterMap_map, Function.comp_def, fm_none]

/-- a kind whose part of a printed day is what the sorted day stores -/
def KindOK {α : Type} (k : Kind α) : Prop := ∀ d, (dayDirs d).filterMap k.pick = k.proj (normDay d)

theorem kindOK_tx : KindOK txKind := filterMap_dayDirs_tx
theorem kindOK_open : KindOK openKind := filterMap_dayDirs_open
theorem kindOK_close : KindOK closeKind := filterMap_dayDirs_close
theorem kindOK_price : KindOK priceKind := filterMap_dayDirs_price
theorem kindOK_assert : KindOK assertKind := filterMap_dayDirs_assert

theorem contentOn_cons {α : Type} (k : Kind α) (d : Day) (rest : List Day) (y : Int) :
    contentOn k (d :: rest) y = if d.date = y then k.proj d else contentOn k rest y := by
  unfold contentOn findDay
  rw [List.find?_cons]
  by_cases h : d.date = y <;> simp [h]

theorem contentOn_none {α : Type} (k : Kind α) (days : List Day) (y : Int) (h : ∀ d ∈ days, d.date ≠ y) :
    contentOn k days y = [] := by
  unfold contentOn findDay
  have : days.find? (fun d => decide (d.date = y)) = none := List.find?_eq_none.mpr (fun d hd => by simp [h d hd])
  rw [this]; rfl

/-- the printed directives, collected per date and kind, are the content of the sorted days -/
theorem collect_journalDirs {α : Type} (k : Kind α) (hk : KindOK k) (j : List Day) (h : JournalShape j) (y : Int) :
    collect k (journalDirs j) y = contentOn k (j.map normDay) y := by
  induction j with
  | nil => rfl
  | cons d rest ih =>
    obtain ⟨hs, hd⟩ := h
    unfold Sorted at hs
    rw [List.pairwise_cons] at hs
    have hrest : JournalShape rest := ⟨hs.2, fun x hx => hd x (List.mem_cons_of_mem _ hx)⟩
    have hdd := (hd d List.mem_cons_self).2
    simp only [journalDirs, List.flatMap_cons, List.map_cons] at ih ⊢
    rw [collect_append, contentOn_cons]
    have hnd : (normDay d).date = d.date := rfl
    rw [hnd]
    by_cases hy : d.date = y
    · subst hy
      rw [if_pos rfl, collect_same k _ _ hdd, hk d, collect_nil_of_ne, List.append_nil]
      intro x hx
      obtain ⟨d', hd', hx⟩ := List.mem_flatMap.mp hx
      have := (hd d' (List.mem_cons_of_mem _ hd')).2 x hx
      have := hs.1 d' hd'
      omega
    · rw [if_neg hy, collect_nil_of_ne k _ _ (fun x hx => by rw [hdd x hx]; exact hy), List.nil_append]
      exact ih hrest

theorem journalDirs_dates (j : List Day) (h : ∀ d ∈ j, DayShape d) (y : Int) :
    y ∈ (journalDirs j).map (·.date) ↔ y ∈ j.map (·.date) := by
  simp only [journalDirs, List.mem_map, List.mem_flatMap]
  constructor
  · rintro ⟨x, ⟨d, hd, hx⟩, rfl⟩
    exact ⟨d, hd, ((h d hd).2 x hx).symm⟩
  · rintro ⟨d, hd, rfl⟩
    obtain ⟨x, hx⟩ := List.exists_mem_of_ne_nil _ (h d hd).1
    exact ⟨x, ⟨d, hd, hx⟩, (h d hd).2 x hx⟩

theorem day_ext (d d' : Day) (h0 : d.date = d'.date) (h1 : txKind.proj d = txKind.proj d') (h2 : openKind.proj d = openKind.proj d')
    (h3 : closeKind.proj d = closeKind.proj d') (h4 : priceKind.proj d = priceKind.proj d')
    (h5 : assertKind.proj d = assertKind.proj d') : d = d' := by
  cases d; cases d'
  simp only [txKind, openKind, closeKind, priceKind, assertKind] at *
  simp [*]

theorem eq_of_forall₂_eq {α : Type} : ∀ (a b : List α), List.Forall₂ Eq a b → a = b
  | [], [], _ => rfl
  | _ :: _, _ :: _, .cons h t => by rw [h, eq_of_forall₂_eq _ _ t]

theorem pairwise_dates (days : List Day) (h : Sorted days) : List.Pairwise (· < ·) (days.map (·.date)) := by
  unfold Sorted at h
  rw [List.pairwise_map]; exact h

/-- two sorted day lists with the same dates and, per date and kind, the same content are equal -/
theorem days_ext (a b : List Day) (ha : Sorted a) (hb : Sorted b) (hd : ∀ y, y ∈ a.map (·.date) ↔ y ∈ b.map (·.date))
    (hc : ∀ y, contentOn txKind a y = contentOn txKind b y ∧ contentOn openKind a y = contentOn openKind b y ∧
      contentOn closeKind a y = contentOn closeKind b y ∧ contentOn priceKind a y = contentOn priceKind b y ∧
      contentOn assertKind a y = contentOn assertKind b y) : a = b := by
  apply eq_of_forall₂_eq
  apply forall₂_of_dates _ _ (sorted_dates_unique _ _ (pairwise_dates a ha) (pairwise_dates b hb) hd)
  intro d hda d' hdb hdate
  have key : ∀ {α : Type} (k : Kind α), contentOn k a d.date = contentOn k b d.date → k.proj d = k.proj d' := by
    intro α k hk
    rw [contentOn_self k a ha d hda, hdate, contentOn_self k b hb d' hdb] at hk
    exact hk
  obtain ⟨c1, c2, c3, c4, c5⟩ := hc d.date
  exact day_ext d d' hdate (key _ c1) (key _ c2) (key _ c3) (key _ c4) (key _ c5)

/-- **the builder rebuilds the printed journal**: same days, transactions in sort order -/
theorem rebuild (j : List Day) (h : JournalShape j) : (Builder.ofList (journalDirs j)).build = j.map normDay := by
  unfold Builder.build
  have hs := (ofList_spec txKind (journalDirs j)).1
  have hsn : Sorted (j.map normDay) := map_sorted j normDay (fun _ => rfl) h.1
  apply days_ext _ _ hs hsn
  · intro y
    rw [ofList_dates, journalDirs_dates j h.2, List.map_map]
    rfl
  · intro y
    exact ⟨by rw [(ofList_spec txKind _).2, collect_journalDirs _ kindOK_tx j h],
      by rw [(ofList_spec openKind _).2, collect_journalDirs _ kindOK_open j h],
      by rw [(ofList_spec closeKind _).2, collect_journalDirs _ kindOK_close j h],
      by rw [(ofList_spec priceKind _).2, collect_journalDirs _ kindOK_price j h],
      by rw [(ofList_spec assertKind _).2, collect_journalDirs _ kindOK_assert j h]⟩

/-! ### `journal.Print` does not see the difference -/

/-- the width a transaction contributes to the padding -/
def txWidth (m : Nat) (t : Transaction) : Nat :=
  t.postings.foldl (fun m p => max m (max (runeLen p.account.name) (runeLen p.other.name))) m

theorem foldl_max {α : Type} (f : α → Nat) (l : List α) (m : Nat) :
    l.foldl (fun m x => max m (f x)) m = max m (l.foldl (fun m x => max m (f x)) 0) := by
  induction l generalizing m with
  | nil => simp
  | cons x rest ih =>
    simp only [List.foldl_cons]
    rw [ih, ih (max 0 (f x))]
    omega

theorem txWidth_max (m : Nat) (t : Transaction) : txWidth m t = max m (txWidth 0 t) := foldl_max _ _ _

theorem txWidth_comm (m : Nat) (t u : Transaction) : txWidth (txWidth m t) u = txWidth (txWidth m u) t := by
  rw [txWidth_max (txWidth m t) u, txWidth_max (txWidth m u) t, txWidth_max m t, txWidth_max m u]
  omega

theorem padding_normDays (j : List Day) : padding (j.map normDay) = padding j := by
  unfold padding
  rw [List.foldl_map]
  congr 1
  funext m d
  exact ((List.mergeSort_perm d.transactions _).foldl_eq' (f := txWidth) (fun x _ y _ z => txWidth_comm z x y) m)

theorem printDay_normDay (pad : Nat) (d : Day) : printDay pad (normDay d) = printDay pad d := by
  unfold printDay normDay
  simp only [sortTxs_idem]

/-- the rebuilt journal prints like the original -/
theorem print_normDays (j : List Day) : print (j.map normDay) = print j := by
  unfold print
  rw [padding_normDays, List.map_map]
  congr 1
  apply List.map_congr_left
  intro d _
  exact printDay_normDay _ d

/-! ### the printed directives are a permutation of the directives the journal was built from -/

theorem perm_flatMap_congr' {α β : Type} (l : List α) (f g : α → List β) (h : ∀ a ∈ l, (f a).Perm (g a)) :
    (l.flatMap f).Perm (l.flatMap g) := by
  induction l with
  | nil => exact List.Perm.refl _
  | cons a rest ih =>
    simp only [List.flatMap_cons]
    exact (h a List.mem_cons_self).append (ih (fun b hb => h b (List.mem_cons_of_mem _ hb)))

/-- the directives of a day, transactions in insertion order -/
def rawDirs (d : Day) : List Directive :=
  d.prices.map .price ++ (d.openings.map .opening ++ (d.transactions.map .tx ++
    (d.assertions.map .assertion ++ d.closings.map .closing)))

theorem dayDirs_perm_raw (d : Day) : (dayDirs d).Perm (rawDirs d) := by
  unfold dayDirs rawDirs
  simp only [List.append_assoc]
  exact (List.Perm.refl _).append ((List.Perm.refl _).append
    ((((List.mergeSort_perm d.transactions _).map _)).append (List.Perm.refl _)))

theorem rawDirs_add (d : Day) (x : Directive) : (rawDirs (d.add x)).Perm (x :: rawDirs d) := by
  rw [List.perm_iff_count]
  intro a
  cases x <;> simp only [Day.add, rawDirs, List.map_append, List.map_cons, List.map_nil, List.count_append, List.count_cons,
    List.count_nil] <;> omega

theorem map_add_id (days : List Day) (x : Directive) (h : ∀ d ∈ days, d.date ≠ x.date) :
    days.map (fun d => if d.date = x.date then d.add x else d) = days := by
  conv => rhs; rw [← List.map_id days]
  apply List.map_congr_left
  intro d hd
  simp [h d hd]

theorem rawDirs_empty (date : Int) : rawDirs { date := date } = [] := rfl

/-- adding a directive to sorted days adds exactly that directive -/
theorem addToDays_perm (days : List Day) (hs : Sorted days) (x : Directive) :
    ((addToDays days x).flatMap rawDirs).Perm (x :: days.flatMap rawDirs) := by
  induction days with
  | nil =>
    simp only [addToDays, insertDay, List.map_cons, List.map_nil, if_true, List.flatMap_cons, List.flatMap_nil, List.append_nil]
    have := rawDirs_add { date := x.date } x
    rwa [rawDirs_empty] at this
  | cons d rest ih =>
    unfold Sorted at hs
    rw [List.pairwise_cons] at hs
    unfold addToDays insertDay
    split
    · rename_i hlt
      have hne : ∀ d' ∈ d :: rest, d'.date ≠ x.date := by
        intro d' hd'
        rcases List.mem_cons.mp hd' with rfl | hd'
        · omega
        · have := hs.1 d' hd'; omega
      rw [List.map_cons, map_add_id _ x hne]
      simp only [if_true, List.flatMap_cons]
      have := rawDirs_add { date := x.date } x
      rw [rawDirs_empty] at this
      exact this.append_right _
    · split
      · rename_i h1 h2
        have hne : ∀ d' ∈ rest, d'.date ≠ x.date := by
          intro d' hd'
          have := hs.1 d' hd'; omega
        rw [List.map_cons, map_add_id _ x hne]
        simp only [h2.symm, if_true, List.flatMap_cons]
        exact (rawDirs_add d x).append_right _
      · rename_i h1 h2
        have hd : ¬ d.date = x.date := fun e => h2 e.symm
        rw [List.map_cons]
        simp only [hd, if_false, List.flatMap_cons]
        have := ih hs.2
        unfold addToDays at this
        exact (this.append_left (rawDirs d)).trans List.perm_middle

theorem ofList_perm_raw (ds : List Directive) : ((Builder.ofList ds).days.flatMap rawDirs).Perm ds := by
  unfold Builder.ofList
  suffices h : ∀ (ds : List Directive) (b : Builder), Sorted b.days →
      ((ds.foldl Builder.add b).days.flatMap rawDirs).Perm (b.days.flatMap rawDirs ++ ds) by
    have := h ds {} (by simp [Sorted])
    simpa using this
  intro ds
  induction ds with
  | nil => intro b _; simp
  | cons x rest ih =>
    intro b hs
    simp only [List.foldl_cons]
    have h1 := ih (b.add x) (by rw [Builder.add_days]; exact addToDays_sorted _ _ hs)
    rw [Builder.add_days] at h1
    exact h1.trans (((addToDays_perm b.days hs x).append_right rest).trans (by
      simpa using (List.perm_middle (a := x) (l₁ := b.days.flatMap rawDirs) (l₂ := rest)).symm))

/-- **the directives print writes are a permutation of the directives the journal was built from** -/
theorem journalDirs_built_perm (ds : List Directive) : (journalDirs (Builder.ofList ds).build).Perm ds :=
  (perm_flatMap_congr' _ _ _ (fun d _ => dayDirs_perm_raw d)).trans (ofList_perm_raw ds)

/-! ### what the builder produces has the shape the round trip needs -/

theorem mem_collect {α : Type} (k : Kind α) (ds : List Directive) (y : Int) (a : α) :
    a ∈ collect k ds y ↔ ∃ x ∈ ds, x.date = y ∧ k.pick x = some a := by
  unfold collect
  simp only [List.mem_filterMap]
  constructor
  · rintro ⟨x, hx, h⟩
    split at h
    · exact ⟨x, hx, by assumption, h⟩
    · cases h
  · rintro ⟨x, hx, hd, h⟩
    exact ⟨x, hx, by simp [hd, h]⟩

/-- every directive of a built day carries the day's date -/
theorem built_dates (ds : List Directive) (d : Day) (hd : d ∈ (Builder.ofList ds).days) :
    ∀ x ∈ dayDirs d, x.date = d.date := by
  intro x hx
  have key : ∀ {α : Type} (k : Kind α) (a : α), a ∈ k.proj d → ∃ x ∈ ds, x.date = d.date ∧ k.pick x = some a := by
    intro α k a ha
    have hs := ofList_spec k ds
    rw [← contentOn_self k _ hs.1 d hd, hs.2] at ha
    exact (mem_collect k ds d.date a).mp ha
  rcases (mem_dayDirs d x).mp hx with ⟨p, hp, rfl⟩ | ⟨o, ho, rfl⟩ | ⟨t, ht, rfl⟩ | ⟨a, ha, rfl⟩ | ⟨c, hc, rfl⟩
  · obtain ⟨x, _, h1, h2⟩ := key priceKind p hp
    cases x <;> simp only [priceKind, Option.some.injEq, reduceCtorEq] at h2
    subst h2; exact h1
  · obtain ⟨x, _, h1, h2⟩ := key openKind o ho
    cases x <;> simp only [openKind, Option.some.injEq, reduceCtorEq] at h2
    subst h2; exact h1
  · obtain ⟨x, _, h1, h2⟩ := key txKind t ht
    cases x <;> simp only [txKind, Option.some.injEq, reduceCtorEq] at h2
    subst h2; exact h1
  · obtain ⟨x, _, h1, h2⟩ := key assertKind a ha
    cases x <;> simp only [assertKind, Option.some.injEq, reduceCtorEq] at h2
    subst h2; exact h1
  · obtain ⟨x, _, h1, h2⟩ := key closeKind c hc
    cases x <;> simp only [closeKind, Option.some.injEq, reduceCtorEq] at h2
    subst h2; exact h1

/-- no built day is empty -/
theorem built_nonempty (ds : List Directive) (d : Day) (hd : d ∈ (Builder.ofList ds).days) : dayDirs d ≠ [] := by
  have hdate : d.date ∈ (Builder.ofList ds).days.map (·.date) := List.mem_map.mpr ⟨d, hd, rfl⟩
  rw [ofList_dates] at hdate
  obtain ⟨x, hx, hxd⟩ := List.mem_map.mp hdate
  have key : ∀ {α : Type} (k : Kind α) (a : α), k.pick x = some a → a ∈ k.proj d := by
    intro α k a ha
    have hs := ofList_spec k ds
    rw [← contentOn_self k _ hs.1 d hd, hs.2]
    exact (mem_collect k ds d.date a).mpr ⟨x, hx, hxd, ha⟩
  intro he
  have hnone : ∀ y, y ∉ dayDirs d := by rw [he]; intro y hy; cases hy
  cases x with
  | price p => exact hnone _ ((mem_dayDirs d _).mpr (Or.inl ⟨p, key priceKind p rfl, rfl⟩))
  | opening o => exact hnone _ ((mem_dayDirs d _).mpr (Or.inr (Or.inl ⟨o, key openKind o rfl, rfl⟩)))
  | tx t => exact hnone _ ((mem_dayDirs d _).mpr (Or.inr (Or.inr (Or.inl ⟨t, key txKind t rfl, rfl⟩))))
  | assertion a => exact hnone _ ((mem_dayDirs d _).mpr (Or.inr (Or.inr (Or.inr (Or.inl ⟨a, key assertKind a rfl, rfl⟩)))))
  | closing c => exact hnone _ ((mem_dayDirs d _).mpr (Or.inr (Or.inr (Or.inr (Or.inr ⟨c, key closeKind c rfl, rfl⟩)))))

/-- **every journal the builder produces has the shape the round trip needs** -/
theorem built_shape (ds : List Directive) : JournalShape (Builder.ofList ds).build :=
  ⟨(ofList_spec txKind ds).1, fun d hd => ⟨built_nonempty ds d hd, built_dates ds d hd⟩⟩

theorem mem_journalDirs_built (ds : List Directive) (x : Directive) : x ∈ journalDirs (Builder.ofList ds).build ↔ x ∈ ds :=
  (journalDirs_built_perm ds).mem_iff

/-! ### printable journals -/

/-- a day `journal.Print` writes such that the loader and the builder give it back: the builder's shape (not empty,
directives of its own date), every directive printable (`PrintableDir`: dates 0001..9999, names of letters and digits,
decimal amounts, assertions with at least one balance, transactions with a quote-free description and postings in the
booking normal form `transaction.Create` builds) -/
def PrintableDay (d : Day) : Prop := rawDirs d ≠ [] ∧ ∀ x ∈ rawDirs d, x.date = d.date ∧ PrintableDir x

instance (d : Day) : Decidable (PrintableDay d) := by unfold PrintableDay; exact inferInstance

/-- days in strictly increasing date order, each printable -/
def PrintableJournal (j : List Day) : Prop := Sorted j ∧ ∀ d ∈ j, PrintableDay d

instance (j : List Day) : Decidable (PrintableJournal j) := by unfold PrintableJournal Sorted; exact inferInstance

theorem PrintableDay.shape {d : Day} (h : PrintableDay d) : DayShape d := by
  have hp := dayDirs_perm_raw d
  refine ⟨fun e => h.1 ?_, fun x hx => (h.2 x (hp.mem_iff.mp hx)).1⟩
  rw [e] at hp
  exact hp.nil_eq.symm

theorem PrintableDay.dirs {d : Day} (h : PrintableDay d) : ∀ x ∈ dayDirs d, PrintableDir x :=
  fun x hx => (h.2 x ((dayDirs_perm_raw d).mem_iff.mp hx)).2

theorem printableDay_of {d : Day} (hs : DayShape d) (hp : ∀ x ∈ dayDirs d, PrintableDir x) : PrintableDay d := by
  have hperm := dayDirs_perm_raw d
  refine ⟨fun e => hs.1 ?_, fun x hx => ⟨hs.2 x (hperm.mem_iff.mpr hx), hp x (hperm.mem_iff.mpr hx)⟩⟩
  rw [e] at hperm
  exact hperm.eq_nil

theorem PrintableJournal.shape {j : List Day} (h : PrintableJournal j) : JournalShape j :=
  ⟨h.1, fun d hd => (h.2 d hd).shape⟩

theorem PrintableJournal.dirs {j : List Day} (h : PrintableJournal j) : ∀ x ∈ journalDirs j, PrintableDir x := by
  intro x hx
  obtain ⟨d, hd, hx⟩ := List.mem_flatMap.mp hx
  exact (h.2 d hd).dirs x hx

/-- the journal the builder makes of printable directives is printable -/
theorem printable_built (ds : List Directive) (h : ∀ x ∈ ds, PrintableDir x) : PrintableJournal (Builder.ofList ds).build := by
  have hs := built_shape ds
  refine ⟨hs.1, fun d hd => printableDay_of (hs.2 d hd) (fun x hx => h x ?_)⟩
  exact (mem_journalDirs_built ds x).mp (List.mem_flatMap.mpr ⟨d, hd, hx⟩)

end Knut.FromSyntax
