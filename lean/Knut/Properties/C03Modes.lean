import Knut.Proofs.MTMDiff
import Knut.Proofs.MTMMapped
import Knut.Proofs.MTMShow
import Knut.Driver.Balance
import Knut.Properties.C03Report
import Knut.Properties.C03Command
/-!
# C03 — the report modes beyond cumulative per-account rows

* **`--diff`** – `C03_account_between` (pipeline), `C03_command_cell_diff`: in a valued `--diff` report with per-account
  rows the cell of an asset/liability account in the column of the period end `D_k` is within
  `Spec.stepBound V days a D_{k−1} D_k / 10⁸` of `Spec.mtm V days a D_k − Spec.mtm V days a D_{k−1}` (`D_{−1}` = the eve
  of the window): the change of the exact mark-to-market value inside the period, charged with the valuation steps
  inside that period only.
* **mapped / collapsed rows** (`-m level[:suffix][,regex]`, `--remap`, `--account`) – `C03_row_mapped` (pipeline),
  `C03_command_cell_mapped`: the cell of an asset/liability ROW `r` is within `Spec.stepBoundOver … S F_k D_k / 10⁸` of
  `Spec.mtmOver … S D_k − Spec.mtmOver … S F_k`, `S = Spec.sourceAccounts (rowSel f r) days` the journal's accounts that
  pass `--account` and that `--remap` + `-m` turn into `r`: the sum of the accounts' exact values, bounds summed;
  cumulative and `--diff` (`cellEve`).  Helper modules `Proofs/MTMPlain.lean` (the stages before Query do not look at the
  mapping: the inserts are the plain inserts mapped and filtered), `Proofs/MTMMapped.lean`.
* **`-s regex`** – `C03_command_cell_show_other` (a row the regex does not match: name, one commodity cell, the cells of
  `C03_command_cell_mapped`) and `C03_command_cell_show` (a row the regex matches: one line per commodity; the cell of
  the line of `c` is within `Spec.stepCountOver … S F_k D_k c / 10⁸` of `Spec.mtmPosOver … S c D_k − Spec.mtmPosOver … S c F_k`,
  and a commodity without a line has that difference within the bound of 0).  `Proofs/MTMPos.lean`, `Proofs/MTMShow.lean`.
-/
namespace Knut.C03
open Knut Knut.Dec Knut.MTM Knut.LedgerCommand
open Knut.Table (Cell)

/-! ## `--diff` -/

/-- **pipeline level, two period ends `F < D` inside the window** (see `MTM.run_account_between`): the inserts on an
asset/liability account aligned to column dates in `(F, D]` total `Spec.mtm … D − Spec.mtm … F` up to
`Spec.stepBound … F D` units of the 8th decimal -/
theorem C03_account_between (cfg : BalCfg) (v : Commodity) (a : Account) (days : List Day) (stF : BalState) (F D : Int)
    (hv : cfg.valuation = some v) (hal : a.isAL = true) (hpl : Plain cfg) (hs : Sorted days)
    (hcons : ∀ d ∈ days, ∀ t ∈ d.transactions, t.date = d.date)
    (hz : ∀ d ∈ days, ∀ t ∈ d.transactions, ∀ p ∈ t.postings, p.value = 0)
    (hinc : List.Pairwise (· < ·) (cfg.periods.map (·.stop))) (hD : D ∈ cfg.periods.map (·.stop))
    (hF : F ∈ cfg.periods.map (·.stop)) (hFD : F < D)
    (hFin : cfg.span.contains F = true) (hDin : cfg.span.contains D = true)
    (h : Balance.run cfg days = .ok stF) :
    ∃ mD mF, Spec.mtm v days a D = some mD ∧ Spec.mtm v days a F = some mF ∧
      ((accCum a stF.entries D - accCum a stF.entries F) - (mD - mF)).abs ≤
        (Spec.stepBound v days a F D : Rat) / (10 : Rat) ^ 8 := by
  obtain ⟨mD, mF, h1, h2, h3, h4⟩ := run_account_between cfg v a days stF F D hv hal hpl hs hcons hz hinc hD hF hFD hFin hDin h
  refine ⟨mD, mF, h1, h2, ?_⟩
  rw [← mul_ulp]
  exact abs_le_of h3 h4

/-- the flags of a valued report with per-account rows (cumulative or `--diff`) -/
structure RowFlags (f : BalanceFlags) (v : Commodity) : Prop where
  valuation : f.valuation = some v
  show_ : f.showCommodities = none
  mapping : f.mapping = []
  remap : ∀ s, f.remap s = false
  acc : ∀ s, f.accountFilter s = true
  com : ∀ s, f.commodityFilter s = true

theorem RowFlags.plain {f : BalanceFlags} {v : Commodity} (hf : RowFlags f v) (part : Partition) : Plain (cfgOf f part) :=
  ⟨hf.mapping, hf.remap, hf.acc, hf.com⟩

/-- the eve of column `k`: the previous period end, or the day before the window start for the first column -/
def colEve (part : Partition) (k : Nat) : Int :=
  match k with
  | 0 => part.span.start - 1
  | j + 1 => part.endDates.getD j 0

/-- **the cells of a `--diff` report.**  For every valued `--diff` report with per-account rows and every directive list
whose postings arrive unvalued: whenever the command produces a report and the asset/liability account `a` has an
insert, the rendered table has the row of `a`, and for every column `k` (period end `D_k`, eve `F_k` = the previous
period end, or the day before the window start for `k = 0`) the exact mark-to-market values at `D_k` and `F_k` exist
and the cell shows their difference up to `Spec.stepBound V days a F_k D_k` units of the 8th decimal — the valuation
steps inside the period only. -/
theorem C03_command_cell_diff (f : BalanceFlags) (v : Commodity) (hf : RowFlags f v) (hdf : f.diff = true)
    (ds : List Directive) (hz : ∀ t, Directive.tx t ∈ ds → ∀ p ∈ t.postings, p.value = 0)
    (es : List Entry) (part : Partition) (h : BalanceCmd.entries f ds = .ok (es, part))
    (a : Account) (hal : a.isAL = true) (hmem : ∃ e ∈ es, e.account = a) :
    ∃ pre post cells,
      (BalanceReport.table (BalanceCmd.renderCfg f part) es).rows =
        pre ++ [Cell.text (a.segments.getLast?.getD "").toList .left ((2 * (a.segments.length - 1) : Nat) : Int) :: cells] ++ post ∧
      cells.length = part.endDates.length ∧
      ∀ (k : Nat) (hk : k < part.endDates.length) (hk' : k < cells.length),
        ∃ mD mF, Spec.mtm v (Builder.ofList ds).build a part.endDates[k] = some mD ∧
          Spec.mtm v (Builder.ofList ds).build a (colEve part k) = some mF ∧
          (cellVal cells[k] - (mD - mF)).abs ≤
            (Spec.stepBound v (Builder.ofList ds).build a (colEve part k) part.endDates[k] : Rat) / (10 : Rat) ^ 8 := by
  obtain ⟨hpart, st, hrun, rfl⟩ := entries_ok h
  obtain ⟨e, he, rfl⟩ := hmem
  have hcv : (cfgOf f part).valuation = some v := hf.valuation
  have hpl := hf.plain part
  have hne := window_nonempty_of_entry (cfgOf f part) v hcv hpl _ st hrun e he hal
  have hspan := Performance.newPartition_span hpart
  obtain ⟨hinc, hin⟩ := Performance.endDates_increasing hpart
  have hne' : (BalanceCmd.window f (Builder.ofList ds)).start ≤ (BalanceCmd.window f (Builder.ofList ds)).stop := by
    rw [← hspan]; exact hne
  generalize hrc : BalanceCmd.renderCfg f part = rc
  have hrv : rc.valuation.isSome = true := by rw [← hrc]; unfold BalanceCmd.renderCfg; rw [hf.valuation]; rfl
  have hrs : ∀ s, rc.showCommodities s = false := by
    intro s; rw [← hrc]; unfold BalanceCmd.renderCfg; rw [hf.show_]; rfl
  have hrd : rc.diff = true := by rw [← hrc]; exact hdf
  have hre : rc.endDates = part.endDates := by rw [← hrc]; rfl
  have hdc : (rc.valuation.isNone || rc.hasShowCommodities) = false := by
    rw [← hrc]; unfold BalanceCmd.renderCfg; rw [hf.valuation, hf.show_]; rfl
  obtain ⟨pre, post, hrows⟩ := table_has_row rc st.entries e he hal
  rw [hdc] at hrows
  obtain ⟨cells, hnode, hlen, hcell⟩ := nodeRows_valued_diff rc hrv hrs hrd (st.entries.filter (fun e => e.account.isAL)) false
    e.account.segments (2 * (e.account.segments.length - 1))
  rw [hnode] at hrows
  refine ⟨pre, post, cells, hrows, by rw [hlen, hre], ?_⟩
  intro k hk hk'
  have hvs : (cfgOf f part).valuation.isSome = true := by rw [hcv]; rfl
  have hdates : ∀ x ∈ st.entries.filter (fun e => e.account.isAL), x.account = e.account →
      ∀ D', x.date = some D' → D' ∈ part.endDates := by
    intro x hx _ D' hd
    obtain ⟨txs, _, hes⟩ := run_pipelineRun (cfgOf f part) _ st hrun
    have hx' := (List.mem_filter.mp hx).1
    rw [hes] at hx'
    obtain ⟨t, _, p, _, rfl⟩ := mem_entries_plain (cfgOf f part) hpl hvs txs x hx'
    exact alignIn_mem part.periods t.date D' hd
  have hk2 : k < rc.endDates.length := by rw [hre]; exact hk
  have hcv' := hcell k hk2 hk'
  simp only [Bool.false_eq_true, if_false] at hcv'
  have hreK : rc.endDates[k] = part.endDates[k] := by simp only [hre]
  rw [hcv', hreK]
  have hin' : ∀ D ∈ part.endDates, (cfgOf f part).span.contains D = true := by
    intro D hD
    have := hin hne' _ hD
    show part.span.contains _ = true
    rw [hspan]; exact this
  have hDmem : part.endDates[k] ∈ part.endDates := List.getElem_mem hk
  cases k with
  | zero =>
    rw [diff_eq_accCum_zero e.account _ part.endDates hinc hdates hk, accCum_al e.account hal]
    obtain ⟨mD, mF, h1, h2, h3⟩ := C03_account_window (cfgOf f part) v e.account (daysOf f ds part) st part.endDates[0]
      hcv hal hpl (daysOf_sorted f ds part) (daysOf_consistent f ds part) (daysOf_zero f ds part hz) hinc hDmem
      (hin' _ hDmem) hrun
    rw [mtm_daysOf] at h1 h2
    rw [stepBound_daysOf] at h3
    exact ⟨mD, mF, h1, h2, h3⟩
  | succ j =>
    have hj : j < part.endDates.length := by omega
    have hFmem : part.endDates[j] ∈ part.endDates := List.getElem_mem hj
    have hFD : part.endDates[j] < part.endDates[j + 1] := by
      have := List.pairwise_iff_getElem.mp hinc j (j + 1) hj hk (by omega)
      exact this
    rw [diff_eq_accCum_sub e.account _ part.endDates hinc hdates j hk, accCum_al e.account hal, accCum_al e.account hal]
    obtain ⟨mD, mF, h1, h2, h3⟩ := C03_account_between (cfgOf f part) v e.account (daysOf f ds part) st
      part.endDates[j] part.endDates[j + 1]
      hcv hal hpl (daysOf_sorted f ds part) (daysOf_consistent f ds part) (daysOf_zero f ds part hz) hinc hDmem hFmem hFD
      (hin' _ hFmem) (hin' _ hDmem) hrun
    rw [mtm_daysOf] at h1 h2
    rw [stepBound_daysOf] at h3
    have hev : colEve part (j + 1) = part.endDates[j] := by
      unfold colEve
      simp only [List.getD_eq_getElem?_getD, List.getElem?_eq_getElem hj, Option.getD_some]
    rw [hev]
    exact ⟨mD, mF, h1, h2, h3⟩

/-! ### Non-vacuity (`--diff`)

The journal of `Properties/C03Report.lean`, reported daily from day 2 to day 4 with `--diff`, valued in CHF.  The row of
`Assets:A` shows 1.75, 2.91666665, −1.33333333; `Spec.mtm` is 100 on the eve (day 1), then 101.75, 104.666666655,
103.333333325: the differences are 1.75, 2.916666655 (deviation 5·10⁻⁹, bound 1·10⁻⁸: one price day, no booking in the
period) and −1.33333333 (bound 1·10⁻⁸: one non-zero USD booking). -/

def exFlagsD : BalanceFlags := { valuation := some "CHF", from? := some 2, to := 4, interval := .daily, diff := true }

example : RowFlags exFlagsD "CHF" ∧ exFlagsD.diff = true := ⟨⟨rfl, rfl, rfl, fun _ => rfl, fun _ => rfl, fun _ => rfl⟩, rfl⟩

example : (match BalanceCmd.entries exFlagsD exDirs with
    | .ok (es, part) =>
      decide (part.span = ⟨2, 4⟩ ∧ part.endDates = [2, 3, 4] ∧ (∃ e ∈ es, e.account = exA) ∧
        [Cell.text "A".toList .left 2, Cell.num (7/4), Cell.num (291666665/100000000), Cell.num (-(133333333/100000000))] ∈
          (BalanceReport.table (BalanceCmd.renderCfg exFlagsD part) es).rows ∧
        colEve part 0 = 1 ∧ colEve part 1 = 2 ∧ colEve part 2 = 3 ∧
        Spec.mtm "CHF" (Builder.ofList exDirs).build exA 1 = some 100 ∧
        Spec.mtm "CHF" (Builder.ofList exDirs).build exA 2 = some (10175/100) ∧
        Spec.mtm "CHF" (Builder.ofList exDirs).build exA 3 = some (104666666655/1000000000) ∧
        Spec.mtm "CHF" (Builder.ofList exDirs).build exA 4 = some (103333333325/1000000000) ∧
        Spec.stepBound "CHF" (Builder.ofList exDirs).build exA 2 3 = 1 ∧
        Spec.stepBound "CHF" (Builder.ofList exDirs).build exA 3 4 = 1)
    | .error _ => false) = true := by decide +kernel

/-! ## mapped / collapsed rows: `-m level[:suffix][,regex]`, `--remap`, `--account` -/

/-- the flags of a valued report whose rows are accounts or collapsed accounts: any `-m`, `--remap`, `--account`,
cumulative or `--diff`; no `-s`, no `--commodity` -/
structure MappedFlags (f : BalanceFlags) (v : Commodity) : Prop where
  valuation : f.valuation = some v
  show_ : f.showCommodities = none
  com : ∀ s, f.commodityFilter s = true

/-- the accounts a report row `r` collects: they pass `--account`, and `--remap` followed by `-m` turns them into `r` -/
def rowSel (f : BalanceFlags) (r a : Account) : Bool :=
  f.accountFilter a.name && decide (shorten f.mapping (if f.remap a.name then swapType a else a) = some r)

/-- the driver (op `c03rows`, the monitor's side) selects the accounts of a row and the eve of a column by these very definitions -/
theorem rowSel_eq_driver : rowSel = Knut.Driver.Balance.c03RowSel := rfl

theorem srcSel_cfgOf (f : BalanceFlags) (part : Partition) (r : Account) : srcSel (cfgOf f part) r = rowSel f r := rfl

/-- the eve of column `k` of the report: the previous period end in a `--diff` report (the day before the window start
for the first column), the day before the window start in a cumulative report -/
def cellEve (f : BalanceFlags) (part : Partition) (k : Nat) : Int :=
  if f.diff then colEve part k else part.span.start - 1

theorem cellEve_eq_driver (f : BalanceFlags) (part : Partition) (k : Nat) :
    cellEve f part k = Knut.Driver.Balance.c03Eve f part k := by
  unfold cellEve colEve Knut.Driver.Balance.c03Eve
  cases f.diff <;> cases k <;> rfl

theorem sourceAccounts_daysOf (f : BalanceFlags) (ds : List Directive) (part : Partition) (sel : Account → Bool) :
    Spec.sourceAccounts sel (daysOf f ds part) = Spec.sourceAccounts sel (Builder.ofList ds).build := by
  unfold Spec.sourceAccounts
  rw [← userPostings_core, core_daysOf, userPostings_core]

theorem mtmOver_daysOf (f : BalanceFlags) (ds : List Directive) (part : Partition) (v : Commodity) (S : List Account) (D : Int) :
    Spec.mtmOver v (daysOf f ds part) S D = Spec.mtmOver v (Builder.ofList ds).build S D := by
  unfold Spec.mtmOver
  have : (fun a => Spec.mtm v (daysOf f ds part) a D) = (fun a => Spec.mtm v (Builder.ofList ds).build a D) :=
    funext (fun a => mtm_daysOf f ds part v a D)
  rw [this]

theorem stepBoundOver_daysOf (f : BalanceFlags) (ds : List Directive) (part : Partition) (v : Commodity) (S : List Account)
    (F D : Int) : Spec.stepBoundOver v (daysOf f ds part) S F D = Spec.stepBoundOver v (Builder.ofList ds).build S F D := by
  unfold Spec.stepBoundOver
  have : (fun a => Spec.stepBound v (daysOf f ds part) a F D) = (fun a => Spec.stepBound v (Builder.ofList ds).build a F D) :=
    funext (fun a => stepBound_daysOf f ds part v a F D)
  rw [this]

theorem rat_sub_zero (x : Rat) : x - 0 = x := by grind

/-- **pipeline level, mapped row** (see `MTM.run_row_mapped`) -/
theorem C03_row_mapped (cfg : BalCfg) (v : Commodity) (r : Account) (days : List Day) (stF : BalState) (F D : Int)
    (hv : cfg.valuation = some v) (hcom : ∀ s, cfg.commodityFilter s = true) (hal : r.isAL = true) (hs : Sorted days)
    (hcons : ∀ d ∈ days, ∀ t ∈ d.transactions, t.date = d.date)
    (hz : ∀ d ∈ days, ∀ t ∈ d.transactions, ∀ p ∈ t.postings, p.value = 0)
    (hinc : List.Pairwise (· < ·) (cfg.periods.map (·.stop))) (hD : D ∈ cfg.periods.map (·.stop))
    (hF : IsEve cfg F D) (hDin : cfg.span.contains D = true)
    (h : Balance.run cfg days = .ok stF) :
    ∃ mD mF, Spec.mtmOver v days (Spec.sourceAccounts (srcSel cfg r) days) D = some mD ∧
      Spec.mtmOver v days (Spec.sourceAccounts (srcSel cfg r) days) F = some mF ∧
      ((accCum r stF.entries D - accCum r stF.entries F) - (mD - mF)).abs ≤
        (Spec.stepBoundOver v days (Spec.sourceAccounts (srcSel cfg r) days) F D : Rat) / (10 : Rat) ^ 8 := by
  obtain ⟨mD, mF, h1, h2, h3, h4, _⟩ := run_row_mapped cfg v r days stF F D hv hcom hal hs hcons hz hinc hD hF hDin h
  refine ⟨mD, mF, h1, h2, ?_⟩
  rw [← mul_ulp]
  exact abs_le_of h3 h4

/-- **the cells of a mapped / collapsed row.**  For every valued report without `-s` and `--commodity` — any
`-m level[:suffix][,regex]`, `--remap`, `--account`, cumulative or `--diff`, every interval and window, closing on or
off — and every directive list whose postings arrive unvalued: whenever the command produces a report and the
asset/liability row account `r` has an insert, the rendered table has the row of `r`, and for every column `k` (period
end `D_k`, eve `F_k` = `cellEve`) the cell is within `Spec.stepBoundOver … S F_k D_k / 10⁸` of
`Spec.mtmOver … S D_k − Spec.mtmOver … S F_k`, where `S = Spec.sourceAccounts (rowSel f r) days` are the journal's
accounts collected in the row: the sum of the exact mark-to-market values of the accounts mapped onto the row, with the
bounds summed.  Both values exist. -/
theorem C03_command_cell_mapped (f : BalanceFlags) (v : Commodity) (hf : MappedFlags f v)
    (ds : List Directive) (hz : ∀ t, Directive.tx t ∈ ds → ∀ p ∈ t.postings, p.value = 0)
    (es : List Entry) (part : Partition) (h : BalanceCmd.entries f ds = .ok (es, part))
    (r : Account) (hal : r.isAL = true) (hmem : ∃ e ∈ es, e.account = r) :
    ∃ pre post cells,
      (BalanceReport.table (BalanceCmd.renderCfg f part) es).rows =
        pre ++ [Cell.text (r.segments.getLast?.getD "").toList .left ((2 * (r.segments.length - 1) : Nat) : Int) :: cells] ++ post ∧
      cells.length = part.endDates.length ∧
      ∀ (k : Nat) (hk : k < part.endDates.length) (hk' : k < cells.length),
        ∃ mD mF,
          Spec.mtmOver v (Builder.ofList ds).build (Spec.sourceAccounts (rowSel f r) (Builder.ofList ds).build)
            part.endDates[k] = some mD ∧
          Spec.mtmOver v (Builder.ofList ds).build (Spec.sourceAccounts (rowSel f r) (Builder.ofList ds).build)
            (cellEve f part k) = some mF ∧
          (cellVal cells[k] - (mD - mF)).abs ≤
            (Spec.stepBoundOver v (Builder.ofList ds).build (Spec.sourceAccounts (rowSel f r) (Builder.ofList ds).build)
              (cellEve f part k) part.endDates[k] : Rat) / (10 : Rat) ^ 8 := by
  obtain ⟨hpart, st, hrun, rfl⟩ := entries_ok h
  obtain ⟨e, he, rfl⟩ := hmem
  have hcv : (cfgOf f part).valuation = some v := hf.valuation
  have hne := window_nonempty_of_entry_mapped (cfgOf f part) v hcv _ st hrun e he hal
  have hspan := Performance.newPartition_span hpart
  obtain ⟨hinc, hin⟩ := Performance.endDates_increasing hpart
  have hne' : (BalanceCmd.window f (Builder.ofList ds)).start ≤ (BalanceCmd.window f (Builder.ofList ds)).stop := by
    rw [← hspan]; exact hne
  generalize hrc : BalanceCmd.renderCfg f part = rc
  have hrv : rc.valuation.isSome = true := by rw [← hrc]; unfold BalanceCmd.renderCfg; rw [hf.valuation]; rfl
  have hrs : ∀ s, rc.showCommodities s = false := by
    intro s; rw [← hrc]; unfold BalanceCmd.renderCfg; rw [hf.show_]; rfl
  have hrd : rc.diff = f.diff := by rw [← hrc]; rfl
  have hre : rc.endDates = part.endDates := by rw [← hrc]; rfl
  have hdc : (rc.valuation.isNone || rc.hasShowCommodities) = false := by
    rw [← hrc]; unfold BalanceCmd.renderCfg; rw [hf.valuation, hf.show_]; rfl
  obtain ⟨pre, post, hrows⟩ := table_has_row rc st.entries e he hal
  rw [hdc] at hrows
  have hdates : ∀ x ∈ st.entries.filter (fun e => e.account.isAL), x.account = e.account →
      ∀ D', x.date = some D' → D' ∈ part.endDates := by
    intro x hx _ D' hd
    obtain ⟨txs, _, hes⟩ := run_pipelineRun (cfgOf f part) _ st hrun
    have hx' := (List.mem_filter.mp hx).1
    rw [hes] at hx'
    obtain ⟨t, _, hdt⟩ := mem_queryTx_date (cfgOf f part) txs x hx'
    rw [hdt] at hd
    exact alignIn_mem part.periods t.date D' hd
  have hin' : ∀ D ∈ part.endDates, (cfgOf f part).span.contains D = true := by
    intro D hD
    have := hin hne' _ hD
    show part.span.contains _ = true
    rw [hspan]; exact this
  -- the pipeline statement for a column
  have hcol : ∀ (k : Nat) (hk : k < part.endDates.length) (F : Int), IsEve (cfgOf f part) F part.endDates[k] →
      ∃ mD mF,
        Spec.mtmOver v (Builder.ofList ds).build (Spec.sourceAccounts (rowSel f e.account) (Builder.ofList ds).build)
          part.endDates[k] = some mD ∧
        Spec.mtmOver v (Builder.ofList ds).build (Spec.sourceAccounts (rowSel f e.account) (Builder.ofList ds).build) F = some mF ∧
        ((accCum e.account st.entries part.endDates[k] - accCum e.account st.entries F) - (mD - mF)).abs ≤
          (Spec.stepBoundOver v (Builder.ofList ds).build (Spec.sourceAccounts (rowSel f e.account) (Builder.ofList ds).build)
            F part.endDates[k] : Rat) / (10 : Rat) ^ 8 ∧
        (F = part.span.start - 1 → accCum e.account st.entries F = 0) := by
    intro k hk F hF
    have hDmem : part.endDates[k] ∈ part.endDates := List.getElem_mem hk
    obtain ⟨mD, mF, h1, h2, h3, h4, h5⟩ := run_row_mapped (cfgOf f part) v e.account (daysOf f ds part) st F part.endDates[k]
      hcv hf.com hal (daysOf_sorted f ds part) (daysOf_consistent f ds part) (daysOf_zero f ds part hz) hinc hDmem hF
      (hin' _ hDmem) hrun
    rw [srcSel_cfgOf, sourceAccounts_daysOf, mtmOver_daysOf] at h1 h2
    rw [srcSel_cfgOf, sourceAccounts_daysOf, stepBoundOver_daysOf] at h3 h4
    refine ⟨mD, mF, h1, h2, ?_, h5⟩
    rw [← mul_ulp]
    exact abs_le_of h3 h4
  cases hdf : f.diff with
  | false =>
    obtain ⟨cells, hnode, hlen, hcell⟩ := nodeRows_valued rc hrv hrs (by rw [hrd, hdf])
      (st.entries.filter (fun e => e.account.isAL)) false e.account.segments (2 * (e.account.segments.length - 1))
    rw [hnode] at hrows
    refine ⟨pre, post, cells, hrows, by rw [hlen, hre], ?_⟩
    intro k hk hk'
    have hev : cellEve f part k = part.span.start - 1 := by unfold cellEve; rw [hdf]; rfl
    rw [hev]
    obtain ⟨mD, mF, h1, h2, h3, h5⟩ := hcol k hk (part.span.start - 1) (Or.inl rfl)
    refine ⟨mD, mF, h1, h2, ?_⟩
    have hcv' := hcell k hk'
    simp only [Bool.false_eq_true, if_false] at hcv'
    have hk2 : k < rc.endDates.length := by rw [hre]; exact hk
    have hcum := cum_eq_accCum e.account (st.entries.filter (fun e => e.account.isAL)) rc.endDates
      (by rw [hre]; exact hinc) (by rw [hre]; exact hdates) k hk2
    rw [hcv', hcum, accCum_al e.account hal]
    have : rc.endDates[k] = part.endDates[k] := by simp only [hre]
    rw [this]
    rw [h5 rfl] at h3
    rw [rat_sub_zero] at h3
    exact h3
  | true =>
    obtain ⟨cells, hnode, hlen, hcell⟩ := nodeRows_valued_diff rc hrv hrs (by rw [hrd, hdf])
      (st.entries.filter (fun e => e.account.isAL)) false e.account.segments (2 * (e.account.segments.length - 1))
    rw [hnode] at hrows
    refine ⟨pre, post, cells, hrows, by rw [hlen, hre], ?_⟩
    intro k hk hk'
    have hev : cellEve f part k = colEve part k := by unfold cellEve; rw [hdf]; rfl
    rw [hev]
    have hk2 : k < rc.endDates.length := by rw [hre]; exact hk
    have hcv' := hcell k hk2 hk'
    simp only [Bool.false_eq_true, if_false] at hcv'
    have hreK : rc.endDates[k] = part.endDates[k] := by simp only [hre]
    rw [hcv', hreK]
    cases k with
    | zero =>
      rw [diff_eq_accCum_zero e.account _ part.endDates hinc hdates hk, accCum_al e.account hal]
      obtain ⟨mD, mF, h1, h2, h3, h5⟩ := hcol 0 hk (part.span.start - 1) (Or.inl rfl)
      refine ⟨mD, mF, h1, h2, ?_⟩
      rw [h5 rfl] at h3
      rw [rat_sub_zero] at h3
      exact h3
    | succ j =>
      have hj : j < part.endDates.length := by omega
      have hFmem : part.endDates[j] ∈ part.endDates := List.getElem_mem hj
      have hFD : part.endDates[j] < part.endDates[j + 1] :=
        List.pairwise_iff_getElem.mp hinc j (j + 1) hj hk (by omega)
      rw [diff_eq_accCum_sub e.account _ part.endDates hinc hdates j hk, accCum_al e.account hal, accCum_al e.account hal]
      have hev2 : colEve part (j + 1) = part.endDates[j] := by
        unfold colEve
        simp only [List.getD_eq_getElem?_getD, List.getElem?_eq_getElem hj, Option.getD_some]
      rw [hev2]
      obtain ⟨mD, mF, h1, h2, h3, _⟩ := hcol (j + 1) hk part.endDates[j] (Or.inr ⟨hFmem, hFD, hin' _ hFmem⟩)
      exact ⟨mD, mF, h1, h2, h3⟩

/-! ### Non-vacuity (mapped rows)

Two accounts `Assets:B:X` (100 CHF; −1 USD on day 2, −1 USD more on day 4) and `Assets:B:Y` (4.5 USD bought on day 2,
1 sold on day 4), USD priced 0.5 on day 2 and 1.333333333 on day 3; report `-m 2` (every account collapsed to two
segments), window days 3–4, valued in CHF.  The single row `Assets:B` shows 0.24999999; the journal's accounts collected
in it are `X` and `Y`; `Spec.mtmOver` of the two is 101.999999995 on day 4 and 101.75 on the eve (day 2): difference
0.249999995, deviation 5·10⁻⁹, bound 4·10⁻⁸ (per account: one price day and one non-zero USD booking in the window). -/

def exBX : Account := ⟨["Assets", "B", "X"]⟩
def exBY : Account := ⟨["Assets", "B", "Y"]⟩
def exB : Account := ⟨["Assets", "B"]⟩
def exDirsM : List Directive :=
  [.opening ⟨1, exBX⟩, .opening ⟨1, exBY⟩, .opening ⟨1, exE⟩,
   .tx (Transaction.ofBookings 1 "cash" none [⟨exE, exBX, 100, "CHF"⟩]),
   .price ⟨2, "USD", 1/2, "CHF"⟩,
   .tx (Transaction.ofBookings 2 "buy" none [⟨exE, exBY, 7/2, "USD"⟩, ⟨exBX, exBY, 1, "USD"⟩]),
   .price ⟨3, "USD", 1333333333/1000000000, "CHF"⟩,
   .tx (Transaction.ofBookings 4 "sell" none [⟨exBY, exE, 1, "USD"⟩, ⟨exBX, exE, 1, "USD"⟩])]
def exFlagsM : BalanceFlags :=
  { valuation := some "CHF", from? := some 3, to := 4, mapping := [{ level := 2, suffix := 0, test := fun _ => true }] }

example : MappedFlags exFlagsM "CHF" := ⟨rfl, rfl, fun _ => rfl⟩

example : ∀ t, Directive.tx t ∈ exDirsM → ∀ p ∈ t.postings, p.value = 0 := by
  intro t ht
  simp only [exDirsM, List.mem_cons, List.not_mem_nil, or_false, reduceCtorEq, false_or, Directive.tx.injEq] at ht
  rcases ht with rfl | rfl | rfl <;> exact ofBookings_zero _ _ _ _

example : (match BalanceCmd.entries exFlagsM exDirsM with
    | .ok (es, part) =>
      decide (part.span = ⟨3, 4⟩ ∧ part.endDates = [4] ∧ (∃ e ∈ es, e.account = exB) ∧
        [Cell.text "B".toList .left 2, Cell.num (24999999/100000000)] ∈
          (BalanceReport.table (BalanceCmd.renderCfg exFlagsM part) es).rows ∧
        cellEve exFlagsM part 0 = 2 ∧
        Spec.sourceAccounts (rowSel exFlagsM exB) (Builder.ofList exDirsM).build = [exBX, exBY] ∧
        Spec.mtmOver "CHF" (Builder.ofList exDirsM).build [exBX, exBY] 4 = some (101999999995/1000000000) ∧
        Spec.mtmOver "CHF" (Builder.ofList exDirsM).build [exBX, exBY] 2 = some (10175/100) ∧
        Spec.stepBoundOver "CHF" (Builder.ofList exDirsM).build [exBX, exBY] 2 4 = 4)
    | .error _ => false) = true := by decide +kernel

/-! ## `-s regex`: the commodity column and the per-commodity lines -/

/-- the flags of a valued report with `-s`: any `-m`, `--remap`, `--account`, cumulative or `--diff`; no `--commodity` -/
structure ShowFlags (f : BalanceFlags) (v : Commodity) (sh : String → Bool) : Prop where
  valuation : f.valuation = some v
  show_ : f.showCommodities = some sh
  com : ∀ s, f.commodityFilter s = true

theorem cellEve_eq (f : BalanceFlags) (part : Partition) (k : Nat) :
    cellEve f part k = eveOf f.diff part.span.start part.endDates k := by
  unfold cellEve eveOf colEve
  cases f.diff <;> cases k <;> rfl

theorem mtmPosOver_daysOf (f : BalanceFlags) (ds : List Directive) (part : Partition) (v : Commodity) (S : List Account)
    (c : Commodity) (D : Int) :
    Spec.mtmPosOver v (daysOf f ds part) S c D = Spec.mtmPosOver v (Builder.ofList ds).build S c D := by
  unfold Spec.mtmPosOver
  have : (fun a => Spec.mtmPos v (daysOf f ds part) a c D) = (fun a => Spec.mtmPos v (Builder.ofList ds).build a c D) := by
    funext a
    unfold Spec.mtmPos
    rw [qtyAt_daysOf, pricesAt_daysOf]
  rw [this]

theorem stepCountOver_daysOf (f : BalanceFlags) (ds : List Directive) (part : Partition) (v : Commodity) (S : List Account)
    (F D : Int) (c : Commodity) :
    Spec.stepCountOver v (daysOf f ds part) S F D c = Spec.stepCountOver v (Builder.ofList ds).build S F D c := by
  unfold Spec.stepCountOver
  have : (fun a => Spec.stepCount v (daysOf f ds part) a F D c) = (fun a => Spec.stepCount v (Builder.ofList ds).build a F D c) := by
    funext a
    rw [← stepCount_core, core_daysOf, stepCount_core]
  rw [this]

/-- the facts about the command's partition and inserts shared by the `-s` theorems -/
theorem show_setup (f : BalanceFlags) (v : Commodity) (hv : f.valuation = some v)
    (ds : List Directive) (part : Partition) (st : BalState)
    (hpart : newPartition (BalanceCmd.window f (Builder.ofList ds)) f.interval f.last = .ok part)
    (hrun : Balance.run (cfgOf f part) (daysOf f ds part) = .ok st)
    (e : Entry) (he : e ∈ st.entries) (hal : e.account.isAL = true) :
    List.Pairwise (· < ·) part.endDates ∧ (∀ D ∈ part.endDates, (cfgOf f part).span.contains D = true) ∧
    (∀ x ∈ st.entries.filter (fun e => e.account.isAL), x.account = e.account →
      ∀ D', x.date = some D' → D' ∈ part.endDates) := by
  have hcv : (cfgOf f part).valuation = some v := hv
  have hne := window_nonempty_of_entry_mapped (cfgOf f part) v hcv _ st hrun e he hal
  have hspan := Performance.newPartition_span hpart
  obtain ⟨hinc, hin⟩ := Performance.endDates_increasing hpart
  have hne' : (BalanceCmd.window f (Builder.ofList ds)).start ≤ (BalanceCmd.window f (Builder.ofList ds)).stop := by
    rw [← hspan]; exact hne
  refine ⟨hinc, ?_, ?_⟩
  · intro D hD
    have := hin hne' _ hD
    show part.span.contains _ = true
    rw [hspan]; exact this
  · intro x hx _ D' hd
    obtain ⟨txs, _, hes⟩ := run_pipelineRun (cfgOf f part) _ st hrun
    have hx' := (List.mem_filter.mp hx).1
    rw [hes] at hx'
    obtain ⟨t, _, hdt⟩ := mem_queryTx_date (cfgOf f part) txs x hx'
    rw [hdt] at hd
    exact alignIn_mem part.periods t.date D' hd

/-- **`-s`, a row whose name the regex does not match**: the row has the name cell, ONE commodity cell, then the value
cells, and these are as in `C03_command_cell_mapped`: within `Spec.stepBoundOver/10⁸` of
`Spec.mtmOver … D_k − Spec.mtmOver … F_k` over the journal's accounts collected in the row -/
theorem C03_command_cell_show_other (f : BalanceFlags) (v : Commodity) (sh : String → Bool) (hf : ShowFlags f v sh)
    (ds : List Directive) (hz : ∀ t, Directive.tx t ∈ ds → ∀ p ∈ t.postings, p.value = 0)
    (es : List Entry) (part : Partition) (h : BalanceCmd.entries f ds = .ok (es, part))
    (r : Account) (hal : r.isAL = true) (hmem : ∃ e ∈ es, e.account = r) (hsh : sh r.name = false) :
    ∃ pre post comm cells,
      (BalanceReport.table (BalanceCmd.renderCfg f part) es).rows =
        pre ++ [Cell.text (r.segments.getLast?.getD "").toList .left ((2 * (r.segments.length - 1) : Nat) : Int) ::
          comm :: cells] ++ post ∧
      cells.length = part.endDates.length ∧
      ∀ (k : Nat) (hk : k < part.endDates.length) (hk' : k < cells.length),
        ∃ mD mF,
          Spec.mtmOver v (Builder.ofList ds).build (Spec.sourceAccounts (rowSel f r) (Builder.ofList ds).build)
            part.endDates[k] = some mD ∧
          Spec.mtmOver v (Builder.ofList ds).build (Spec.sourceAccounts (rowSel f r) (Builder.ofList ds).build)
            (cellEve f part k) = some mF ∧
          (cellVal cells[k] - (mD - mF)).abs ≤
            (Spec.stepBoundOver v (Builder.ofList ds).build (Spec.sourceAccounts (rowSel f r) (Builder.ofList ds).build)
              (cellEve f part k) part.endDates[k] : Rat) / (10 : Rat) ^ 8 := by
  obtain ⟨hpart, st, hrun, rfl⟩ := entries_ok h
  obtain ⟨e, he, rfl⟩ := hmem
  have hcv : (cfgOf f part).valuation = some v := hf.valuation
  obtain ⟨hinc, hin', hdates⟩ := show_setup f v hf.valuation ds part st hpart hrun e he hal
  generalize hrc : BalanceCmd.renderCfg f part = rc
  have hrv : rc.valuation.isSome = true := by rw [← hrc]; unfold BalanceCmd.renderCfg; rw [hf.valuation]; rfl
  have hrs : rc.showCommodities (⟨e.account.segments⟩ : Account).name = false := by
    rw [← hrc]; unfold BalanceCmd.renderCfg; rw [hf.show_]; exact hsh
  have hrd : rc.diff = f.diff := by rw [← hrc]; rfl
  have hre : rc.endDates = part.endDates := by rw [← hrc]; rfl
  have hdc : (rc.valuation.isNone || rc.hasShowCommodities) = true := by
    rw [← hrc]; unfold BalanceCmd.renderCfg; rw [hf.valuation, hf.show_]; rfl
  obtain ⟨pre, post, hrows⟩ := table_has_row rc st.entries e he hal
  rw [hdc] at hrows
  obtain ⟨cc, cells, hnode, hcc, hlen, hcell⟩ := nodeRows_valued_dc rc true hrv (st.entries.filter (fun e => e.account.isAL)) false
    e.account.segments (2 * (e.account.segments.length - 1)) hrs
  rw [hnode] at hrows
  simp only [if_true] at hcc
  obtain ⟨comm, rfl⟩ : ∃ comm, cc = [comm] := by
    cases cc with
    | nil => cases hcc
    | cons x rest =>
      cases rest with
      | nil => exact ⟨x, rfl⟩
      | cons y rest2 => simp at hcc
  refine ⟨pre, post, comm, cells, hrows, by rw [hlen, hre], ?_⟩
  intro k hk hk'
  have hk2 : k < rc.endDates.length := by rw [hre]; exact hk
  have hDmem : part.endDates[k] ∈ part.endDates := List.getElem_mem hk
  have hF := eveOf_isEve (cfgOf f part) part.endDates rfl hinc hin' f.diff k hk
  obtain ⟨mD, mF, h1, h2, h3, h4, h5⟩ := run_row_mapped (cfgOf f part) v e.account (daysOf f ds part) st
    (eveOf f.diff part.span.start part.endDates k) part.endDates[k]
    hcv hf.com hal (daysOf_sorted f ds part) (daysOf_consistent f ds part) (daysOf_zero f ds part hz) hinc hDmem hF
    (hin' _ hDmem) hrun
  rw [srcSel_cfgOf, sourceAccounts_daysOf, mtmOver_daysOf] at h1 h2
  rw [srcSel_cfgOf, sourceAccounts_daysOf, stepBoundOver_daysOf] at h3 h4
  rw [cellEve_eq]
  refine ⟨mD, mF, h1, h2, ?_⟩
  have hz0 : accCum e.account (st.entries.filter (fun e => e.account.isAL)) (part.span.start - 1) = 0 := by
    rw [accCum_al e.account hal]
    obtain ⟨_, _, _, _, _, _, z⟩ := run_row_mapped (cfgOf f part) v e.account (daysOf f ds part) st
      (part.span.start - 1) part.endDates[k]
      hcv hf.com hal (daysOf_sorted f ds part) (daysOf_consistent f ds part) (daysOf_zero f ds part hz) hinc hDmem (Or.inl rfl)
      (hin' _ hDmem) hrun
    exact z rfl
  have hcv' := hcell k hk2 hk'
  simp only [Bool.false_eq_true, if_false] at hcv'
  rw [hcv', hrd]
  have hsd := shownAt_delta e.account (st.entries.filter (fun e => e.account.isAL)) part.endDates hinc hdates f.diff
    part.span.start hz0 k hk
  simp only [hre]
  rw [hsd, accCum_al e.account hal, accCum_al e.account hal, ← mul_ulp]
  exact abs_le_of h3 h4

/-- **`-s`, a row whose name the regex matches: one line per commodity.**  The rows of the asset/liability row account
`r` form a block of the table that starts with the name cell of `r`.  For every commodity `c` (with `S` the journal's
accounts collected in the row, `D_k` the period end and `F_k` the eve of column `k`): every line of the block that
carries `c` in the commodity column has one value cell per column, and the cell of column `k` is within
`Spec.stepCountOver … S F_k D_k c / 10⁸` of `Spec.mtmPosOver … S c D_k − Spec.mtmPosOver … S c F_k` — summed quantity ×
normalised price of the position, at the period end minus at the eve; and if the block has no line for `c`, that
difference is itself within the bound of 0. -/
theorem C03_command_cell_show (f : BalanceFlags) (v : Commodity) (sh : String → Bool) (hf : ShowFlags f v sh)
    (ds : List Directive) (hz : ∀ t, Directive.tx t ∈ ds → ∀ p ∈ t.postings, p.value = 0)
    (es : List Entry) (part : Partition) (h : BalanceCmd.entries f ds = .ok (es, part))
    (r : Account) (hal : r.isAL = true) (hmem : ∃ e ∈ es, e.account = r) (hsh : sh r.name = true) :
    ∃ pre block post rest tail,
      (BalanceReport.table (BalanceCmd.renderCfg f part) es).rows = pre ++ block ++ post ∧
      block = (Cell.text (r.segments.getLast?.getD "").toList .left ((2 * (r.segments.length - 1) : Nat) : Int) :: rest) :: tail ∧
      ∀ (c : Commodity),
        (∀ (first : Cell) (cells : List Cell), (first :: Cell.text c.toList .left 0 :: cells) ∈ block →
          cells.length = part.endDates.length ∧
          ∀ (k : Nat) (hk : k < part.endDates.length) (hk' : k < cells.length),
            ∃ mD mF,
              Spec.mtmPosOver v (Builder.ofList ds).build (Spec.sourceAccounts (rowSel f r) (Builder.ofList ds).build) c
                part.endDates[k] = some mD ∧
              Spec.mtmPosOver v (Builder.ofList ds).build (Spec.sourceAccounts (rowSel f r) (Builder.ofList ds).build) c
                (cellEve f part k) = some mF ∧
              (cellVal cells[k] - (mD - mF)).abs ≤
                (Spec.stepCountOver v (Builder.ofList ds).build (Spec.sourceAccounts (rowSel f r) (Builder.ofList ds).build)
                  (cellEve f part k) part.endDates[k] c : Rat) / (10 : Rat) ^ 8) ∧
        ((∀ (first : Cell) (cells : List Cell), (first :: Cell.text c.toList .left 0 :: cells) ∉ block) →
          ∀ (k : Nat) (hk : k < part.endDates.length),
            ∃ mD mF,
              Spec.mtmPosOver v (Builder.ofList ds).build (Spec.sourceAccounts (rowSel f r) (Builder.ofList ds).build) c
                part.endDates[k] = some mD ∧
              Spec.mtmPosOver v (Builder.ofList ds).build (Spec.sourceAccounts (rowSel f r) (Builder.ofList ds).build) c
                (cellEve f part k) = some mF ∧
              (0 - (mD - mF)).abs ≤
                (Spec.stepCountOver v (Builder.ofList ds).build (Spec.sourceAccounts (rowSel f r) (Builder.ofList ds).build)
                  (cellEve f part k) part.endDates[k] c : Rat) / (10 : Rat) ^ 8) := by
  obtain ⟨hpart, st, hrun, rfl⟩ := entries_ok h
  obtain ⟨e, he, rfl⟩ := hmem
  have hcv : (cfgOf f part).valuation = some v := hf.valuation
  obtain ⟨hinc, hin', hdates⟩ := show_setup f v hf.valuation ds part st hpart hrun e he hal
  generalize hrc : BalanceCmd.renderCfg f part = rc
  have hrs : rc.showCommodities (⟨e.account.segments⟩ : Account).name = true := by
    rw [← hrc]; unfold BalanceCmd.renderCfg; rw [hf.show_]; exact hsh
  have hrd : rc.diff = f.diff := by rw [← hrc]; rfl
  have hre : rc.endDates = part.endDates := by rw [← hrc]; rfl
  have hdc : (rc.valuation.isNone || rc.hasShowCommodities) = true := by
    rw [← hrc]; unfold BalanceCmd.renderCfg; rw [hf.valuation, hf.show_]; rfl
  obtain ⟨pre, post, hrows⟩ := table_has_row rc st.entries e he hal
  rw [hdc] at hrows
  obtain ⟨⟨rest, tail, hblock⟩, hline, hnone⟩ := nodeRows_show rc (st.entries.filter (fun e => e.account.isAL)) false
    e.account.segments (2 * (e.account.segments.length - 1)) hrs
  refine ⟨pre, _, post, rest, tail, hrows, hblock, ?_⟩
  intro c
  -- the pipeline statement for column `k`
  have hcol : ∀ (k : Nat) (hk : k < part.endDates.length),
      ∃ mD mF,
        Spec.mtmPosOver v (Builder.ofList ds).build (Spec.sourceAccounts (rowSel f e.account) (Builder.ofList ds).build) c
          part.endDates[k] = some mD ∧
        Spec.mtmPosOver v (Builder.ofList ds).build (Spec.sourceAccounts (rowSel f e.account) (Builder.ofList ds).build) c
          (cellEve f part k) = some mF ∧
        ((shownAt f.diff part.endDates (BalanceReport.cellAt (BalanceReport.own (st.entries.filter (fun e => e.account.isAL))
            e.account.segments) true (some c)) k) - (mD - mF)).abs ≤
          (Spec.stepCountOver v (Builder.ofList ds).build (Spec.sourceAccounts (rowSel f e.account) (Builder.ofList ds).build)
            (cellEve f part k) part.endDates[k] c : Rat) / (10 : Rat) ^ 8 := by
    intro k hk
    have hDmem : part.endDates[k] ∈ part.endDates := List.getElem_mem hk
    have hF := eveOf_isEve (cfgOf f part) part.endDates rfl hinc hin' f.diff k hk
    obtain ⟨mD, mF, h1, h2, h3, h4, _⟩ := run_posrow_mapped (cfgOf f part) v e.account c (daysOf f ds part) st
      (eveOf f.diff part.span.start part.endDates k) part.endDates[k]
      hcv hf.com hal (daysOf_sorted f ds part) (daysOf_consistent f ds part) (daysOf_zero f ds part hz) hinc hDmem hF
      (hin' _ hDmem) hrun
    rw [srcSel_cfgOf, sourceAccounts_daysOf, mtmPosOver_daysOf] at h1 h2
    rw [srcSel_cfgOf, sourceAccounts_daysOf, stepCountOver_daysOf] at h3 h4
    rw [cellEve_eq]
    refine ⟨mD, mF, h1, h2, ?_⟩
    have hz0 : posCum e.account c (st.entries.filter (fun e => e.account.isAL)) (part.span.start - 1) = 0 := by
      rw [posCum_al e.account hal]
      obtain ⟨_, _, _, _, _, _, z⟩ := run_posrow_mapped (cfgOf f part) v e.account c (daysOf f ds part) st
        (part.span.start - 1) part.endDates[k]
        hcv hf.com hal (daysOf_sorted f ds part) (daysOf_consistent f ds part) (daysOf_zero f ds part hz) hinc hDmem (Or.inl rfl)
        (hin' _ hDmem) hrun
      exact z rfl
    have hsd := shownAt_delta_pos e.account c (st.entries.filter (fun e => e.account.isAL)) part.endDates hinc hdates f.diff
      part.span.start hz0 k hk
    rw [hsd, posCum_al e.account hal, posCum_al e.account hal, ← mul_ulp]
    exact abs_le_of h3 h4
  constructor
  · intro first cells hm
    obtain ⟨hlen, hcell⟩ := hline c first cells hm
    refine ⟨by rw [hlen, hre], ?_⟩
    intro k hk hk'
    have hk2 : k < rc.endDates.length := by rw [hre]; exact hk
    obtain ⟨mD, mF, h1, h2, h3⟩ := hcol k hk
    refine ⟨mD, mF, h1, h2, ?_⟩
    have hcv' := hcell k hk2 hk'
    simp only [Bool.false_eq_true, if_false] at hcv'
    rw [hcv', hrd]
    simp only [hre]
    exact h3
  · intro hno k hk
    obtain ⟨mD, mF, h1, h2, h3⟩ := hcol k hk
    refine ⟨mD, mF, h1, h2, ?_⟩
    have hzero := hnone c hno
    have : shownAt f.diff part.endDates (BalanceReport.cellAt (BalanceReport.own (st.entries.filter (fun e => e.account.isAL))
        e.account.segments) true (some c)) k = 0 := by
      unfold shownAt
      split
      · exact hzero _
      · exact sum_map_zero _ _ (fun d _ => hzero d)
    rw [this] at h3
    exact h3

/-! ### Non-vacuity (`-s`)

The journal of the mapped example, daily `--diff` columns from day 2 to day 4, `-m 2`, `-s '^Assets:B$'`.  The block of
`Assets:B` has ONE line, commodity USD: 1.75, 2.91666665, −2.66666666; the USD position of the two collected accounts
is worth 0, 1.75, 4.666666655, 1.999999995 on days 1–4 (`Spec.mtmPosOver`): differences 1.75, 2.916666655, −2.66666666.
There is no CHF line: the 100 CHF were booked before the window, `Spec.mtmPosOver … "CHF"` is 100 throughout. -/

def exFlagsS : BalanceFlags :=
  { valuation := some "CHF", from? := some 2, to := 4, interval := .daily, diff := true,
    showCommodities := some (fun s => s == "Assets:B"),
    mapping := [{ level := 2, suffix := 0, test := fun _ => true }] }

example : ShowFlags exFlagsS "CHF" (fun s => s == "Assets:B") ∧ (fun s => s == "Assets:B") exB.name = true :=
  ⟨⟨rfl, rfl, fun _ => rfl⟩, by decide⟩

example : (match BalanceCmd.entries exFlagsS exDirsM with
    | .ok (es, part) =>
      decide (part.span = ⟨2, 4⟩ ∧ part.endDates = [2, 3, 4] ∧ (∃ e ∈ es, e.account = exB) ∧
        [Cell.text "B".toList .left 2, Cell.text "USD".toList .left 0, Cell.num (7/4), Cell.num (291666665/100000000),
            Cell.num (-(266666666/100000000))] ∈
          (BalanceReport.table (BalanceCmd.renderCfg exFlagsS part) es).rows ∧
        cellEve exFlagsS part 0 = 1 ∧ cellEve exFlagsS part 1 = 2 ∧ cellEve exFlagsS part 2 = 3 ∧
        Spec.sourceAccounts (rowSel exFlagsS exB) (Builder.ofList exDirsM).build = [exBX, exBY] ∧
        [1, 2, 3, 4].map (Spec.mtmPosOver "CHF" (Builder.ofList exDirsM).build [exBX, exBY] "USD") =
          [some 0, some (7/4), some (4666666655/1000000000), some (1999999995/1000000000)] ∧
        [1, 2, 3, 4].map (Spec.mtmPosOver "CHF" (Builder.ofList exDirsM).build [exBX, exBY] "CHF") =
          [some 100, some 100, some 100, some 100] ∧
        Spec.stepCountOver "CHF" (Builder.ofList exDirsM).build [exBX, exBY] 2 3 "USD" = 2 ∧
        Spec.stepCountOver "CHF" (Builder.ofList exDirsM).build [exBX, exBY] 3 4 "USD" = 2)
    | .error _ => false) = true := by decide +kernel

end Knut.C03
