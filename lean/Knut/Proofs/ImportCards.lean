import Knut.Proofs.ImportEffects
/-!
# C13: the row models are faithful to the statement readers — card importers
-/
namespace Knut.Proofs.Import
open Knut Knut.Import Knut.Spec.Import

/-! ## ch.swisscard2 -/

theorem swisscard2_row (acct : Account) (hacct : acct ≠ tbd) (r : Rec) (ds : List Directive)
    (h : Swisscard2.row acct r = .ok ds) : All2 (Matches acct) (swisscard2Row r) ds := by
  unfold Swisscard2.row at h
  split at h
  · cases h
  · obtain ⟨d, hd, h⟩ := Res.bind_eq_ok h
    obtain ⟨c, hc, h⟩ := Res.bind_eq_ok h
    obtain ⟨q, hq, h⟩ := Res.bind_eq_ok h
    simp at h
    subst h
    have hd' := ofOption_eq_ok hd
    have hq' := ofOption_eq_ok hq
    have hc' := (mustCommodity_eq_ok hc).1
    unfold swisscard2Row dateOf num
    rw [hd', hq']
    simp only [Option.getD_some]
    refine All2.cons ?_ All2.nil
    refine mkTx_matches _ _ _ _ _ _ ?_ (by simp)
    intro c'
    simp [pbSum, pbEffect, expected, hc', hacct.symm]
    grind

theorem swisscard2_faithful (acct : Account) (hacct : acct ≠ tbd) (recs : List Rec) (ds : List Directive)
    (h : Swisscard2.run acct recs = .ok ds) : Faithful acct (swisscard2 recs) ds := by
  unfold Swisscard2.run at h
  cases recs with
  | nil => cases h
  | cons hd rows =>
    simp only at h
    split at h
    · cases h
    · exact mapRows_faithful (swisscard2_row acct hacct) rows ds h

/-! ## ch.swisscard -/

theorem fld_eq_ok {r : Rec} {i : Nat} {s : String} (h : fld r i = .ok s) : fldD r i = s := by
  unfold fld at h; unfold fldD; split at h <;> simp_all

theorem swisscard_row (acct : Account) (hacct : acct ≠ tbd) (n : Nat) (r : Rec) (ds : List Directive)
    (h : Swisscard.row acct n r = .ok ds) : All2 (Matches acct) (swisscardRow r) ds := by
  unfold Swisscard.row at h
  split at h
  · cases h
  · obtain ⟨f0, hf0, h⟩ := Res.bind_eq_ok h
    have e0 := fld_eq_ok hf0
    unfold swisscardRow
    rw [e0]
    cases hb0 : dateRe f0 with
    | false => simp [hb0] at h; subst h; simp; exact All2.nil
    | true =>
      simp only [hb0, Bool.not_true, Bool.false_eq_true, if_false] at h
      obtain ⟨f1, hf1, h⟩ := Res.bind_eq_ok h
      have e1 := fld_eq_ok hf1
      rw [e1]
      cases hb1 : dateRe f1 with
      | false => simp [hb1] at h; subst h; simp; exact All2.nil
      | true =>
        simp only [hb1, Bool.not_true, Bool.false_eq_true, if_false] at h
        split at h
        · cases h
        · obtain ⟨d, hd, h⟩ := Res.bind_eq_ok h
          obtain ⟨q, hq, h⟩ := Res.bind_eq_ok h
          simp at h; subst h
          have hd' := ofOption_eq_ok hd
          have hq' := ofOption_eq_ok hq
          simp only [Bool.and_self, if_true]
          unfold dateOf num
          rw [hd', hq']
          simp only [Option.getD_some]
          refine All2.cons ?_ All2.nil
          refine mkTx_matches _ _ _ _ _ _ ?_ (by simp)
          intro c'
          simp [pbSum, pbEffect, expected, hacct.symm]
          grind

theorem swisscard_faithful (acct : Account) (hacct : acct ≠ tbd) (recs : List Rec) (ds : List Directive)
    (h : Swisscard.run acct recs = .ok ds) : Faithful acct (swisscard recs) ds :=
  mapRows_faithful (swisscard_row acct hacct _) recs ds h

/-! ## ch.supercard -/

theorem supercard_amount {r : Rec} {q : Rat} (h : Supercard.amount r = .ok q) :
    q = (if nonEmpty (fldD r 11) then num (fldD r 11) else -num (fldD r 10)) := by
  unfold Supercard.amount at h
  unfold nonEmpty num
  split at h
  · rename_i h11
    have := ofOption_eq_ok h
    simp [h11, this]
  · rename_i h11
    split at h
    · obtain ⟨q', hq', h⟩ := Res.bind_eq_ok h
      have := ofOption_eq_ok hq'
      simp at h
      simp [h11, this, h]
    · cases h

theorem supercard_row (acct : Account) (hacct : acct ≠ tbd) (r : Rec) (ds : List Directive)
    (h : Supercard.row acct r = .ok ds) : All2 (Matches acct) (supercardRow r) ds := by
  unfold Supercard.row at h
  obtain ⟨text, htext, h⟩ := Res.bind_eq_ok h
  have e4 := fld_eq_ok htext
  unfold supercardRow
  rw [e4]
  by_cases hs : text = "Saldovortrag"
  · simp [hs] at h; subst h; simp [hs]; exact All2.nil
  · simp only [hs, if_false] at h
    by_cases hskip : (r.length = 11 || fldD r 0 = "") = true
    · simp [hskip] at h; subst h
      simp only [Bool.or_eq_true, decide_eq_true_eq] at hskip
      have : (decide (text = "Saldovortrag") || decide (r.length = 11) || decide (fldD r 0 = "")) = true := by
        rcases hskip with h1 | h1 <;> simp [h1]
      simp [this]; exact All2.nil
    · simp only [hskip, Bool.false_eq_true, if_false] at h
      split at h
      · cases h
      · obtain ⟨d, hd, h⟩ := Res.bind_eq_ok h
        obtain ⟨q, hq, h⟩ := Res.bind_eq_ok h
        obtain ⟨c, hc, h⟩ := Res.bind_eq_ok h
        simp at h; subst h
        have hd' := ofOption_eq_ok hd
        have hq' := supercard_amount hq
        have hc' := (getCommodity_eq_ok hc).1
        simp only [Bool.or_eq_true, decide_eq_true_eq, not_or] at hskip
        have : (decide (text = "Saldovortrag") || decide (r.length = 11) || decide (fldD r 0 = "")) = false := by
          simp [hs, hskip.1, hskip.2]
        simp only [this, Bool.false_eq_true, if_false]
        unfold dateOf
        rw [hd', ← hq']
        simp only [Option.getD_some]
        refine All2.cons ?_ All2.nil
        refine mkTx_matches _ _ _ _ _ _ ?_ (by simp)
        intro c'
        simp [pbSum, pbEffect, expected, hc', hacct.symm]
        grind

theorem supercard_faithful (acct : Account) (hacct : acct ≠ tbd) (recs : List Rec) (ds : List Directive)
    (h : Supercard.run acct recs = .ok ds) : Faithful acct (supercard recs) ds := by
  unfold Supercard.run at h
  match recs, h with
  | first :: header :: rows, h =>
    simp only at h
    split at h
    · cases h
    · split at h
      · cases h
      · split at h
        · cases h
        · exact mapRows_faithful (supercard_row acct hacct) rows ds h
  | [first], h => simp only at h; split at h <;> cases h
  | [], h => cases h

/-! ## ch.cumulus -/

/-- the item a pending transaction stands for -/
def pItem (p : Cumulus.Pending) : Item := .booking p.date [("CHF", p.quantity)]

theorem cumulus_amount {cf df : String} {q : Rat} (h : Cumulus.amount cf df = .ok q) : q = cumulusAmount cf df := by
  unfold Cumulus.amount at h
  unfold cumulusAmount nonEmpty numApos
  split at h
  · rename_i hc
    obtain ⟨q', hq', h⟩ := Res.bind_eq_ok h
    have := ofOption_eq_ok hq'
    simp at h hc
    simp [hc.1, this, h]
  · split at h
    · rename_i _ hc
      obtain ⟨q', hq', h⟩ := Res.bind_eq_ok h
      have := ofOption_eq_ok hq'
      simp at h hc
      simp [hc.1, this, h]
    · cases h

theorem addComment_items {c : String} {ps ps' : List Cumulus.Pending} (h : Cumulus.addComment c ps = some ps') :
    ps'.map pItem = ps.map pItem := by
  induction ps generalizing ps' with
  | nil => simp [Cumulus.addComment] at h
  | cons p rest ih =>
    cases rest with
    | nil => simp [Cumulus.addComment] at h; subst h; simp [pItem]
    | cons q rest' =>
      simp only [Cumulus.addComment, Option.map_eq_some_iff] at h
      obtain ⟨t, ht, h⟩ := h
      subst h
      simp [ih ht]

theorem cumulus_rounding_some {r : Rec} {p : Cumulus.Pending} (h : Cumulus.rounding r = .ok (some p)) :
    cumulusRow r = [pItem p] := by
  unfold Cumulus.rounding at h
  cases hb : dateRe (fldD r 0) with
  | false => simp [hb] at h
  | true =>
    simp only [hb, Bool.not_true, Bool.false_eq_true, if_false] at h
    obtain ⟨f1, hf1, h⟩ := Res.bind_eq_ok h
    have e1 := fld_eq_ok hf1
    by_cases hr : f1 = "Rundungskorrektur"
    · simp only [hr, ne_eq, not_true_eq_false, if_false] at h
      split at h
      · cases h
      · obtain ⟨d, hd, h⟩ := Res.bind_eq_ok h
        obtain ⟨q, hq, h⟩ := Res.bind_eq_ok h
        simp at h; subst h
        have hd' := ofOption_eq_ok hd
        have hq' := cumulus_amount hq
        unfold cumulusRow pItem dateOf
        simp [hb, e1, hr, hd', hq']
    · simp [hr] at h

theorem cumulus_rounding_none {r : Rec} (h : Cumulus.rounding r = .ok none) :
    (dateRe (fldD r 0) && fldD r 1 = "Rundungskorrektur") = false := by
  unfold Cumulus.rounding at h
  cases hb : dateRe (fldD r 0) with
  | false => simp
  | true =>
    simp only [hb, Bool.not_true, Bool.false_eq_true, if_false] at h
    obtain ⟨f1, hf1, h⟩ := Res.bind_eq_ok h
    have e1 := fld_eq_ok hf1
    by_cases hr : f1 = "Rundungskorrektur"
    · simp only [hr, ne_eq, not_true_eq_false, if_false] at h
      split at h
      · cases h
      · obtain ⟨d, hd, h⟩ := Res.bind_eq_ok h
        obtain ⟨q, hq, h⟩ := Res.bind_eq_ok h
        simp at h
    · simp [e1, hr]

theorem cumulus_booking {r : Rec} {o : Option Cumulus.Pending} (h : Cumulus.booking r = .ok o)
    (hround : (dateRe (fldD r 0) && fldD r 1 = "Rundungskorrektur") = false) (hfx : Cumulus.isFxComment r = false) :
    cumulusRow r = (o.map pItem).toList := by
  unfold Cumulus.booking at h
  unfold cumulusRow
  simp only [hround, hfx, Bool.false_eq_true, if_false]
  cases hb : dateRe (fldD r 0) with
  | false => simp [hb] at h; subst h; simp
  | true =>
    simp only [hb, Bool.not_true, Bool.false_eq_true, if_false] at h
    obtain ⟨f1, hf1, h⟩ := Res.bind_eq_ok h
    have e1 := fld_eq_ok hf1
    cases hb1 : dateRe f1 with
    | false => simp [hb1] at h; subst h; simp [e1, hb1]
    | true =>
      simp only [hb1, Bool.not_true, Bool.false_eq_true, if_false] at h
      split at h
      · cases h
      · obtain ⟨d, hd, h⟩ := Res.bind_eq_ok h
        obtain ⟨q, hq, h⟩ := Res.bind_eq_ok h
        simp at h; subst h
        have hd' := ofOption_eq_ok hd
        have hq' := cumulus_amount hq
        unfold pItem dateOf
        simp [e1, hb1, hd', hq']

theorem cumulus_step {ps ps' : List Cumulus.Pending} {r : Rec} (h : Cumulus.step ps r = .ok ps') :
    ps'.map pItem = ps.map pItem ++ cumulusRow r := by
  unfold Cumulus.step at h
  obtain ⟨o, ho, h⟩ := Res.bind_eq_ok h
  cases o with
  | some p =>
    simp at h; subst h
    simp [cumulus_rounding_some ho]
  | none =>
    have hr := cumulus_rounding_none ho
    simp only at h
    cases hfx : Cumulus.isFxComment r with
    | true =>
      simp only [hfx, if_true] at h
      have := ofOption_eq_ok h
      rw [addComment_items this]
      unfold cumulusRow
      simp [hr, hfx]
    | false =>
      simp only [hfx, Bool.false_eq_true, if_false] at h
      obtain ⟨o2, ho2, h⟩ := Res.bind_eq_ok h
      have hrow := cumulus_booking ho2 hr hfx
      cases o2 with
      | some p => simp at h; subst h; simp [hrow]
      | none => simp at h; subst h; simp [hrow]

theorem cumulus_steps {recs : List Rec} : ∀ {ps ps' : List Cumulus.Pending}, Cumulus.steps ps recs = .ok ps' →
    ps'.map pItem = ps.map pItem ++ recs.flatMap cumulusRow := by
  induction recs with
  | nil => intro ps ps' h; simp [Cumulus.steps] at h; subst h; simp
  | cons r rs ih =>
    intro ps ps' h
    simp only [Cumulus.steps] at h
    obtain ⟨ps1, h1, h⟩ := Res.bind_eq_ok h
    rw [ih h, cumulus_step h1]
    simp

theorem cumulus_pending (acct : Account) (hacct : acct ≠ tbd) (ps : List Cumulus.Pending) :
    All2 (Matches acct) (ps.map pItem) (ps.map (Cumulus.toTx acct)) := by
  induction ps with
  | nil => exact All2.nil
  | cons p ps ih =>
    refine All2.cons ?_ ih
    unfold pItem Cumulus.toTx
    refine mkTx_matches _ _ _ _ _ _ ?_ (by simp)
    intro c'
    simp [pbSum, pbEffect, expected, hacct.symm]
    grind

theorem cumulus_faithful (acct : Account) (hacct : acct ≠ tbd) (recs : List Rec) (ds : List Directive)
    (h : Cumulus.run acct recs = .ok ds) : Faithful acct (cumulus recs) ds := by
  unfold Cumulus.run at h
  obtain ⟨ps, hps, h⟩ := Res.bind_eq_ok h
  simp at h; subst h
  have := cumulus_steps hps
  simp at this
  unfold Faithful cumulus
  rw [← this]
  exact cumulus_pending acct hacct ps

end Knut.Proofs.Import
