import Knut.Properties.C01
import Knut.Proofs.BalanceLift
/-!
# C01, continued — from the theorem about report inserts to the rendered table and the command

`C01.lean` proves conservation for `Balance.run` (the processor pipeline) and for the rows `renderVals`
makes for the name "Delta".  This file closes the remaining gaps:

* `C01_table_delta` – where those rows sit in `BalanceReport.table`: the table ends with
  `… , sep, Delta block, sep`; the block starts with the row named "Delta", its other rows are
  continuation rows (first cell empty), none of them is a separator row — so the block is exactly what
  stands between the last two separator rows of the table — and every numeric cell in it is `0`;
* `C01_command` – `BalanceCmd.entries` (builder, partition, `ensureDays`, pipeline) on directives whose
  transactions are paired, flags without account/commodity filter and mapping levels ≥ 1: every value the
  Delta row is computed from is `0`; `C01_command_table` puts the two together for the table `BalanceCmd.run` renders;
* `C01_create_paired`, `C01_loader_paired` – the hypothesis "transactions are paired" holds for everything
  `transaction.Create` returns (with or without `@accrue`) and for every directive the driver's loader
  (`Driver.C04.load`, the path of all generated journals) produces; `C01_loaded_journal` is the end-to-end statement.
-/
namespace Knut.C01
open Knut
open Knut.Table (Cell)

/-- the Comm column is drawn (`Renderer.Render`: no valuation, or `-s` given) -/
def drawComm (rc : RenderCfg) : Bool := rc.valuation.isNone || rc.hasShowCommodities

/-- the separator row of the table -/
def sepRow (rc : RenderCfg) : List Cell :=
  List.replicate (1 + (if drawComm rc then 1 else 0) + rc.endDates.length) Cell.sep

theorem sepRow_head (rc : RenderCfg) : (sepRow rc).head? = some Cell.sep := by
  unfold sepRow
  have : 1 + (if drawComm rc then 1 else 0) + rc.endDates.length
      = ((if drawComm rc then 1 else 0) + rc.endDates.length) + 1 := by omega
  rw [this, List.replicate_succ, List.head?_cons]

/-- **the Delta block of the rendered table.**  For every render configuration and every list of report
inserts all of whose (column, commodity) totals vanish, the rows of the table are
`pre ++ [sep] ++ delta ++ [sep]` where `delta` is `renderVals … "Delta" …` of those totals: its first row
starts with the text "Delta", all further rows are continuation rows, no row is a separator (so `delta`
is what stands between the last two separators), and every numeric cell of `delta` is `0`. -/
theorem C01_table_delta (rc : RenderCfg) (entries : List Entry)
    (hz : ∀ byCom c d, BalanceReport.cellAt entries byCom c d = 0) :
    ∃ pre delta, (BalanceReport.table rc entries).rows = pre ++ [sepRow rc] ++ delta ++ [sepRow rc] ∧
      (∃ coms, delta = BalanceReport.renderVals rc (drawComm rc) 0 "Delta" false coms
                         (BalanceReport.cellAt entries rc.valuation.isNone)) ∧
      (∃ r rs, delta = r :: rs ∧ r.head? = some (Cell.text "Delta".toList .left 0) ∧
         ∀ r' ∈ rs, r'.head? = some Cell.empty) ∧
      (∀ row ∈ delta, row ≠ sepRow rc) ∧
      (∀ row ∈ delta, ∀ x ∈ row, ∀ n, x = Cell.num n → n = 0) := by
  have hsplit : ∃ pre coms, (BalanceReport.table rc entries).rows =
      pre ++ [sepRow rc] ++
        BalanceReport.renderVals rc (drawComm rc) 0 "Delta" false coms (BalanceReport.cellAt entries rc.valuation.isNone) ++
        [sepRow rc] := by
    unfold BalanceReport.table sepRow drawComm
    exact ⟨_, _, rfl⟩
  obtain ⟨pre, coms, hrows⟩ := hsplit
  obtain ⟨r, rs, hd, hr, hrs⟩ := renderVals_shape rc (drawComm rc) 0 "Delta" false coms
    (BalanceReport.cellAt entries rc.valuation.isNone)
  refine ⟨pre, _, hrows, ⟨coms, rfl⟩, ⟨r, rs, hd, hr, hrs⟩, ?_, ?_⟩
  · intro row hrow e
    rw [hd] at hrow
    have hs := sepRow_head rc
    rcases List.mem_cons.mp hrow with rfl | hrow
    · rw [e, hs] at hr; cases hr
    · have := hrs row hrow; rw [e, hs] at this; cases this
  · exact renderVals_zero rc (drawComm rc) 0 "Delta" false coms _ (fun c d => hz _ c d)

/-- the configuration `BalanceCmd.entries` hands to the pipeline is `Unfiltered` when the flags are -/
theorem unfiltered_of_flags (f : BalanceFlags) (span : Period) (periods : List Period)
    (hacc : f.accountFilter = fun _ => true) (hcom : f.commodityFilter = fun _ => true)
    (hlev : ∀ r ∈ f.mapping, 1 ≤ r.level) :
    Unfiltered { valuation := f.valuation, span := span, periods := periods, close := f.close,
                 mapping := f.mapping, remap := f.remap, accountFilter := f.accountFilter,
                 commodityFilter := f.commodityFilter } :=
  ⟨fun _ => by simp only [hacc], fun _ => by simp only [hcom], fun a => visible_of_levels _ hlev a⟩

/-- **conservation at the command level.**  `BalanceCmd.entries` = builder (`Builder.ofList`), partition of the
window, `ensureDays` for `--close`, then `Balance.run`.  For every list of directives whose transactions are
paired and all flags without account/commodity filter and with mapping levels ≥ 1: whenever the command
produces report entries, every (column, commodity) total — what the Delta row is made of — is `0`,
per commodity (`byCom = true`) and valued (`byCom = false`). -/
theorem C01_command (f : BalanceFlags) (ds : List Directive)
    (hpaired : ∀ t, Directive.tx t ∈ ds → TxPaired t)
    (hacc : f.accountFilter = fun _ => true) (hcom : f.commodityFilter = fun _ => true)
    (hlev : ∀ r ∈ f.mapping, 1 ≤ r.level)
    (es : List Entry) (part : Partition) (h : BalanceCmd.entries f ds = .ok (es, part)) :
    ∀ byCom c d, BalanceReport.cellAt es byCom c d = 0 := by
  intro byCom c d
  unfold BalanceCmd.entries at h
  simp only at h
  split at h
  · cases h
  · split at h
    · cases h
    · rename_i st hrun
      injection h with h
      injection h with h1 h2
      subst h1; subst h2
      refine C01_delta_cells_zero _ (unfiltered_of_flags f _ _ hacc hcom hlev) _ ?_ st hrun byCom c d
      unfold Builder.build
      split
      · exact ensureDays_paired _ _ (ofList_paired ds hpaired)
      · exact ofList_paired ds hpaired

/-- **the table `knut balance` renders** (`BalanceCmd.run` renders `table (renderCfg f part) es`, as text or
CSV): under the hypotheses of `C01_command` its Delta block consists of zeros. -/
theorem C01_command_table (f : BalanceFlags) (ds : List Directive)
    (hpaired : ∀ t, Directive.tx t ∈ ds → TxPaired t)
    (hacc : f.accountFilter = fun _ => true) (hcom : f.commodityFilter = fun _ => true)
    (hlev : ∀ r ∈ f.mapping, 1 ≤ r.level)
    (es : List Entry) (part : Partition) (h : BalanceCmd.entries f ds = .ok (es, part)) :
    let rc := BalanceCmd.renderCfg f part
    ∃ pre delta, (BalanceReport.table rc es).rows = pre ++ [sepRow rc] ++ delta ++ [sepRow rc] ∧
      (∃ r rs, delta = r :: rs ∧ r.head? = some (Cell.text "Delta".toList .left 0) ∧
         ∀ r' ∈ rs, r'.head? = some Cell.empty) ∧
      (∀ row ∈ delta, row ≠ sepRow rc) ∧
      (∀ row ∈ delta, ∀ x ∈ row, ∀ n, x = Cell.num n → n = 0) := by
  intro rc
  obtain ⟨pre, delta, h1, _, h3, h4, h5⟩ :=
    C01_table_delta rc es (C01_command f ds hpaired hacc hcom hlev es part h)
  exact ⟨pre, delta, h1, h3, h4, h5⟩

/-- **everything `transaction.Create` returns is paired**: the single transaction of an un-annotated input
(every booking a posting pair) and every transaction of an `@accrue` expansion (C10: each is one
`posting.Builder` pair against the accrual account). -/
theorem C01_create_paired (t : Accrual.TxInput) (gen : List Transaction) (h : Accrual.create t = .ok gen) :
    ∀ g ∈ gen, TxPaired g :=
  create_paired t gen h

/-- **everything the driver's loader produces is paired**: `Driver.C04.load` turns a generated journal into
model directives (`Transaction.ofBookings` without annotation, `Accrual.create` with one). -/
theorem C01_loader_paired (raw : List Driver.RawDirective) (ids : List (Nat × Directive))
    (h : Driver.C04.load raw = .ok ids) : ∀ t, Directive.tx t ∈ ids.map (·.2) → TxPaired t := by
  intro t ht
  obtain ⟨p, hp, hpt⟩ := List.mem_map.mp ht
  have : IdsPaired ids := load_go_paired raw 0 [] ids (by intro p hp; cases hp) h
  exact this p hp t hpt

/-- **end to end**: for every journal the loader accepts and every flag vector without filters and with
mapping levels ≥ 1, the Delta block of the table the balance command renders consists of zeros. -/
theorem C01_loaded_journal (raw : List Driver.RawDirective) (ids : List (Nat × Directive))
    (hload : Driver.C04.load raw = .ok ids) (f : BalanceFlags)
    (hacc : f.accountFilter = fun _ => true) (hcom : f.commodityFilter = fun _ => true)
    (hlev : ∀ r ∈ f.mapping, 1 ≤ r.level)
    (es : List Entry) (part : Partition) (h : BalanceCmd.entries f (ids.map (·.2)) = .ok (es, part)) :
    let rc := BalanceCmd.renderCfg f part
    ∃ pre delta, (BalanceReport.table rc es).rows = pre ++ [sepRow rc] ++ delta ++ [sepRow rc] ∧
      (∃ r rs, delta = r :: rs ∧ r.head? = some (Cell.text "Delta".toList .left 0) ∧
         ∀ r' ∈ rs, r'.head? = some Cell.empty) ∧
      (∀ row ∈ delta, row ≠ sepRow rc) ∧
      (∀ row ∈ delta, ∀ x ∈ row, ∀ n, x = Cell.num n → n = 0) :=
  C01_command_table f _ (C01_loader_paired raw ids hload) hacc hcom hlev es part h

/-! Non-vacuity: a journal with an opening balance and an `@accrue`-annotated expense is loaded, the balance
command (monthly columns, `--diff`) produces entries for it, and the default flags satisfy the provisos. -/
def exRaw : List Driver.RawDirective :=
  [.opening ⟨737425, ⟨["Equity", "E"]⟩⟩, .opening ⟨737425, ⟨["Assets", "A"]⟩⟩, .opening ⟨737425, ⟨["Expenses", "T"]⟩⟩,
   .opening ⟨737425, ⟨["Assets", "P"]⟩⟩,
   .tx 737430 "open" none none [⟨⟨["Equity", "E"]⟩, ⟨["Assets", "A"]⟩, 5000, "CHF"⟩],
   .tx 737507 "tax" none (some ⟨"monthly", 737425, 737600, ⟨["Assets", "P"]⟩⟩) [⟨⟨["Assets", "A"]⟩, ⟨["Expenses", "T"]⟩, 1000, "CHF"⟩]]

def exFlags : BalanceFlags := { to := 737790, interval := .monthly, diff := true }

def isOk {ε α : Type} : Except ε α → Bool | .ok _ => true | .error _ => false

example : ∃ ids es part, Driver.C04.load exRaw = .ok ids ∧ 6 < ids.length ∧
    BalanceCmd.entries exFlags (ids.map (·.2)) = .ok (es, part) := by
  have h : (match Driver.C04.load exRaw with
      | .ok ids => decide (6 < ids.length) && isOk (BalanceCmd.entries exFlags (ids.map (·.2)))
      | _ => false) = true := by decide +kernel
  split at h
  · rename_i ids hl
    simp only [Bool.and_eq_true, decide_eq_true_eq] at h
    cases he : BalanceCmd.entries exFlags (ids.map (·.2)) with
    | error e => rw [he] at h; cases h.2
    | ok p => exact ⟨ids, p.1, p.2, hl, h.1, he⟩
  · cases h

example : exFlags.accountFilter = (fun _ => true) ∧ exFlags.commodityFilter = (fun _ => true) ∧
    ∀ r ∈ exFlags.mapping, 1 ≤ r.level := ⟨rfl, rfl, by intro r hr; cases hr⟩

end Knut.C01
