import Knut.Proofs.InsertsPerm
import Knut.Proofs.PricesSpec
import Knut.Properties.C04
/-!
# The report inserts of a VALUED balance run do not depend on the order of the directives within a day (C05/C06)

Extension of `Knut.Proofs.InsertsPerm` (unvalued) to every configuration, `cfg.valuation = some v` included.
`day_sim`/`run_sim`: two runs of the pipeline model over day lists that agree day by day up to the order of the
directives of each kind (`DayEquivP`) both fail, or both succeed in states related by `RelV`:

* checker states that refine equivalent lifecycle states (`ChkEq`; C04 refinement + `stepDay_perm`);
* price graphs with distinct keys and the same stored prices (`GEq`), hence the same `Normalize` table
  (`normalize_geq`, by `normLoop_congr`: the traversal sorts the keys it ranges over); the same `norm` and `vPrev`;
* `vQty` with distinct keys and the same lookup function, so the two association lists are permutations of each
  other (`amap_perm`) and the adjustment transactions, generated in key order, are permutations of each other — and
  a missing price makes the day fail for one order iff it does for the other (`adjustments_perm`, an instance of
  `foldlM_perm_sim`);
* `cQty`/`cVal` as in the unvalued proof (the values are no longer zero); report inserts equal up to order.

The price declarations of corresponding days are the same list, or a permutation in which no two declarations are
about the same unordered pair of commodities (`DeclsEquiv`; the property excludes journals with two prices for one
pair on one day — for these the later declaration wins and the order does matter).

Also: `run_wfv` (valued runs of journals with well-formed accounts insert on well-formed accounts: value adjustments
book on the position's account and on `Income:…`).
-/

namespace Knut.InsertsPermValued
open Knut Knut.Spec Knut.LedgerClose Knut.InsertsPerm
open Knut.Prices (Decl insertAll edge WF normalize)

/-! ### generic: `mapM` in `Except` over permuted lists -/

theorem mapM_nil' {α β ε : Type} (f : α → Except ε β) : ([] : List α).mapM f = .ok [] := rfl

theorem mapM_cons' {α β ε : Type} (f : α → Except ε β) (a : α) (l : List α) :
    (a :: l).mapM f = (f a >>= fun b => l.mapM f >>= fun bs => .ok (b :: bs)) := by
  rw [List.mapM_cons]; rfl

theorem mapM_perm {α β ε : Type} (f : α → Except ε β) {l l' : List α} (hp : l.Perm l') :
    PSim List.Perm (l.mapM f) (l'.mapM f) := by
  induction hp with
  | nil => exact List.Perm.refl _
  | cons x _ ih =>
    rw [mapM_cons', mapM_cons']
    refine bind_sim (R := Eq) ?_ ?_
    · cases f x <;> simp [Sim]
    · intro b b' hb; subst hb
      refine bind_sim ih ?_
      intro bs bs' h; exact h.cons b
  | swap x y l =>
    simp only [mapM_cons']
    cases f x <;> cases f y <;> cases l.mapM f <;> simp only [bind, Except.bind, PSim, Sim]
    exact List.Perm.swap _ _ _
  | trans _ _ ih1 ih2 => exact psim_trans (R := List.Perm) (fun _ _ _ h1 h2 => h1.trans h2) ih1 ih2

theorem mapM_ok_mem {α β ε : Type} (f : α → Except ε β) : ∀ (l : List α) (r : List β), l.mapM f = .ok r →
    ∀ b ∈ r, ∃ a ∈ l, f a = .ok b := by
  intro l
  induction l with
  | nil => intro r h b hb; rw [mapM_nil'] at h; injection h with h; subst h; cases hb
  | cons a rest ih =>
    intro r h b hb
    rw [mapM_cons'] at h
    cases hfa : f a with
    | error e => rw [hfa] at h; cases h
    | ok b0 =>
      cases hr : rest.mapM f with
      | error e => rw [hfa, hr] at h; cases h
      | ok bs =>
        rw [hfa, hr] at h
        simp only [bind, Except.bind] at h
        injection h with h; subst h
        rcases List.mem_cons.1 hb with rfl | hb
        · exact ⟨a, List.mem_cons_self, hfa⟩
        · obtain ⟨a', ha', hf'⟩ := ih bs hr b hb
          exact ⟨a', List.mem_cons_of_mem _ ha', hf'⟩

/-! ### the checker on two equivalent days -/

/-- both checker states refine equivalent lifecycle states -/
def ChkEq (c c' : CheckState) : Prop := ∃ s s', C04.R c s ∧ C04.R c' s' ∧ LEquiv s s'

theorem chkEq_init : ChkEq {} {} := ⟨{}, {}, C04.R_init, C04.R_init, LEquiv.refl _⟩

theorem chk_day {c c' : CheckState} (h : ChkEq c c') {d d' : Day} (hd : DayEquiv d d') :
    PSim ChkEq (Check.day c d) (Check.day c' d') := by
  obtain ⟨s, s', r, r', e⟩ := h
  have a := C04.sim_day c s d r
  have b := stepDay_perm true s s' d d' hd e
  have a' := C04.sim_day c' s' d' r'
  revert a b a'
  generalize Check.day c d = x
  generalize Check.day c' d' = x'
  generalize stepDay true s d = y
  generalize stepDay true s' d' = y'
  intro a b a'
  cases x <;> cases x' <;> cases y <;> cases y' <;> simp only [PSim, Sim] at a b a' ⊢
  exact ⟨_, _, a, a', b⟩

/-! ### `Valuate.DayStart`: the adjustment transactions follow the key order of `vQty` -/

/-- the adjustment of one position, or the failure of its price lookup -/
def adjOne (v : Commodity) (date : Int) (prev cur : Option Prices.NPrices) (e : Position × Rat) :
    Except BalErr (List Transaction) := Balance.adjustStep v date prev cur [] e

theorem adjustStep_eq (v : Commodity) (date : Int) (prev cur : Option Prices.NPrices) (acc : List Transaction)
    (e : Position × Rat) :
    Balance.adjustStep v date prev cur acc e = (adjOne v date prev cur e >>= fun l => .ok (acc ++ l)) := by
  unfold adjOne Balance.adjustStep
  split
  · simp only [bind, Except.bind, List.append_nil]
  · cases Balance.lookupPrice prev e.1.2 with
    | error x => rfl
    | ok pp =>
      cases Balance.lookupPrice cur e.1.2 with
      | error x => rfl
      | ok cp =>
        simp only [bind, Except.bind]
        split
        · simp only [List.append_nil]
        · simp only [List.nil_append]

theorem adjustStep_resp (v : Commodity) (date : Int) (prev cur : Option Prices.NPrices)
    (acc acc' : List Transaction) (e : Position × Rat) (h : acc.Perm acc') :
    PSim List.Perm (Balance.adjustStep v date prev cur acc e) (Balance.adjustStep v date prev cur acc' e) := by
  rw [adjustStep_eq, adjustStep_eq]
  cases adjOne v date prev cur e with
  | error x => trivial
  | ok l => exact h.append_right l

theorem adjustStep_comm (v : Commodity) (date : Int) (prev cur : Option Prices.NPrices)
    (acc : List Transaction) (x y : Position × Rat) :
    PSim List.Perm
      (Balance.adjustStep v date prev cur acc x >>= fun a => Balance.adjustStep v date prev cur a y)
      (Balance.adjustStep v date prev cur acc y >>= fun a => Balance.adjustStep v date prev cur a x) := by
  simp only [adjustStep_eq]
  cases adjOne v date prev cur x <;> cases adjOne v date prev cur y <;> simp only [bind, Except.bind, PSim, Sim]
  rw [List.append_assoc, List.append_assoc]
  exact List.perm_append_comm.append_left acc

theorem adjustments_perm (v : Commodity) (date : Int) (prev cur : Option Prices.NPrices)
    {qty qty' : AMap Position Rat} (hp : qty.Perm qty') :
    PSim List.Perm (Balance.adjustments v date prev cur qty) (Balance.adjustments v date prev cur qty') :=
  foldlM_perm_sim List.Perm List.Perm.refl (fun _ _ _ h1 h2 => h1.trans h2) _
    (fun a a' e h => adjustStep_resp v date prev cur a a' e h)
    (fun a x y => adjustStep_comm v date prev cur a x y) hp [] [] (List.Perm.refl _)

/-! ### `Valuate.Posting`, quantities -/

def qStep (q : AMap Position Rat) (p : Posting) : AMap Position Rat :=
  if p.quantity = 0 then q
  else if p.account.isAL then q.set (p.account, p.commodity) (q.get (p.account, p.commodity) 0 + p.quantity)
  else q

theorem addQty_eq (ts : List Transaction) : ∀ (q : AMap Position Rat),
    Balance.addQty q ts = (ts.flatMap (·.postings)).foldl qStep q := by
  unfold Balance.addQty
  induction ts with
  | nil => intro q; rfl
  | cons t rest ih =>
    intro q
    simp only [List.foldl_cons, List.flatMap_cons, List.foldl_append]
    rw [ih]
    rfl

def look (q : AMap Position Rat) : Fn := fun k => q.find? k

def qStepF (f : Fn) (p : Posting) : Fn :=
  if p.quantity = 0 then f else if p.account.isAL then upd f (p.account, p.commodity) p.quantity else f

theorem look_qStep (q : AMap Position Rat) (p : Posting) : look (qStep q p) = qStepF (look q) p := by
  unfold qStep qStepF
  split
  · rfl
  · split
    · funext k; unfold look; rw [AMap.find?_set]; rfl
    · rfl

theorem qStepF_comm (f : Fn) (p q : Posting) : qStepF (qStepF f p) q = qStepF (qStepF f q) p := by
  unfold qStepF
  by_cases hp : p.quantity = 0 <;> by_cases hq : q.quantity = 0 <;>
    by_cases hp' : p.account.isAL = true <;> by_cases hq' : q.account.isAL = true <;>
    simp only [hp, hq, hp', hq', if_true, if_false, Bool.false_eq_true]
  rw [upd_comm]

theorem look_foldl (ps : List Posting) : ∀ q : AMap Position Rat, look (ps.foldl qStep q) = ps.foldl qStepF (look q) := by
  induction ps with
  | nil => intro q; rfl
  | cons p rest ih => intro q; simp only [List.foldl_cons]; rw [ih, look_qStep]

theorem look_addQty {q q' : AMap Position Rat} (h : look q = look q') {ts ts' : List Transaction} (hp : ts.Perm ts') :
    look (Balance.addQty q ts) = look (Balance.addQty q' ts') := by
  rw [addQty_eq, addQty_eq, look_foldl, look_foldl, h]
  exact ReportPerm.foldl_comm_perm _ qStepF_comm (hp.flatMap_right _) _

theorem nodup_qStep {q : AMap Position Rat} (h : AMap.NodupKeys q) (p : Posting) : AMap.NodupKeys (qStep q p) := by
  unfold qStep
  split
  · exact h
  · split
    · exact AMap.nodup_set h _ _
    · exact h

theorem nodup_addQty {q : AMap Position Rat} (h : AMap.NodupKeys q) (ts : List Transaction) :
    AMap.NodupKeys (Balance.addQty q ts) := by
  rw [addQty_eq]
  generalize ts.flatMap (·.postings) = ps
  induction ps generalizing q with
  | nil => exact h
  | cons p rest ih => simp only [List.foldl_cons]; exact ih (nodup_qStep h p)

/-! ### `ComputePrices`: the price graph up to the order of a day's declarations -/

/-- two representations of the same price graph: distinct keys everywhere and the same stored prices -/
def GEq (g g' : Prices.Prices) : Prop := WF g ∧ WF g' ∧ ∀ a b, edge g a b = edge g' a b

theorem geq_nil : GEq [] [] := ⟨Prices.wf_nil, Prices.wf_nil, fun _ _ => rfl⟩

theorem inner_nodup {g : Prices.Prices} (h : WF g) (c : Commodity) : (Prices.keys ((Prices.find c g).getD [])).Nodup := by
  cases hf : Prices.find c g with
  | none => exact List.nodup_nil
  | some m => exact h.2 c m hf

theorem neighbors_geq {g g' : Prices.Prices} (h : GEq g g') (c : Commodity) :
    Prices.neighbors g c = Prices.neighbors g' c := by
  have hm : ∀ n, n ∈ Prices.keys ((Prices.find c g).getD []) ↔ n ∈ Prices.keys ((Prices.find c g').getD []) := by
    intro n
    have h1 := Prices.mem_neighbors_iff g c n
    have h2 := Prices.mem_neighbors_iff g' c n
    unfold Prices.neighbors at h1 h2
    rw [Prices.mem_sortNames] at h1 h2
    rw [h1, h2, h.2.2 c n]
  unfold Prices.neighbors
  exact Prices.sortNames_perm_eq ((List.perm_ext_iff_of_nodup (inner_nodup h.1 c) (inner_nodup h.2.1 c)).2 hm)

theorem normalize_geq {g g' : Prices.Prices} (h : GEq g g') (v : Commodity) : normalize g v = normalize g' v :=
  Prices.normLoop_congr g g' (neighbors_geq h) (fun c n => by unfold Prices.price; rw [h.2.2 c n]) [v] [(v, 1)]

/-- two declarations about the same unordered pair of commodities -/
def SamePair (p q : Decl) : Prop :=
  (p.commodity = q.commodity ∧ p.target = q.target) ∨ (p.commodity = q.target ∧ p.target = q.commodity)

theorem samePair_symm {p q : Decl} (h : SamePair p q) : SamePair q p := by
  rcases h with ⟨h1, h2⟩ | ⟨h1, h2⟩
  · exact Or.inl ⟨h1.symm, h2.symm⟩
  · exact Or.inr ⟨h2.symm, h1.symm⟩

/-- no two declarations of the list are about the same unordered pair -/
def PairsDistinct (l : List Decl) : Prop := l.Pairwise (fun p q => ¬ SamePair p q)

theorem pairsDistinct_perm {l l' : List Decl} (hp : l.Perm l') (h : PairsDistinct l) : PairsDistinct l' :=
  (hp.pairwise_iff (fun {_ _} hn hs => hn (samePair_symm hs))).1 h

/-- what one declaration says about the price of `b` in `a` -/
def declVal (d : Decl) (a b : Commodity) : Option Rat :=
  if a = d.commodity ∧ b = d.target then some (Prices.recip d.price)
  else if a = d.target ∧ b = d.commodity then some d.price else none

theorem latest_cons (d : Decl) (ds : List Decl) (a b : Commodity) :
    latest (d :: ds) a b = (latest ds a b).or (declVal d a b) := by
  unfold declVal
  rw [latest]
  cases latest ds a b <;> rfl

theorem declVal_some {d : Decl} {a b : Commodity} (h : (declVal d a b).isSome = true) :
    (a = d.commodity ∧ b = d.target) ∨ (a = d.target ∧ b = d.commodity) := by
  unfold declVal at h
  split at h
  · exact Or.inl ‹_›
  · split at h
    · exact Or.inr ‹_›
    · cases h

theorem latest_perm {l l' : List Decl} (hp : l.Perm l') (hd : PairsDistinct l) (a b : Commodity) :
    latest l a b = latest l' a b := by
  induction hp with
  | nil => rfl
  | cons x _ ih =>
    rw [latest_cons, latest_cons, ih (List.Pairwise.of_cons hd)]
  | swap x y l =>
    rw [latest_cons, latest_cons, latest_cons, latest_cons]
    have hxy : ¬ SamePair y x := (List.pairwise_cons.1 hd).1 x List.mem_cons_self
    cases latest l a b with
    | some z => rfl
    | none =>
      cases hx : declVal x a b with
      | none => cases declVal y a b <;> rfl
      | some u =>
        cases hy : declVal y a b with
        | none => rfl
        | some w =>
          exfalso; apply hxy
          have mx := declVal_some (d := x) (a := a) (b := b) (by rw [hx]; rfl)
          have my := declVal_some (d := y) (a := a) (b := b) (by rw [hy]; rfl)
          unfold SamePair
          rcases mx with ⟨e1, e2⟩ | ⟨e1, e2⟩ <;> rcases my with ⟨e3, e4⟩ | ⟨e3, e4⟩
          · exact Or.inl ⟨e3.symm.trans e1, e4.symm.trans e2⟩
          · exact Or.inr ⟨e4.symm.trans e2, e3.symm.trans e1⟩
          · exact Or.inr ⟨e3.symm.trans e1, e4.symm.trans e2⟩
          · exact Or.inl ⟨e4.symm.trans e2, e3.symm.trans e1⟩
  | trans h12 _ ih1 ih2 => rw [ih1 hd, ih2 (pairsDistinct_perm h12 hd)]

/-- the declaration lists of two corresponding days: the same list, or a permutation without two declarations of
one pair -/
def DeclsEquiv (l l' : List Decl) : Prop := l = l' ∨ (l.Perm l' ∧ PairsDistinct l)

theorem DeclsEquiv.perm {l l' : List Decl} (h : DeclsEquiv l l') : l.Perm l' := by
  rcases h with rfl | h
  · exact List.Perm.refl _
  · exact h.1

theorem DeclsEquiv.latest {l l' : List Decl} (h : DeclsEquiv l l') (a b : Commodity) : latest l a b = latest l' a b := by
  rcases h with rfl | h
  · rfl
  · exact latest_perm h.1 h.2 a b

/-- inserting corresponding declaration lists into two representations of one graph: both fail, or both succeed
with two representations of one graph -/
theorem insertAll_geq {g g' : Prices.Prices} (h : GEq g g') {l l' : List Decl} (hl : DeclsEquiv l l') :
    match insertAll g l, insertAll g' l' with
    | some g1, some g1' => GEq g1 g1'
    | none, none => True
    | _, _ => False := by
  cases h1 : insertAll g l with
  | none =>
    cases h2 : insertAll g' l' with
    | none => trivial
    | some g1' =>
      obtain ⟨d, hd, hz⟩ := (Prices.insertAll_eq_none_iff l g).1 h1
      have : insertAll g' l' = none := (Prices.insertAll_eq_none_iff l' g').2 ⟨d, hl.perm.mem_iff.1 hd, hz⟩
      rw [this] at h2; cases h2
  | some g1 =>
    cases h2 : insertAll g' l' with
    | none =>
      obtain ⟨d, hd, hz⟩ := (Prices.insertAll_eq_none_iff l' g').1 h2
      have : insertAll g l = none := (Prices.insertAll_eq_none_iff l g).2 ⟨d, hl.perm.mem_iff.2 hd, hz⟩
      rw [this] at h1; cases h1
    | some g1' =>
      refine ⟨Prices.wf_insertAll l g g1 h.1 h1, Prices.wf_insertAll l' g' g1' h.2.1 h2, ?_⟩
      intro a b
      rw [Prices.edge_insertAll l g g1 h1, Prices.edge_insertAll l' g' g1' h2, hl.latest a b, h.2.2 a b]

/-! ### the `ComputePrices` stage -/

def toDecl (p : Price) : Decl := ⟨p.commodity, p.price, p.target⟩

theorem pricesFold_eq (ps : List Price) : ∀ (g : Prices.Prices),
    ps.foldlM (fun g p =>
      match Prices.insert g ⟨p.commodity, p.price, p.target⟩ with
      | some g' => Except.ok g'
      | none => Except.error BalErr.zeroPrice) g =
    match insertAll g (ps.map toDecl) with
    | some g' => .ok g'
    | none => .error BalErr.zeroPrice := by
  induction ps with
  | nil => intro g; rfl
  | cons p rest ih =>
    intro g
    simp only [List.foldlM_cons, List.map_cons, insertAll, toDecl]
    cases Prices.insert g ⟨p.commodity, p.price, p.target⟩ with
    | none => rfl
    | some g' => simp only [bind, Except.bind]; exact ih g'

theorem bind_congr_left {ε α β : Type} {x y : Except ε α} (h : x = y) (k : α → Except ε β) : (x >>= k) = (y >>= k) := by
  rw [h]

theorem pricesDay_eq (v : Commodity) (st : BalState) (d : Day) :
    Balance.pricesDay v st d =
      match insertAll st.graph (d.prices.map toDecl) with
      | some g => .ok { st with graph := g, norm := if d.prices.isEmpty then st.norm else some (normalize g v) }
      | none => .error BalErr.zeroPrice := by
  unfold Balance.pricesDay
  refine (bind_congr_left (pricesFold_eq d.prices st.graph) _).trans ?_
  cases insertAll st.graph (d.prices.map toDecl) <;> rfl

/-! ### the relation kept between the two runs -/

/-- two days that agree up to the order of the directives of each kind; the price declarations are the same list, or
a permutation in which no two declarations are about the same pair of commodities -/
def DayEquivP (d d' : Day) : Prop := DayEquiv d d' ∧ DeclsEquiv (d.prices.map toDecl) (d'.prices.map toDecl)

theorem dayEquivP_of_eq {d d' : Day} (h : DayEquiv d d') (hp : d.prices = d'.prices) : DayEquivP d d' :=
  ⟨h, Or.inl (by rw [hp])⟩

structure RelV (st st' : BalState) : Prop where
  chk : ChkEq st.chk st'.chk
  graph : GEq st.graph st'.graph
  norm : st.norm = st'.norm
  vPrev : st.vPrev = st'.vPrev
  vnd : AMap.NodupKeys st.vQty
  vnd' : AMap.NodupKeys st'.vQty
  vq : look st.vQty = look st'.vQty
  nd : AMap.NodupKeys st.cQty
  nd' : AMap.NodupKeys st'.cQty
  acc : abs st = abs st'
  ent : st.entries.Perm st'.entries

theorem relV_init : RelV {} {} :=
  ⟨chkEq_init, geq_nil, rfl, rfl, List.nodup_nil, List.nodup_nil, rfl, List.nodup_nil, List.nodup_nil, rfl,
    List.Perm.refl _⟩

/-- relation of the stage outputs: related states, the day's transactions equal up to order -/
def RelP (x x' : BalState × List Transaction) : Prop := RelV x.1 x'.1 ∧ x.2.Perm x'.2

theorem checkStage_sim {st st' : BalState} (r : RelV st st') {d d' : Day} (hd : DayEquiv d d') :
    PSim RelV (Balance.checkStage st d) (Balance.checkStage st' d') := by
  unfold Balance.checkStage
  have := chk_day r.chk hd
  revert this
  cases Check.day st.chk d <;> cases Check.day st'.chk d' <;> intro this <;> simp only [PSim, Sim] at this ⊢
  exact { r with chk := this }

theorem isEmpty_perm {α : Type} {l l' : List α} (h : l.Perm l') : l.isEmpty = l'.isEmpty := by
  have := h.length_eq
  cases l <;> cases l' <;> simp_all

theorem isEmpty_map {α β : Type} (f : α → β) (l : List α) : (l.map f).isEmpty = l.isEmpty := by
  cases l <;> rfl

theorem pricesDay_sim (v : Commodity) {st st' : BalState} (r : RelV st st') {d d' : Day} (hd : DayEquivP d d') :
    PSim RelV (Balance.pricesDay v st d) (Balance.pricesDay v st' d') := by
  rw [pricesDay_eq, pricesDay_eq]
  have h := insertAll_geq r.graph hd.2
  have he : d.prices.isEmpty = d'.prices.isEmpty := by
    rw [← isEmpty_map toDecl, ← isEmpty_map toDecl d'.prices]; exact isEmpty_perm hd.2.perm
  revert h
  cases insertAll st.graph (d.prices.map toDecl) <;> cases insertAll st'.graph (d'.prices.map toDecl) <;>
    intro h <;> simp only [PSim, Sim] at h ⊢
  refine { r with graph := h, norm := ?_ }
  show (if d.prices.isEmpty then st.norm else _) = (if d'.prices.isEmpty then st'.norm else _)
  rw [he, r.norm, normalize_geq h]

theorem valuateDay_eq (v : Commodity) (st : BalState) (d : Day) : Balance.valuateDay v st d =
    (Balance.adjustments v d.date st.vPrev st.norm st.vQty >>= fun adj =>
      (d.transactions ++ adj).mapM (Balance.valueTx v st.norm) >>= fun txs =>
        .ok ({ st with vQty := Balance.addQty st.vQty (d.transactions ++ adj), vPrev := st.norm }, txs)) := rfl

theorem valuateDay_sim (v : Commodity) {st st' : BalState} (r : RelV st st') {d d' : Day} (hd : DayEquiv d d') :
    PSim RelP (Balance.valuateDay v st d) (Balance.valuateDay v st' d') := by
  rw [valuateDay_eq, valuateDay_eq]
  have hq : st.vQty.Perm st'.vQty := amap_perm r.vnd r.vnd' (fun k => congrFun r.vq k)
  have hn := r.norm
  rw [← hd.1, ← r.vPrev, ← hn]
  refine bind_sim (adjustments_perm v d.date st.vPrev st.norm hq) ?_
  intro adj adj' ha
  have hall : (d.transactions ++ adj).Perm (d'.transactions ++ adj') := hd.2.2.1.append ha
  refine bind_sim (mapM_perm _ hall) ?_
  intro txs txs' ht
  exact ⟨{ r with norm := rfl, vPrev := rfl, vnd := nodup_addQty r.vnd _, vnd' := nodup_addQty r.vnd' _,
                  vq := look_addQty r.vq hall }, ht⟩

theorem valuationStage_sim (cfg : BalCfg) {st st' : BalState} (r : RelV st st') {d d' : Day} (hd : DayEquivP d d') :
    PSim RelP (Balance.valuationStage cfg st d) (Balance.valuationStage cfg st' d') := by
  unfold Balance.valuationStage
  cases cfg.valuation with
  | none => exact ⟨r, hd.1.2.2.1⟩
  | some v => exact bind_sim (pricesDay_sim v r hd) (fun s s' rs => valuateDay_sim v rs hd.1)

/-- stages 4 to 6 (Filter, CloseAccounts, Query) -/
def finish (cfg : BalCfg) (d : Day) (x : BalState × List Transaction) : BalState :=
  let r := Balance.closeStage cfg x.1 d (Balance.filterStage cfg d x.2)
  { r.1 with entries := r.1.entries ++ r.2.flatMap (Balance.queryTx cfg) }

theorem day_eq (cfg : BalCfg) (st : BalState) (d : Day) : Balance.day cfg st d =
    (Balance.checkStage st d >>= fun s => Balance.valuationStage cfg s d >>= fun x => .ok (finish cfg d x)) := by
  unfold Balance.day Balance.dayTxs
  cases Balance.checkStage st d with
  | error e => rfl
  | ok s =>
    simp only [bind, Except.bind]
    cases Balance.valuationStage cfg s d with
    | error e => rfl
    | ok x => rfl

theorem accStep_fields (ps : List Posting) : ∀ (st : BalState),
    (ps.foldl accStep st).chk = st.chk ∧ (ps.foldl accStep st).graph = st.graph ∧
    (ps.foldl accStep st).norm = st.norm ∧ (ps.foldl accStep st).vPrev = st.vPrev ∧
    (ps.foldl accStep st).vQty = st.vQty := by
  induction ps with
  | nil => intro st; exact ⟨rfl, rfl, rfl, rfl, rfl⟩
  | cons p rest ih =>
    intro st
    simp only [List.foldl_cons]
    obtain ⟨h1, h2, h3, h4, h5⟩ := ih (accStep st p)
    rw [h1, h2, h3, h4, h5]
    unfold accStep; split <;> exact ⟨rfl, rfl, rfl, rfl, rfl⟩

theorem filterStage_perm (cfg : BalCfg) {d d' : Day} (hd : DayEquiv d d') {txs txs' : List Transaction}
    (h : txs.Perm txs') : (Balance.filterStage cfg d txs).Perm (Balance.filterStage cfg d' txs') := by
  unfold Balance.filterStage
  rw [← hd.1]
  split
  · exact h
  · exact List.Perm.refl _

theorem finish_rel (cfg : BalCfg) {x x' : BalState × List Transaction} (r : RelP x x') {d d' : Day} (hd : DayEquiv d d') :
    RelV (finish cfg d x) (finish cfg d' x') := by
  obtain ⟨s, txs⟩ := x
  obtain ⟨s', txs'⟩ := x'
  obtain ⟨r, ht⟩ := r
  simp only at r ht
  have hf := filterStage_perm cfg hd ht
  unfold finish Balance.closeStage
  cases cfg.close with
  | false =>
    simp only [Bool.false_eq_true, if_false]
    exact { r with ent := r.ent.append (hf.flatMap_right _) }
  | true =>
    simp only [if_true]
    have hcl : (if (cfg.periods.map (·.start)).contains d.date then Balance.closings d.date s.cQty s.cVal else []).Perm
        (if (cfg.periods.map (·.start)).contains d'.date then Balance.closings d'.date s'.cQty s'.cVal else []) := by
      rw [← hd.1]
      split
      · exact closings_perm _ r.nd r.nd' (fun k => congrFun (congrArg Prod.fst r.acc) k)
          (fun k => congrFun (congrArg Prod.snd r.acc) k)
      · exact List.Perm.refl _
    have hall := hf.append hcl
    generalize Balance.filterStage cfg d txs ++ _ = W at hall ⊢
    generalize Balance.filterStage cfg d' txs' ++ _ = W' at hall ⊢
    have e := accumulate_eq W s
    have e' := accumulate_eq W' s'
    obtain ⟨f1, f2, f3, f4, f5⟩ := accStep_fields (W.flatMap (·.postings)) s
    obtain ⟨g1, g2, g3, g4, g5⟩ := accStep_fields (W'.flatMap (·.postings)) s'
    rw [← e] at f1 f2 f3 f4 f5
    rw [← e'] at g1 g2 g3 g4 g5
    refine ⟨?_, ?_, ?_, ?_, ?_, ?_, ?_, ?_, ?_, ?_, ?_⟩
    · show ChkEq (Balance.accumulate s W).chk (Balance.accumulate s' W').chk
      rw [f1, g1]; exact r.chk
    · show GEq (Balance.accumulate s W).graph (Balance.accumulate s' W').graph
      rw [f2, g2]; exact r.graph
    · show (Balance.accumulate s W).norm = (Balance.accumulate s' W').norm
      rw [f3, g3]; exact r.norm
    · show (Balance.accumulate s W).vPrev = (Balance.accumulate s' W').vPrev
      rw [f4, g4]; exact r.vPrev
    · show AMap.NodupKeys (Balance.accumulate s W).vQty
      rw [f5]; exact r.vnd
    · show AMap.NodupKeys (Balance.accumulate s' W').vQty
      rw [g5]; exact r.vnd'
    · show look (Balance.accumulate s W).vQty = look (Balance.accumulate s' W').vQty
      rw [f5, g5]; exact r.vq
    · exact nodup_accumulate r.nd W
    · exact nodup_accumulate r.nd' W'
    · exact abs_accumulate r.acc hall
    · show ((Balance.accumulate s W).entries ++ _).Perm ((Balance.accumulate s' W').entries ++ _)
      rw [e, e', fold_entries, fold_entries]
      exact r.ent.append (hall.flatMap_right _)

/-- **one day**: on related states, two equivalent days both fail or lead to related states -/
theorem day_sim (cfg : BalCfg) {st st' : BalState} (r : RelV st st') {d d' : Day} (hd : DayEquivP d d') :
    PSim RelV (Balance.day cfg st d) (Balance.day cfg st' d') := by
  rw [day_eq, day_eq]
  refine bind_sim (checkStage_sim r hd.1) (fun s s' rs => ?_)
  refine bind_sim (valuationStage_sim cfg rs hd) (fun x x' rx => ?_)
  exact finish_rel cfg rx hd.1

theorem run_sim (cfg : BalCfg) {days days' : List Day} (h : List.Forall₂ DayEquivP days days') :
    ∀ (st st' : BalState), RelV st st' →
      PSim RelV (days.foldlM (Balance.day cfg) st) (days'.foldlM (Balance.day cfg) st') := by
  induction h with
  | nil => intro st st' r; exact r
  | cons hd _ ih =>
    intro st st' r
    simp only [List.foldlM_cons]
    exact bind_sim (day_sim cfg r hd) ih

/-! ### the report inserts of a valued run are on well-formed accounts -/

theorem valuationAccountFor_wf (a : Account) : (valuationAccountFor a).wf = true := rfl

theorem adjOne_wf (v : Commodity) (date : Int) (prev cur : Option Prices.NPrices) (e : Position × Rat)
    (he : e.1.1.wf = true) (l : List Transaction) (h : adjOne v date prev cur e = .ok l) : TxsWF l := by
  unfold adjOne Balance.adjustStep at h
  split at h
  · injection h with h; subst h; intro t ht; cases ht
  · cases h1 : Balance.lookupPrice prev e.1.2 with
    | error x => rw [h1] at h; cases h
    | ok pp =>
      cases h2 : Balance.lookupPrice cur e.1.2 with
      | error x => rw [h1, h2] at h; cases h
      | ok cp =>
        rw [h1, h2] at h
        simp only [bind, Except.bind] at h
        split at h
        · injection h with h; subst h; intro t ht; cases ht
        · injection h with h; subst h
          intro t ht p hp
          simp only [List.nil_append, List.mem_singleton] at ht
          subst ht
          rcases build_accounts _ _ _ _ _ p hp with h3 | h3
          · rw [h3]; exact valuationAccountFor_wf _
          · rw [h3]; exact he

theorem adjFold_wf (v : Commodity) (date : Int) (prev cur : Option Prices.NPrices) :
    ∀ (qty : AMap Position Rat) (acc r : List Transaction), (∀ k ∈ qty.map (·.1), k.1.wf = true) → TxsWF acc →
      qty.foldlM (Balance.adjustStep v date prev cur) acc = .ok r → TxsWF r := by
  intro qty
  induction qty with
  | nil => intro acc r _ ha h; injection h with h; subst h; exact ha
  | cons e rest ih =>
    intro acc r hk ha h
    rw [List.foldlM_cons, adjustStep_eq] at h
    cases h1 : adjOne v date prev cur e with
    | error x => rw [h1] at h; cases h
    | ok l =>
      rw [h1] at h
      simp only [bind, Except.bind] at h
      refine ih (acc ++ l) r (fun k hk' => hk k (List.mem_cons_of_mem _ hk')) ?_ h
      exact ha.append (adjOne_wf v date prev cur e (hk e.1 (List.mem_map.2 ⟨e, List.mem_cons_self, rfl⟩)) l h1)

theorem valuePosting_account (v : Commodity) (cur : Option Prices.NPrices) (p p' : Posting)
    (h : Balance.valuePosting v cur p = .ok p') : p'.account = p.account := by
  unfold Balance.valuePosting at h
  split at h
  · injection h with h; subst h; rfl
  · split at h
    · injection h with h; subst h; rfl
    · cases h1 : Balance.lookupPrice cur p.commodity with
      | error x => rw [h1] at h; cases h
      | ok pr => rw [h1] at h; simp only [bind, Except.bind] at h; injection h with h; subst h; rfl

theorem valueTx_wf (v : Commodity) (cur : Option Prices.NPrices) (ts r : List Transaction) (hw : TxsWF ts)
    (h : ts.mapM (Balance.valueTx v cur) = .ok r) : TxsWF r := by
  intro t' ht' p' hp'
  obtain ⟨t, ht, hv⟩ := mapM_ok_mem _ ts r h t' ht'
  unfold Balance.valueTx at hv
  cases h1 : t.postings.mapM (Balance.valuePosting v cur) with
  | error x => rw [h1] at hv; cases hv
  | ok ps =>
    rw [h1] at hv
    simp only [bind, Except.bind] at hv
    injection hv with hv; subst hv
    obtain ⟨p, hp, hpv⟩ := mapM_ok_mem _ t.postings ps h1 p' hp'
    rw [valuePosting_account v cur p p' hpv]
    exact hw t ht p hp

theorem qStep_keys (ps : List Posting) : ∀ (q : AMap Position Rat) (k : Position), k ∈ (ps.foldl qStep q).map (·.1) →
    k ∈ q.map (·.1) ∨ ∃ p ∈ ps, k = (p.account, p.commodity) := by
  induction ps with
  | nil => intro q k h; exact Or.inl h
  | cons p rest ih =>
    intro q k h
    simp only [List.foldl_cons] at h
    rcases ih _ k h with h1 | ⟨p', hp', hk⟩
    · unfold qStep at h1
      split at h1
      · exact Or.inl h1
      · split at h1
        · rcases (AMap.keys_set _ _ _ k).1 h1 with h2 | h2
          · exact Or.inr ⟨p, List.mem_cons_self, h2⟩
          · exact Or.inl h2
        · exact Or.inl h1
    · exact Or.inr ⟨p', List.mem_cons_of_mem _ hp', hk⟩

/-- invariant: accumulator keys, quantity keys and report inserts are on well-formed accounts -/
structure WFV (st : BalState) : Prop where
  keys : ∀ k ∈ st.cQty.map (·.1), k.1.wf = true
  vkeys : ∀ k ∈ st.vQty.map (·.1), k.1.wf = true
  ent : ReportPerm.WF st.entries

theorem wfv_init : WFV {} :=
  ⟨fun _ h => (List.not_mem_nil h).elim, fun _ h => (List.not_mem_nil h).elim, fun _ h => (List.not_mem_nil h).elim⟩

theorem checkStage_fields {st s : BalState} {d : Day} (h : Balance.checkStage st d = .ok s) :
    s.cQty = st.cQty ∧ s.cVal = st.cVal ∧ s.vQty = st.vQty ∧ s.entries = st.entries := by
  unfold Balance.checkStage at h
  split at h
  · injection h with h; subst h; exact ⟨rfl, rfl, rfl, rfl⟩
  · cases h

theorem pricesDay_fields {v : Commodity} {st s : BalState} {d : Day} (h : Balance.pricesDay v st d = .ok s) :
    s.cQty = st.cQty ∧ s.cVal = st.cVal ∧ s.vQty = st.vQty ∧ s.entries = st.entries := by
  rw [pricesDay_eq] at h
  cases hI : insertAll st.graph (d.prices.map toDecl) with
  | none => rw [hI] at h; cases h
  | some g => rw [hI] at h; injection h with h; subst h; exact ⟨rfl, rfl, rfl, rfl⟩

theorem valuateDay_wf (v : Commodity) {s : BalState} (i : WFV s) {d : Day} (hd : TxsWF d.transactions)
    {x : BalState × List Transaction} (h : Balance.valuateDay v s d = .ok x) : WFV x.1 ∧ TxsWF x.2 := by
  rw [valuateDay_eq] at h
  cases h1 : Balance.adjustments v d.date s.vPrev s.norm s.vQty with
  | error e => rw [h1] at h; cases h
  | ok adj =>
    rw [h1] at h
    simp only [bind, Except.bind] at h
    have hadj : TxsWF adj := adjFold_wf v d.date _ _ s.vQty [] adj i.vkeys (fun t ht => by cases ht) h1
    have hall : TxsWF (d.transactions ++ adj) := hd.append hadj
    cases h2 : (d.transactions ++ adj).mapM (Balance.valueTx v s.norm) with
    | error e => rw [h2] at h; cases h
    | ok txs =>
      rw [h2] at h
      injection h with h; subst h
      refine ⟨⟨i.keys, ?_, i.ent⟩, valueTx_wf v _ _ txs hall h2⟩
      intro k hk
      simp only [addQty_eq] at hk
      rcases qStep_keys _ _ k hk with h3 | ⟨p, hp, hk⟩
      · exact i.vkeys k h3
      · obtain ⟨t, ht, hp⟩ := List.mem_flatMap.1 hp
        rw [hk]; exact hall t ht p hp

theorem valuationStage_wf (cfg : BalCfg) {s : BalState} (i : WFV s) {d : Day} (hd : TxsWF d.transactions)
    {x : BalState × List Transaction} (h : Balance.valuationStage cfg s d = .ok x) : WFV x.1 ∧ TxsWF x.2 := by
  unfold Balance.valuationStage at h
  cases hv : cfg.valuation with
  | none => rw [hv] at h; injection h with h; subst h; exact ⟨i, hd⟩
  | some v =>
    rw [hv] at h
    simp only at h
    cases h1 : Balance.pricesDay v s d with
    | error e => rw [h1] at h; cases h
    | ok s1 =>
      rw [h1] at h
      obtain ⟨c1, _, c3, c4⟩ := pricesDay_fields h1
      exact valuateDay_wf v ⟨by rw [c1]; exact i.keys, by rw [c3]; exact i.vkeys, by rw [c4]; exact i.ent⟩ hd h

theorem finish_wf (cfg : BalCfg) (d : Day) {x : BalState × List Transaction} (i : WFV x.1) (hx : TxsWF x.2) :
    WFV (finish cfg d x) := by
  obtain ⟨s, txs⟩ := x
  simp only at i hx
  have hf : TxsWF (Balance.filterStage cfg d txs) := by
    unfold Balance.filterStage; split
    · exact hx
    · intro t ht; cases ht
  unfold finish Balance.closeStage
  cases cfg.close with
  | false =>
    simp only [Bool.false_eq_true, if_false]
    exact ⟨i.keys, i.vkeys, wf_append i.ent (queryTx_wf cfg hf)⟩
  | true =>
    simp only [if_true]
    have hcl : TxsWF (if (cfg.periods.map (·.start)).contains d.date then Balance.closings d.date s.cQty s.cVal else []) := by
      split
      · exact closings_wf _ _ _ i.keys
      · intro t ht; cases ht
    have hall := hf.append hcl
    generalize Balance.filterStage cfg d txs ++ _ = W at hall ⊢
    have e := accumulate_eq W s
    obtain ⟨_, _, _, _, f5⟩ := accStep_fields (W.flatMap (·.postings)) s
    rw [← e] at f5
    refine ⟨?_, ?_, ?_⟩
    · show ∀ k ∈ (Balance.accumulate s W).cQty.map (·.1), k.1.wf = true
      rw [e]
      intro k hk
      rcases fold_keys _ s k hk with h | ⟨p, hp, _, hk⟩
      · exact i.keys k h
      · obtain ⟨tx, htx, hp⟩ := List.mem_flatMap.1 hp
        rw [hk]; exact hall tx htx p hp
    · show ∀ k ∈ (Balance.accumulate s W).vQty.map (·.1), k.1.wf = true
      rw [f5]; exact i.vkeys
    · show ReportPerm.WF ((Balance.accumulate s W).entries ++ _)
      rw [e, fold_entries]
      exact wf_append i.ent (queryTx_wf cfg hall)

theorem day_wfv (cfg : BalCfg) {st s1 : BalState} (i : WFV st) {d : Day} (hd : TxsWF d.transactions)
    (h : Balance.day cfg st d = .ok s1) : WFV s1 := by
  rw [day_eq] at h
  cases h1 : Balance.checkStage st d with
  | error e => rw [h1] at h; cases h
  | ok s =>
    rw [h1] at h
    simp only [bind, Except.bind] at h
    obtain ⟨c1, _, c3, c4⟩ := checkStage_fields h1
    have is : WFV s := ⟨by rw [c1]; exact i.keys, by rw [c3]; exact i.vkeys, by rw [c4]; exact i.ent⟩
    cases h2 : Balance.valuationStage cfg s d with
    | error e => rw [h2] at h; cases h
    | ok x =>
      rw [h2] at h
      injection h with h; subst h
      obtain ⟨ix, hx⟩ := valuationStage_wf cfg is hd h2
      exact finish_wf cfg d ix hx

theorem run_wfv (cfg : BalCfg) : ∀ (days : List Day), (∀ d ∈ days, TxsWF d.transactions) →
    ∀ (st0 st : BalState), WFV st0 → days.foldlM (Balance.day cfg) st0 = .ok st → WFV st := by
  intro days
  induction days with
  | nil =>
    intro _ st0 st i h
    simp only [List.foldlM_nil, pure, Except.pure] at h
    injection h with h; subst h; exact i
  | cons d rest ih =>
    intro hd st0 st i h
    simp only [List.foldlM_cons, bind, Except.bind] at h
    cases e1 : Balance.day cfg st0 d with
    | error e => rw [e1] at h; cases h
    | ok s1 =>
      rw [e1] at h
      exact ih (fun d' hd' => hd d' (List.mem_cons_of_mem _ hd')) s1 st (day_wfv cfg i (hd d List.mem_cons_self) e1) h

end Knut.InsertsPermValued
