import Knut.Model.BalanceCmd
import Knut.Model.JournalPrinter
import Knut.Syntax.CharClass
/-!
# Model of `knut transcode` (cmd/commands/transcode.go, lib/journal/beancount/beancount.go)

`transcode` builds the journal, runs the processors `Sort, ComputePrices(v), check, Valuate(v)` and hands the
processed days to `beancount.Transcode`, which writes

```
option "operating_currency" "<v>"

<date> open <account>                 -- the day's opens, as in the journal
<date> open <account>                 -- synthesised for accounts whose NAME starts with "Equity:Valuation:" (first use)
<date> * "<description>"              -- the day's transactions (user bookings and value adjustments), sorted
  <account> <value> <v, non-letters replaced by X>
<date> close <account>                -- the day's closes
```

The pipeline stages are the ones of `Knut.Model.Balance` (`pricesDay`, `checkStage`, `valuateDay`); they run day by
day in the order of the `Process(...)` call.  The writer is modelled in two steps: the *entry list* (`entries`,
what a beancount reader sees) and its text (`render`).
-/
namespace Knut.Beancount
open Knut Knut.JournalPrinter

/-- what `beancount.Transcode` reads of a processed `journal.Day` -/
structure ProcDay where
  date : Int
  openings : List Open
  transactions : List Transaction      -- valued; user transactions (sorted by `Sort`) followed by the value adjustments
  closings : List Close
  deriving Repr, DecidableEq

/-- one day through `Sort`, `ComputePrices`, `check`, `Valuate` -/
def processDay (v : Commodity) (st : BalState) (d : Day) : Except BalErr (BalState × ProcDay) := do
  let d1 : Day := { d with transactions := sortTxs d.transactions }
  let st ← Balance.pricesDay v st d1
  let st ← Balance.checkStage st d1
  let (st, txs) ← Balance.valuateDay v st d1
  .ok (st, { date := d.date, openings := d.openings, transactions := txs, closings := d.closings })

/-- `Journal.Process(Sort, ComputePrices, check, Valuate)`, sequentially -/
def processFrom (v : Commodity) : BalState → List Day → Except BalErr (List ProcDay)
  | _, [] => .ok []
  | st, d :: rest => do
    let (st', pd) ← processDay v st d
    let r ← processFrom v st' rest
    .ok (pd :: r)

def process (v : Commodity) (days : List Day) : Except BalErr (List ProcDay) := processFrom v {} days

/-- a beancount entry -/
inductive BEntry where
  | opening (o : Open)
  | tx (t : Transaction)
  | closing (c : Close)
  deriving Repr, DecidableEq

def BEntry.date : BEntry → Int
  | .opening o => o.date | .tx t => t.date | .closing c => c.date

/-- the prefix `Transcode` tests account names for (the valuation accounts `Valuate` generates are `Income:…`) -/
def valPrefix : String := "Equity:Valuation:"

def synthStep (date : Int) (acc : List Account × List Open) (p : Posting) : List Account × List Open :=
  if p.account.name.startsWith valPrefix && !acc.1.contains p.account then (p.account :: acc.1, acc.2 ++ [⟨date, p.account⟩])
  else acc

/-- the synthesised opens of a day: first use of an account with the prefix that is not yet in `openValAccounts` -/
def synthOpens (seen : List Account) (txs : List Transaction) : List Account × List Open :=
  txs.foldl (fun acc t => t.postings.foldl (synthStep t.date) acc) (seen, [])

/-- the entries of one day, with the updated `openValAccounts` -/
def dayEntries (seen : List Account) (d : ProcDay) : List Account × List BEntry :=
  let txs := sortTxs d.transactions
  let so := synthOpens seen txs
  (so.1, d.openings.map BEntry.opening ++ so.2.map BEntry.opening ++ txs.map BEntry.tx ++ d.closings.map BEntry.closing)

def entriesFrom : List Account → List ProcDay → List BEntry
  | _, [] => []
  | seen, d :: rest => (dayEntries seen d).2 ++ entriesFrom (dayEntries seen d).1 rest

/-- `beancount.Transcode` as an entry list -/
def entries (pds : List ProcDay) : List BEntry := entriesFrom [] pds

/-- `regexp.MustCompile("[^a-zA-Z]").ReplaceAllString(name, "X")` -/
def stripNonAlpha (c : Commodity) : String :=
  String.ofList (c.toList.map (fun ch => if ('a' ≤ ch && ch ≤ 'z') || ('A' ≤ ch && ch ≤ 'Z') then ch else 'X'))

/-- `writePosting` with a valuation commodity: the posting's *value* -/
def renderPosting (v : Commodity) (p : Posting) : String :=
  "  " ++ p.account.name ++ " " ++ Dec.showDec p.value ++ " " ++ stripNonAlpha v ++ "\n"

/-- `writeTrx` -/
def renderTx (v : Commodity) (t : Transaction) : String :=
  fmtDate t.date ++ " * \"" ++ t.description ++ "\"\n" ++ String.join (t.postings.map (renderPosting v)) ++ "\n"

def renderEntry (v : Commodity) : BEntry → String
  | .opening o => printOpen o ++ "\n\n"
  | .tx t => renderTx v t
  | .closing c => printClose c ++ "\n\n"

def render (v : Commodity) (es : List BEntry) : String :=
  "option \"operating_currency\" \"" ++ v ++ "\"\n\n" ++ String.join (es.map (renderEntry v))

/-- `commodity.isValidCommodity` -/
def validCommodity (s : String) : Bool := !s.isEmpty && s.toList.all (fun c => Syntax.isAlphanumeric c.toNat)

/-- the entries `knut transcode -v v` emits for the built journal -/
def transcodeEntries (v : Commodity) (days : List Day) : Except BalErr (List BEntry) :=
  (process v days).map entries

/-- `knut transcode [-v v] FILE` on the directives of the file: stdout on success. An absent or empty `-v` is
rejected (after the repair), an invalid commodity name too; processing errors leave stdout empty. -/
def run (v : Option Commodity) (ds : List Directive) : CmdOutcome :=
  match v with
  | none => .error "missing-valuation"
  | some v =>
    if v.isEmpty then .error "missing-valuation"
    else if !validCommodity v then .error "invalid-commodity"
    else
      match transcodeEntries v (Builder.ofList ds).build with
      | .error _ => .error "processing"
      | .ok es => .ok (render v es)

end Knut.Beancount
