import Knut.Proofs.MTMCum
/-!
# C03: the cells of an account row of the rendered valued report

`BalanceReport.nodeRows` for a valued report without `-s`: ONE row per account; its numeric cells are the running totals
of the per-column sums (cumulative report), and the running total up to the column of the period end `D` is
`MTM.accCum a es D` — the sum of the inserts on the account aligned to a column date `≤ D`.  If every per-column sum
is zero the row shows empty cells instead of zeros (`SumBy` removes zero sums); `cellVal` reads an empty cell as 0.
-/
namespace Knut.MTM
open Knut Knut.Dec
open Knut.Table (Cell)
open Knut.BalanceReport

/-- the number a cell shows; an empty cell stands for 0 -/
def cellVal : Cell → Rat
  | .num x => x
  | _ => 0

/-! ### running totals -/

/-- running totals of `f` over a list of column dates, starting from `tot` -/
def cumList (f : Int → Rat) : Rat → List Int → List Rat
  | _, [] => []
  | tot, d :: ds => (tot + f d) :: cumList f (tot + f d) ds

theorem cumList_length (f : Int → Rat) : ∀ (tot : Rat) (ds : List Int), (cumList f tot ds).length = ds.length
  | _, [] => rfl
  | tot, d :: ds => by simp only [cumList, List.length_cons, cumList_length f _ ds]

theorem cumList_getElem (f : Int → Rat) : ∀ (tot : Rat) (ds : List Int) (k : Nat) (hk : k < ds.length),
    (cumList f tot ds)[k]'(by rw [cumList_length]; exact hk) = tot + ((ds.take (k + 1)).map f).sum
  | _, [], k, hk => by cases hk
  | tot, d :: ds, 0, _ => by
    simp only [cumList, List.getElem_cons_zero, List.take_succ_cons, List.take_zero, List.map_cons, List.map_nil,
      List.sum_cons, List.sum_nil, Rat.add_zero]
  | tot, d :: ds, k + 1, hk => by
    simp only [cumList, List.getElem_cons_succ, List.take_succ_cons, List.map_cons, List.sum_cons]
    rw [cumList_getElem f (tot + f d) ds k (by simpa using hk)]
    grind

/-- the fold of `Renderer.render` for a cumulative report -/
theorem nums_cumulative (neg : Bool) (f : Int → Rat) : ∀ (ds : List Int) (pre : List Cell) (tot : Rat),
    (ds.foldl (fun (acc : List Cell × Rat) d =>
        let v := f d
        let (shown, total) := if false then (v, acc.2) else (acc.2 + v, acc.2 + v)
        (acc.1 ++ [Cell.num (if neg then -shown else shown)], total)) (pre, tot)).1 =
      pre ++ (cumList f tot ds).map (fun x => Cell.num (if neg then -x else x))
  | [], pre, tot => by simp [cumList]
  | d :: ds, pre, tot => by
    rw [List.foldl_cons]
    have ih := nums_cumulative neg f ds (pre ++ [Cell.num (if neg then -(tot + f d) else tot + f d)]) (tot + f d)
    simp only [Bool.false_eq_true, if_false] at ih ⊢
    rw [ih]
    simp only [cumList, List.map_cons, List.append_assoc, List.singleton_append]

/-! ### `valsCommodities` of a valued row -/

theorem all_none_nodup : ∀ (L : List (Option Commodity)), (∀ x ∈ L, x = none) → L.Nodup → L = [] ∨ L = [none]
  | [], _, _ => Or.inl rfl
  | [x], h, _ => by right; rw [h x List.mem_cons_self]
  | x :: y :: rest, h, hn => by
    have hx := h x List.mem_cons_self
    have hy := h y (List.mem_cons_of_mem _ List.mem_cons_self)
    rw [List.nodup_cons] at hn
    exact absurd (by rw [hx, hy]; exact List.mem_cons_self) hn.1

/-- without a per-commodity breakdown a row has no value line (all per-column sums vanish) or exactly one -/
theorem valsCommodities_valued (es : List Entry) :
    (valsCommodities es false = [] ∧ ∀ d, cellAt es false none d = 0) ∨ valsCommodities es false = [none] := by
  unfold valsCommodities
  simp only [Bool.false_eq_true, if_false]
  generalize hkeys : (es.map (fun e => (e.date, (none : Option Commodity)))).eraseDups = keys
  generalize hlive : keys.filter (fun k => sumAmounts (es.filter (fun e => e.date = k.1 && (none : Option Commodity) = k.2)) ≠ 0) = live
  have hnone : ∀ x ∈ (live.map (·.2)).eraseDups, x = none := by
    intro x hx
    rw [List.mem_eraseDups] at hx
    obtain ⟨k, hk, rfl⟩ := List.mem_map.mp hx
    rw [← hlive] at hk
    have hk' := (List.mem_filter.mp hk).1
    rw [← hkeys, List.mem_eraseDups] at hk'
    obtain ⟨e, _, rfl⟩ := List.mem_map.mp hk'
    rfl
  rcases all_none_nodup _ hnone (ReportPerm.nodup_eraseDups _ _ (Nat.le_refl _)) with h0 | h1
  · left
    rw [h0]
    refine ⟨List.mergeSort_nil, ?_⟩
    intro d
    have hl : live = [] := by
      cases hlv : live with
      | nil => rfl
      | cons k rest =>
        rw [hlv] at h0
        have : k.2 ∈ ((k :: rest).map (·.2)).eraseDups := by
          rw [List.mem_eraseDups]; exact List.mem_map.mpr ⟨k, List.mem_cons_self, rfl⟩
        rw [h0] at this; cases this
    unfold cellAt
    simp only [Bool.false_eq_true, if_false]
    by_cases hmem : (some d, (none : Option Commodity)) ∈ keys
    · have : (some d, (none : Option Commodity)) ∉ live := by rw [hl]; exact List.not_mem_nil
      rw [← hlive, List.mem_filter] at this
      have h2 : ¬ (sumAmounts (es.filter (fun e => e.date = some d && (none : Option Commodity) = none)) ≠ 0) := by
        intro hne
        exact this ⟨hmem, by simpa using hne⟩
      exact Classical.not_not.mp h2
    · have : es.filter (fun e => decide (e.date = some d) && decide True) = [] := by
        rw [List.filter_eq_nil_iff]
        intro e he hc
        apply hmem
        rw [← hkeys, List.mem_eraseDups]
        simp only [Bool.and_eq_true, decide_eq_true_eq] at hc
        exact List.mem_map.mpr ⟨e, he, by rw [hc.1]⟩
      rw [this]
      rfl
  · right
    rw [h1]
    exact List.mergeSort_singleton _

/-! ### the row of one account -/

/-- **the row of an account in a cumulative valued report without `-s`**: one row, the name cell followed by one cell
per column; the cell of column `k` shows the running total of the per-column sums up to `k` (sign flipped in the
income/expense/equity section) -/
theorem nodeRows_valued (rc : RenderCfg) (hv : rc.valuation.isSome = true) (hshow : ∀ s, rc.showCommodities s = false)
    (hdiff : rc.diff = false) (es : List Entry) (neg : Bool) (path : List String) (indent : Nat) :
    ∃ cells : List Cell,
      nodeRows rc false es neg (path, indent) = [Cell.text (path.getLast?.getD "").toList .left indent :: cells] ∧
      cells.length = rc.endDates.length ∧
      ∀ (k : Nat) (hk' : k < cells.length),
        cellVal cells[k] =
          (if neg then -(((rc.endDates.take (k + 1)).map (cellAt (own es path) false none)).sum)
           else ((rc.endDates.take (k + 1)).map (cellAt (own es path) false none)).sum) := by
  unfold nodeRows
  have hby : (rc.valuation.isNone || rc.showCommodities (⟨path⟩ : Account).name) = false := by
    rw [hshow]
    cases hval : rc.valuation with
    | none => rw [hval] at hv; cases hv
    | some x => rfl
  simp only [hby]
  generalize own es path = mine
  unfold renderVals
  rcases valsCommodities_valued mine with ⟨h0, hz⟩ | h1
  · rw [h0]
    simp only [List.isEmpty_nil, if_true, Bool.false_eq_true, if_false, Nat.add_zero]
    refine ⟨List.replicate rc.endDates.length Cell.empty, ?_, List.length_replicate, ?_⟩
    · have : 1 + rc.endDates.length - 1 = rc.endDates.length := by omega
      rw [this]
    · intro k hk'
      rw [List.getElem_replicate]
      have : ((rc.endDates.take (k + 1)).map (cellAt mine false none)).sum = 0 :=
        sum_map_zero _ _ (fun d _ => hz d)
      rw [this]
      split
      · show (0 : Rat) = -0; grind
      · rfl
  · rw [h1]
    simp only [List.isEmpty_cons, Bool.false_eq_true, if_false, List.zipIdx_cons, List.zipIdx_nil, List.map_cons,
      List.map_nil, if_true]
    rw [hdiff]
    rw [nums_cumulative neg (cellAt mine false none) rc.endDates [] 0, List.nil_append]
    refine ⟨(cumList (cellAt mine false none) 0 rc.endDates).map (fun x => Cell.num (if neg then -x else x)), rfl,
      by rw [List.length_map, cumList_length], ?_⟩
    intro k hk'
    have hk : k < rc.endDates.length := by rw [List.length_map, cumList_length] at hk'; exact hk'
    rw [List.getElem_map, cumList_getElem _ _ _ _ hk, Rat.zero_add]
    rfl

/-! ### the running total of column `k` is `accCum` at the period end `D_k` -/

theorem sumAmounts_filter_or (p q : Entry → Bool) : ∀ (es : List Entry), (∀ e ∈ es, ¬ (p e = true ∧ q e = true)) →
    sumAmounts (es.filter (fun e => p e || q e)) = sumAmounts (es.filter p) + sumAmounts (es.filter q)
  | [], _ => by unfold sumAmounts; simp [Rat.add_zero]
  | e :: es, h => by
    have ih := sumAmounts_filter_or p q es (fun x hx => h x (List.mem_cons_of_mem _ hx))
    have he := h e List.mem_cons_self
    unfold sumAmounts at ih ⊢
    simp only [List.filter_cons]
    cases hp : p e <;> cases hq : q e
    · simp only [Bool.or_self, Bool.false_eq_true, if_false]; exact ih
    · simp only [Bool.or_true, if_true, Bool.false_eq_true, if_false, List.map_cons, List.sum_cons, ih]; grind
    · simp only [Bool.or_false, if_true, Bool.false_eq_true, if_false, List.map_cons, List.sum_cons, ih]; grind
    · exact absurd ⟨hp, hq⟩ he

theorem cellAt_valued (es : List Entry) (d : Int) :
    cellAt es false none d = sumAmounts (es.filter (fun e => decide (e.date = some d))) := by
  unfold cellAt
  congr 1
  apply List.filter_congr
  intro e _
  simp

/-- the per-column sums over a duplicate-free list of column dates add up to the sum of the inserts dated in the list -/
theorem cells_sum_dates (es : List Entry) : ∀ (L : List Int), L.Nodup →
    (L.map (cellAt es false none)).sum =
      sumAmounts (es.filter (fun e => match e.date with | some D' => decide (D' ∈ L) | none => false))
  | [], _ => by
    have : es.filter (fun e => match e.date with | some D' => decide (D' ∈ ([] : List Int)) | none => false) = [] := by
      rw [List.filter_eq_nil_iff]
      intro e _
      cases e.date <;> simp
    rw [this]; rfl
  | d :: L, hn => by
    rw [List.nodup_cons] at hn
    rw [List.map_cons, List.sum_cons, cells_sum_dates es L hn.2, cellAt_valued,
      ← sumAmounts_filter_or _ _ es]
    · congr 1
      apply List.filter_congr
      intro e _
      cases hd : e.date with
      | none => simp
      | some D' =>
        simp only [List.mem_cons, Option.some.injEq]
        by_cases h1 : D' = d <;> by_cases h2 : D' ∈ L <;> simp [h1, h2]
    · intro e _ hc
      obtain ⟨h1, h2⟩ := hc
      simp only [decide_eq_true_eq] at h1
      rw [h1] at h2
      simp only [decide_eq_true_eq] at h2
      exact hn.1 h2

theorem mem_take_increasing (l : List Int) (hinc : List.Pairwise (· < ·) l) (k : Nat) (hk : k < l.length) (x : Int)
    (hx : x ∈ l) : x ∈ l.take (k + 1) ↔ x ≤ l[k] := by
  rw [List.pairwise_iff_getElem] at hinc
  constructor
  · intro h
    obtain ⟨j, hj, rfl⟩ := List.mem_take_iff_getElem.mp h
    have hjk : j ≤ k := by omega
    by_cases e : j = k
    · subst e; exact Int.le_refl _
    · have := hinc j k (by omega) hk (by omega)
      omega
  · intro h
    obtain ⟨i, hi, rfl⟩ := List.mem_iff_getElem.mp hx
    by_cases hik : i ≤ k
    · exact List.mem_take_iff_getElem.mpr ⟨i, by omega, rfl⟩
    · have := hinc k i hk hi (by omega)
      omega

theorem increasing_nodup (l : List Int) (hinc : List.Pairwise (· < ·) l) : l.Nodup :=
  List.Pairwise.imp (fun h => by omega) hinc

/-- **the running total shown in column `k` is `accCum` at that column's period end**, when the column dates increase
and every insert on the account is aligned to one of them -/
theorem cum_eq_accCum (a : Account) (es : List Entry) (ends : List Int) (hinc : List.Pairwise (· < ·) ends)
    (hdates : ∀ e ∈ es, e.account = a → ∀ D', e.date = some D' → D' ∈ ends) (k : Nat) (hk : k < ends.length) :
    ((ends.take (k + 1)).map (cellAt (own es a.segments) false none)).sum = accCum a es ends[k] := by
  rw [cells_sum_dates _ _ (List.Pairwise.sublist (List.take_sublist _ _) (increasing_nodup ends hinc))]
  unfold own accCum
  rw [List.filter_filter]
  congr 1
  apply List.filter_congr
  intro e he
  by_cases hacc : e.account = a
  · have hseg : e.account.segments = a.segments := by rw [hacc]
    cases hd : e.date with
    | none => simp [hacc]
    | some D' =>
      have hm := hdates e he hacc D' hd
      have := mem_take_increasing ends hinc k hk D' hm
      simp only [hacc, decide_true, Bool.and_true, Bool.true_and]
      by_cases h1 : D' ≤ ends[k]
      · simp [h1, this.mpr h1]
      · have h2 : ¬ D' ∈ ends.take (k + 1) := fun h => h1 (this.mp h)
        simp [h1, h2]
  · have hseg : ¬ e.account.segments = a.segments := by
      intro h
      apply hacc
      cases hx : e.account; cases hy : a
      rw [hx, hy] at h
      simp only at h
      rw [h]
    simp [hseg, hacc]

/-! ### where the row stands in the table -/

theorem flatMap_mem_split {α β : Type} (f : α → List β) : ∀ (l : List α) (x : α), x ∈ l →
    ∃ pre post, l.flatMap f = pre ++ f x ++ post
  | [], _, hx => by cases hx
  | y :: l, x, hx => by
    rcases List.mem_cons.mp hx with rfl | hx
    · exact ⟨[], l.flatMap f, by rw [List.flatMap_cons, List.nil_append]⟩
    · obtain ⟨pre, post, h⟩ := flatMap_mem_split f l x hx
      exact ⟨f y ++ pre, post, by rw [List.flatMap_cons, h, List.append_assoc, List.append_assoc, List.append_assoc]⟩

theorem le_maxDepth (es : List Entry) (e : Entry) (he : e ∈ es) : e.account.segments.length ≤ maxDepth es := by
  unfold maxDepth
  suffices h : ∀ (es : List Entry) (m : Nat), (m ≤ es.foldl (fun m e => max m e.account.segments.length) m) ∧
      (e ∈ es → e.account.segments.length ≤ es.foldl (fun m e => max m e.account.segments.length) m) from (h es 0).2 he
  intro es
  induction es with
  | nil => intro m; exact ⟨Nat.le_refl _, fun h => by cases h⟩
  | cons x rest ih =>
    intro m
    simp only [List.foldl_cons]
    obtain ⟨i1, i2⟩ := ih (max m x.account.segments.length)
    refine ⟨by omega, ?_⟩
    intro hm
    rcases List.mem_cons.mp hm with rfl | hm
    · omega
    · exact i2 hm

theorem mem_childSegs (es : List Entry) (e : Entry) (he : e ∈ es) (path rest : List String) (s : String)
    (hseg : e.account.segments = path ++ s :: rest) : s ∈ childSegs es path := by
  unfold childSegs
  rw [List.mem_eraseDups, List.mem_filterMap]
  refine ⟨e, he, ?_⟩
  rw [hseg]
  have h1 : path.isPrefixOf (path ++ s :: rest) = true := by
    rw [List.isPrefixOf_iff_prefix]
    exact List.prefix_append _ _
  simp only [h1, if_true, List.drop_left, List.head?_cons]

theorem mem_sortedChildren (rc : RenderCfg) (es : List Entry) (fuel : Nat) (path : List String) (s : String) :
    s ∈ sortedChildren rc es fuel path ↔ s ∈ childSegs es path := by
  unfold sortedChildren
  exact (List.mergeSort_perm _ _).mem_iff

/-- every account with an insert is a node of the walk below each of its proper prefixes, indented two blanks per level -/
theorem mem_walk (rc : RenderCfg) (es : List Entry) (e : Entry) (he : e ∈ es) :
    ∀ (rest path : List String) (fuel indent : Nat), rest ≠ [] → e.account.segments = path ++ rest → rest.length ≤ fuel →
      (e.account.segments, indent + 2 * (rest.length - 1)) ∈ walk rc es fuel path indent
  | [], _, _, _, h, _, _ => absurd rfl h
  | s :: rest, path, 0, _, _, _, hf => by simp at hf
  | s :: rest, path, fuel + 1, indent, _, hseg, hf => by
    unfold walk
    rw [List.mem_flatMap]
    refine ⟨s, (mem_sortedChildren rc es fuel path s).mpr (mem_childSegs es e he path rest s hseg), ?_⟩
    cases rest with
    | nil =>
      rw [hseg]
      exact List.mem_cons_self
    | cons s2 rest2 =>
      apply List.mem_cons_of_mem
      have := mem_walk rc es e he (s2 :: rest2) (path ++ [s]) fuel (indent + 2) (by simp)
        (by rw [hseg, List.append_assoc]; rfl) (by simpa using hf)
      simp only [List.length_cons] at this ⊢
      have e1 : indent + 2 * (rest2.length + 1 + 1 - 1) = indent + 2 + 2 * (rest2.length + 1 - 1) := by omega
      rw [e1]
      exact this

/-- **the row of an account stands in its section of the table**: for every account with an insert, the rows of the
section (assets+liabilities or equity+income+expenses) contain the account's `nodeRows`, indented two blanks per level
below the top -/
theorem sect_has_row (rc : RenderCfg) (dc : Bool) (empty : List Cell) (es : List Entry) (neg : Bool)
    (e : Entry) (he : e ∈ es) (hne : e.account.segments ≠ []) :
    ∃ pre post, ReportPerm.sect rc dc empty es neg =
      pre ++ nodeRows rc dc es neg (e.account.segments, 2 * (e.account.segments.length - 1)) ++ post := by
  unfold ReportPerm.sect
  cases hseg : e.account.segments with
  | nil => exact absurd hseg hne
  | cons top rest =>
    have htop : top ∈ sortedChildren rc es (maxDepth es) [] :=
      (mem_sortedChildren rc es _ [] top).mpr (mem_childSegs es e he [] rest top (by rw [hseg]; rfl))
    obtain ⟨pre1, post1, h1⟩ := flatMap_mem_split (fun top =>
      ((([top], 0) :: walk rc es (maxDepth es) [top] 2).flatMap (nodeRows rc dc es neg)) ++ [empty]) _ top htop
    have hnode : (top :: rest, 2 * ((top :: rest).length - 1)) ∈ ([top], 0) :: walk rc es (maxDepth es) [top] 2 := by
      cases rest with
      | nil => exact List.mem_cons_self
      | cons s2 rest2 =>
        apply List.mem_cons_of_mem
        have hd := le_maxDepth es e he
        rw [hseg] at hd
        have := mem_walk rc es e he (s2 :: rest2) [top] (maxDepth es) 2 (by simp) (by rw [hseg]; rfl)
          (by simp only [List.length_cons] at hd ⊢; omega)
        rw [hseg] at this
        simp only [List.length_cons] at this ⊢
        have e1 : 2 * (rest2.length + 1 + 1 - 1) = 2 + 2 * (rest2.length + 1 - 1) := by omega
        rw [e1]
        exact this
    obtain ⟨pre2, post2, h2⟩ := flatMap_mem_split (nodeRows rc dc es neg) _ _ hnode
    rw [h1, h2]
    refine ⟨pre1 ++ pre2, post2 ++ [empty] ++ post1, ?_⟩
    simp only [List.append_assoc]

theorem split_R {α : Type} {l x : List α} (b : List α) (h : ∃ pre post, l = pre ++ x ++ post) :
    ∃ pre post, l ++ b = pre ++ x ++ post := by
  obtain ⟨pre, post, rfl⟩ := h
  exact ⟨pre, post ++ b, by simp only [List.append_assoc]⟩

theorem split_L {α : Type} {l x : List α} (a : List α) (h : ∃ pre post, l = pre ++ x ++ post) :
    ∃ pre post, a ++ l = pre ++ x ++ post := by
  obtain ⟨pre, post, rfl⟩ := h
  exact ⟨a ++ pre, post, by simp only [List.append_assoc]⟩

/-- the row of an asset/liability account in the rendered table -/
theorem table_has_row (rc : RenderCfg) (es : List Entry) (e : Entry) (he : e ∈ es) (hal : e.account.isAL = true) :
    ∃ pre post, (table rc es).rows =
      pre ++ nodeRows rc (rc.valuation.isNone || rc.hasShowCommodities) (es.filter (fun e => e.account.isAL)) false
        (e.account.segments, 2 * (e.account.segments.length - 1)) ++ post := by
  rw [ReportPerm.table_eq]
  simp only
  have hne : e.account.segments ≠ [] := by
    intro h
    unfold Account.isAL Account.type? at hal
    rw [h] at hal
    cases hal
  obtain ⟨pre, post, h⟩ := sect_has_row rc (rc.valuation.isNone || rc.hasShowCommodities)
    (List.replicate (1 + (if (rc.valuation.isNone || rc.hasShowCommodities) = true then 1 else 0) + rc.endDates.length) Cell.empty)
    (es.filter (fun e => e.account.isAL)) false e (List.mem_filter.mpr ⟨he, hal⟩) hne
  iterate 7 apply split_R
  apply split_L
  exact ⟨pre, post, h⟩

end Knut.MTM
