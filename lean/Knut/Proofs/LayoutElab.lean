import Knut.Spec.LayoutSpec
import Knut.Proofs.PrintJournal
import Knut.Proofs.Commands
/-!
# The command model's elaboration (`Commands.elabDirective`) on printed directives (C05 layout, C09 text round trip)

`Proofs/PrintJournal.lean` shows that a rendering of items parses and that the directives of the tree have the field views
of the items (`parse_rendered_items`). Here: what `Commands.elabDirective` — the elaboration `Cmd.run` uses — makes of a
directive whose field view is that of a printed directive (`dirView x`): exactly `[x]`; and of an `include` directive:
nothing, its path being handed to the loader.
-/
namespace Knut.Layout
open Knut Knut.Syntax Knut.Utf8 Knut.Commands Knut.FromSyntax Knut.JournalPrinter Knut.Dec

/-! ### field texts -/

theorem strOf_strBytes (s : String) : strOf (strBytes s) = s := by
  unfold strOf
  rw [decodeAll_strBytes]
  simp only [strToks, charsToks, List.map_map]
  have : (fun t : Tok => Char.ofNat t.r) ∘ charTok = id := by
    funext c
    simp [charTok, Char.ofNat_toNat]
  rw [this, List.map_id, String.ofList_toList]

theorem strOf_flat_strToks (s : String) : strOf (flat (strToks s)) = s := by
  rw [flat_strToks, strOf_strBytes]

theorem textOf_extract {text : Commands.Bytes} {r : Range} {bs : Commands.Bytes} (h : r.extract text = some bs) :
    textOf text r = strOf bs := by
  unfold Range.extract at h
  split at h
  · injection h with h
    simp only [textOf, Spec.Syntax.slice, h]
  · cases h

theorem textOf_str {text : Commands.Bytes} {r : Range} {s : String} (h : r.extract text = some (flat (strToks s))) :
    textOf text r = s := by
  rw [textOf_extract h, strOf_flat_strToks]

/-- the command model's `time.Parse` re-reads a printed date -/
theorem cparseDate_fmtDate (z : Int) (h0 : minDate ≤ z) (h1 : z ≤ maxDate) : Commands.parseDate (fmtDate z) = some z := by
  have ⟨y1, y2⟩ := year_bounds z h0 h1
  have ⟨m1, m2⟩ := Date.month_bounds z
  have d1 := Date.day_pos z
  have d2 := day_le_daysIn z
  have d3 : FromSyntax.daysIn (Date.year z) (Date.month z) ≤ 31 := by
    unfold FromSyntax.daysIn; split <;> (try split) <;> (try split) <;> omega
  have hdi : Commands.daysIn (Date.year z) (Date.month z) = FromSyntax.daysIn (Date.year z) (Date.month z) :=
    cumDays_diff _ _ _ rfl m1 m2
  have ly := fracDigits_length (k := 4) (fp := (Date.year z).toNat) (by decide) (by simp; omega)
  have lm := fracDigits_length (k := 2) (fp := (Date.month z).toNat) (by decide) (by simp; omega)
  have ld := fracDigits_length (k := 2) (fp := (Date.day z).toNat) (by decide) (by simp; omega)
  have vy := digitsToNat_fracDigits 4 (Date.year z).toNat
  have vm := digitsToNat_fracDigits 2 (Date.month z).toNat
  have vd := digitsToNat_fracDigits 2 (Date.day z).toNat
  have dy : ∀ c ∈ fracDigits 4 (Date.year z).toNat, Dec.isDigit c = true := fun c hc => fracDigits_isDigit hc
  have dm : ∀ c ∈ fracDigits 2 (Date.month z).toNat, Dec.isDigit c = true := fun c hc => fracDigits_isDigit hc
  have dd : ∀ c ∈ fracDigits 2 (Date.day z).toNat, Dec.isDigit c = true := fun c hc => fracDigits_isDigit hc
  unfold Commands.parseDate
  rw [fmtDate_toList]
  unfold dateChars
  match hy : fracDigits 4 (Date.year z).toNat, ly with
  | [a1, a2, a3, a4], _ =>
    match hm : fracDigits 2 (Date.month z).toNat, lm with
    | [b1, b2], _ =>
      match hd : fracDigits 2 (Date.day z).toNat, ld with
      | [c1, c2], _ =>
        rw [hy] at dy vy; rw [hm] at dm vm; rw [hd] at dd vd
        have A1 : asciiDigit a1 = true := dy a1 (by simp)
        have A2 : asciiDigit a2 = true := dy a2 (by simp)
        have A3 : asciiDigit a3 = true := dy a3 (by simp)
        have A4 : asciiDigit a4 = true := dy a4 (by simp)
        have B1 : asciiDigit b1 = true := dm b1 (by simp)
        have B2 : asciiDigit b2 = true := dm b2 (by simp)
        have C1 : asciiDigit c1 = true := dd c1 (by simp)
        have C2 : asciiDigit c2 = true := dd c2 (by simp)
        simp only [List.cons_append, List.nil_append, List.all_cons, List.all_nil, A1, A2, A3, A4, B1, B2, C1, C2,
          Bool.and_self, if_true]
        have ey : digitVal a1 * 1000 + digitVal a2 * 100 + digitVal a3 * 10 + digitVal a4 = Date.year z := by
          have e : ((digitsToNat [a1, a2, a3, a4] : Nat) : Int) = Date.year z := by
            rw [vy]; exact Int.toNat_of_nonneg (by omega)
          rw [← e]
          simp only [digitsToNat, List.foldl_cons, List.foldl_nil, digitVal]
          omega
        have em : digitVal b1 * 10 + digitVal b2 = Date.month z := by
          have e : ((digitsToNat [b1, b2] : Nat) : Int) = Date.month z := by
            rw [vm]; exact Int.toNat_of_nonneg (by omega)
          rw [← e]
          simp only [digitsToNat, List.foldl_cons, List.foldl_nil, digitVal]
          omega
        have ed : digitVal c1 * 10 + digitVal c2 = Date.day z := by
          have e : ((digitsToNat [c1, c2] : Nat) : Int) = Date.day z := by
            rw [vd]; exact Int.toNat_of_nonneg (by omega)
          rw [← e]
          simp only [digitsToNat, List.foldl_cons, List.foldl_nil, digitVal]
          omega
        simp only [ey, em, ed, hdi]
        rw [if_pos ⟨m1, m2, d1, d2⟩, Date.ofCivil_toCivil]

/-! ### inversion of `viewDirective` -/

/-- what a successful `viewTransaction` says about the tree -/
theorem viewTransaction_inv {text : Commands.Bytes} {t : Syntax.Transaction} {w : DirV} (h : viewTransaction text t = some w) :
    ∃ accr perf dt desc bks, w = .transaction accr perf dt desc bks ∧
      (accr = none ↔ t.addons.accrual.range.empty = true) ∧
      (t.addons.performance.range.empty = true → perf = none) ∧
      (t.addons.performance.range.empty = false → ∃ ts, perf = some ts ∧
        t.addons.performance.targets.mapM (fun (c : Syntax.Commodity) => c.range.extract text) = some ts) ∧
      t.date.range.extract text = some dt ∧ t.description.content.extract text = some desc ∧
      t.bookings.mapM (viewBooking text) = some bks := by
  unfold viewTransaction at h
  cases heA : t.addons.accrual.range.empty <;> cases heP : t.addons.performance.range.empty <;>
    simp only [heA, heP, Bool.not_false, Bool.not_true, Bool.false_eq_true, if_false, if_true, Option.bind_eq_bind,
      Option.bind_eq_some_iff, Option.pure_def, Option.some.injEq, Option.map_eq_some_iff] at h
  · obtain ⟨_, ⟨av, hav, rfl⟩, _, ⟨ts, hts, rfl⟩, dt, h1, desc, h2, bks, h3, rfl⟩ := h
    exact ⟨_, _, _, _, _, rfl, by simp, by simp, fun _ => ⟨ts, rfl, hts⟩, h1, h2, h3⟩
  · obtain ⟨_, ⟨av, hav, rfl⟩, _, rfl, dt, h1, desc, h2, bks, h3, rfl⟩ := h
    exact ⟨_, _, _, _, _, rfl, by simp, by simp, by simp, h1, h2, h3⟩
  · obtain ⟨_, rfl, _, ⟨ts, hts, rfl⟩, dt, h1, desc, h2, bks, h3, rfl⟩ := h
    exact ⟨_, _, _, _, _, rfl, by simp, by simp, fun _ => ⟨ts, rfl, hts⟩, h1, h2, h3⟩
  · obtain ⟨_, rfl, _, rfl, dt, h1, desc, h2, bks, h3, rfl⟩ := h
    exact ⟨_, _, _, _, _, rfl, by simp, by simp, by simp, h1, h2, h3⟩

theorem view_open_inv {text : Commands.Bytes} {d : Syntax.Directive} {dt ac : Commands.Bytes}
    (h : viewDirective text d = some (.open dt ac)) :
    ∃ o, d.body = .open o ∧ o.date.range.extract text = some dt ∧ o.account.range.extract text = some ac := by
  unfold viewDirective at h
  cases hb : d.body with
  | transaction t => rw [hb] at h; obtain ⟨_, _, _, _, _, e, _⟩ := viewTransaction_inv h; cases e
  | «open» o =>
    rw [hb] at h
    simp only [Option.bind_eq_bind, Option.bind_eq_some_iff, Option.pure_def, Option.some.injEq, DirV.open.injEq] at h
    obtain ⟨a, h1, b, h2, rfl, rfl⟩ := h
    exact ⟨_, rfl, h1, h2⟩
  | _ =>
    rw [hb] at h
    simp only [Option.bind_eq_bind, Option.bind_eq_some_iff, Option.pure_def, Option.some.injEq, reduceCtorEq, and_false,
      exists_false] at h

theorem view_close_inv {text : Commands.Bytes} {d : Syntax.Directive} {dt ac : Commands.Bytes}
    (h : viewDirective text d = some (.close dt ac)) :
    ∃ o, d.body = .close o ∧ o.date.range.extract text = some dt ∧ o.account.range.extract text = some ac := by
  unfold viewDirective at h
  cases hb : d.body with
  | transaction t => rw [hb] at h; obtain ⟨_, _, _, _, _, e, _⟩ := viewTransaction_inv h; cases e
  | close o =>
    rw [hb] at h
    simp only [Option.bind_eq_bind, Option.bind_eq_some_iff, Option.pure_def, Option.some.injEq, DirV.close.injEq] at h
    obtain ⟨a, h1, b, h2, rfl, rfl⟩ := h
    exact ⟨_, rfl, h1, h2⟩
  | _ =>
    rw [hb] at h
    simp only [Option.bind_eq_bind, Option.bind_eq_some_iff, Option.pure_def, Option.some.injEq, reduceCtorEq, and_false,
      exists_false] at h

theorem view_price_inv {text : Commands.Bytes} {d : Syntax.Directive} {dt c pr tg : Commands.Bytes}
    (h : viewDirective text d = some (.price dt c pr tg)) :
    ∃ p, d.body = .price p ∧ p.date.range.extract text = some dt ∧ p.commodity.range.extract text = some c ∧
      p.price.range.extract text = some pr ∧ p.target.range.extract text = some tg := by
  unfold viewDirective at h
  cases hb : d.body with
  | transaction t => rw [hb] at h; obtain ⟨_, _, _, _, _, e, _⟩ := viewTransaction_inv h; cases e
  | price o =>
    rw [hb] at h
    simp only [Option.bind_eq_bind, Option.bind_eq_some_iff, Option.pure_def, Option.some.injEq, DirV.price.injEq] at h
    obtain ⟨a, h1, b, h2, c', h3, e, h4, rfl, rfl, rfl, rfl⟩ := h
    exact ⟨_, rfl, h1, h2, h3, h4⟩
  | _ =>
    rw [hb] at h
    simp only [Option.bind_eq_bind, Option.bind_eq_some_iff, Option.pure_def, Option.some.injEq, reduceCtorEq, and_false,
      exists_false] at h

theorem view_assertion_inv {text : Commands.Bytes} {d : Syntax.Directive} {dt : Commands.Bytes} {bs : List BalanceV}
    (h : viewDirective text d = some (.assertion dt bs)) :
    ∃ a, d.body = .assertion a ∧ a.date.range.extract text = some dt ∧ a.balances.mapM (viewBalance text) = some bs := by
  unfold viewDirective at h
  cases hb : d.body with
  | transaction t => rw [hb] at h; obtain ⟨_, _, _, _, _, e, _⟩ := viewTransaction_inv h; cases e
  | assertion o =>
    rw [hb] at h
    simp only [Option.bind_eq_bind, Option.bind_eq_some_iff, Option.pure_def, Option.some.injEq, DirV.assertion.injEq] at h
    obtain ⟨a, h1, b, h2, rfl, rfl⟩ := h
    exact ⟨_, rfl, h1, h2⟩
  | _ =>
    rw [hb] at h
    simp only [Option.bind_eq_bind, Option.bind_eq_some_iff, Option.pure_def, Option.some.injEq, reduceCtorEq, and_false,
      exists_false] at h

theorem view_include_inv {text : Commands.Bytes} {d : Syntax.Directive} {p : Commands.Bytes}
    (h : viewDirective text d = some (.include p)) :
    ∃ i, d.body = .include i ∧ i.includePath.content.extract text = some p := by
  unfold viewDirective at h
  cases hb : d.body with
  | transaction t => rw [hb] at h; obtain ⟨_, _, _, _, _, e, _⟩ := viewTransaction_inv h; cases e
  | «include» o =>
    rw [hb] at h
    simp only [Option.bind_eq_bind, Option.bind_eq_some_iff, Option.pure_def, Option.some.injEq, DirV.include.injEq] at h
    obtain ⟨a, h1, rfl⟩ := h
    exact ⟨_, rfl, h1⟩
  | _ =>
    rw [hb] at h
    simp only [Option.bind_eq_bind, Option.bind_eq_some_iff, Option.pure_def, Option.some.injEq, reduceCtorEq, and_false,
      exists_false] at h

theorem view_transaction_inv {text : Commands.Bytes} {d : Syntax.Directive} {accr : Option AccrualV} {perf : Option (List Commands.Bytes)}
    {dt desc : Commands.Bytes} {bks : List BookingV}
    (h : viewDirective text d = some (.transaction accr perf dt desc bks)) :
    ∃ t, d.body = .transaction t ∧ viewTransaction text t = some (.transaction accr perf dt desc bks) := by
  unfold viewDirective at h
  cases hb : d.body with
  | transaction t => rw [hb] at h; exact ⟨t, rfl, h⟩
  | _ =>
    rw [hb] at h
    simp only [Option.bind_eq_bind, Option.bind_eq_some_iff, Option.pure_def, Option.some.injEq, reduceCtorEq, and_false,
      exists_false] at h

/-! ### fields -/

theorem elabDate_printed {text : Commands.Bytes} {d : Syntax.Date} {z : Int} (hz : PrintableDate z)
    (h : d.range.extract text = some (flat (dateT z))) : elabDate text d = .ok z := by
  rw [← strToks_fmtDate] at h
  simp only [elabDate, textOf_str h, cparseDate_fmtDate z hz.1 hz.2]

theorem ofName_printable (a : Account) (h : PrintableAccount a = true) : Account.ofName a.name = a ∧ a.wf = true := by
  have := accountV_name a h
  simp only [accountV, utf8_str, Option.bind_eq_bind, Option.bind_some] at this
  split at this
  · rename_i hw
    injection this with this
    rw [this] at hw
    exact ⟨this, hw⟩
  · cases this

theorem elabAccount_printed {text : Commands.Bytes} {a : Syntax.Account} {acc : Account} (ha : PrintableAccount acc = true)
    (h : a.range.extract text = some (flat (strToks acc.name))) : elabAccount text a = .ok acc := by
  have ⟨e, w⟩ := ofName_printable acc ha
  simp only [elabAccount, textOf_str h, e, w, if_true]

theorem parseDec_printable (q : Rat) (hq : PrintableQty q) : Dec.parseDec (showDec q) = some q :=
  parseDec_showDec q _ hq

theorem elabDecimal_printed {text : Commands.Bytes} {d : Syntax.Decimal} {q : Rat} (hq : PrintableQty q)
    (h : d.range.extract text = some (flat (strToks (showDec q)))) : elabDecimal text d = .ok q := by
  simp only [elabDecimal, textOf_str h, parseDec_printable q hq]

theorem validCommodity_of_okName {s : String} (h : okName s = true) : Beancount.validCommodity s = true := by
  unfold okName at h
  unfold Beancount.validCommodity
  simp only [Bool.and_eq_true, Bool.not_eq_true'] at h ⊢
  refine ⟨?_, h.2⟩
  have hne : s.toList ≠ [] := by
    intro e; rw [e] at h; simp at h
  cases hs : s.isEmpty with
  | false => rfl
  | true =>
    exfalso
    apply hne
    have : s = "" := String.isEmpty_iff.mp hs
    rw [this]; rfl

theorem elabCommodity_printed {text : Commands.Bytes} {c : Syntax.Commodity} {s : String} (hs : okName s = true)
    (h : c.range.extract text = some (flat (strToks s))) : elabCommodity text c = .ok s := by
  simp only [elabCommodity, textOf_str h, validCommodity_of_okName hs, if_true]

/-! ### lists of fields -/

theorem mapM_ok_of_views {α β γ δ : Type} {f : α → Option β} {g : α → Commands.M γ} {v : δ → β} {k : δ → γ} :
    ∀ {ps : List δ} {l : List α}, l.mapM f = some (ps.map v) → (∀ a, ∀ p ∈ ps, f a = some (v p) → g a = .ok (k p)) →
      l.mapM g = .ok (ps.map k)
  | [], [], _, _ => rfl
  | [], a :: l, h, _ => by
    simp only [List.mapM_cons, Option.bind_eq_bind, Option.bind_eq_some_iff, Option.pure_def, Option.some.injEq] at h
    obtain ⟨_, _, _, _, h⟩ := h
    cases h
  | p :: ps, [], h, _ => by simp at h
  | p :: ps, a :: l, h, hk => by
    simp only [List.mapM_cons, Option.bind_eq_bind, Option.bind_eq_some_iff, Option.pure_def, Option.some.injEq, List.map_cons,
      List.cons.injEq] at h
    obtain ⟨w, hw, ws, hws, rfl, rfl⟩ := h
    have h1 := hk a p List.mem_cons_self hw
    have h2 := mapM_ok_of_views (g := g) (k := k) hws (fun a' p' hp' => hk a' p' (List.mem_cons_of_mem _ hp'))
    rw [List.mapM_cons, h1, h2]
    rfl

theorem elabBooking_printed {text : Commands.Bytes} {b : Syntax.Booking} {p : Posting} (hp : PrintablePosting p)
    (h : viewBooking text b = some (bookingT p).bytes) : elabBooking text b = .ok (bookingOf p) := by
  simp only [viewBooking, Option.bind_eq_bind, Option.bind_eq_some_iff, Option.pure_def, Option.some.injEq, bookingT,
    BookingT.bytes, BookingV.mk.injEq] at h
  obtain ⟨cr, h1, db, h2, q, h3, c, h4, rfl, rfl, rfl, rfl⟩ := h
  have e1 := (ofName_printable _ hp.1).1
  have e2 := (ofName_printable _ hp.2.1).1
  simp only [elabBooking, elabDecimal_printed hp.2.2.1 h3, elabCommodity_printed hp.2.2.2 h4, textOf_str h1, textOf_str h2, e1, e2,
    bookingOf, bind, Except.bind, pure, Except.pure]

theorem elabBalance_printed {text : Commands.Bytes} {b : Syntax.Balance} {x : Balance} (hx : PrintableBalance x)
    (h : viewBalance text b = some (balanceT x).bytes) : elabBalance text b = .ok x := by
  simp only [viewBalance, Option.bind_eq_bind, Option.bind_eq_some_iff, Option.pure_def, Option.some.injEq, balanceT,
    BalanceT.bytes, BalanceV.mk.injEq] at h
  obtain ⟨ac, h1, q, h2, c, h3, rfl, rfl, rfl⟩ := h
  simp only [elabBalance, elabAccount_printed hx.1 h1, elabDecimal_printed hx.2.1 h2, elabCommodity_printed hx.2.2 h3,
    bind, Except.bind, pure, Except.pure]

/-! ### directives -/

/-- **the command model's elaboration of a printed directive**: a directive of the tree whose field view is the view of
the printable model directive `x` elaborates to exactly `[x]` -/
theorem elabDirective_printed {text : Commands.Bytes} {d : Syntax.Directive} (x : Directive) (hx : PrintableDir x)
    (h : viewDirective text d = some (dirView x).bytes) : elabDirective text d = .ok [x] := by
  cases x with
  | price p =>
    obtain ⟨hd, hc, hq, ht⟩ := hx
    obtain ⟨o, hb, h1, h2, h3, h4⟩ := view_price_inv h
    simp only [elabDirective, hb, elabDate_printed hd h1, elabCommodity_printed hc h2, elabDecimal_printed hq h3,
      elabCommodity_printed ht h4, bind, Except.bind, pure, Except.pure]
  | opening o =>
    obtain ⟨hd, ha⟩ := hx
    obtain ⟨o', hb, h1, h2⟩ := view_open_inv h
    simp only [elabDirective, hb, elabDate_printed hd h1, elabAccount_printed ha h2, bind, Except.bind, pure, Except.pure]
  | closing o =>
    obtain ⟨hd, ha⟩ := hx
    obtain ⟨o', hb, h1, h2⟩ := view_close_inv h
    simp only [elabDirective, hb, elabDate_printed hd h1, elabAccount_printed ha h2, bind, Except.bind, pure, Except.pure]
  | assertion a =>
    obtain ⟨hd, hne, hbs⟩ := hx
    simp only [dirView, DirT.bytes, List.map_map] at h
    obtain ⟨a', hb, h1, h2⟩ := view_assertion_inv h
    have hm : a'.balances.mapM (elabBalance text) = .ok (a.balances.map id) :=
      mapM_ok_of_views (v := BalanceT.bytes ∘ balanceT) h2 (fun b x hxm hv => elabBalance_printed (hbs x hxm) hv)
    rw [List.map_id] at hm
    simp only [elabDirective, hb, elabDate_printed hd h1, hm, bind, Except.bind, pure, Except.pure]
  | tx t =>
    obtain ⟨hd, hq, hne, hps, hnf, htg'⟩ := hx
    have hcreate := create_txInput t ⟨hd, hq, hne, hps, hnf, htg'⟩
    simp only [dirView, DirT.bytes, List.map_map, Option.map_none, Option.map_map] at h
    obtain ⟨t', hb, hv⟩ := view_transaction_inv h
    obtain ⟨accr, perf, dt, desc, bks, he, hacc, hp1, hp2, h1, h2, h3⟩ := viewTransaction_inv hv
    injection he with e1 e2 e3 e4 e5
    subst e1 e2 e3 e4 e5
    have hAe : t'.addons.accrual.range.empty = true := hacc.mp rfl
    have hbk : t'.bookings.mapM (elabBooking text) = .ok ((everyOther t.postings).map bookingOf) :=
      mapM_ok_of_views (v := BookingT.bytes ∘ bookingT) h3 (fun b p hpm hv => elabBooking_printed (hps p hpm) hv)
    have htar : elabTargets text t' = .ok t.targets := by
      unfold elabTargets
      cases hPe : t'.addons.performance.range.empty with
      | true =>
        have := hp1 hPe
        cases htt : t.targets with
        | none => rfl
        | some tg => rw [htt] at this; cases this
      | false =>
        obtain ⟨ts, hts1, hts2⟩ := hp2 hPe
        cases htt : t.targets with
        | none => rw [htt] at hts1; cases hts1
        | some tg =>
          rw [htt] at hts1
          simp only [Option.map_some, Option.some.injEq] at hts1
          subst hts1
          have hts2' : t'.addons.performance.targets.mapM (fun (c : Syntax.Commodity) => c.range.extract text) =
              some (tg.map (flat ∘ strToks)) := by
            rw [hts2]; simp only [Function.comp_def, List.map_map]
          have hm : t'.addons.performance.targets.mapM (elabCommodity text) = .ok (tg.map id) :=
            mapM_ok_of_views (v := flat ∘ strToks) hts2'
              (fun c s hs hv => elabCommodity_printed (htg' s (by rw [htt]; exact hs)) hv)
          rw [List.map_id] at hm
          simp only [Bool.false_eq_true, if_false, hm, Except.map]
    have hin : Commands.txInput text t' = .ok (FromSyntax.txInput t) := by
      simp only [Commands.txInput, elabDate_printed hd h1, hbk, htar, elabAccrualOpt, hAe, if_true, textOf_str h2,
        FromSyntax.txInput, bind, Except.bind, pure, Except.pure]
    simp only [elabDirective, hb, elabTransaction, hin, hcreate, bind, Except.bind, pure, Except.pure, List.map_cons, List.map_nil]

/-- an `include` directive elaborates to nothing; its path goes to the loader -/
theorem elabDirective_include {text : Commands.Bytes} {d : Syntax.Directive} (sp : String)
    (h : viewDirective text d = some (.include (flat (strToks sp)))) :
    elabDirective text d = .ok [] ∧ includePaths text [d] = [sp] := by
  obtain ⟨i, hb, h1⟩ := view_include_inv h
  refine ⟨by simp only [elabDirective, hb]; rfl, ?_⟩
  simp only [includePaths, List.filterMap_cons, hb, List.filterMap_nil, textOf_str h1]

theorem includePaths_printed {text : Commands.Bytes} {d : Syntax.Directive} (x : Directive)
    (h : viewDirective text d = some (dirView x).bytes) : includePaths text [d] = [] := by
  have hb : ∀ i, d.body ≠ .include i := by
    intro i hb
    unfold viewDirective at h
    rw [hb] at h
    simp only [Option.bind_eq_bind, Option.bind_eq_some_iff, Option.pure_def, Option.some.injEq] at h
    obtain ⟨_, _, h⟩ := h
    cases x <;> simp [dirView, DirT.bytes] at h
  cases hbd : d.body with
  | «include» i => exact absurd hbd (hb i)
  | _ => simp only [includePaths, List.filterMap_cons, List.filterMap_nil, hbd]

/-! ### a whole file: directives as `journal.Print` writes them, and `include` lines -/

/-- an item of a file: a directive or an include (its spelling) -/
abbrev FItem := Directive ⊕ String

def FItem.text (pad : Nat) : FItem → String
  | .inl x => dirText pad x
  | .inr sp => incText sp

def FItem.view : FItem → DirT
  | .inl x => dirView x
  | .inr sp => .include (strToks sp)

/-- the item of the parser's main loop: the field view, no trailing blanks, one line break -/
def FItem.item (i : FItem) : Syntax.Item := .dir [] default i.view [] [tk 10]

def FItem.Good : FItem → Prop
  | .inl x => PrintableDir x
  | .inr sp => '"' ∉ sp.toList

/-- the directive of an item, if it is one -/
def FItem.dir? : FItem → Option Directive
  | .inl x => some x
  | .inr _ => none

/-- the include path of an item, if it is an include -/
def FItem.inc? : FItem → Option String
  | .inl _ => none
  | .inr sp => some sp

def FItem.elab : FItem → List Directive
  | .inl x => [x]
  | .inr _ => []

theorem FItem.toks (pad : Nat) (i : FItem) (h : i.Good) : strToks (i.text pad) = renderT pad i.view ++ [tk 10] := by
  cases i with
  | inl x =>
    cases x with
    | price p => exact toks_price pad p
    | opening o => exact toks_open pad o
    | closing c => exact toks_close pad c
    | tx t => exact toks_tx pad t h.2.1
    | assertion a =>
      have := toks_assertion pad a h.2.1
      simp only [FItem.text, dirText, FItem.view, strToks_append, this]
      by_cases h1 : a.balances.length = 1
      · simp [h1, strToks, charsToks]
      · simp [h1, nl_toks]
  | inr sp =>
    simp only [FItem.text, incText, FItem.view, renderT, strToks_append]
    rw [strToks_lit "include \"" (by decide), strToks_lit "\"\n" (by decide)]
    have : lits "\"\n" = [tk 34, tk 10] := by decide
    rw [this]
    simp

theorem FItem.good_item (i : FItem) (h : i.Good) : GoodItem i.item := by
  cases i with
  | inl x => exact good_dirItem x h
  | inr sp => exact ⟨contentOK_desc sp h, canon_charsToks _, rfl, rfl⟩

theorem strToks_join_items (pad : Nat) : ∀ (its : List FItem), (∀ i ∈ its, i.Good) →
    strToks (String.join (its.map (FItem.text pad))) = outToks pad (its.map FItem.item)
  | [], _ => rfl
  | i :: rest, h => by
    rw [List.map_cons, join_cons, strToks_append, i.toks pad (h i List.mem_cons_self),
      strToks_join_items pad rest (fun j hj => h j (List.mem_cons_of_mem _ hj))]
    simp [outToks, Item.out, FItem.item]

theorem viewsOf_items : ∀ (its : List FItem), viewsOf (its.map FItem.item) = its.map FItem.view
  | [] => rfl
  | i :: rest => by simp [viewsOf, FItem.item, viewsOf_items rest]

theorem includePaths_cons (text : Commands.Bytes) (d : Syntax.Directive) (ds : List Syntax.Directive) :
    includePaths text (d :: ds) = includePaths text [d] ++ includePaths text ds := by
  simp only [includePaths, List.filterMap_cons, List.filterMap_nil]
  split <;> simp

theorem elab_of_views {text : Commands.Bytes} : ∀ {its : List FItem} {dsx : List Syntax.Directive},
    (∀ i ∈ its, i.Good) → dsx.mapM (viewDirective text) = some (its.map (fun i => i.view.bytes)) →
    dsx.mapM (elabDirective text) = .ok (its.map FItem.elab) ∧
    includePaths text dsx = its.filterMap FItem.inc?
  | [], [], _, _ => ⟨rfl, rfl⟩
  | [], d :: ds, _, h => by
    simp only [List.mapM_cons, Option.bind_eq_bind, Option.bind_eq_some_iff, Option.pure_def, Option.some.injEq] at h
    obtain ⟨_, _, _, _, h⟩ := h
    cases h
  | i :: its, [], _, h => by simp at h
  | i :: its, d :: ds, hg, h => by
    simp only [List.mapM_cons, Option.bind_eq_bind, Option.bind_eq_some_iff, Option.pure_def, Option.some.injEq, List.map_cons,
      List.cons.injEq] at h
    obtain ⟨w, hw, ws, hws, rfl, rfl⟩ := h
    obtain ⟨ih1, ih2⟩ := elab_of_views (fun j hj => hg j (List.mem_cons_of_mem _ hj)) hws
    have hgi := hg i List.mem_cons_self
    rw [includePaths_cons, ih2, List.mapM_cons, ih1]
    cases i with
    | inl x =>
      rw [elabDirective_printed x hgi hw, includePaths_printed x hw]
      exact ⟨rfl, rfl⟩
    | inr sp =>
      obtain ⟨e1, e2⟩ := elabDirective_include sp hw
      rw [e1, e2]
      exact ⟨rfl, rfl⟩

/-- **a file written with the functions of `journal.Print` and `include` lines**: it parses, the command model
elaborates it to exactly its directives, in order, and the loader is handed exactly its include paths, in order -/
theorem file_loads (pad : Nat) (path : String) (its : List FItem) (hg : ∀ i ∈ its, i.Good) :
    ∃ f, parseText path (strBytes (String.join (its.map (FItem.text pad)))) = .ok f ∧
      elabFile (strBytes (String.join (its.map (FItem.text pad))), f) = .ok (its.filterMap FItem.dir?) ∧
      includePaths (strBytes (String.join (its.map (FItem.text pad)))) f.directives =
        its.filterMap FItem.inc? := by
  have hshape : ItemsShape (its.map FItem.item) := itemsShape_of_good _ (by
    intro j hj
    obtain ⟨i, hi, rfl⟩ := List.mem_map.mp hj
    exact i.good_item (hg i hi))
  rw [strBytes_eq_flat, strToks_join_items pad its hg]
  obtain ⟨f, hp, hv⟩ := parse_rendered_items pad path _ hshape
  rw [viewsOf_items, List.map_map] at hv
  obtain ⟨h1, h2⟩ := elab_of_views hg hv
  refine ⟨f, hp, ?_, h2⟩
  unfold elabFile
  simp only [h1, Except.map]
  congr 1
  clear hv h1 h2 hshape hg hp
  induction its with
  | nil => rfl
  | cons i rest ih => cases i <;> simp [FItem.elab, FItem.dir?, List.filterMap_cons, ih]

/-! ### the loader's parser on a file that parses -/

theorem fileLoopSeen_snd (path : String) (start : Nat) (acc : List Syntax.Directive) (s : St) :
    ∀ f s', (fileLoopSeen path start acc s).1 = .ok f s' → (fileLoopSeen path start acc s).2 = f.directives := by
  fun_induction fileLoopSeen path start acc s with
  | case1 acc s hE => intro f s' h; simp only at h; injection h with h1 h2; subst h1; rfl
  | case2 acc s hE e s1 h1 => intro f s' h; cases h
  | case3 acc s hE d s1 h1 hE1 => intro f s' h; simp only at h; injection h with h1 h2; subst h1; rfl
  | case4 acc s hE d s1 h1 hE1 e s2 h2 => intro f s' h; cases h
  | case5 acc s hE d s1 h1 hE1 u s2 h2 ih => exact ih

/-- on a file that parses, the loader is handed the include paths of the tree, and the tree -/
theorem parseForLoader_ok {file : Loader.Path} {text : Commands.Bytes} {f : Syntax.File} (h : parseText file text = .ok f) :
    parseForLoader file text = { includes := includePaths text f.directives, result := .ok (text, f) } := by
  unfold parseText parseFile at h
  unfold parseForLoader
  cases hs : Syntax.start (Utf8.decodeAll text) with
  | err e s => rw [hs] at h; cases h
  | ok u s =>
    rw [hs] at h
    simp only at h ⊢
    have h1 := fileLoopSeen_fst file s.off [] s
    have h2 := fileLoopSeen_snd file s.off [] s
    cases hl : fileLoopSeen file s.off [] s with
    | mk r seen =>
      rw [hl] at h1 h2
      simp only at h1 h2 ⊢
      rw [← h1] at h
      cases r with
      | err e s' => cases h
      | ok f' s' =>
        simp only at h
        injection h with h
        subst h
        rw [h2 f' s' rfl]

end Knut.Layout
