package main

// Statements of the Go→Lean translator (continuation-passing: k yields the term for "control falls through").

import (
	"fmt"
	"go/ast"
	"go/token"
	"go/types"
	"sort"
	"strings"
)

type trK func() trLines

type trLoopCtx struct {
	kind   string // "for" (fuel recursion) or "range" (fold)
	brk    trK
	cont   trK
	flow   bool // the loop body contains a return: results are Flow values
	wrapOk bool // rangerec: results are in the Outcome monad
	outer  *trLoopCtx
}

type trPureFail struct{}

// ---------------------------------------------------------------------------------------------- analysis

// trBaseIdent: x for x, x.f, x[i], x.f[i].g, (*x).f
func trBaseIdent(e ast.Expr) *ast.Ident {
	for {
		switch x := e.(type) {
		case *ast.Ident:
			return x
		case *ast.SelectorExpr:
			e = x.X
		case *ast.IndexExpr:
			e = x.X
		case *ast.ParenExpr:
			e = x.X
		case *ast.StarExpr:
			e = x.X
		case *ast.UnaryExpr:
			if x.Op != token.AND {
				return nil
			}
			e = x.X // &m: the map the pointer points to (trans_units_perf.go)
		case *ast.CallExpr:
			// dict.GetDefault(m, k, ctor)[k2] = v assigns to m
			if sel, ok := x.Fun.(*ast.SelectorExpr); ok && sel.Sel.Name == "GetDefault" && len(x.Args) == 3 {
				e = x.Args[0]
				continue
			}
			// get(&m)[k] = v assigns to m (performance.get, trans_units_perf.go)
			if id, ok := x.Fun.(*ast.Ident); ok && id.Name == "get" && len(x.Args) == 1 {
				e = x.Args[0]
				continue
			}
			return nil
		default:
			return nil
		}
	}
}

// assignedIn: local variables assigned inside the nodes but declared outside of them, in declaration order
func (c *trCtx) assignedIn(nodes ...ast.Node) []types.Object {
	return c.assignedIn2(false, nodes...)
}

// assignedIn2 with through=true: only the variables assigned THROUGH (x.f = e, x[k] = e, delete(x, k), a callee that assigns through
// its parameter), not those that are merely rebound (x = e)
func (c *trCtx) assignedIn2(through bool, nodes ...ast.Node) []types.Object {
	defined := map[types.Object]bool{}
	assigned := map[types.Object]bool{}
	mark := func(e ast.Expr) {
		id := trBaseIdent(e)
		if id == nil || id.Name == "_" {
			return
		}
		_, bare := trUnparen(e).(*ast.Ident)
		if bare && through && !c.markingCall {
			return
		}
		if o, ok := c.info().Uses[id].(*types.Var); ok && !(o.Pkg() != nil && o.Parent() == o.Pkg().Scope()) {
			assigned[o] = true
			if al := c.aliases[o]; al != nil && (al.tree && !bare || al.slice) {
				assigned[al.recvObj] = true // the write-back into the tree the alias points into
			}
		}
	}
	for _, n := range nodes {
		if n == nil || isNilNode(n) {
			continue
		}
		ast.Inspect(n, func(n ast.Node) bool {
			for _, o := range c.ambientUsed(n, true) {
				assigned[o] = true // color.NoColor = e (trans_units_tablerender.go)
			}
			switch x := n.(type) {
			case *ast.Ident:
				if o := c.info().Defs[x]; o != nil {
					defined[o] = true
				}
			case *ast.AssignStmt:
				for _, l := range x.Lhs {
					if id, ok := l.(*ast.Ident); ok && x.Tok == token.DEFINE && c.info().Defs[id] != nil {
						continue
					}
					mark(l)
				}
			case *ast.IncDecStmt:
				mark(x.X)
			case *ast.RangeStmt:
				if x.Tok == token.ASSIGN {
					if x.Key != nil {
						mark(x.Key)
					}
					if x.Value != nil {
						mark(x.Value)
					}
				}
			case *ast.CallExpr:
				c.markingCall = true
				c.treeAssignedIn(x, through, mark, assigned)
				c.builderAssignedIn(x, mark)
				c.perfAssignedIn(x, mark, assigned)
				if id, ok := x.Fun.(*ast.Ident); ok && id.Name == "delete" && len(x.Args) == 2 {
					mark(x.Args[0])
				}
				if sel, ok := x.Fun.(*ast.SelectorExpr); ok && sel.Sel.Name == "GetDefault" && len(x.Args) == 3 {
					mark(x.Args[0]) // dict.GetDefault stores a missing entry
				}
				if sel, ok := x.Fun.(*ast.SelectorExpr); ok && c.logVars != nil {
					if id, ok := sel.X.(*ast.Ident); ok && c.logVars[c.info().Uses[id]] != nil {
						assigned[c.info().Uses[id]] = true // a call on a write-only object appends to its log
					}
				}
				if fo := c.calledFunc(x); fo != nil {
					if p, ok := trPrims[fo.FullName()]; ok && p.mutRecv {
						if sel, ok := trUnparen(x.Fun).(*ast.SelectorExpr); ok {
							mark(sel.X)
						}
					}
				}
				if c.t.isSortStmt(c.info(), x) {
					mark(x.Args[0]) // compare.Sort sorts in place
				}
				if ws, ok := c.effectCallWrites(x); ok {
					for _, o := range ws {
						assigned[o] = true
					}
				}
				if tf, recv := c.calleeOf(x); tf != nil {
					for _, mi := range tf.mut {
						if a := c.callArg(x, recv, tf, mi); a != nil {
							mark(a)
						}
					}
				}
				if trIsColorFprintf(c.info(), x) {
					mark(x.Args[0]) // red.Fprintf(w, …) writes to w (trans_units_tablerender.go)
				}
				if a := trWriterVarArg(c.info(), x); a != nil {
					mark(a) // fmt.Fprintf(w, …) / io.WriteString(w, s) on an io.Writer variable (trans_units_beancount.go)
				}
				c.markingCall = false
			case *ast.FuncLit:
				return false
			}
			return true
		})
	}
	c.writerAliasClose(assigned) // two names of one io.Writer are assigned together (trans_units_beancount.go)
	var res []types.Object
	for o := range assigned {
		if !defined[o] {
			res = append(res, o)
		}
	}
	sort.Slice(res, func(i, j int) bool { return res[i].Pos() < res[j].Pos() })
	return res
}

func isNilNode(n ast.Node) bool {
	switch x := n.(type) {
	case *ast.BlockStmt:
		return x == nil
	case *ast.IfStmt:
		return x == nil
	case ast.Stmt:
		return x == nil
	case ast.Expr:
		return x == nil
	}
	return false
}

// calledFunc: the function object a call refers to (nil for function values, builtins, conversions)
func (c *trCtx) calledFunc(x *ast.CallExpr) *types.Func {
	switch f := trUnparen(x.Fun).(type) {
	case *ast.Ident:
		fo, _ := c.info().Uses[f].(*types.Func)
		return fo
	case *ast.SelectorExpr:
		if sel, ok := c.info().Selections[f]; ok {
			fo, _ := sel.Obj().(*types.Func)
			return fo
		}
		fo, _ := c.info().Uses[f.Sel].(*types.Func)
		return fo
	case *ast.IndexExpr: // explicit instantiation f[T](…)
		return c.calledFunc(&ast.CallExpr{Fun: f.X})
	}
	return nil
}

// calleeOf: the translated function called by x (nil for prelude calls, builtins, conversions)
func (c *trCtx) calleeOf(x *ast.CallExpr) (*trFunc, ast.Expr) {
	if tf, recv := c.t.writerCallee(c.info(), x); tf != nil {
		return tf, recv // fmt.Fprintf(p, …) / io.WriteString(p, s) = p.Write(text)
	}
	var fobj *types.Func
	var recv ast.Expr
	switch f := trUnparen(x.Fun).(type) {
	case *ast.Ident:
		fobj, _ = c.info().Uses[f].(*types.Func)
	case *ast.SelectorExpr:
		if sel, ok := c.info().Selections[f]; ok {
			if sel.Kind() == types.MethodVal {
				fobj, _ = sel.Obj().(*types.Func)
				recv = f.X
			}
		} else {
			fobj, _ = c.info().Uses[f.Sel].(*types.Func)
		}
	}
	if fobj == nil || c.t.builderCallFromOutside(c.info(), fobj) {
		return nil, nil
	}
	return c.t.funcs[fobj.Origin()], recv
}

// callArg: the argument expression bound to parameter index mi (0 = receiver for methods)
func (c *trCtx) callArg(x *ast.CallExpr, recv ast.Expr, tf *trFunc, mi int) ast.Expr {
	if tf.decl.Recv != nil {
		if mi == 0 {
			return recv
		}
		mi--
	}
	if mi < len(x.Args) {
		if m, ok := trAddrOfMap(c.info(), x.Args[mi]); ok {
			return m // &m for a parameter *map: the map is the target (trans_units_perf.go)
		}
		return x.Args[mi]
	}
	return nil
}

// hasJump: the statements can leave the enclosing statement list other than by falling through
func (c *trCtx) hasJump(nodes ...ast.Node) bool {
	found := false
	for _, n := range nodes {
		if n == nil || isNilNode(n) {
			continue
		}
		ast.Inspect(n, func(n ast.Node) bool {
			switch x := n.(type) {
			case *ast.ReturnStmt, *ast.BranchStmt:
				found = true
			case *ast.ExprStmt:
				if call, ok := x.X.(*ast.CallExpr); ok {
					if id, ok := call.Fun.(*ast.Ident); ok && id.Name == "panic" {
						found = true
					}
				}
			case *ast.ForStmt, *ast.RangeStmt:
				// break/continue inside belong to that loop; a return inside still leaves
				ast.Inspect(n, func(m ast.Node) bool {
					if _, ok := m.(*ast.ReturnStmt); ok {
						found = true
					}
					if _, ok := m.(*ast.FuncLit); ok {
						return false
					}
					return true
				})
				return false
			case *ast.FuncLit:
				return false
			}
			return true
		})
	}
	return found
}

func trHasReturn(n ast.Node) bool {
	found := false
	ast.Inspect(n, func(m ast.Node) bool {
		if _, ok := m.(*ast.ReturnStmt); ok {
			found = true
		}
		if _, ok := m.(*ast.FuncLit); ok {
			return false
		}
		return true
	})
	return found
}

// ---------------------------------------------------------------------------------------------- tuples

func (c *trCtx) tupleOf(vars []types.Object) (term string, typ string) {
	if len(vars) == 0 {
		return "()", "Unit"
	}
	var ns, ts []string
	for _, v := range vars {
		ns = append(ns, c.names[v])
		ts = append(ts, c.varType(v, v.Pos()))
	}
	if len(vars) == 1 {
		return ns[0], ts[0]
	}
	return "(" + strings.Join(ns, ", ") + ")", "(" + strings.Join(ts, " × ") + ")"
}

// unpack: let a := st.1; let b := st.2.1; let c := st.2.2; body
func (c *trCtx) unpack(st string, vars []types.Object, body trLines) trLines {
	if len(vars) == 0 {
		return body
	}
	if len(vars) == 1 {
		if c.names[vars[0]] == st {
			return body
		}
		return trLet(c.names[vars[0]], c.varType(vars[0], vars[0].Pos()), trOne(st), body)
	}
	out := body
	for i := len(vars) - 1; i >= 0; i-- {
		proj := st + strings.Repeat(".2", i)
		if i < len(vars)-1 {
			proj += ".1"
		}
		out = trLet(c.names[vars[i]], c.varType(vars[i], vars[i].Pos()), trOne(proj), out)
	}
	return out
}

// okTerm: a value as the result of the current (effectful or pure) term position
func (c *trCtx) okTerm(v string) trLines {
	if c.fn.effect && !c.pureMode() {
		return trOne("Outcome.ok " + v)
	}
	return trOne(v)
}

func (c *trCtx) pureMode() bool { return c.pureDepth > 0 }

// ---------------------------------------------------------------------------------------------- statements

func (c *trCtx) stmts(list []ast.Stmt, k trK) trLines {
	if len(list) == 0 {
		return k()
	}
	return c.stmt(list[0], func() trLines { return c.stmts(list[1:], k) })
}

// returnTerm: `return e1, e2` of the function being translated
func (c *trCtx) returnTerm(vals []string, pos token.Pos) trLines {
	for _, m := range c.fn.mutObjs {
		vals = append([]string{c.mutName(m)}, vals...)
	}
	// mutObjs were prepended in reverse: restore declaration order
	if n := len(c.fn.mutObjs); n > 1 {
		head := vals[:n]
		for i, j := 0, n-1; i < j; i, j = i+1, j-1 {
			head[i], head[j] = head[j], head[i]
		}
	}
	if c.statePack != nil {
		vals = append([]string{c.statePack()}, vals...)
	}
	v := "()"
	if len(vals) == 1 {
		v = vals[0]
	} else if len(vals) > 1 {
		v = "(" + strings.Join(vals, ", ") + ")"
	}
	return trWrapPre(c.takePre(), c.retRaw(v, pos)) // (the value of a moved writer may be effectful: trans_units_tablerender.go)
}

// retRaw: leave the function with the (complete) result value v from the current position
func (c *trCtx) retRaw(v string, pos token.Pos) trLines {
	if c.pureMode() {
		trFail(pos, "internal: return inside a join")
	}
	if c.loop != nil {
		if c.loop.kind == "range" {
			trFail(pos, "return inside a range loop is outside the subset")
		}
		if c.loop.kind == "rangerec" && !c.loop.wrapOk {
			return trOne("(Flow.ret " + v + ")")
		}
		return trOne("Outcome.ok (Flow.ret " + v + ")")
	}
	if c.fn.effect {
		return trOne("Outcome.ok " + v)
	}
	return trOne(v)
}

func (c *trCtx) stmt(s ast.Stmt, k trK) trLines {
	switch x := s.(type) {
	case *ast.BlockStmt:
		return c.stmts(x.List, k)
	case *ast.EmptyStmt:
		return k()
	case *ast.ReturnStmt:
		if c.retHook != nil {
			return c.retHook(x)
		}
		if len(x.Results) == 1 {
			if call, ok := trUnparen(x.Results[0]).(*ast.CallExpr); ok {
				if tf, recv := c.calleeOf(call); tf != nil && len(tf.mut) > 0 {
					return c.returnMutCall(x, call, tf, recv)
				}
			}
			if out, ok := c.createReturnCall(x); ok {
				return out // return f(…) with several results (trans_units_create.go)
			}
			if out, ok := c.importReturnCall(x); ok {
				return out // return time.Parse(…) in the importer units (trans_units_import.go)
			}
			if call := c.isGetDefault(x.Results[0]); call != nil && c.nresults == 1 {
				return c.getDefaultThen(call, func(v string) trLines { return c.returnTerm([]string{v}, x.Pos()) })
			}
		}
		if len(x.Results) == 0 && c.nresults > 0 {
			trFail(x.Pos(), "return without values in a function with named results is outside the subset")
		}
		var vals []string
		if len(x.Results) == 1 && c.nresults > 1 {
			trFail(x.Pos(), "return of a multi-valued call is outside the subset")
		}
		for i, r := range x.Results {
			vals = append(vals, c.perfRetValue(r, i))
		}
		pre := c.takePre()
		return trWrapPre(pre, c.returnTerm(vals, x.Pos()))
	case *ast.ExprStmt:
		return c.exprStmt(x, k)
	case *ast.DeclStmt:
		return c.declStmt(x, k)
	case *ast.AssignStmt:
		return c.assign(x, k)
	case *ast.IncDecStmt:
		one := "(1 : Int)"
		op := "+"
		if x.Tok == token.DEC {
			op = "-"
		}
		if !trIsInt(c.typeOf(x.X)) {
			trFail(x.Pos(), "%s on %s is outside the subset", x.Tok, c.typeOf(x.X))
		}
		val := "(" + c.expr(x.X) + " " + op + " " + one + ")"
		return c.store(x.X, val, x.Pos(), k)
	case *ast.IfStmt:
		return c.ifStmt(x, k)
	case *ast.SwitchStmt:
		return c.switchStmt(x, k)
	case *ast.TypeSwitchStmt:
		return c.typeSwitch(x, k)
	case *ast.ForStmt:
		return c.forStmt(x, k)
	case *ast.RangeStmt:
		return c.rangeStmt(x, k)
	case *ast.BranchStmt:
		if x.Label != nil {
			trFail(x.Pos(), "labelled %s is outside the subset", x.Tok)
		}
		if c.loop == nil {
			trFail(x.Pos(), "%s here is outside the subset", x.Tok)
		}
		switch x.Tok {
		case token.BREAK:
			if c.loop.brk == nil {
				trFail(x.Pos(), "break inside a range loop is outside the subset")
			}
			return c.loop.brk()
		case token.CONTINUE:
			return c.loop.cont()
		}
		trFail(x.Pos(), "%s is outside the subset", x.Tok)
	}
	trFail(s.Pos(), "statement %T is outside the subset", s)
	return nil
}

func (c *trCtx) needEffect(pos token.Pos, what string) {
	if c.pureMode() {
		panic(trPureFail{})
	}
	if !c.fn.effect {
		trFail(pos, "internal: %s in a function classified as pure", what)
	}
}

func (c *trCtx) exprStmt(x *ast.ExprStmt, k trK) trLines {
	call, ok := x.X.(*ast.CallExpr)
	if !ok {
		trFail(x.Pos(), "expression statement %T is outside the subset", x.X)
	}
	if id, ok := call.Fun.(*ast.Ident); ok {
		if b, ok := c.info().Uses[id].(*types.Builtin); ok {
			switch b.Name() {
			case "panic":
				c.needEffect(x.Pos(), "panic")
				msg := "panic"
				if tv := c.info().Types[call.Args[0]]; tv.Value != nil {
					msg = strings.Trim(tv.Value.ExactString(), "\"")
				} else if inner, ok := call.Args[0].(*ast.CallExpr); ok && len(inner.Args) > 0 {
					// panic(fmt.Sprintf("…", …)) / panic(fmt.Errorf(…)): the format string
					if tv := c.info().Types[inner.Args[0]]; tv.Value != nil {
						msg = strings.Trim(tv.Value.ExactString(), "\"")
					}
				}
				return trOne("Outcome.panic " + trLeanStr(msg))
			case "delete":
				m := c.expr(call.Args[0])
				key := c.expr(call.Args[1])
				return c.store(call.Args[0], "(AMap.erase "+m+" "+key+")", x.Pos(), k)
			}
			trFail(x.Pos(), "builtin %s as a statement is outside the subset", b.Name())
		}
	}
	if r, ok := c.treeStmt(call, nil, false, k); ok {
		return r
	}
	if r, ok := c.builderStmt(call, nil, false, k); ok {
		return r
	}
	if r, ok := c.printfStmt(call, k); ok {
		return r // fmt.Printf in a closure: appended to the log `stdout` (trans_units_perf.go)
	}
	if out, ok := c.sortSliceStmt(call, k); ok {
		return out // compare.Sort(x.f, F) through the value variable x of a range loop (trans_units_beancount.go)
	}
	if out, ok := c.sortStmt(call, k); ok {
		return out // compare.Sort(X, F) (trans_units_jprinter.go)
	}
	if out, ok := c.effectCall(call, nil, false, k); ok {
		return out
	}
	if tf, recv := c.calleeOf(call); tf != nil && len(tf.mut) > 0 {
		return c.mutCall(call, tf, recv, nil, false, k)
	}
	if r, ok := c.logCall(call, k); ok {
		return r
	}
	if r, ok := c.writerVarCall(call, nil, false, k); ok {
		return r // fmt.Fprintf / io.WriteString on an io.Writer variable (trans_units_beancount.go)
	}
	// a prelude method that writes to its receiver (strings.Builder): the receiver is rebound, the results are dropped
	if fo := c.calledFunc(call); fo != nil {
		if out, ok := c.primResultCall(call, nil, false, k); ok {
			return out
		}
		if p, ok := trPrims[fo.FullName()]; ok && p.mutRecv {
			sel := trUnparen(call.Fun).(*ast.SelectorExpr)
			args := []string{c.expr(sel.X)}
			for _, a := range call.Args {
				args = append(args, c.expr(a))
			}
			return c.store(sel.X, "("+p.lean+" "+strings.Join(args, " ")+")", x.Pos(), k)
		}
	}
	// a call for its effect (panic) only
	v := c.expr(call)
	pre := c.takePre()
	if len(pre) == 0 {
		_ = v
		return k() // a pure call whose result is dropped has no effect
	}
	return trWrapPre(pre, k())
}

func (c *trCtx) declStmt(x *ast.DeclStmt, k trK) trLines {
	gd, ok := x.Decl.(*ast.GenDecl)
	if !ok || gd.Tok != token.VAR {
		trFail(x.Pos(), "declaration %s inside a function is outside the subset", gd.Tok)
	}
	type bind struct{ name, typ, val string }
	var binds []bind
	for _, sp := range gd.Specs {
		vs := sp.(*ast.ValueSpec)
		if len(vs.Values) != 0 && len(vs.Values) != len(vs.Names) {
			trFail(vs.Pos(), "var with a multi-valued initialiser is outside the subset")
		}
		for i, n := range vs.Names {
			obj := c.info().Defs[n]
			ty := c.varType(obj, n.Pos())
			val := "GoZero.zero"
			if len(vs.Values) > 0 {
				val = c.expr(vs.Values[i])
			}
			binds = append(binds, bind{"", ty, val})
			binds[len(binds)-1].name = c.local(obj)
		}
	}
	pre := c.takePre()
	body := k()
	for i := len(binds) - 1; i >= 0; i-- {
		body = trLet(binds[i].name, binds[i].typ, trOne(binds[i].val), body)
	}
	return trWrapPre(pre, body)
}

// store: the assignment `lhs = val` (val already translated) followed by k
func (c *trCtx) store(lhs ast.Expr, val string, pos token.Pos, k trK) trLines {
	if id := trBaseIdent(lhs); id != nil && len(c.aliases) > 0 {
		c.killAliases(c.info().Uses[id], nil) // aliases into a tree hanging on this variable are stale from here on
	}
	k = c.writerSync(lhs, k) // the other name of the same io.Writer follows (trans_units_beancount.go)
	k = c.writeBack(lhs, k)
	pre0 := c.takePre()
	name, ty, term := c.storeTerm(lhs, val, pos)
	pre := append(pre0, c.takePre()...)
	if name == "_" {
		return trWrapPre(pre, k())
	}
	return trWrapPre(pre, trLet(name, ty, trOne(term), k()))
}

// storeTerm: which variable is rebound, and to what, by `lhs = val`
func (c *trCtx) storeTerm(lhs ast.Expr, val string, pos token.Pos) (name, typ, term string) {
	if n, ty, tm, ok := c.ambientStore(lhs, val, pos); ok {
		return n, ty, tm // color.NoColor = e (trans_units_tablerender.go)
	}
	switch l := trUnparen(lhs).(type) {
	case *ast.Ident:
		if l.Name == "_" {
			return "_", "", val
		}
		obj := c.info().Uses[l]
		if obj == nil {
			obj = c.info().Defs[l]
		}
		v, ok := obj.(*types.Var)
		if !ok || (v.Pkg() != nil && v.Parent() == v.Pkg().Scope()) {
			trFail(pos, "assignment to %s, which is not a local variable, is outside the subset", l.Name)
		}
		return c.local(v), c.varType(v, pos), val
	case *ast.CallExpr:
		if m, ok := c.perfGetArg(l); ok {
			c.t.checkPinned(c.calledFunc(l), pos)
			return c.storeTerm(m, val, pos) // get(&m) = …: the map itself (trans_units_perf.go)
		}
	case *ast.SelectorExpr:
		sel, ok := c.info().Selections[l]
		if !ok || sel.Kind() != types.FieldVal || len(sel.Index()) != 1 {
			trFail(pos, "assignment to %s is outside the subset", trSrc(l))
		}
		if n, ty, tm, ok := c.nilPtrStore(l, val, pos); ok {
			return n, ty, tm // through a nilable pointer (trans_units_perf.go)
		}
		if trIsTreeNode(c.typeOf(l.X)) && l.Sel.Name != "Value" {
			trFail(pos, "assignment to the field %s of a multimap node is outside the subset (only Value)", l.Sel.Name)
		}
		// through a pointer: only the receiver / a parameter handled by state passing, or a local struct value
		if _, isPtr := c.typeOf(l.X).Underlying().(*types.Pointer); isPtr {
			id, ok := trUnparen(l.X).(*ast.Ident)
			if ok && c.aliases != nil && c.aliases[c.info().Uses[id]] != nil {
				// a pointer into a map entry: the write-back follows (trCtx.writeBack)
			} else if !ok || !c.isMutObj(c.info().Uses[id]) {
				trFail(pos, "assignment through the pointer %s, which is not a receiver or parameter of this function, is outside the subset", trSrc(l.X))
			}
		}
		inner := "{ " + c.expr(l.X) + " with " + trMangle(l.Sel.Name) + " := " + val + " }"
		return c.storeTerm(l.X, inner, pos)
	case *ast.IndexExpr:
		tx := c.typeOf(l.X)
		// idiom: dict.GetDefault(m, k, ctor)[k2] = v  — the inner map of m at k (created by ctor() when absent) gets k2 ↦ v
		// and is (still) the entry of m at k: maps are references in Go, the association lists are values
		if call, ok := trUnparen(l.X).(*ast.CallExpr); ok {
			if fo := c.calledFunc(call); fo != nil && fo.FullName() == trKnutPath+"lib/common/dict.GetDefault" {
				c.t.checkPinned(fo, pos)
				if _, isMap := tx.Underlying().(*types.Map); !isMap {
					trFail(pos, "dict.GetDefault(…)[k] = v with a value type that is not a map is outside the subset")
				}
				m, k := c.expr(call.Args[0]), c.expr(call.Args[1])
				ctorID, ok := trUnparen(call.Args[2]).(*ast.Ident)
				if !ok {
					trFail(pos, "dict.GetDefault with a constructor that is not a function name is outside the subset")
				}
				ctorF, _ := c.info().Uses[ctorID].(*types.Func)
				tf := c.t.funcs[ctorF]
				if tf == nil || tf.effect || len(tf.mut) > 0 {
					trFail(pos, "dict.GetDefault: the constructor %s is not a translated pure function", ctorID.Name)
				}
				c.fn.deps = append(c.fn.deps, tf)
				ctor := c.t.qname(c.unit(), tf.unit, tf.leanName)
				inner := "(AMap.set (getDefault " + m + " " + k + " " + ctor + ") " + c.expr(l.Index) + " " + val + ")"
				return c.storeTerm(call.Args[0], "(AMap.set "+m+" "+k+" "+inner+")", pos)
			}
		}
		switch tx.Underlying().(type) {
		case *types.Map:
			if sel, ok := c.nilMapSel(l.X); ok {
				// a map field whose nil-ness is tracked: storing into a nil map panics (trans_units_perf.go)
				m := c.hoist("nilMapE "+c.nilMapRaw(sel), pos)
				return c.storeTerm(l.X, "(some (AMap.set "+m+" "+c.expr(l.Index)+" "+val+"))", pos)
			}
			inner := "(AMap.set " + c.expr(l.X) + " " + c.expr(l.Index) + " " + val + ")"
			return c.storeTerm(l.X, inner, pos)
		case *types.Slice:
			// the slice may share its array with another variable: only locals of this function that were built here
			t := c.hoist("setIndex "+c.expr(l.X)+" "+c.expr(l.Index)+" "+val, pos)
			return c.storeTerm(l.X, t, pos)
		}
		trFail(pos, "assignment to an element of %s is outside the subset", tx)
	case *ast.StarExpr:
		return c.storeTerm(l.X, val, pos)
	}
	trFail(pos, "assignment to %T is outside the subset", lhs)
	return
}

func (c *trCtx) isMutObj(o types.Object) bool {
	for _, m := range c.fn.mutObjs {
		if m == o {
			return true
		}
	}
	return false
}

func (c *trCtx) assign(x *ast.AssignStmt, k trK) trLines {
	switch x.Tok {
	case token.ASSIGN, token.DEFINE:
	default:
		// x op= e
		ops := map[token.Token]token.Token{token.ADD_ASSIGN: token.ADD, token.SUB_ASSIGN: token.SUB, token.MUL_ASSIGN: token.MUL,
			token.QUO_ASSIGN: token.QUO, token.REM_ASSIGN: token.REM}
		op, ok := ops[x.Tok]
		if !ok || len(x.Lhs) != 1 {
			trFail(x.Pos(), "assignment operator %s is outside the subset", x.Tok)
		}
		be := &ast.BinaryExpr{X: x.Lhs[0], Op: op, Y: x.Rhs[0], OpPos: x.TokPos}
		c.info().Types[be] = c.info().Types[x.Lhs[0]]
		val := c.binary(be)
		return c.store(x.Lhs[0], val, x.Pos(), k)
	}
	// multi-valued right-hand side: a call or a comma-ok form
	if len(x.Lhs) > 1 && len(x.Rhs) == 1 {
		return c.assignMulti(x, k)
	}
	if len(x.Lhs) != len(x.Rhs) {
		trFail(x.Pos(), "assignment with %d targets and %d values is outside the subset", len(x.Lhs), len(x.Rhs))
	}
	if len(x.Lhs) == 1 {
		if out, ok := c.capAssign(x, k); ok {
			return out // x.f = append(x.f, v) for a field whose capacity is tracked (trans_units_tablerender.go)
		}
		k = c.writerAliasAfter(x, k) // p := Ctor(w) that stores the writer w: one sink, two names (trans_units_beancount.go)
		if c.perfGetAlias(x) {
			return k() // x := get(&m): another name of m (trans_units_perf.go)
		}
		if out, ok := c.closureRecStmt(x, k); ok {
			return out // x := &T{F: func…} (trans_units_jprinter.go)
		}
		if call, ok := x.Rhs[0].(*ast.CallExpr); ok {
			if r, ok := c.treeStmt(call, x.Lhs, x.Tok == token.DEFINE, k); ok {
				return r
			}
			if r, ok := c.builderStmt(call, x.Lhs, x.Tok == token.DEFINE, k); ok {
				return r
			}
			if out, ok := c.effectCall(call, x.Lhs, x.Tok == token.DEFINE, k); ok {
				return out
			}
			if tf, recv := c.calleeOf(call); tf != nil && len(tf.mut) > 0 {
				return c.mutCall(call, tf, recv, x.Lhs, x.Tok == token.DEFINE, k)
			}
			if out, ok := c.primResultCall(call, x.Lhs, x.Tok == token.DEFINE, k); ok {
				return out // err := writer.Write(rec) of a csv.Writer (trans_units_tablerender.go)
			}
		}
		if _, isLit := trUnparen(x.Rhs[0]).(*ast.FuncLit); isLit && x.Tok == token.DEFINE {
			if id, ok := x.Lhs[0].(*ast.Ident); ok && c.onlyTreeArg(c.info().Defs[id]) {
				return k() // translated where it is passed to multimap.Sort / PostOrder (trans_tree.go)
			}
		}
		if id, ok := trUnparen(x.Rhs[0]).(*ast.Ident); ok {
			if al := c.aliases[c.info().Uses[id]]; al != nil && al.tree {
				trFail(x.Pos(), "copying %s, a pointer into a tree, is outside the subset", id.Name)
			}
		}
		var val string
		if v, ok := c.perfAssignValue(x); ok {
			val = v
		} else if _, nilable := c.nilableSel(x.Lhs[0]); nilable && x.Tok == token.ASSIGN {
			val = c.nilableValue(x.Rhs[0], c.typeOf(x.Lhs[0]))
		} else if x.Tok == token.ASSIGN {
			val = c.exprAs(x.Rhs[0], c.typeOf(x.Lhs[0]))
		} else {
			val = c.expr(x.Rhs[0])
		}
		if x.Tok == token.DEFINE {
			c.declare(x.Lhs[0])
		}
		return c.store(x.Lhs[0], val, x.Pos(), k)
	}
	// parallel assignment: all right-hand sides first
	var tmps []string
	var types_ []string
	var vals []string
	for _, r := range x.Rhs {
		vals = append(vals, c.expr(r))
		types_ = append(types_, c.leanType(c.typeOf(r), r.Pos()))
		tmps = append(tmps, c.fresh("v"))
	}
	pre := c.takePre()
	if x.Tok == token.DEFINE {
		for _, l := range x.Lhs {
			c.declare(l)
		}
	}
	var body func(i int) trLines
	body = func(i int) trLines {
		if i == len(x.Lhs) {
			return k()
		}
		return c.store(x.Lhs[i], tmps[i], x.Pos(), func() trLines { return body(i + 1) })
	}
	out := body(0)
	for i := len(tmps) - 1; i >= 0; i-- {
		out = trLet(tmps[i], types_[i], trOne(vals[i]), out)
	}
	return trWrapPre(pre, out)
}

// declare: x := … introduces x (or reuses it, for a redeclaration in a multi-assignment)
func (c *trCtx) declare(l ast.Expr) {
	id, ok := l.(*ast.Ident)
	if !ok {
		trFail(l.Pos(), "definition of %T is outside the subset", l)
	}
	if obj := c.info().Defs[id]; obj != nil {
		c.local(obj)
	}
}

// assignMulti: a, b := f(…) | v, ok := m[k]
func (c *trCtx) assignMulti(x *ast.AssignStmt, k trK) trLines {
	rhs := trUnparen(x.Rhs[0])
	switch r := rhs.(type) {
	case *ast.IndexExpr:
		if m, ok := c.typeOf(r.X).Underlying().(*types.Map); ok && len(x.Lhs) == 2 {
			mv, kv := c.expr(r.X), c.expr(r.Index)
			pre := c.takePre()
			if x.Tok == token.DEFINE {
				c.declare(x.Lhs[0])
				c.declare(x.Lhs[1])
			}
			zero := "(GoZero.zero : " + c.leanType(m.Elem(), r.Pos()) + ")"
			return trWrapPre(pre, c.store(x.Lhs[0], "(AMap.get "+mv+" "+kv+" "+zero+")", x.Pos(), func() trLines {
				return c.store(x.Lhs[1], "(Option.isSome (AMap.find? "+mv+" "+kv+"))", x.Pos(), k)
			}))
		}
	case *ast.CallExpr:
		if tf, recv := c.calleeOf(r); tf != nil && len(tf.mut) > 0 {
			return c.mutCall(r, tf, recv, x.Lhs, x.Tok == token.DEFINE, k)
		}
		if out, ok := c.primResultCall(r, x.Lhs, x.Tok == token.DEFINE, k); ok {
			return out
		}
		if out, ok := c.colorFprintf(r, x.Lhs, x.Tok == token.DEFINE, k); ok {
			return out // red.Fprintf(w, …) (trans_units_tablerender.go)
		}
		if out, ok := c.writerVarCall(r, x.Lhs, x.Tok == token.DEFINE, k); ok {
			return out // fmt.Fprintf / io.WriteString on an io.Writer variable (trans_units_beancount.go)
		}
		tup, ok := c.typeOf(r).(*types.Tuple)
		if !ok || tup.Len() != len(x.Lhs) {
			trFail(x.Pos(), "assignment of a call with %d results to %d targets is outside the subset", tup.Len(), len(x.Lhs))
		}
		v := c.expr(r)
		pre := c.takePre()
		st := c.fresh("r")
		if x.Tok == token.DEFINE {
			for _, l := range x.Lhs {
				c.declare(l)
			}
		}
		var body func(i int) trLines
		body = func(i int) trLines {
			if i == len(x.Lhs) {
				return k()
			}
			proj := st + strings.Repeat(".2", i)
			if i < len(x.Lhs)-1 {
				proj += ".1"
			}
			return c.store(x.Lhs[i], proj, x.Pos(), func() trLines { return body(i + 1) })
		}
		return trWrapPre(pre, trLet(st, c.leanType(tup, r.Pos()), trOne(v), body(0)))
	}
	trFail(x.Pos(), "multi-valued assignment from %T is outside the subset", rhs)
	return nil
}

// mutCall: a call of a translated function that assigns through pointer/map parameters: the arguments bound to them must
// be assignable expressions; they are rebound to the new values the function returns first.
func (c *trCtx) mutCall(call *ast.CallExpr, tf *trFunc, recv ast.Expr, lhs []ast.Expr, define bool, k trK) trLines {
	if s := c.writerSynth(call); s != nil {
		call = s
	}
	var args []string
	if recv != nil {
		args = append(args, c.expr(recv))
	}
	keyIdx, aliasing := c.aliasKeyArg(call, tf)
	keyName, keyVal, keyTy := "", "", ""
	mutSig := tf.obj.Type().(*types.Signature)
	for i, a := range call.Args {
		var av string
		if i < mutSig.Params().Len() && !mutSig.Variadic() {
			av = c.exprAs(a, mutSig.Params().At(i).Type())
		} else {
			av = c.expr(a)
		}
		s := c.identityArg(tf.obj, i, a, av)
		if aliasing && i == keyIdx {
			keyName, keyVal, keyTy = c.fresh("key"), s, c.leanType(c.typeOf(a), a.Pos())
			s = keyName
		}
		args = append(args, s)
	}
	args = append(args, c.passExtras(tf)...)
	c.fn.deps = append(c.fn.deps, tf)
	app := c.t.qname(c.unit(), tf.unit, tf.leanName) + " " + strings.Join(args, " ")
	var v string
	if tf.effect {
		c.needEffect(call.Pos(), "call of "+tf.leanName)
		v = c.hoist(app, call.Pos())
	} else {
		v = "(" + app + ")"
	}
	pre := c.takePre()
	if aliasing {
		if len(lhs) != 1 || !define {
			trFail(call.Pos(), "%s returns a pointer into a map of its receiver: only `x := recv.%s(…)` is in the subset", tf.leanName, tf.decl.Name.Name)
		}
		k0 := k
		k = func() trLines { c.registerAlias(call, tf, recv, lhs[0], keyName); return k0() }
	}
	nres := tf.obj.Type().(*types.Signature).Results().Len()
	if len(lhs) != 0 && len(lhs) != nres {
		trFail(call.Pos(), "call of %s with %d results assigned to %d targets", tf.leanName, nres, len(lhs))
	}
	total := len(tf.mut) + len(lhs)
	if nres > 0 && len(lhs) == 0 {
		total = len(tf.mut) + 1 // results dropped as one component
		if nres > 1 {
			total = len(tf.mut) + nres
		}
	}
	k = c.sliceAliasRegister(call, tf, recv, lhs, define, k) // x := t.AddRow(): a pointer into t.rows (trans_units_tablerender.go)
	st := c.fresh("r")
	if define {
		for _, l := range lhs {
			c.declare(l)
		}
	}
	targets := []ast.Expr{}
	for _, mi := range tf.mut {
		a := c.callArg(call, recv, tf, mi)
		if a == nil || trBaseIdent(a) == nil {
			trFail(call.Pos(), "argument %d of %s is assigned through by the callee and must be a variable or a field", mi, tf.leanName)
		}
		targets = append(targets, a)
	}
	targets = append(targets, lhs...)
	var body func(i int) trLines
	body = func(i int) trLines {
		if i == len(targets) {
			return k()
		}
		proj := st
		if total > 1 {
			proj = st + strings.Repeat(".2", i)
			if i < total-1 {
				proj += ".1"
			}
		}
		next := func() trLines { return body(i + 1) }
		if i < len(tf.mut) {
			next = c.aliasThrough(targets[i], next) // through an alias into a slice: the write-back (trans_units_tablerender.go)
		}
		return c.store(targets[i], proj, call.Pos(), next)
	}
	out := trWrapPre(pre, trLet(st, "", trOne(v), body(0)))
	if aliasing {
		out = trLet(keyName, keyTy, trOne(keyVal), out)
	}
	return out
}

// ---------------------------------------------------------------------------------------------- if / switch

type trBranch struct {
	cond string // "" = else
	pre  []trPre
	body []ast.Stmt
}

func (c *trCtx) ifStmt(x *ast.IfStmt, k trK) trLines {
	if x.Init != nil {
		return c.stmt(x.Init, func() trLines {
			y := *x
			y.Init = nil
			return c.ifStmt(&y, k)
		})
	}
	var elseBody []ast.Stmt
	hasElse := x.Else != nil
	if hasElse {
		elseBody = []ast.Stmt{x.Else}
	}
	cond := c.expr(x.Cond)
	pre := c.takePre()
	return trWrapPre(pre, c.branch(cond, x.Body.List, elseBody, x, k))
}

// branch: `if cond { a } else { b }` followed by k
func (c *trCtx) branch(cond string, a, b []ast.Stmt, whole ast.Node, k trK) trLines {
	nodesA := make([]ast.Node, 0, len(a)+len(b))
	for _, s := range a {
		nodesA = append(nodesA, s)
	}
	for _, s := range b {
		nodesA = append(nodesA, s)
	}
	if c.hasJump(nodesA...) && !c.createsAlias(nodesA...) && c.flowJoinWanted(nodesA) {
		// opt-in (trFlowJoin): the branches join in Flow, the rest follows once (trans_units_jprinter.go)
		return c.flowJoin(cond, func(k2 trK) trLines { return c.stmts(a, k2) }, func(k2 trK) trLines { return c.stmts(b, k2) }, nodesA, whole.Pos(), k)
	}
	if c.hasJump(nodesA...) || c.createsAlias(nodesA...) {
		// some path leaves: the rest of the statement list is continued inside both branches
		return trIte(cond, c.stmts(a, k), c.stmts(b, k))
	}
	// join: the branches only assign; their effect is the tuple of the variables they assign
	vars := c.assignedIn(nodesA...)
	tuple, ttyp := c.tupleOf(vars)
	st := c.fresh("st")
	if len(vars) == 1 {
		st = c.names[vars[0]]
	}
	// first as a pure term
	if pureT, ok := c.tryPure(func() trLines {
		return trIte(cond, c.stmts(a, func() trLines { return trOne(tuple) }), c.stmts(b, func() trLines { return trOne(tuple) }))
	}); ok {
		if len(vars) == 0 {
			return k() // no assignment, no effect
		}
		return trLet(st, ttyp, pureT, c.unpack(st, vars, k()))
	}
	c.needEffect(whole.Pos(), "conditional with effects")
	okT := func() trLines { return trOne("Outcome.ok " + tuple) }
	t := trIte(cond, c.stmts(a, okT), c.stmts(b, okT))
	body := c.unpack(st, vars, k())
	out := trLines{"Outcome.bind ("}
	out = append(out, t.indent(2)...)
	out[len(out)-1] += ") (fun " + st + " =>"
	out = append(out, body.indent(2)...)
	out[len(out)-1] += ")"
	return out
}

// tryPure runs f in pure mode (no hoisting, no loops on fuel, no panics); ok=false if the statements need the monad
func (c *trCtx) tryPure(f func() trLines) (res trLines, ok bool) {
	if !c.fn.effect {
		c.pureDepth++
		defer func() { c.pureDepth-- }()
		return f(), true
	}
	savedAux, savedTmp, savedLoopN := len(c.aux), c.ntmp, c.nloop
	savedExtra, savedExtraT, savedExt, savedOrder := len(c.extraParams), len(c.extraTypes), len(c.externals), c.norder
	c.pureDepth++
	defer func() {
		c.pureDepth--
		if r := recover(); r != nil {
			if _, isPF := r.(trPureFail); isPF {
				c.aux = c.aux[:savedAux]
				c.ntmp, c.nloop = savedTmp, savedLoopN
				c.extraParams, c.extraTypes, c.externals, c.norder = c.extraParams[:savedExtra], c.extraTypes[:savedExtraT], c.externals[:savedExt], savedOrder
				c.pre = nil
				res, ok = nil, false
				return
			}
			panic(r)
		}
	}()
	return f(), true
}

func (c *trCtx) switchStmt(x *ast.SwitchStmt, k trK) trLines {
	if x.Init != nil {
		return c.stmt(x.Init, func() trLines {
			y := *x
			y.Init = nil
			return c.switchStmt(&y, k)
		})
	}
	tag := ""
	var tagLet func(body trLines) trLines
	if x.Tag != nil {
		tagTy := c.typeOf(x.Tag)
		c.leanType(tagTy, x.Tag.Pos())
		tag = c.expr(x.Tag)
		if _, isIdent := trUnparen(x.Tag).(*ast.Ident); !isIdent {
			tn := c.fresh("tag")
			val := tag
			ty := c.leanType(tagTy, x.Tag.Pos())
			tagLet = func(body trLines) trLines { return trLet(tn, ty, trOne(val), body) }
			tag = tn
		}
	}
	pre := c.takePre()
	type cas struct {
		cond string
		body []ast.Stmt
		pre  []trPre
	}
	var cases []cas
	var deflt []ast.Stmt
	for _, cl := range x.Body.List {
		cc := cl.(*ast.CaseClause)
		for _, s := range cc.Body {
			if b, ok := s.(*ast.BranchStmt); ok && (b.Tok == token.FALLTHROUGH || b.Tok == token.BREAK) {
				trFail(b.Pos(), "%s in a switch is outside the subset", b.Tok)
			}
		}
		if cc.List == nil {
			deflt = cc.Body
			if deflt == nil {
				deflt = []ast.Stmt{}
			}
			continue
		}
		var conds []string
		for _, e := range cc.List {
			if x.Tag != nil {
				conds = append(conds, "decide ("+tag+" = "+c.expr(e)+")")
			} else {
				conds = append(conds, c.expr(e))
			}
		}
		var casePre []trPre
		if len(c.pre) > 0 {
			if !c.importCasePre(x, cc) {
				trFail(cc.Pos(), "a case expression that can panic is outside the subset")
			}
			casePre = c.takePre() // evaluated when the case is reached (trans_units_import.go)
		}
		cond := conds[0]
		if len(conds) > 1 {
			cond = "(" + strings.Join(conds, " || ") + ")"
		}
		cases = append(cases, cas{cond, cc.Body, casePre})
	}
	// the cases in source order, the default last: a chain of if/else
	var chain func(i int, k trK) trLines
	chain = func(i int, k trK) trLines {
		if i == len(cases) {
			return c.stmts(deflt, k)
		}
		// the remaining cases form the else branch: a synthetic statement
		rest := &trSynth{run: func(k2 trK) trLines { return chain(i+1, k2) }, nodes: nil}
		for j := i + 1; j < len(cases); j++ {
			for _, s := range cases[j].body {
				rest.nodes = append(rest.nodes, s)
			}
		}
		for _, s := range deflt {
			rest.nodes = append(rest.nodes, s)
		}
		return trWrapPre(cases[i].pre, c.branchSynth(cases[i].cond, cases[i].body, rest, x, k))
	}
	out := chain(0, k)
	if tagLet != nil {
		out = tagLet(out)
	}
	return trWrapPre(pre, out)
}

// trSynth: the else-part of a switch, translated by a function, analysed through the statements it stands for
type trSynth struct {
	run   func(k trK) trLines
	nodes []ast.Node
}

func (c *trCtx) branchSynth(cond string, a []ast.Stmt, b *trSynth, whole ast.Node, k trK) trLines {
	nodes := append([]ast.Node{}, b.nodes...)
	for _, s := range a {
		nodes = append(nodes, s)
	}
	if c.hasJump(nodes...) || c.createsAlias(nodes...) {
		return trIte(cond, c.stmts(a, k), b.run(k))
	}
	vars := c.assignedIn(nodes...)
	tuple, ttyp := c.tupleOf(vars)
	st := c.fresh("st")
	if len(vars) == 1 {
		st = c.names[vars[0]]
	}
	if pureT, ok := c.tryPure(func() trLines {
		return trIte(cond, c.stmts(a, func() trLines { return trOne(tuple) }), b.run(func() trLines { return trOne(tuple) }))
	}); ok {
		if len(vars) == 0 {
			return k()
		}
		return trLet(st, ttyp, pureT, c.unpack(st, vars, k()))
	}
	c.needEffect(whole.Pos(), "switch with effects")
	okT := func() trLines { return trOne("Outcome.ok " + tuple) }
	t := trIte(cond, c.stmts(a, okT), b.run(okT))
	body := c.unpack(st, vars, k())
	out := trLines{"Outcome.bind ("}
	out = append(out, t.indent(2)...)
	out[len(out)-1] += ") (fun " + st + " =>"
	out = append(out, body.indent(2)...)
	out[len(out)-1] += ")"
	return out
}

var _ = fmt.Sprintf
