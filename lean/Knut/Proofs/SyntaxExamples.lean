import Knut.Proofs.SyntaxFile
/-!
# Evaluating the parser model on concrete ASCII texts (for the non-vacuity examples)

The loops are defined by well-founded recursion, which the kernel does not unfold; concrete runs are
therefore assembled from `rfl`-checked calls of the non-recursive pieces and the `…_eq` unfolding equations.
-/
namespace Knut.Syntax
open Knut.Utf8

/-- tokens of an ASCII string -/
def toksOf (s : String) : List Tok := s.toList.map (fun c => tk c.toNat)
/-- bytes of an ASCII string -/
def bytesOf (s : String) : List UInt8 := s.toList.map (fun c => UInt8.ofNat c.toNat)

theorem decodeAll_ascii (bs : List UInt8) (h : ∀ b ∈ bs, b.toNat < 128) :
    decodeAll bs = bs.map (fun b => ⟨b.toNat, [b]⟩) := by
  induction bs with
  | nil => simp
  | cons b rest ih =>
    have hb := h b List.mem_cons_self
    rw [decodeAll_cons]
    have : decodeRune (b :: rest) = ⟨b.toNat, [b]⟩ := by simp [decodeRune, hb]
    rw [this]
    simp [ih (fun x hx => h x (List.mem_cons_of_mem _ hx))]

/-- the text of the worked example: a comment line and an `open` directive -/
def exText : String := "#c\n2020-01-01 open A:B\n"

theorem ex_decode : decodeAll (bytesOf exText) = toksOf exText := by
  rw [decodeAll_ascii _ (by decide)]
  decide

theorem ex_account : parseAccount ⟨19, toksOf "A:B\n"⟩ = .ok ⟨⟨19, 22⟩, false⟩ ⟨22, toksOf "\n"⟩ := by
  have h1 : readWhile1 "a letter or a digit" isAlphanumeric ⟨19, toksOf "A:B\n"⟩ = .ok ⟨19, 20⟩ ⟨20, toksOf ":B\n"⟩ := by rfl
  have h2 : readCharacter 58 ⟨20, toksOf ":B\n"⟩ = .ok ⟨20, 21⟩ ⟨21, toksOf "B\n"⟩ := by rfl
  have h3 : readWhile1 "a letter or a digit" isAlphanumeric ⟨21, toksOf "B\n"⟩ = .ok ⟨21, 22⟩ ⟨22, toksOf "\n"⟩ := by rfl
  have c0 : (cur ⟨19, toksOf "A:B\n"⟩ == 36) = false := by rfl
  have c1 : (cur ⟨20, toksOf ":B\n"⟩ != 58) = false := by rfl
  have c2 : (cur ⟨22, toksOf "\n"⟩ != 58) = true := by rfl
  rw [parseAccount]
  simp only [c0, h1, Res.bind]
  rw [accountLoop_eq]
  simp only [c1, h2, h3, Res.bind]
  rw [accountLoop_eq]
  simp only [c2]
  rfl

theorem ex_open : parseOpen 3 ⟨⟨3, 13⟩⟩ ⟨19, toksOf "A:B\n"⟩ =
    .ok ⟨⟨3, 22⟩, ⟨⟨3, 13⟩⟩, ⟨⟨19, 22⟩, false⟩⟩ ⟨22, toksOf "\n"⟩ := by
  simp [parseOpen, ex_account, Res.bind, rng]

theorem ex_keyword : parseKeyword 3 ⟨⟨3, 13⟩⟩ "open" ⟨19, toksOf "A:B\n"⟩ =
    .ok (.open ⟨⟨3, 22⟩, ⟨⟨3, 13⟩⟩, ⟨⟨19, 22⟩, false⟩⟩) ⟨22, toksOf "\n"⟩ := by
  simp [parseKeyword, ex_open, Res.bind]

theorem ex_body : parseDirectiveBody 3 Addons.zero ⟨3, toksOf "2020-01-01 open A:B\n"⟩ =
    .ok (.open ⟨⟨3, 22⟩, ⟨⟨3, 13⟩⟩, ⟨⟨19, 22⟩, false⟩⟩) ⟨22, toksOf "\n"⟩ := by
  have c1 : (cur ⟨3, toksOf "2020-01-01 open A:B\n"⟩ == 105) = false := by rfl
  have h1 : parseDate ⟨3, toksOf "2020-01-01 open A:B\n"⟩ = .ok ⟨⟨3, 13⟩⟩ ⟨13, toksOf " open A:B\n"⟩ := by rfl
  have h2 : readWhitespace1 ⟨13, toksOf " open A:B\n"⟩ = .ok ⟨13, 14⟩ ⟨14, toksOf "open A:B\n"⟩ := by rfl
  have c2 : (cur ⟨14, toksOf "open A:B\n"⟩ == 34) = false := by rfl
  have h3 : readAlternative ["open", "close", "balance", "price"] ⟨14, toksOf "open A:B\n"⟩ =
      .ok (⟨14, 18⟩, "open") ⟨18, toksOf " A:B\n"⟩ := by rfl
  have h4 : readWhitespace1 ⟨18, toksOf " A:B\n"⟩ = .ok ⟨18, 19⟩ ⟨19, toksOf "A:B\n"⟩ := by rfl
  unfold parseDirectiveBody
  simp only [c1, Bool.false_eq_true, if_false, h1, Res.bind, h2, c2, h3, h4, ex_keyword]

theorem ex_directive : parseDirective ⟨3, toksOf "2020-01-01 open A:B\n"⟩ =
    .ok ⟨⟨3, 22⟩, .open ⟨⟨3, 22⟩, ⟨⟨3, 13⟩⟩, ⟨⟨19, 22⟩, false⟩⟩⟩ ⟨22, toksOf "\n"⟩ := by
  have c0 : (cur ⟨3, toksOf "2020-01-01 open A:B\n"⟩ == 64) = false := by rfl
  unfold parseDirective
  simp only [c0, Bool.false_eq_true, if_false, Res.bind, ex_body, rng]

theorem ex_parse : parseText "j.knut" (bytesOf exText) =
    .ok ⟨⟨0, 23⟩, [⟨⟨3, 22⟩, .open ⟨⟨3, 22⟩, ⟨⟨3, 13⟩⟩, ⟨⟨19, 22⟩, false⟩⟩⟩]⟩ := by
  have hs : start (toksOf exText) = .ok () ⟨0, toksOf exText⟩ := by rfl
  have i1 : fileItem ⟨0, toksOf exText⟩ = .ok none ⟨2, toksOf "\n2020-01-01 open A:B\n"⟩ := by rfl
  have r1 : readRestOfWhitespaceLine ⟨2, toksOf "\n2020-01-01 open A:B\n"⟩ = .ok ⟨2, 3⟩ ⟨3, toksOf "2020-01-01 open A:B\n"⟩ := by rfl
  have i2 : fileItem ⟨3, toksOf "2020-01-01 open A:B\n"⟩ =
      .ok (some ⟨⟨3, 22⟩, .open ⟨⟨3, 22⟩, ⟨⟨3, 13⟩⟩, ⟨⟨19, 22⟩, false⟩⟩⟩) ⟨22, toksOf "\n"⟩ := by
    have c : (cur ⟨3, toksOf "2020-01-01 open A:B\n"⟩ == 42 || cur ⟨3, toksOf "2020-01-01 open A:B\n"⟩ == 35 ||
        cur ⟨3, toksOf "2020-01-01 open A:B\n"⟩ == 47) = false := by rfl
    have d : (isAlphanumeric (cur ⟨3, toksOf "2020-01-01 open A:B\n"⟩) || cur ⟨3, toksOf "2020-01-01 open A:B\n"⟩ == 64) = true := by
      decide +kernel
    unfold fileItem
    simp only [c, d, Bool.false_eq_true, if_false, if_true, ex_directive, Res.bind]
  have r2 : readRestOfWhitespaceLine ⟨22, toksOf "\n"⟩ = .ok ⟨22, 23⟩ ⟨23, []⟩ := by rfl
  have e0 : atEOF ⟨0, toksOf exText⟩ = false := by rfl
  have e1 : atEOF ⟨2, toksOf "\n2020-01-01 open A:B\n"⟩ = false := by rfl
  have e2 : atEOF ⟨3, toksOf "2020-01-01 open A:B\n"⟩ = false := by rfl
  have e3 : atEOF ⟨22, toksOf "\n"⟩ = false := by rfl
  have e4 : atEOF ⟨23, []⟩ = true := by rfl
  simp only [parseText, ex_decode, hs, parseFile]
  rw [fileLoop_eq]
  simp only [e0, Bool.false_eq_true, if_false, i1, Res.bind, e1, r1, pushOpt]
  rw [fileLoop_eq]
  simp only [e2, Bool.false_eq_true, if_false, i2, Res.bind, e3, r2, pushOpt]
  rw [fileLoop_eq]
  simp only [e4, if_true]
  rfl

/-- an input with an invalid byte -/
theorem ex_invalid : parseText "j.knut" [0x32, 0xff] =
    .error [Frame.at "invalid unicode character" ⟨1, 1⟩, Frame.at "reading next character" ⟨0, 1⟩,
      Frame.at "while parsing the date" ⟨0, 1⟩, Frame.at "while parsing directive" ⟨0, 1⟩,
      Frame.at "while parsing file `j.knut`" ⟨0, 1⟩] := by
  have hd : decodeAll [0x32, 0xff] = [⟨0x32, [0x32]⟩, ⟨runeError, [0xff]⟩] := by
    simp [decodeAll_cons, decodeRune]
  have hs : start [⟨0x32, [0x32]⟩, ⟨runeError, [0xff]⟩] = .ok () ⟨0, [⟨0x32, [0x32]⟩, ⟨runeError, [0xff]⟩]⟩ := by rfl
  have e0 : atEOF ⟨0, [⟨0x32, [0x32]⟩, ⟨runeError, [0xff]⟩]⟩ = false := by rfl
  have i1 : fileItem ⟨0, [⟨0x32, [0x32]⟩, ⟨runeError, [0xff]⟩]⟩ =
      .err [Frame.at "invalid unicode character" ⟨1, 1⟩, Frame.at "reading next character" ⟨0, 1⟩,
        Frame.at "while parsing the date" ⟨0, 1⟩, Frame.at "while parsing directive" ⟨0, 1⟩] ⟨1, [⟨runeError, [0xff]⟩]⟩ := by
    have c : (cur ⟨0, [⟨0x32, [0x32]⟩, ⟨runeError, [0xff]⟩]⟩ == 42 || cur ⟨0, [⟨0x32, [0x32]⟩, ⟨runeError, [0xff]⟩]⟩ == 35 ||
        cur ⟨0, [⟨0x32, [0x32]⟩, ⟨runeError, [0xff]⟩]⟩ == 47) = false := by rfl
    have d : (isAlphanumeric (cur ⟨0, [⟨0x32, [0x32]⟩, ⟨runeError, [0xff]⟩]⟩) ||
        cur ⟨0, [⟨0x32, [0x32]⟩, ⟨runeError, [0xff]⟩]⟩ == 64) = true := by decide +kernel
    have p : parseDirective ⟨0, [⟨0x32, [0x32]⟩, ⟨runeError, [0xff]⟩]⟩ =
      .err [Frame.at "invalid unicode character" ⟨1, 1⟩, Frame.at "reading next character" ⟨0, 1⟩,
        Frame.at "while parsing the date" ⟨0, 1⟩, Frame.at "while parsing directive" ⟨0, 1⟩] ⟨1, [⟨runeError, [0xff]⟩]⟩ := by rfl
    unfold fileItem
    simp only [c, d, Bool.false_eq_true, if_false, if_true, p, Res.bind]
  simp only [parseText, hd, hs, parseFile]
  rw [fileLoop_eq]
  simp only [e0, Bool.false_eq_true, if_false, i1, Res.bind]
  rfl

end Knut.Syntax
