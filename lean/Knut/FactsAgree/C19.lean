import Knut.Generated.Facts
import Knut.Model.Registry
/-! The statement shapes of the registries' get-or-create functions, extracted from
`lib/model/commodity/registry.go` and `lib/model/account/registry.go` on every run, show the structure the model
`Knut.Registry` (with `recheck = true`) assumes: nothing is written outside the write lock, and under the write
lock the name is looked up again (returning the registered object) before anything is written. -/
namespace Knut.FactsAgree.C19

/-- section 2 starts with `Lock(); defer Unlock()`, looks the name up and returns it before the first write;
nothing before the lock writes -/
def rechecksUnderLock (shape : List String) : Bool :=
  match shape.dropWhile (· != "Lock") with
  | "Lock" :: "deferUnlock" :: rest =>
    (rest.takeWhile (· != "write")).contains "lookup-return" && !(shape.takeWhile (· != "Lock")).contains "write"
  | _ => false

/-- section 1 is `RLock(); lookup; RUnlock(); if ok { return }` and writes nothing -/
def fastPath (shape : List String) : Bool :=
  shape.take 4 == ["RLock", "lookup", "RUnlock", "return-if-found"]

theorem commodity_get_rechecks : rechecksUnderLock Generated.commodityGetShape = true := by decide
theorem commodity_get_fast_path : fastPath Generated.commodityGetShape = true := by decide
theorem account_get_fast_path : fastPath Generated.accountGetShape = true := by decide
theorem account_get_slow_path : Generated.accountGetShape.drop 4 = ["return as.getOrCreatePath"] := by decide
theorem account_getOrCreate_rechecks : rechecksUnderLock Generated.accountGetOrCreateShape = true := by decide

/-- the variant of the seeded change C19-b (allocate first, lock late, no second lookup) is rejected -/
example : rechecksUnderLock ["RLock", "lookup", "RUnlock", "return-if-found", "check", "other", "Lock", "deferUnlock", "write", "return"] = false := by decide

end Knut.FactsAgree.C19
