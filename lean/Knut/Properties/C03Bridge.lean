import Knut.Proofs.MTMBridge
import Knut.Properties.C03Bound
/-!
# C03 — the balance pipeline, projected on one position, is the single-position valuation trace

`Properties/C03Bound.lean` proves `|W − Q·p| ≤ steps/10⁸` for the trace `MTM.run` of ONE position `(a, c)`, `c ≠ V`, and
ties the trace's terms to `Balance.adjustStep` / `Balance.valuePosting` one by one.  Here the association-list
bookkeeping left open there is done: the projection of the FULL valuation model on `(a, c)` evolves by `MTM.stepDay`.

Vocabulary (Proofs/MTMBridge.lean):

* `posOn a c ts` – the postings of the transactions `ts` with account `a` and commodity `c` (filter on BOTH: the
  adjustments of other positions land on other accounts or on other commodities of `a`);
  `qtysOn a c ts` their quantities, `valOn a c ts` the sum of their values.  A booking of `a` against itself yields two
  postings on `(a, c)` (`q` and `−q`); both are in `posOn`, both are valued (two truncations), nothing is excluded.
* `Unvalued a c ts` – the zero-quantity postings of `ts` on `(a, c)` carry value 0.  (`Valuate` overwrites the value
  of every other posting, so this is all that "the journal's postings arrive unvalued" is needed for; postings built by
  `postingBuild … q` have value 0 altogether: `C03_ofBookings_unvalued`.)
* `PriceIs np c p` – if `c` has a price in the normalised prices `np`, it is `p`.
* `valuationRun cfg st days` – `Balance.valuationStage cfg` (= `pricesDay` then `valuateDay`, exactly what
  `Balance.dayTxs` runs between check and filter) folded over the days, collecting the valued transactions;
  `traceOf cfg a c p st days` – the extracted trace: per day `(carried price, price of c in the day's normalised prices
  (or the carried one while c has none), qtysOn a c (the day's transactions))`.

Proved for all states/days:

* `C03_valuateDay_position` – one `Balance.valuateDay`: (1) the quantity of `(a, c)` grows by the day's bookings on it,
  (2) the values landing on `(a, c)` are `MTM.adjustment Q pp cp + MTM.booked cp qs`, (3) `vPrev' = norm`;
  `C03_valuateDay_is_stepDay` the same as one `MTM.stepDay`; `C03_valuateDay_position_general` with `PriceIs`
  (covers the days on which `c` has no price);
* `C03_valuationRun_is_trace_run` – the fold over the days is `MTM.run` on the extracted trace, which is `Consistent`;
* `C03_pipeline_mtm_bound` – hence, for a position that is closed at the start (e.g. the empty state),
  `|valOn a c txs − vQty'(a, c)·p_last| ≤ steps/10⁸`, `p_last` being the price of `c` in the last day's prices;
  `C03_pipeline_mtm_bound_window` – from any state, relative to the start.

Hypotheses that had to be stated: `a.isAL` (Valuate tracks asset/liability positions only), `c ≠ V`, distinct keys of
`vQty` (`AMap.NodupKeys`; holds for the empty state and is preserved: part of the conclusions), `Unvalued`.

The whole pipeline (`Balance.run`: check, ComputePrices, Valuate, Filter, CloseAccounts, Query):

* `pipelineRun cfg st days` – `Balance.dayTxs` folded over the days collecting the transactions handed to the Query
  stage (`C03_run_is_pipelineRun`: `Balance.run` is this fold, its report inserts are `queryTx` of the collected
  transactions); `traceOfRun` the trace extracted along it; `entryVal a c es` the total of the report inserts on `(a, c)`;
* `C03_run_is_trace_run` – for a plain valued report (`Plain cfg`: no mapping/remap/filters, the check's own proviso)
  whose days all lie inside the window (`cfg.span`), `entryVal a c (report inserts) = W` and `vQty(a, c) = Q` of
  `MTM.run` on the extracted trace;
* `C03_run_mtm_bound` – hence `|entryVal a c inserts − quantity × last price| ≤ steps/10⁸` for `Balance.run` itself.

Continued in `Properties/C03Window.lean` (days outside the window: the windowed formula for every `--from`/`--to`),
`Properties/C03Report.lean` (the cells of the rendered report against `Spec.mtm`, explicit step bound) and
`Properties/C03Command.lean` (missing price, gain account, flows at booking-day prices).
-/
namespace Knut.C03
open Knut Knut.Dec Knut.MTM

/-- **one day, general form**: `pp`/`cp` are the prices of `c` in yesterday's/today's normalised prices *if there are
such prices* -/
theorem C03_valuateDay_position_general (v : Commodity) (st st' : BalState) (d : Day) (txs : List Transaction)
    (a : Account) (c : Commodity) (pp cp : Rat)
    (hc : c ≠ v) (hal : a.isAL = true) (hn : AMap.NodupKeys st.vQty) (hu : Unvalued a c d.transactions)
    (hpp : PriceIs st.vPrev c pp) (hcp : PriceIs st.norm c cp)
    (h : Balance.valuateDay v st d = .ok (st', txs)) :
    st'.vQty.get (a, c) 0 = st.vQty.get (a, c) 0 + (qtysOn a c d.transactions).sum ∧
    valOn a c txs = adjustment (st.vQty.get (a, c) 0) pp cp + booked cp (qtysOn a c d.transactions) ∧
    st'.vPrev = st.norm ∧ AMap.NodupKeys st'.vQty := by
  obtain ⟨h1, h2, h3, _, _, h6⟩ := valuateDay_position v st st' d txs a c pp cp hc hal hn hu hpp hcp h
  exact ⟨h1, h2, h3, h6⟩

/-- **one day** of `Balance.valuateDay`, seen from the asset/liability position `(a, c)`, `c ≠ V`: (1) quantity,
(2) value, (3) today's prices become yesterday's; the invariant `NodupKeys` is preserved -/
theorem C03_valuateDay_position (v : Commodity) (st st' : BalState) (d : Day) (txs : List Transaction)
    (a : Account) (c : Commodity) (pp cp : Rat)
    (hc : c ≠ v) (hal : a.isAL = true) (hn : AMap.NodupKeys st.vQty) (hu : Unvalued a c d.transactions)
    (hpp : st.vQty.get (a, c) 0 = 0 ∨ Balance.lookupPrice st.vPrev c = .ok pp)
    (hcp : Balance.lookupPrice st.norm c = .ok cp)
    (h : Balance.valuateDay v st d = .ok (st', txs)) :
    st'.vQty.get (a, c) 0 = st.vQty.get (a, c) 0 + (qtysOn a c d.transactions).sum ∧
    valOn a c txs = adjustment (st.vQty.get (a, c) 0) pp cp + booked cp (qtysOn a c d.transactions) ∧
    st'.vPrev = st.norm ∧ AMap.NodupKeys st'.vQty := by
  rcases hpp with hq | hpp
  · have := C03_valuateDay_position_general v st st' d txs a c (priceOr st.vPrev c pp) cp hc hal hn hu
      (priceIs_priceOr _ _ _) (priceIs_of_ok hcp) h
    rw [hq, adjustment_zero] at this
    rw [hq, adjustment_zero]
    exact this
  · exact C03_valuateDay_position_general v st st' d txs a c pp cp hc hal hn hu (priceIs_of_ok hpp) (priceIs_of_ok hcp) h

/-- the same as one `MTM.stepDay` of a trace state whose `Q` is the position's quantity -/
theorem C03_valuateDay_is_stepDay (v : Commodity) (st st' : BalState) (d : Day) (txs : List Transaction)
    (a : Account) (c : Commodity) (pp cp : Rat) (s : St)
    (hc : c ≠ v) (hal : a.isAL = true) (hn : AMap.NodupKeys st.vQty) (hu : Unvalued a c d.transactions)
    (hpp : st.vQty.get (a, c) 0 = 0 ∨ Balance.lookupPrice st.vPrev c = .ok pp)
    (hcp : Balance.lookupPrice st.norm c = .ok cp)
    (hQ : s.Q = st.vQty.get (a, c) 0)
    (h : Balance.valuateDay v st d = .ok (st', txs)) :
    (stepDay s ⟨pp, cp, qtysOn a c d.transactions⟩).Q = st'.vQty.get (a, c) 0 ∧
    (stepDay s ⟨pp, cp, qtysOn a c d.transactions⟩).W = s.W + valOn a c txs ∧
    st'.vPrev = st.norm := by
  obtain ⟨h1, h2, h3, _⟩ := C03_valuateDay_position v st st' d txs a c pp cp hc hal hn hu hpp hcp h
  unfold stepDay
  simp only
  rw [hQ, h1, h2]
  exact ⟨rfl, by grind, h3⟩

/-- **the lift over the days**: the valuation stage of the pipeline (`pricesDay` then `valuateDay`, day by day, today's
normalised prices becoming tomorrow's previous prices) projected on `(a, c)` is `MTM.run` on the extracted trace:
`W` grows by the values landing on `(a, c)`, `Q` is the position's quantity, the trace is consistent and its last price
is the price of `c` in the final `vPrev` (the last day's normalised prices) if `c` has one there -/
theorem C03_valuationRun_is_trace_run (cfg : BalCfg) (v : Commodity) (a : Account) (c : Commodity)
    (days : List Day) (st st' : BalState) (txs : List Transaction) (p0 : Rat) (s : St)
    (hv : cfg.valuation = some v) (hc : c ≠ v) (hal : a.isAL = true)
    (hn : AMap.NodupKeys st.vQty) (hu : ∀ d ∈ days, Unvalued a c d.transactions)
    (hp0 : PriceIs st.vPrev c p0) (hQ : s.Q = st.vQty.get (a, c) 0)
    (h : valuationRun cfg st days = .ok (st', txs)) :
    (run s (traceOf cfg a c p0 st days)).W = s.W + valOn a c txs ∧
    (run s (traceOf cfg a c p0 st days)).Q = st'.vQty.get (a, c) 0 ∧
    Consistent p0 (traceOf cfg a c p0 st days) ∧
    PriceIs st'.vPrev c (lastPrice p0 (traceOf cfg a c p0 st days)) ∧
    AMap.NodupKeys st'.vQty := by
  obtain ⟨h1, h2, h3, h4⟩ := valuationRun_trace cfg v a c hv hc hal days st st' txs p0 s hn hu hp0 hQ h
  exact ⟨h1, h2, consistent_traceOf cfg a c days p0 st, h3, h4⟩

/-- **mark-to-market bound on the pipeline model**: for a position `(a, c)` that is closed in the start state (in
particular from the empty state `{}`), after any list of days the values the valuation stage has put on `(a, c)` differ
from `quantity × last price` by at most one unit of the 8th decimal per truncation (`steps` of the extracted trace:
one per value adjustment, one per non-zero booking) -/
theorem C03_pipeline_mtm_bound (cfg : BalCfg) (v : Commodity) (a : Account) (c : Commodity)
    (days : List Day) (st st' : BalState) (txs : List Transaction) (p0 : Rat)
    (hv : cfg.valuation = some v) (hc : c ≠ v) (hal : a.isAL = true)
    (hn : AMap.NodupKeys st.vQty) (hu : ∀ d ∈ days, Unvalued a c d.transactions)
    (hp0 : PriceIs st.vPrev c p0) (hQ : st.vQty.get (a, c) 0 = 0)
    (h : valuationRun cfg st days = .ok (st', txs)) :
    (valOn a c txs - st'.vQty.get (a, c) 0 * lastPrice p0 (traceOf cfg a c p0 st days)).abs
      ≤ ((run {} (traceOf cfg a c p0 st days)).steps : Rat) / (10 : Rat) ^ 8 ∧
    PriceIs st'.vPrev c (lastPrice p0 (traceOf cfg a c p0 st days)) := by
  obtain ⟨h1, h2, h3, h4, _⟩ := C03_valuationRun_is_trace_run cfg v a c days st st' txs p0 {} hv hc hal hn hu hp0
    hQ.symm h
  have hb := C03_mtm_bound p0 (traceOf cfg a c p0 st days) h3
  rw [h1, h2] at hb
  have e1 : ({} : St).W = 0 := rfl
  rw [e1, Rat.zero_add] at hb
  exact ⟨hb, h4⟩

/-- the same with the last price named: if `c` is priced `pl` in the last day's normalised prices -/
theorem C03_pipeline_mtm_bound_priced (cfg : BalCfg) (v : Commodity) (a : Account) (c : Commodity)
    (days : List Day) (st st' : BalState) (txs : List Transaction) (pl : Rat)
    (hv : cfg.valuation = some v) (hc : c ≠ v) (hal : a.isAL = true)
    (hn : AMap.NodupKeys st.vQty) (hu : ∀ d ∈ days, Unvalued a c d.transactions)
    (hQ : st.vQty.get (a, c) 0 = 0)
    (h : valuationRun cfg st days = .ok (st', txs))
    (hl : Balance.lookupPrice st'.vPrev c = .ok pl) :
    (valOn a c txs - st'.vQty.get (a, c) 0 * pl).abs
      ≤ ((run {} (traceOf cfg a c (priceOr st.vPrev c 0) st days)).steps : Rat) / (10 : Rat) ^ 8 := by
  obtain ⟨hb, hp⟩ := C03_pipeline_mtm_bound cfg v a c days st st' txs (priceOr st.vPrev c 0) hv hc hal hn hu
    (priceIs_priceOr _ _ _) hQ h
  rw [← hp pl hl] at hb
  exact hb

/-- **windowed form**: from ANY state (position open, previous price `p0`), the values put on `(a, c)` during the days
differ from the change of `quantity × price` by at most one unit of the 8th decimal per truncation -/
theorem C03_pipeline_mtm_bound_window (cfg : BalCfg) (v : Commodity) (a : Account) (c : Commodity)
    (days : List Day) (st st' : BalState) (txs : List Transaction) (p0 : Rat)
    (hv : cfg.valuation = some v) (hc : c ≠ v) (hal : a.isAL = true)
    (hn : AMap.NodupKeys st.vQty) (hu : ∀ d ∈ days, Unvalued a c d.transactions)
    (hp0 : PriceIs st.vPrev c p0)
    (h : valuationRun cfg st days = .ok (st', txs)) :
    (valOn a c txs - (st'.vQty.get (a, c) 0 * lastPrice p0 (traceOf cfg a c p0 st days) - st.vQty.get (a, c) 0 * p0)).abs
      ≤ ((run ⟨0, st.vQty.get (a, c) 0, 0⟩ (traceOf cfg a c p0 st days)).steps : Rat) / (10 : Rat) ^ 8 := by
  obtain ⟨h1, h2, h3, _, _⟩ := C03_valuationRun_is_trace_run cfg v a c days st st' txs p0 ⟨0, st.vQty.get (a, c) 0, 0⟩
    hv hc hal hn hu hp0 rfl h
  have hb := C03_mtm_bound_window p0 (traceOf cfg a c p0 st days) ⟨0, st.vQty.get (a, c) 0, 0⟩ h3
  rw [h1, h2] at hb
  simp only [Rat.zero_add, Nat.sub_zero] at hb
  have e : valOn a c txs - 0 = valOn a c txs := by grind
  rw [e] at hb
  exact hb

/-- the hypotheses on the start state hold for the empty state -/
theorem C03_empty_state_ok (a : Account) (c : Commodity) (p0 : Rat) :
    AMap.NodupKeys ({} : BalState).vQty ∧ PriceIs ({} : BalState).vPrev c p0 ∧ ({} : BalState).vQty.get (a, c) 0 = 0 := by
  refine ⟨by unfold AMap.NodupKeys; exact List.nodup_nil, ?_, rfl⟩
  intro x hx
  cases hx

/-- postings the journal builds from bookings carry value 0, hence are `Unvalued` on every position -/
theorem C03_ofBookings_unvalued (a : Account) (c : Commodity) (date : Int) (desc : String)
    (tg : Option (List Commodity)) (bks : List Booking) :
    Unvalued a c [Transaction.ofBookings date desc tg bks] := by
  intro t ht p hp _ _ _
  simp only [List.mem_cons, List.not_mem_nil, or_false] at ht
  subst ht
  unfold Transaction.ofBookings at hp
  simp only [List.mem_flatMap] at hp
  obtain ⟨b, _, hp⟩ := hp
  unfold postingBuild at hp
  simp only [List.mem_cons, List.not_mem_nil, or_false] at hp
  rcases hp with rfl | rfl <;> simp only <;> split <;> simp

/-! ### the whole pipeline -/

/-- `Balance.run` is `pipelineRun` from the empty state with the transactions forgotten, and its report inserts are the
Query stage applied to the transactions collected -/
theorem C03_run_is_pipelineRun (cfg : BalCfg) (days : List Day) (stF : BalState)
    (h : Balance.run cfg days = .ok stF) :
    ∃ txs, pipelineRun cfg {} days = .ok (stF, txs) ∧ stF.entries = txs.flatMap (Balance.queryTx cfg) :=
  run_pipelineRun cfg days stF h

/-- **`Balance.run`, projected on `(a, c)`, is `MTM.run` on the extracted trace**: plain valued report, all days inside
the window -/
theorem C03_run_is_trace_run (cfg : BalCfg) (v : Commodity) (a : Account) (c : Commodity)
    (days : List Day) (stF : BalState) (p0 : Rat)
    (hv : cfg.valuation = some v) (hc : c ≠ v) (hal : a.isAL = true) (hpl : Plain cfg)
    (hsp : ∀ d ∈ days, cfg.span.contains d.date = true)
    (hu : ∀ d ∈ days, Unvalued a c d.transactions)
    (h : Balance.run cfg days = .ok stF) :
    (run {} (traceOfRun cfg a c p0 {} days)).W = entryVal a c stF.entries ∧
    (run {} (traceOfRun cfg a c p0 {} days)).Q = stF.vQty.get (a, c) 0 ∧
    Consistent p0 (traceOfRun cfg a c p0 {} days) ∧
    PriceIs stF.vPrev c (lastPrice p0 (traceOfRun cfg a c p0 {} days)) := by
  obtain ⟨txs, hp, he⟩ := run_pipelineRun cfg days stF h
  obtain ⟨e1, e2, e3⟩ := C03_empty_state_ok a c p0
  have hinv : CloseInv {} := by intro k hk; cases hk
  obtain ⟨h1, h2, h3, _, _⟩ := pipelineRun_trace cfg v a c hv hc hal days {} stF txs p0 {} e1 hinv hsp hu e2 e3.symm hp
  have hvs : cfg.valuation.isSome = true := by rw [hv]; rfl
  refine ⟨?_, h2, consistent_traceOfRun cfg a c days p0 {}, h3⟩
  rw [h1, he, entryVal_flatMap cfg hpl hvs]
  exact Rat.zero_add _

/-- **mark-to-market bound for `Balance.run`**: in a plain valued report whose days all lie inside the window, the
report inserts on an asset/liability position `(a, c)`, `c ≠ V`, total `quantity × last price` up to one unit of the 8th
decimal per truncation -/
theorem C03_run_mtm_bound (cfg : BalCfg) (v : Commodity) (a : Account) (c : Commodity)
    (days : List Day) (stF : BalState) (p0 : Rat)
    (hv : cfg.valuation = some v) (hc : c ≠ v) (hal : a.isAL = true) (hpl : Plain cfg)
    (hsp : ∀ d ∈ days, cfg.span.contains d.date = true)
    (hu : ∀ d ∈ days, Unvalued a c d.transactions)
    (h : Balance.run cfg days = .ok stF) :
    (entryVal a c stF.entries - stF.vQty.get (a, c) 0 * lastPrice p0 (traceOfRun cfg a c p0 {} days)).abs
      ≤ ((run {} (traceOfRun cfg a c p0 {} days)).steps : Rat) / (10 : Rat) ^ 8 ∧
    PriceIs stF.vPrev c (lastPrice p0 (traceOfRun cfg a c p0 {} days)) := by
  obtain ⟨h1, h2, h3, h4⟩ := C03_run_is_trace_run cfg v a c days stF p0 hv hc hal hpl hsp hu h
  have hb := C03_mtm_bound p0 (traceOfRun cfg a c p0 {} days) h3
  rw [h1, h2] at hb
  exact ⟨hb, h4⟩

/-- … with the last price named -/
theorem C03_run_mtm_bound_priced (cfg : BalCfg) (v : Commodity) (a : Account) (c : Commodity)
    (days : List Day) (stF : BalState) (pl : Rat)
    (hv : cfg.valuation = some v) (hc : c ≠ v) (hal : a.isAL = true) (hpl : Plain cfg)
    (hsp : ∀ d ∈ days, cfg.span.contains d.date = true)
    (hu : ∀ d ∈ days, Unvalued a c d.transactions)
    (h : Balance.run cfg days = .ok stF)
    (hl : Balance.lookupPrice stF.vPrev c = .ok pl) :
    (entryVal a c stF.entries - stF.vQty.get (a, c) 0 * pl).abs
      ≤ ((run {} (traceOfRun cfg a c 0 {} days)).steps : Rat) / (10 : Rat) ^ 8 := by
  obtain ⟨hb, hp⟩ := C03_run_mtm_bound cfg v a c days stF 0 hv hc hal hpl hsp hu h
  rw [← hp pl hl] at hb
  exact hb

/-! ### Non-vacuity

A four-day journal valued in CHF, position `(Assets:A, USD)`:
day 1 the accounts are opened and only cash is booked (USD has no price yet: the trace carries the start price);
day 2 USD is priced 0.5, 3.5 USD are bought and 1 USD is booked from `Assets:A` to itself (two postings on the position);
day 3 USD is priced 1.333333333 (stored as 1.33333333): the adjustment `Truncate₈(0.83333333 × 3.5)` loses 5·10⁻⁹;
day 4 (no new price) 1 USD is sold. -/

def exA : Account := ⟨["Assets", "A"]⟩
def exE : Account := ⟨["Equity", "E"]⟩
def exDays : List Day :=
  [ { date := 1, openings := [⟨1, exA⟩, ⟨1, exE⟩],
      transactions := [Transaction.ofBookings 1 "cash" none [⟨exE, exA, 100, "CHF"⟩]] },
    { date := 2, prices := [⟨2, "USD", 1/2, "CHF"⟩],
      transactions := [Transaction.ofBookings 2 "buy" none [⟨exE, exA, 7/2, "USD"⟩, ⟨exA, exA, 1, "USD"⟩]] },
    { date := 3, prices := [⟨3, "USD", 1333333333/1000000000, "CHF"⟩] },
    { date := 4, transactions := [Transaction.ofBookings 4 "sell" none [⟨exA, exE, 1, "USD"⟩]] } ]
def exCfg : BalCfg := { valuation := some "CHF", span := ⟨1, 4⟩, periods := [⟨1, 4⟩] }

/-- the pipeline accepts the journal; quantity 2.5, value 3.33333332 ≠ 2.5 × 1.33333333 = 3.333333325 -/
example : (match valuationRun exCfg {} exDays with
    | .ok (st, txs) => decide (st.vQty.get (exA, "USD") 0 = 5/2 ∧ valOn exA "USD" txs = 333333332/100000000 ∧
        (match Balance.lookupPrice st.vPrev "USD" with | .ok p => decide (p = 133333333/100000000) | .error _ => false) = true)
    | .error _ => false) = true := by decide +kernel

/-- the extracted trace: five steps (four non-zero bookings, one adjustment) -/
example : (traceOf exCfg exA "USD" 0 {} exDays).map (fun d => (d.pPrev, d.pCur, d.qs)) =
    [(0, 0, []), (0, 1/2, [7/2, -1, 1]), (1/2, 133333333/100000000, []), (133333333/100000000, 133333333/100000000, [-1])] := by
  decide +kernel

example : run {} (traceOf exCfg exA "USD" 0 {} exDays) = { W := 333333332/100000000, Q := 5/2, steps := 5 } := by
  decide +kernel

example : ∀ d ∈ exDays, Unvalued exA "USD" d.transactions := by
  intro d hd
  simp only [exDays, List.mem_cons, List.not_mem_nil, or_false] at hd
  rcases hd with rfl | rfl | rfl | rfl
  · exact C03_ofBookings_unvalued _ _ _ _ _ _
  · exact C03_ofBookings_unvalued _ _ _ _ _ _
  · intro t ht; cases ht
  · exact C03_ofBookings_unvalued _ _ _ _ _ _

/-- the same journal through the WHOLE pipeline (`Balance.run`: the check accepts it, all days are inside the window):
the report inserts on the position total 3.33333332 -/
example : (match Balance.run exCfg exDays with
    | .ok st => decide (st.vQty.get (exA, "USD") 0 = 5/2 ∧ entryVal exA "USD" st.entries = 333333332/100000000 ∧
        st.entries.length = 10)
    | .error _ => false) = true := by decide +kernel

example : (traceOfRun exCfg exA "USD" 0 {} exDays).map (fun d => (d.pPrev, d.pCur, d.qs)) =
    (traceOf exCfg exA "USD" 0 {} exDays).map (fun d => (d.pPrev, d.pCur, d.qs)) := by decide +kernel

example : Plain exCfg := ⟨rfl, fun _ => rfl, fun _ => rfl, fun _ => rfl⟩

example : ∀ d ∈ exDays, exCfg.span.contains d.date = true := by decide +kernel

end Knut.C03
