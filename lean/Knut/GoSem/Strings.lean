import Knut.GoSem.Basic
import Knut.Syntax.CharClass
/-!
# Go strings for the translated code

A Go `string` is a byte string; the translated code handles valid UTF-8 text only, as a Lean
`String`.  `len(s)` is the number of UTF-8 bytes, `utf8.RuneCountInString` the number of code points.
-/
namespace Knut.GoSem.Strings

/-- `len(s)`: the number of bytes of the UTF-8 encoding -/
def byteLen (s : String) : Int := ((s.toList.map Char.utf8Size).sum : Nat)
/-- `utf8.RuneCountInString(s)` for valid UTF-8 -/
@[simp] def RuneCount (s : String) : Int := (s.length : Int)
/-- `strings.Repeat(s, n)` (panics for negative `n` in Go: callers in the subset pass lengths) -/
def Repeat (s : String) (n : Int) : String := String.join (List.replicate n.toNat s)
/-- the characters of `strings.ReplaceAll`: left to right, non-overlapping; `skip` characters of a matched occurrence are
still to be dropped -/
def replaceChars (old new : List Char) : List Char → Nat → List Char
  | [], _ => []
  | _ :: rest, skip + 1 => replaceChars old new rest skip
  | c :: rest, 0 =>
    if old.isPrefixOf (c :: rest) then new ++ replaceChars old new rest (old.length - 1)
    else c :: replaceChars old new rest 0

/-- `strings.ReplaceAll(s, old, new)` on valid UTF-8; an empty `old` matches before every character and at the end -/
def ReplaceAll (s old new : String) : String :=
  if old.isEmpty then String.ofList (new.toList ++ s.toList.flatMap (fun c => c :: new.toList))
  else String.ofList (replaceChars old.toList new.toList s.toList 0)
/-- `%d` / `strconv.Itoa` -/
@[simp] def itoa (n : Int) : String := toString n

/-- `for i, ch := range s`: the byte offset and the rune of every UTF-8 sequence of a valid string -/
def runesFrom : Int → List Char → List (Int × Char)
  | _, [] => []
  | off, c :: rest => (off, c) :: runesFrom (off + (c.utf8Size : Int)) rest

def runes (s : String) : List (Int × Char) := runesFrom 0 s.toList

/-- `s[lo:hi]` by byte offsets: panics outside `0 ≤ lo ≤ hi ≤ len(s)`.  A cut inside a UTF-8 sequence would give a string
that is not valid UTF-8, which `String` cannot hold: it is reported as a (distinct) panic, and an agreement theorem shows that it
does not occur. -/
def slice (s : String) (lo hi : Int) : Outcome String :=
  if lo < 0 ∨ hi < lo ∨ byteLen s < hi then .panic "runtime error: slice bounds out of range"
  else
    let rs := runes s
    let boundary (o : Int) : Bool := decide (o = byteLen s) || rs.any (fun r => decide (r.1 = o))
    if boundary lo && boundary hi then
      .ok (String.ofList ((rs.filter (fun r => decide (lo ≤ r.1) && decide (r.1 < hi))).map (·.2)))
    else .panic "slice inside a UTF-8 sequence (outside the model of valid strings)"

/-- `strings.Index(s, sub)`: byte offset of the first occurrence, `-1` when there is none -/
def indexFrom (sub : List Char) : Int → List Char → Int
  | off, [] => if sub.isEmpty then off else -1
  | off, c :: rest => if sub.isPrefixOf (c :: rest) then off else indexFrom sub (off + (c.utf8Size : Int)) rest

def Index (s sub : String) : Int := indexFrom sub.toList 0 s.toList

/-! `strings.Builder`: the text written so far -/
namespace Builder
@[simp] def WriteString (b s : String) : String := b ++ s
@[simp] def WriteRune (b : String) (c : Char) : String := b.push c
@[simp] def String (b : _root_.String) : _root_.String := b
end Builder

end Knut.GoSem.Strings

namespace Knut.GoSem.Unicode
/-- `unicode.IsDigit` (table regenerated from the Go toolchain on every run) -/
def IsDigit (c : Char) : Bool := Knut.Syntax.isDigit c.toNat
end Knut.GoSem.Unicode
