import Knut.Proofs.LedgerClose
import Knut.Proofs.LifecyclePerm
import Knut.Proofs.ReportPerm
/-!
# The report inserts of an unvalued balance run do not depend on the order of the directives within a day (C05)

`run_rel`: two runs of the pipeline model (`Balance.run`, `cfg.valuation = none`, with or without period closing)
over day lists that agree day by day up to the order of the directives of each kind (`DayEquiv`) end in states whose
report inserts are permutations of each other.  With closing, the closing transactions are generated from the
CloseAccounts accumulators, association lists whose KEY ORDER depends on the order of the postings.  The relation
kept between the two runs (`Rel`) is: both accumulators have distinct keys and the same lookup function (`abs`).
`accStep` acts on the lookup functions as a point update `upd` that commutes with itself (`astep_comm`), so
permuted transaction lists leave `abs` unchanged; association lists with distinct keys and the same lookup function
are permutations of each other (`amap_perm`), hence so are the closing transactions (`closings_perm`).

Also here: `run_isOk` (an unvalued run succeeds iff the checker accepts), `run_wf` (remap/shorten keep the account
type, so journals with well-formed accounts give well-formed report inserts), and the lift to `Builder.ensureDays`.
-/

namespace Knut.InsertsPerm
open Knut Knut.Spec Knut.LedgerClose

/-! ### association lists with distinct keys are determined, up to order, by their lookup function -/

theorem nodup_of_keys {κ ν : Type} {m : AMap κ ν} (hn : (m.map (·.1)).Nodup) : m.Nodup :=
  List.Pairwise.of_map (S := (· ≠ ·)) (·.1) (fun _ _ h e => h (congrArg _ e)) hn

theorem amap_perm {κ ν : Type} [DecidableEq κ] {m m' : AMap κ ν} (hn : AMap.NodupKeys m) (hn' : AMap.NodupKeys m')
    (h : ∀ k, m.find? k = m'.find? k) : m.Perm m' := by
  rw [List.perm_ext_iff_of_nodup (nodup_of_keys hn) (nodup_of_keys hn')]
  intro ⟨k, v⟩
  constructor
  · intro hm; exact AMap.mem_of_find? ((h k).symm.trans (AMap.find?_of_mem hn hm))
  · intro hm; exact AMap.mem_of_find? ((h k).trans (AMap.find?_of_mem hn' hm))

/-! ### the accumulators as functions -/

abbrev Fn := Position → Option Rat

def upd (f : Fn) (k : Position) (x : Rat) : Fn := fun k' => if k = k' then some ((f k).getD 0 + x) else f k'

/-- lookup functions of the two accumulators -/
def abs (st : BalState) : Fn × Fn := (fun k => st.cQty.find? k, fun k => st.cVal.find? k)

def astep (f : Fn × Fn) (p : Posting) : Fn × Fn :=
  if closable p.account then (upd f.1 (p.account, p.commodity) p.quantity, upd f.2 (p.account, p.commodity) p.value) else f

theorem abs_accStep (st : BalState) (p : Posting) : abs (accStep st p) = astep (abs st) p := by
  unfold astep
  by_cases hc : closable p.account = true
  · rw [accStep_closable hc]
    simp only [hc, if_true, abs]
    congr 1 <;> funext k <;> rw [AMap.find?_set] <;> rfl
  · rw [accStep_not_closable hc]; simp only [hc]; rfl

theorem upd_comm (f : Fn) (k k' : Position) (x y : Rat) : upd (upd f k x) k' y = upd (upd f k' y) k x := by
  funext j
  unfold upd
  by_cases h : k = k'
  · subst h
    by_cases hj : k = j
    · simp only [hj, if_true, Option.getD_some]
      congr 1; grind
    · simp only [hj, if_false]
  · have h' : ¬ k' = k := fun e => h e.symm
    by_cases hj : k = j
    · subst hj; simp only [h', if_false, if_true]
    · by_cases hj' : k' = j
      · subst hj'; simp only [h, if_false, if_true]
      · simp only [hj, hj', if_false]

theorem astep_comm (f : Fn × Fn) (p q : Posting) : astep (astep f p) q = astep (astep f q) p := by
  unfold astep
  by_cases hp : closable p.account = true <;> by_cases hq : closable q.account = true <;>
    simp only [hp, hq, if_true, if_false, Bool.false_eq_true]
  rw [upd_comm, upd_comm f.2]

theorem abs_foldl (ps : List Posting) : ∀ st : BalState, abs (ps.foldl accStep st) = ps.foldl astep (abs st) := by
  induction ps with
  | nil => intro st; rfl
  | cons p rest ih => intro st; simp only [List.foldl_cons]; rw [ih, abs_accStep]

theorem abs_accumulate {st st' : BalState} (h : abs st = abs st') {ts ts' : List Transaction} (hp : ts.Perm ts') :
    abs (Balance.accumulate st ts) = abs (Balance.accumulate st' ts') := by
  rw [accumulate_eq, accumulate_eq, abs_foldl, abs_foldl, h]
  exact ReportPerm.foldl_comm_perm _ astep_comm (hp.flatMap_right _) _

theorem nodup_accumulate {st : BalState} (h : AMap.NodupKeys st.cQty) (ts : List Transaction) :
    AMap.NodupKeys (Balance.accumulate st ts).cQty := by
  rw [accumulate_eq]; exact fold_nodup _ st h

theorem closings_perm (date : Int) {cQty cQty' cVal cVal' : AMap Position Rat}
    (hn : AMap.NodupKeys cQty) (hn' : AMap.NodupKeys cQty') (hq : ∀ k, cQty.find? k = cQty'.find? k)
    (hv : ∀ k, cVal.find? k = cVal'.find? k) :
    (Balance.closings date cQty cVal).Perm (Balance.closings date cQty' cVal') := by
  unfold Balance.closings
  have : ∀ k, cVal.get k 0 = cVal'.get k 0 := fun k => by unfold AMap.get; rw [hv]
  simp only [this]
  exact (amap_perm hn hn' hq).filterMap _


/-! ### one day -/

theorem abs_congr {st st' : BalState} (h1 : st.cQty = st'.cQty) (h2 : st.cVal = st'.cVal) : abs st = abs st' := by
  unfold abs; rw [h1, h2]

/-- the relation kept between the two runs: accumulators with distinct keys and the same lookup functions,
report inserts equal up to order -/
structure Rel (st st' : BalState) : Prop where
  nd : AMap.NodupKeys st.cQty
  nd' : AMap.NodupKeys st'.cQty
  acc : abs st = abs st'
  ent : st.entries.Perm st'.entries

theorem rel_init : Rel {} {} := ⟨List.nodup_nil, List.nodup_nil, rfl, List.Perm.refl _⟩

theorem dayWin_perm (cfg : BalCfg) {d d' : Day} (h : DayEquiv d d') : (dayWin cfg d).Perm (dayWin cfg d') := by
  unfold dayWin
  rw [← h.1]
  split
  · exact h.2.2.1
  · exact List.Perm.refl _

theorem dayCl_perm (cfg : BalCfg) {st st' : BalState} (r : Rel st st') {d d' : Day} (h : DayEquiv d d') :
    (dayCl cfg st d).Perm (dayCl cfg st' d') := by
  unfold dayCl isClosing
  rw [← h.1]
  split
  · exact closings_perm _ r.nd r.nd' (fun k => congrFun (congrArg Prod.fst r.acc) k)
      (fun k => congrFun (congrArg Prod.snd r.acc) k)
  · exact List.Perm.refl _

theorem day_rel_close (cfg : BalCfg) (hv : cfg.valuation = none) (hc : cfg.close = true) {st st' s1 s1' : BalState}
    (r : Rel st st') {d d' : Day} (hd : DayEquiv d d')
    (h1 : Balance.day cfg st d = .ok s1) (h2 : Balance.day cfg st' d' = .ok s1') : Rel s1 s1' := by
  obtain ⟨t, tq, tv, sq, sv, se⟩ := day_close cfg hv hc st s1 d h1
  obtain ⟨t', tq', tv', sq', sv', se'⟩ := day_close cfg hv hc st' s1' d' h2
  have hperm : (dayWin cfg d ++ dayCl cfg st d).Perm (dayWin cfg d' ++ dayCl cfg st' d') :=
    (dayWin_perm cfg hd).append (dayCl_perm cfg r hd)
  have ht : abs t = abs t' := (abs_congr tq tv).trans (r.acc.trans (abs_congr tq' tv').symm)
  refine ⟨?_, ?_, ?_, ?_⟩
  · rw [sq]; exact nodup_accumulate (by rw [tq]; exact r.nd) _
  · rw [sq']; exact nodup_accumulate (by rw [tq']; exact r.nd') _
  · exact (abs_congr sq sv).trans ((abs_accumulate ht hperm).trans (abs_congr sq' sv').symm)
  · rw [se, se']; exact r.ent.append (hperm.flatMap_right _)

theorem day_noclose (cfg : BalCfg) (hv : cfg.valuation = none) (hc : cfg.close = false) (st st' : BalState) (d : Day)
    (h : Balance.day cfg st d = .ok st') :
    st'.cQty = st.cQty ∧ st'.cVal = st.cVal ∧
      st'.entries = st.entries ++ (dayWin cfg d).flatMap (Balance.queryTx cfg) := by
  unfold Balance.day Balance.dayTxs at h
  simp only [bind, Except.bind] at h
  cases hck : Balance.checkStage st d with
  | error e => rw [hck] at h; cases h
  | ok s1 =>
    rw [hck] at h
    have e1 : s1.entries = st.entries ∧ s1.cQty = st.cQty ∧ s1.cVal = st.cVal := by
      unfold Balance.checkStage at hck
      split at hck
      · injection hck with hck; subst hck; exact ⟨rfl, rfl, rfl⟩
      · cases hck
    unfold Balance.valuationStage Balance.closeStage Balance.filterStage at h
    simp only [hv, hc, Bool.false_eq_true, if_false] at h
    injection h with h; subst h
    exact ⟨e1.2.1, e1.2.2, by simp only [e1.1, dayWin]⟩

theorem day_rel_noclose (cfg : BalCfg) (hv : cfg.valuation = none) (hc : cfg.close = false) {st st' s1 s1' : BalState}
    (r : Rel st st') {d d' : Day} (hd : DayEquiv d d')
    (h1 : Balance.day cfg st d = .ok s1) (h2 : Balance.day cfg st' d' = .ok s1') : Rel s1 s1' := by
  obtain ⟨sq, sv, se⟩ := day_noclose cfg hv hc st s1 d h1
  obtain ⟨sq', sv', se'⟩ := day_noclose cfg hv hc st' s1' d' h2
  refine ⟨by rw [sq]; exact r.nd, by rw [sq']; exact r.nd', ?_, ?_⟩
  · exact (abs_congr sq sv).trans (r.acc.trans (abs_congr sq' sv').symm)
  · rw [se, se']; exact r.ent.append ((dayWin_perm cfg hd).flatMap_right _)

theorem day_rel (cfg : BalCfg) (hv : cfg.valuation = none) {st st' s1 s1' : BalState}
    (r : Rel st st') {d d' : Day} (hd : DayEquiv d d')
    (h1 : Balance.day cfg st d = .ok s1) (h2 : Balance.day cfg st' d' = .ok s1') : Rel s1 s1' := by
  cases hc : cfg.close with
  | true => exact day_rel_close cfg hv hc r hd h1 h2
  | false => exact day_rel_noclose cfg hv hc r hd h1 h2

/-! ### the run -/

theorem run_rel (cfg : BalCfg) (hv : cfg.valuation = none) {days days' : List Day} (h : List.Forall₂ DayEquiv days days') :
    ∀ (st0 st0' st st' : BalState), Rel st0 st0' → days.foldlM (Balance.day cfg) st0 = .ok st →
      days'.foldlM (Balance.day cfg) st0' = .ok st' → Rel st st' := by
  induction h with
  | nil =>
    intro st0 st0' st st' r h1 h2
    simp only [List.foldlM_nil, pure, Except.pure] at h1 h2
    injection h1 with h1; injection h2 with h2; subst h1; subst h2; exact r
  | @cons d d' l l' hd _ ih =>
    intro st0 st0' st st' r h1 h2
    simp only [List.foldlM_cons, bind, Except.bind] at h1 h2
    cases e1 : Balance.day cfg st0 d with
    | error e => rw [e1] at h1; cases h1
    | ok s1 =>
      cases e2 : Balance.day cfg st0' d' with
      | error e => rw [e2] at h2; cases h2
      | ok s1' =>
        rw [e1] at h1; rw [e2] at h2
        exact ih s1 s1' st st' (day_rel cfg hv r hd e1 e2) h1 h2


/-! ### an unvalued run succeeds exactly when the checker accepts -/

theorem day_chk (cfg : BalCfg) (hv : cfg.valuation = none) (st : BalState) (d : Day) :
    match Check.day st.chk d with
    | .ok c => ∃ s, Balance.day cfg st d = .ok s ∧ s.chk = c
    | .error _ => ∃ e, Balance.day cfg st d = .error e := by
  unfold Balance.day Balance.dayTxs Balance.checkStage Balance.valuationStage
  cases Check.day st.chk d with
  | error e => exact ⟨_, rfl⟩
  | ok c =>
    simp only [hv, bind, Except.bind]
    refine ⟨_, rfl, ?_⟩
    simp only [Balance.closeStage]
    split
    · simp only [accumulate_eq]
      generalize (List.flatMap _ _) = ps
      suffices h : ∀ (ps : List Posting) (s : BalState), (ps.foldl accStep s).chk = s.chk from h _ _
      intro ps
      induction ps with
      | nil => intro s; rfl
      | cons p rest ih => intro s; simp only [List.foldl_cons]; rw [ih]; unfold accStep; split <;> rfl
    · rfl

theorem run_isOk (cfg : BalCfg) (hv : cfg.valuation = none) (days : List Day) :
    ∀ (st : BalState), (days.foldlM (Balance.day cfg) st).isOk = (days.foldlM Check.day st.chk).isOk := by
  induction days with
  | nil => intro st; rfl
  | cons d rest ih =>
    intro st
    simp only [List.foldlM_cons, bind, Except.bind]
    have := day_chk cfg hv st d
    cases hc : Check.day st.chk d with
    | error e =>
      rw [hc] at this
      obtain ⟨e', he⟩ := this
      rw [he]; rfl
    | ok c =>
      rw [hc] at this
      obtain ⟨s, hs, hsc⟩ := this
      rw [hs]; simp only
      rw [ih s, hsc]


/-! ### the report inserts of a journal with well-formed accounts are well-formed -/

theorem wf_cons (s : String) (rest : List String) : (Account.wf ⟨s :: rest⟩) = (AccountType.ofName s).isSome := rfl

theorem wf_segments {a : Account} (h : a.wf = true) : ∃ s rest, a.segments = s :: rest ∧ (AccountType.ofName s).isSome = true := by
  obtain ⟨segs⟩ := a
  cases segs with
  | nil => cases h
  | cons s rest => exact ⟨s, rest, rfl, h⟩

theorem swapType_wf {a : Account} (h : a.wf = true) : (swapType a).wf = true := by
  obtain ⟨s, rest, hs, ht⟩ := wf_segments h
  unfold swapType
  rw [hs]
  simp only
  repeat' split
  all_goals first | exact h | rfl

theorem shorten_wf (m : List MapRule) {a b : Account} (h : a.wf = true) (hb : shorten m a = some b) : b.wf = true := by
  unfold shorten at hb
  split at hb
  · injection hb with hb; subst hb; exact h
  · rename_i level suffix _
    split at hb
    · cases hb
    · split at hb
      · injection hb with hb; subst hb; exact h
      · split at hb
        · injection hb with hb; subst hb; exact h
        · injection hb with hb; subst hb
          obtain ⟨s, rest, hs, ht⟩ := wf_segments h
          rw [hs]
          cases level with
          | zero => contradiction
          | succ n => simp only [List.take_succ_cons, List.cons_append]; exact ht

theorem mapAccount_wf (cfg : BalCfg) {a b : Account} (h : a.wf = true) (hb : mapAccount cfg a = some b) : b.wf = true := by
  unfold mapAccount at hb
  split at hb
  · exact shorten_wf _ (swapType_wf h) hb
  · exact shorten_wf _ h hb

/-- all postings of the transactions are on well-formed accounts -/
def TxsWF (ts : List Transaction) : Prop := ∀ t ∈ ts, ∀ p ∈ t.postings, p.account.wf = true

theorem queryTx_wf (cfg : BalCfg) {ts : List Transaction} (h : TxsWF ts) : ReportPerm.WF (ts.flatMap (Balance.queryTx cfg)) := by
  intro e he
  obtain ⟨t, ht, he⟩ := List.mem_flatMap.1 he
  unfold Balance.queryTx at he
  obtain ⟨p, hp, he⟩ := List.mem_filterMap.1 he
  unfold Balance.queryPosting at he
  split at he
  · split at he
    · rename_i a ha
      injection he with he; subst he
      exact mapAccount_wf cfg (h t ht p hp) ha
    · cases he
  · cases he

theorem build_accounts (a b : Account) (c : Commodity) (q v : Rat) : ∀ p ∈ postingBuild a b c q v, p.account = a ∨ p.account = b := by
  intro p hp
  unfold postingBuild at hp
  simp only [List.mem_cons, List.not_mem_nil, or_false] at hp
  rcases hp with rfl | rfl <;> simp only <;> split <;> simp

theorem closings_wf (date : Int) (cQty cVal : AMap Position Rat) (h : ∀ k ∈ cQty.map (·.1), k.1.wf = true) :
    TxsWF (Balance.closings date cQty cVal) := by
  intro t ht p hp
  unfold Balance.closings at ht
  obtain ⟨⟨⟨a, c⟩, q⟩, hm, ht⟩ := List.mem_filterMap.1 ht
  simp only at ht
  split at ht
  · cases ht
  · injection ht with ht; subst ht
    rcases build_accounts _ _ _ _ _ p hp with h1 | h1
    · rw [h1]; exact h (a, c) (List.mem_map.2 ⟨((a, c), q), hm, rfl⟩)
    · rw [h1]; rfl

/-- invariant: accumulator keys and report inserts are on well-formed accounts -/
structure WFInv (st : BalState) : Prop where
  keys : ∀ k ∈ st.cQty.map (·.1), k.1.wf = true
  ent : ReportPerm.WF st.entries

theorem TxsWF.append {xs ys : List Transaction} (hx : TxsWF xs) (hy : TxsWF ys) : TxsWF (xs ++ ys) := by
  intro t ht
  rcases List.mem_append.1 ht with h | h
  · exact hx t h
  · exact hy t h

theorem wf_append {xs ys : List Entry} (hx : ReportPerm.WF xs) (hy : ReportPerm.WF ys) : ReportPerm.WF (xs ++ ys) := by
  intro e he
  rcases List.mem_append.1 he with h | h
  · exact hx e h
  · exact hy e h

theorem dayWin_wf (cfg : BalCfg) {d : Day} (h : TxsWF d.transactions) : TxsWF (dayWin cfg d) := by
  unfold dayWin; split
  · exact h
  · intro t ht; cases ht

theorem day_wf (cfg : BalCfg) (hv : cfg.valuation = none) {st s1 : BalState} (i : WFInv st) {d : Day}
    (hd : TxsWF d.transactions) (h1 : Balance.day cfg st d = .ok s1) : WFInv s1 := by
  cases hc : cfg.close with
  | false =>
    obtain ⟨sq, _, se⟩ := day_noclose cfg hv hc st s1 d h1
    exact ⟨by rw [sq]; exact i.keys, by rw [se]; exact wf_append i.ent (queryTx_wf cfg (dayWin_wf cfg hd))⟩
  | true =>
    obtain ⟨t, tq, tv, sq, sv, se⟩ := day_close cfg hv hc st s1 d h1
    have hcl : TxsWF (dayCl cfg st d) := by
      unfold dayCl; split
      · exact closings_wf _ _ _ i.keys
      · intro t ht; cases ht
    have hall := (dayWin_wf cfg hd).append hcl
    refine ⟨?_, by rw [se]; exact wf_append i.ent (queryTx_wf cfg hall)⟩
    rw [sq, accumulate_eq]
    intro k hk
    rcases fold_keys _ t k hk with h | ⟨p, hp, _, hk⟩
    · rw [tq] at h; exact i.keys k h
    · obtain ⟨tx, htx, hp⟩ := List.mem_flatMap.1 hp
      rw [hk]; exact hall tx htx p hp

theorem run_wf (cfg : BalCfg) (hv : cfg.valuation = none) : ∀ (days : List Day), (∀ d ∈ days, TxsWF d.transactions) →
    ∀ (st0 st : BalState), WFInv st0 → days.foldlM (Balance.day cfg) st0 = .ok st → WFInv st := by
  intro days
  induction days with
  | nil =>
    intro _ st0 st i h
    simp only [List.foldlM_nil, pure, Except.pure] at h
    injection h with h; subst h; exact i
  | cons d rest ih =>
    intro hd st0 st i h
    simp only [List.foldlM_cons, bind, Except.bind] at h
    cases e1 : Balance.day cfg st0 d with
    | error e => rw [e1] at h; cases h
    | ok s1 =>
      rw [e1] at h
      exact ih (fun d' hd' => hd d' (List.mem_cons_of_mem _ hd')) s1 st (day_wf cfg hv i (hd d List.mem_cons_self) e1) h

/-! ### `Builder.ensureDays` keeps the day-by-day correspondence; built days inherit well-formed accounts -/

theorem dayEquiv_refl (d : Day) : DayEquiv d d :=
  ⟨rfl, List.Perm.refl _, List.Perm.refl _, List.Perm.refl _, List.Perm.refl _⟩

theorem insertDay_equiv {l l' : List Day} (h : List.Forall₂ DayEquiv l l') (date : Int) :
    List.Forall₂ DayEquiv (insertDay l date) (insertDay l' date) := by
  induction h with
  | nil => exact .cons (dayEquiv_refl _) .nil
  | @cons d d' r r' hd hr ih =>
    unfold insertDay
    rw [← hd.1]
    split
    · exact .cons (dayEquiv_refl _) (.cons hd hr)
    · split
      · exact .cons hd hr
      · exact .cons hd ih

theorem ensureDays_equiv (dates : List Int) : ∀ {l l' : List Day}, List.Forall₂ DayEquiv l l' →
    List.Forall₂ DayEquiv (dates.foldl insertDay l) (dates.foldl insertDay l') := by
  induction dates with
  | nil => intro l l' h; exact h
  | cons x rest ih => intro l l' h; exact ih (insertDay_equiv h x)

theorem insertDay_mem {l : List Day} {date : Int} {d : Day} (h : d ∈ insertDay l date) : d ∈ l ∨ d = { date := date } := by
  induction l with
  | nil => simp [insertDay] at h; exact Or.inr h
  | cons x rest ih =>
    unfold insertDay at h
    split at h
    · rcases List.mem_cons.1 h with h | h
      · exact Or.inr h
      · exact Or.inl h
    · split at h
      · exact Or.inl h
      · rcases List.mem_cons.1 h with h | h
        · exact Or.inl (h ▸ List.mem_cons_self)
        · rcases ih h with h | h
          · exact Or.inl (List.mem_cons_of_mem _ h)
          · exact Or.inr h

theorem ensureDays_txs (dates : List Int) : ∀ {l : List Day} {d : Day}, d ∈ dates.foldl insertDay l →
    d ∈ l ∨ d.transactions = [] := by
  induction dates with
  | nil => intro l d h; exact Or.inl h
  | cons x rest ih =>
    intro l d h
    rcases ih h with h | h
    · rcases insertDay_mem h with h | h
      · exact Or.inl h
      · exact Or.inr (by rw [h])
    · exact Or.inr h

/-- all bookings of the directives are on well-formed accounts -/
def DirsWF (ds : List Directive) : Prop := ∀ t, Directive.tx t ∈ ds → ∀ p ∈ t.postings, p.account.wf = true

theorem built_wf {ds : List Directive} (h : DirsWF ds) : ∀ d ∈ (Builder.ofList ds).days, TxsWF d.transactions := by
  intro d hd t ht
  have hs := ofList_spec txKind ds
  have := contentOn_self txKind _ hs.1 d hd
  rw [hs.2] at this
  have ht' : t ∈ collect txKind ds d.date := by rw [this]; exact ht
  unfold collect at ht'
  obtain ⟨x, hx, hpick⟩ := List.mem_filterMap.1 ht'
  split at hpick
  · cases x <;> simp only [txKind] at hpick <;> first | cases hpick | skip
    exact h _ hx
  · cases hpick


end Knut.InsertsPerm
