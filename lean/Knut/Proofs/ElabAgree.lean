import Knut.Proofs.ElabFields
/-!
# `Commands.elabFile` = `FromSyntax.loadText` (C09: one elaboration model)

Two models of `model.FromStream` exist: `FromSyntax.loadText` (bytes → directives; C04's `loadtext` correspondence, the
C09/C13 text theorems) and `Commands.elabFile` (used by `Cmd.run`, which C14 compares with the real binary). For every
directive of a successfully parsed file (`parse_views`: field tokens of the right lexical classes, validly encoded) the
two read the same fields (`Proofs/ElabFields.lean`), make the same checks — the account check of bookings and of `@accrue`
is done by `item` in one model and by `transaction.Create` in the other, with the same outcome — and handle the directives
in the same order, so that the first failure is the same one: `elabFile_agree`.
-/
namespace Knut.ElabAgree
open Knut Knut.Syntax Knut.Utf8 Knut.FromSyntax Knut.Commands
set_option linter.unusedVariables false

/-- an `error` return (not a panic) -/
def IsErr {α : Type} (r : M α) : Prop := ∃ m, r = .error (.error m)

/-- the string-based elaboration `r` returns what the byte-based one does: the same value, or an `error` -/
def Agrees {α β : Type} (o : Option α) (r : M β) (k : α → M β) : Prop :=
  match o with
  | some x => r = k x
  | none => IsErr r

@[simp] theorem agrees_some {α β : Type} (x : α) (r : M β) (k : α → M β) : Agrees (some x) r k ↔ r = k x := Iff.rfl
@[simp] theorem agrees_none {α β : Type} (r : M β) (k : α → M β) : Agrees (none : Option α) r k ↔ IsErr r := Iff.rfl

@[simp] theorem bind_ok {α β : Type} (a : α) (f : α → M β) : (Except.ok a : M α) >>= f = f a := rfl
@[simp] theorem bind_err {α β : Type} (e : CmdOutcome) (f : α → M β) : (Except.error e : M α) >>= f = .error e := rfl
@[simp] theorem pure_ok {α : Type} (a : α) : (pure a : M α) = .ok a := rfl
@[simp] theorem map_ok {α β : Type} (a : α) (f : α → β) : f <$> (Except.ok a : M α) = .ok (f a) := rfl
@[simp] theorem map_err {α β : Type} (e : CmdOutcome) (f : α → β) : f <$> (Except.error e : M α) = .error e := rfl

section
variable {text : List UInt8}

theorem date_agree {d : Syntax.Date} {c : List Tok} (hx : d.range.extract text = some (flat c)) (hc : Canon c) (hv : Valid c) :
    elabDate text d =
      match FromSyntax.parseDate (flat c) with
      | some z => .ok z
      | none => .error (.error "parsing date") := by
  obtain ⟨s, hs, _, ht⟩ := field_string hx hc hv
  unfold elabDate
  rw [ht, hs, flat_strToks, parseDate_agree]
  cases Commands.parseDate s <;> rfl

theorem dec_agree {d : Syntax.Decimal} {c : List Tok} (hx : d.range.extract text = some (flat c)) (hc : Canon c) (hv : Valid c) :
    elabDecimal text d =
      match decimalV (flat c) with
      | some q => .ok q
      | none => .error (.error "parsing decimal") := by
  obtain ⟨s, hs, _, ht⟩ := field_string hx hc hv
  unfold elabDecimal
  rw [ht, hs, flat_strToks, decimal_agree]
  cases Dec.parseDec s <;> rfl

theorem str_agree {r : Range} {c : List Tok} (hx : r.extract text = some (flat c)) (hc : Canon c) (hv : Valid c) :
    ∃ s, utf8 (flat c) = some s ∧ textOf text r = s := by
  obtain ⟨s, hs, _, ht⟩ := field_string hx hc hv
  exact ⟨s, by rw [hs, flat_strToks, utf8_strBytes], ht⟩

theorem commodity_agree {cm : Syntax.Commodity} {c : List Tok} (hx : cm.range.extract text = some (flat c)) (hc : Canon c)
    (hok : CommodityOK c) : ∃ s, utf8 (flat c) = some s ∧ elabCommodity text cm = .ok s := by
  obtain ⟨s, hu, ht⟩ := str_agree hx hc hok.2
  refine ⟨s, hu, ?_⟩
  have := okName_of_commodityOK hok hc hu
  unfold elabCommodity
  simp only [ht]
  have hv : Beancount.validCommodity s = true := by
    simp only [okName, Bool.and_eq_true, Bool.not_eq_true', List.isEmpty_eq_false_iff] at this
    simp only [Beancount.validCommodity, Bool.and_eq_true, Bool.not_eq_true', this.2, and_true]
    cases hl : s.toList with
    | nil => exact absurd hl this.1
    | cons a l =>
      have : s ≠ "" := by intro e; rw [e] at hl; cases hl
      simpa [String.isEmpty_iff] using this
  rw [if_pos hv]

theorem interval_agree {iv : Syntax.Interval} {c : List Tok} (hx : iv.range.extract text = some (flat c)) (hc : Canon c)
    (hok : IntervalOK c) : ∃ s i, utf8 (flat c) = some s ∧ textOf text iv.range = s ∧ FromSyntax.interval s = some i ∧
      Commands.parseInterval s = some i := by
  obtain ⟨s, hs, _, ht⟩ := field_string hx hc hok.2
  obtain ⟨kw, hkw, hr⟩ := hok.1
  have hu : utf8 (flat c) = some s := by rw [hs, flat_strToks, utf8_strBytes]
  have e : s = kw := by
    apply String.ext
    rw [hs] at hr
    simp only [strToks, charsToks, List.map_map, runesOf] at hr
    have : ∀ (l1 l2 : List Char), l1.map Char.toNat = l2.map Char.toNat → l1 = l2 := by
      intro l1
      induction l1 with
      | nil => intro l2 h; cases l2 <;> simp_all
      | cons a l ih =>
        intro l2 h
        cases l2 with
        | nil => simp at h
        | cons b l2 =>
          simp only [List.map_cons, List.cons.injEq] at h
          rw [char_of_toNat h.1, ih l2 h.2]
    exact this _ _ hr
  subst e
  simp only [intervalKeywords, List.mem_cons, List.not_mem_nil, or_false] at hkw
  rcases hkw with rfl | rfl | rfl | rfl
  · exact ⟨_, .daily, hu, ht, by decide, by decide⟩
  · exact ⟨_, .weekly, hu, ht, by decide, by decide⟩
  · exact ⟨_, .monthly, hu, ht, by decide, by decide⟩
  · exact ⟨_, .quarterly, hu, ht, by decide, by decide⟩


/-! ### accounts, balances, bookings -/

theorem account_agree {a : Syntax.Account} {c : List Tok} (hx : a.range.extract text = some (flat c)) (hc : Canon c) (hv : Valid c) :
    accountV (flat c) =
      (if (Account.ofName (textOf text a.range)).wf then some (Account.ofName (textOf text a.range)) else none) := by
  obtain ⟨s, hu, ht⟩ := str_agree hx hc hv
  simp only [accountV, hu, ht, Option.bind_eq_bind, Option.bind_some]

theorem elabAccount_agree {a : Syntax.Account} {c : List Tok} (hx : a.range.extract text = some (flat c)) (hc : Canon c)
    (hv : Valid c) :
    Agrees (accountV (flat c)) (elabAccount text a) .ok := by
  rw [account_agree hx hc hv]
  unfold elabAccount
  simp only
  by_cases hw : (Account.ofName (textOf text a.range)).wf = true
  · simp only [hw, if_true]
    exact rfl
  · simp only [hw]
    exact ⟨_, rfl⟩

theorem mapM_agree {α β γ : Type} (f : α → M γ) (g : β → Option γ) (R : α → β → Prop)
    (h : ∀ a b, R a b → Agrees (g b) (f a) .ok) :
    ∀ (l : List α) (l' : List β), List.Forall₂ R l l' → Agrees (l'.mapM g) (l.mapM f) .ok
  | [], [], _ => by simp
  | a :: l, b :: l', hf => by
    cases hf with
    | cons hab hrest =>
      have h1 := h a b hab
      have h2 := mapM_agree f g R h l l' hrest
      simp only [List.mapM_cons, Option.bind_eq_bind, Option.pure_def]
      cases hg : g b with
      | none =>
        rw [hg] at h1
        obtain ⟨m, hm⟩ := h1
        simp only [Option.bind_none]
        exact ⟨m, by rw [hm]; rfl⟩
      | some x =>
        rw [hg] at h1
        simp only [Option.bind_some] at h1 ⊢
        rw [h1]
        cases hgs : l'.mapM g with
        | none =>
          rw [hgs] at h2
          obtain ⟨m, hm⟩ := h2
          simp only [Option.bind_none]
          exact ⟨m, by rw [hm]; rfl⟩
        | some xs =>
          rw [hgs] at h2
          simp only [Option.bind_some] at h2 ⊢
          rw [h2]; rfl

theorem forall2_of_mapM {α β γ : Type} (v : α → Option γ) (m : β → γ) :
    ∀ (l : List α) (ws : List β), l.mapM v = some (ws.map m) → List.Forall₂ (fun a w => v a = some (m w)) l ws
  | [], [], _ => .nil
  | [], w :: ws, h => by simp at h
  | a :: l, ws, h => by
    simp only [List.mapM_cons, Option.bind_eq_bind, Option.bind_eq_some_iff, Option.pure_def, Option.some.injEq] at h
    obtain ⟨y, hy, ys, hys, e⟩ := h
    cases ws with
    | nil => simp at e
    | cons w ws =>
      simp only [List.map_cons, List.cons.injEq] at e
      obtain ⟨rfl, rfl⟩ := e
      exact .cons hy (forall2_of_mapM v m l ws hys)

theorem balance_agree {b : Syntax.Balance} {w : BalanceT} (hview : viewBalance text b = some w.bytes) (hok : w.ok) (hcan : w.canon) :
    Agrees (balanceV w.bytes) (elabBalance text b) .ok := by
  simp only [viewBalance, BalanceT.bytes, Option.bind_eq_bind, Option.bind_eq_some_iff, Option.pure_def, Option.some.injEq,
    BalanceV.mk.injEq] at hview
  obtain ⟨_, g1, _, g2, _, g3, rfl, rfl, rfl⟩ := hview
  have a1 := elabAccount_agree g1 hcan.1 hok.1.2
  have a2 := dec_agree g2 hcan.2.1 hok.2.1.2
  obtain ⟨s, a3, a4⟩ := commodity_agree g3 hcan.2.2 hok.2.2
  simp only [balanceV, BalanceT.bytes, elabBalance, Option.bind_eq_bind, Option.pure_def, a3, a4, a2]
  cases h1 : accountV (flat w.account) with
  | none =>
    rw [h1] at a1
    obtain ⟨m, hm⟩ := a1
    simp only [Option.bind_none]
    exact ⟨m, by rw [hm]; rfl⟩
  | some acc =>
    rw [h1] at a1
    simp only [Option.bind_some] at a1 ⊢
    rw [a1]
    cases h2 : decimalV (flat w.quantity) with
    | none => exact ⟨_, rfl⟩
    | some q => rfl

def bookingWF (b : Accrual.Booking) : Bool := b.credit.wf && b.debit.wf

theorem booking_agree {b : Syntax.Booking} {w : BookingT} (hview : viewBooking text b = some w.bytes) (hok : w.ok) (hcan : w.canon) :
    (IsErr (elabBooking text b) ∧ bookingV w.bytes = none) ∨
      (∃ x, elabBooking text b = .ok x ∧ bookingV w.bytes = if bookingWF x then some x else none) := by
  simp only [viewBooking, BookingT.bytes, Option.bind_eq_bind, Option.bind_eq_some_iff, Option.pure_def, Option.some.injEq,
    BookingV.mk.injEq] at hview
  obtain ⟨_, g1, _, g2, _, g3, _, g4, rfl, rfl, rfl, rfl⟩ := hview
  have a1 := account_agree g1 hcan.1 hok.1.2
  have a2 := account_agree g2 hcan.2.1 hok.2.1.2
  have a3 := dec_agree g3 hcan.2.2.1 hok.2.2.1.2
  obtain ⟨s, a4, a5⟩ := commodity_agree g4 hcan.2.2.2 hok.2.2.2
  simp only [bookingV, BookingT.bytes, elabBooking, Option.bind_eq_bind, Option.pure_def, a1, a2, a3, a4, a5]
  cases h3 : decimalV (flat w.quantity) with
  | none =>
    left
    refine ⟨⟨_, rfl⟩, ?_⟩
    by_cases w1 : (Account.ofName (textOf text b.credit.range)).wf = true <;>
      by_cases w2 : (Account.ofName (textOf text b.debit.range)).wf = true <;> simp [w1, w2]
  | some q =>
    right
    refine ⟨_, rfl, ?_⟩
    simp only [bookingWF, Option.bind_some]
    by_cases w1 : (Account.ofName (textOf text b.credit.range)).wf = true <;>
      by_cases w2 : (Account.ofName (textOf text b.debit.range)).wf = true <;> simp [w1, w2]

theorem bookings_agree : ∀ (l : List Syntax.Booking) (ws : List BookingT),
    List.Forall₂ (fun b w => viewBooking text b = some w.bytes ∧ w.ok ∧ w.canon) l ws →
    (IsErr (l.mapM (elabBooking text)) ∧ (ws.map BookingT.bytes).mapM bookingV = none) ∨
      (∃ xs, l.mapM (elabBooking text) = .ok xs ∧
        (ws.map BookingT.bytes).mapM bookingV = if xs.all bookingWF then some xs else none)
  | [], [], _ => Or.inr ⟨[], rfl, rfl⟩
  | b :: l, w :: ws, hf => by
    cases hf with
    | cons hbw hrest =>
      have ih := bookings_agree l ws hrest
      simp only [List.map_cons, List.mapM_cons, Option.bind_eq_bind, Option.pure_def]
      rcases booking_agree hbw.1 hbw.2.1 hbw.2.2 with ⟨⟨m, hm⟩, hn⟩ | ⟨x, hx, hv⟩
      · left
        rw [hm, hn]
        exact ⟨⟨m, rfl⟩, rfl⟩
      · rw [hx, hv]
        rcases ih with ⟨⟨m, hm⟩, hn⟩ | ⟨xs, hxs, hvs⟩
        · left
          rw [hm, hn]
          refine ⟨⟨m, rfl⟩, ?_⟩
          split <;> rfl
        · right
          rw [hxs, hvs]
          refine ⟨x :: xs, rfl, ?_⟩
          simp only [List.all_cons]
          by_cases h1 : bookingWF x = true <;> by_cases h2 : xs.all bookingWF = true <;> simp [h1, h2]


/-! ### `@performance`, `@accrue` -/

theorem targets_list_agree : ∀ (l : List Syntax.Commodity) (ts : List (List Tok)),
    List.Forall₂ (fun (c : Syntax.Commodity) t => c.range.extract text = some (flat t) ∧ (CommodityOK t ∧ Canon t)) l ts →
    ∃ ss, (ts.map flat).mapM utf8 = some ss ∧ l.mapM (elabCommodity text) = .ok ss
  | [], [], _ => ⟨[], rfl, rfl⟩
  | c :: l, t :: ts, hf => by
    cases hf with
    | cons h hrest =>
      obtain ⟨ss, h1, h2⟩ := targets_list_agree l ts hrest
      obtain ⟨s, g1, g2⟩ := commodity_agree h.1 h.2.2 h.2.1
      refine ⟨s :: ss, ?_, ?_⟩
      · simp only [List.map_cons, List.mapM_cons, g1, h1, Option.bind_eq_bind, Option.bind_some, Option.pure_def]
      · simp only [List.mapM_cons, g2, h2, bind_ok, pure_ok]

theorem forall2_strengthen {α β : Type} {R : α → β → Prop} {P : β → Prop} {l : List α} {ws : List β}
    (h : List.Forall₂ R l ws) (hp : ∀ w ∈ ws, P w) : List.Forall₂ (fun a w => R a w ∧ P w) l ws := by
  induction h with
  | nil => exact .nil
  | cons h _ ih => exact .cons ⟨h, hp _ List.mem_cons_self⟩ (ih (fun x hx => hp x (List.mem_cons_of_mem _ hx)))

def targetsV (perf : Option (List (List UInt8))) : Option (Option (List String)) :=
  match perf with
  | none => some none
  | some ts => (ts.mapM utf8).map some

theorem targets_agree {t : Syntax.Transaction} {perf : Option (List (List Tok))}
    (hview : (if !t.addons.performance.range.empty then
        (t.addons.performance.targets.mapM (fun (c : Syntax.Commodity) => c.range.extract text)).map some
      else pure none) = some (perf.map (·.map flat)))
    (hok : ∀ ts, perf = some ts → ∀ t ∈ ts, CommodityOK t) (hcan : ∀ ts, perf = some ts → ∀ t ∈ ts, Canon t) :
    ∃ tg, targetsV (perf.map (·.map flat)) = some tg ∧ elabTargets text t = .ok tg := by
  unfold elabTargets
  cases he : t.addons.performance.range.empty with
  | true =>
    simp only [he, Bool.not_true, Bool.false_eq_true, if_false, Option.pure_def, Option.some.injEq] at hview
    cases perf with
    | some ts => cases hview
    | none => exact ⟨none, rfl, rfl⟩
  | false =>
    simp only [he, Bool.not_false, if_true, Option.map_eq_some_iff] at hview
    obtain ⟨xs, hxs, hp⟩ := hview
    cases perf with
    | none => cases hp
    | some ts =>
      simp only [Option.map_some, Option.some.injEq] at hp
      subst hp
      have hf := forall2_of_mapM (fun (c : Syntax.Commodity) => c.range.extract text) flat _ ts hxs
      have hf' := forall2_strengthen (P := fun x => CommodityOK x ∧ Canon x) hf
        (fun x hx => ⟨hok ts rfl x hx, hcan ts rfl x hx⟩)
      obtain ⟨ss, h1, h2⟩ := targets_list_agree _ ts hf'
      refine ⟨some ss, ?_, ?_⟩
      · simp only [targetsV, Option.map_some, h1]
      · simp only [Bool.false_eq_true, if_false, h2]
        rfl

def accrualOptV (accr : Option AccrualV) : Option (Option Accrual.Addon) :=
  match accr with
  | none => some none
  | some a => (accrualV a).map some

def addonWF (a : Option Accrual.Addon) : Bool :=
  match a with
  | none => true
  | some a => a.account.wf

theorem accrual_agree {t : Syntax.Transaction} {accr : Option AccrualT}
    (hview : (if !t.addons.accrual.range.empty then (viewAccrual text t.addons.accrual).map some else pure none) =
      some (accr.map AccrualT.bytes))
    (hok : ∀ a, accr = some a → a.ok) (hcan : ∀ a, accr = some a → a.canon) :
    (IsErr (elabAccrualOpt text t) ∧ accrualOptV (accr.map AccrualT.bytes) = none) ∨
      (∃ ax, elabAccrualOpt text t = .ok ax ∧
        accrualOptV (accr.map AccrualT.bytes) = if addonWF ax then some ax else none) := by
  unfold elabAccrualOpt
  cases he : t.addons.accrual.range.empty with
  | true =>
    simp only [he, Bool.not_true, Bool.false_eq_true, if_false, Option.pure_def, Option.some.injEq] at hview
    cases accr with
    | some a => cases hview
    | none => exact Or.inr ⟨none, rfl, rfl⟩
  | false =>
    simp only [he, Bool.not_false, if_true, Option.map_eq_some_iff] at hview
    obtain ⟨av, hav, hp⟩ := hview
    cases accr with
    | none => cases hp
    | some a =>
      simp only [Option.map_some, Option.some.injEq] at hp
      subst hp
      have aok := hok a rfl
      have acan := hcan a rfl
      simp only [viewAccrual, AccrualT.bytes, Option.bind_eq_bind, Option.bind_eq_some_iff, Option.pure_def, Option.some.injEq,
        AccrualV.mk.injEq] at hav
      obtain ⟨_, g1, _, g2, _, g3, _, g4, rfl, rfl, rfl, rfl⟩ := hav
      obtain ⟨s, iv, i1, i2, i3, i4⟩ := interval_agree g1 acan.1 aok.1
      have d1 := date_agree g2 acan.2.1 aok.2.1.2
      have d2 := date_agree g3 acan.2.2.1 aok.2.2.1.2
      have ac := account_agree g4 acan.2.2.2 aok.2.2.2.2
      simp only [Bool.false_eq_true, if_false, elabAccrual, d1, d2, i2, i4, accrualOptV, Option.map_some, accrualV,
        AccrualT.bytes, i1, i3, ac, Option.bind_eq_bind, Option.bind_some, Option.pure_def]
      cases h1 : FromSyntax.parseDate (flat a.start) with
      | none => exact Or.inl ⟨⟨_, rfl⟩, rfl⟩
      | some z1 =>
        cases h2 : FromSyntax.parseDate (flat a.stop) with
        | none => exact Or.inl ⟨⟨_, rfl⟩, rfl⟩
        | some z2 =>
          right
          refine ⟨some ⟨iv, z1, z2, Account.ofName (textOf text t.addons.accrual.account.range)⟩, rfl, ?_⟩
          simp only [Option.bind_some, addonWF]
          by_cases hw : (Account.ofName (textOf text t.addons.accrual.account.range)).wf = true <;> simp [hw]


/-! ### directives -/

/-- what `model.ParseDirective` does with an elaborated item -/
def stepM : FromSyntax.Item → M (List Directive)
  | .price p => .ok [.price p]
  | .opening o => .ok [.opening o]
  | .closing c => .ok [.closing c]
  | .assertion a => .ok [.assertion a]
  | .includeFile _ => .ok []
  | .tx t =>
    match Accrual.create t with
    | .ok txs => .ok (txs.map .tx)
    | .error => .error (.error "invalid transaction")
    | .panic s => .error (.panic ("accrual: " ++ s))

theorem itemV_transaction (accr : Option AccrualV) (perf : Option (List (List UInt8))) (d desc : List UInt8) (bks : List BookingV) :
    itemV (.transaction accr perf d desc bks) =
      (FromSyntax.parseDate d).bind fun dt => (utf8 desc).bind fun ds => (bks.mapM bookingV).bind fun bs =>
        (targetsV perf).bind fun tg => (accrualOptV accr).bind fun ac =>
          some (FromSyntax.Item.tx { date := dt, description := ds, bookings := bs, targets := tg, accrual := ac }) := by
  cases accr <;> cases perf <;> rfl

theorem viewTransaction_eq (t : Syntax.Transaction) :
    viewTransaction text t =
      (if !t.addons.accrual.range.empty then (viewAccrual text t.addons.accrual).map some else pure none).bind fun accr =>
      (if !t.addons.performance.range.empty then
        (t.addons.performance.targets.mapM (fun (c : Syntax.Commodity) => c.range.extract text)).map some
       else pure none).bind fun perf =>
      (t.date.range.extract text).bind fun date => (t.description.content.extract text).bind fun desc =>
      (t.bookings.mapM (viewBooking text)).bind fun bookings => some (.transaction accr perf date desc bookings) := by
  unfold viewTransaction
  cases t.addons.accrual.range.empty <;> cases t.addons.performance.range.empty <;> rfl

theorem create_not_wf {inp : Accrual.TxInput} (h : (inp.bookings.all bookingWF && addonWF inp.accrual) = false) :
    Accrual.create inp = .error := by
  unfold Accrual.create
  by_cases hb : inp.bookings.all bookingWF = true
  · have hb' : (inp.bookings.all fun b => b.credit.wf && b.debit.wf) = true := hb
    simp only [hb', Bool.not_true, Bool.false_eq_true, if_false]
    rw [hb, Bool.true_and] at h
    cases ha : inp.accrual with
    | none => rw [ha] at h; cases h
    | some a =>
      rw [ha] at h
      simp only [addonWF] at h
      simp only [Accrual.expand, h, Bool.not_false, if_true]
  · have hb' : (inp.bookings.all fun b => b.credit.wf && b.debit.wf) = false := by
      simpa [bookingWF] using hb
    simp only [hb', Bool.not_false, if_true]

theorem transaction_agree {t : Syntax.Transaction} {accr : Option AccrualT} {perf : Option (List (List Tok))}
    {d desc : List Tok} {bks : List BookingT}
    (hview : viewTransaction text t = some (DirT.transaction accr perf d desc bks).bytes)
    (hok : (DirT.transaction accr perf d desc bks).ok) (hcan : (DirT.transaction accr perf d desc bks).canon) :
    Agrees (itemV (DirT.transaction accr perf d desc bks).bytes) (elabTransaction text t) stepM := by
  obtain ⟨okA, okP, okD, okC, _, okB⟩ := hok
  obtain ⟨canA, canP, canD, canC, canB⟩ := hcan
  rw [viewTransaction_eq] at hview
  simp only [DirT.bytes, Option.bind_eq_some_iff, Option.some.injEq, DirV.transaction.injEq] at hview
  obtain ⟨a', hA, p', hP, d', hD, c', hC, b', hB, rfl, rfl, rfl, rfl, rfl⟩ := hview
  have hdate := date_agree hD canD okD.2
  obtain ⟨ds, hds, hdt⟩ := str_agree hC canC okC.2
  have hfb := forall2_strengthen (P := fun w : BookingT => w.ok ∧ w.canon)
    (forall2_of_mapM (viewBooking text) BookingT.bytes _ bks hB) (fun w hw => ⟨okB w hw, canB w hw⟩)
  have hbk := bookings_agree (text := text) t.bookings bks hfb
  obtain ⟨tg, htg, hte⟩ := targets_agree (text := text) (t := t) (perf := perf) hP okP canP
  have hac := accrual_agree (text := text) (t := t) (accr := accr) hA okA canA
  rw [DirT.bytes, itemV_transaction]
  unfold elabTransaction Commands.txInput
  rw [hdate, hds, htg]
  cases h1 : FromSyntax.parseDate (flat d) with
  | none => exact ⟨_, rfl⟩
  | some z =>
    simp only [Option.bind_some, bind_ok]
    rcases hbk with ⟨⟨m, hm⟩, hn⟩ | ⟨xs, hxs, hvs⟩
    · rw [hm, hn]
      exact ⟨m, rfl⟩
    · rw [hxs, hvs, hte]
      simp only [bind_ok]
      rcases hac with ⟨⟨m, hm⟩, hn⟩ | ⟨ax, hax, hav⟩
      · rw [hm, hn]
        have : ((if xs.all bookingWF = true then some xs else none).bind fun bs => (none : Option (Option Accrual.Addon)).bind fun ac =>
            some (FromSyntax.Item.tx { date := z, description := ds, bookings := bs, targets := tg, accrual := ac })) = none := by
          split <;> rfl
        rw [this]
        exact ⟨m, rfl⟩
      · rw [hax, hav, hdt]
        simp only [bind_ok, pure_ok]
        by_cases hw : (xs.all bookingWF && addonWF ax) = true
        · simp only [Bool.and_eq_true] at hw
          simp only [hw.1, hw.2, if_true, Option.bind_some, agrees_some, stepM]
          cases Accrual.create { date := z, description := ds, bookings := xs, targets := tg, accrual := ax } <;> rfl
        · have hw' : (xs.all bookingWF && addonWF ax) = false := by simpa using hw
          have hc := create_not_wf (inp := { date := z, description := ds, bookings := xs, targets := tg, accrual := ax }) hw'
          have hn : ((if xs.all bookingWF = true then some xs else none).bind fun bs =>
              (if addonWF ax = true then some ax else none).bind fun ac =>
                some (FromSyntax.Item.tx { date := z, description := ds, bookings := bs, targets := tg, accrual := ac })) = none := by
            by_cases h1 : xs.all bookingWF = true
            · by_cases h2 : addonWF ax = true
              · rw [h1, h2] at hw'; cases hw'
              · simp [h1, h2]
            · simp [h1]
          rw [hn, hc]
          exact ⟨_, rfl⟩


theorem elabDirective_agree {d : Syntax.Directive} {v : DirT} (hview : viewDirective text d = some v.bytes)
    (hok : v.ok) (hcan : v.canon) :
    Agrees (itemV v.bytes) (elabDirective text d) stepM := by
  unfold viewDirective at hview
  unfold elabDirective
  cases hb : d.body with
  | transaction t =>
    simp only [hb] at hview ⊢
    cases v with
    | transaction accr perf dt desc bks => exact transaction_agree hview hok hcan
    | _ =>
      rw [viewTransaction_eq] at hview
      simp only [DirT.bytes, Option.bind_eq_some_iff, Option.some.injEq, reduceCtorEq, and_false, exists_false] at hview
  | «open» o =>
    simp only [hb, Option.bind_eq_bind, Option.bind_eq_some_iff, Option.pure_def, Option.some.injEq] at hview ⊢
    obtain ⟨_, g1, _, g2, e⟩ := hview
    cases v with
    | «open» dt a =>
      simp only [DirT.bytes, DirV.open.injEq] at e
      obtain ⟨rfl, rfl⟩ := e
      have a1 := elabAccount_agree g2 hcan.2 hok.2.2
      have a2 := date_agree g1 hcan.1 hok.1.2
      simp only [DirT.bytes, itemV, Option.bind_eq_bind, Option.pure_def, a2]
      cases h1 : accountV (flat a) with
      | none =>
        rw [h1] at a1
        obtain ⟨m, hm⟩ := a1
        exact ⟨m, by rw [hm]; rfl⟩
      | some acc =>
        rw [h1] at a1
        simp only [Option.bind_some] at a1 ⊢
        rw [a1]
        cases h2 : FromSyntax.parseDate (flat dt) with
        | none => exact ⟨_, rfl⟩
        | some z => rfl
    | _ => simp [DirT.bytes] at e
  | close o =>
    simp only [hb, Option.bind_eq_bind, Option.bind_eq_some_iff, Option.pure_def, Option.some.injEq] at hview ⊢
    obtain ⟨_, g1, _, g2, e⟩ := hview
    cases v with
    | close dt a =>
      simp only [DirT.bytes, DirV.close.injEq] at e
      obtain ⟨rfl, rfl⟩ := e
      have a1 := elabAccount_agree g2 hcan.2 hok.2.2
      have a2 := date_agree g1 hcan.1 hok.1.2
      simp only [DirT.bytes, itemV, Option.bind_eq_bind, Option.pure_def, a2]
      cases h1 : accountV (flat a) with
      | none =>
        rw [h1] at a1
        obtain ⟨m, hm⟩ := a1
        exact ⟨m, by rw [hm]; rfl⟩
      | some acc =>
        rw [h1] at a1
        simp only [Option.bind_some] at a1 ⊢
        rw [a1]
        cases h2 : FromSyntax.parseDate (flat dt) with
        | none => exact ⟨_, rfl⟩
        | some z => rfl
    | _ => simp [DirT.bytes] at e
  | price p =>
    simp only [hb, Option.bind_eq_bind, Option.bind_eq_some_iff, Option.pure_def, Option.some.injEq] at hview ⊢
    obtain ⟨_, g1, _, g2, _, g3, _, g4, e⟩ := hview
    cases v with
    | price dt c pr tg =>
      simp only [DirT.bytes, DirV.price.injEq] at e
      obtain ⟨rfl, rfl, rfl, rfl⟩ := e
      have a1 := date_agree g1 hcan.1 hok.1.2
      obtain ⟨s1, u1, e1⟩ := commodity_agree g2 hcan.2.1 hok.2.1
      have a3 := dec_agree g3 hcan.2.2.1 hok.2.2.1.2
      obtain ⟨s2, u2, e2⟩ := commodity_agree g4 hcan.2.2.2 hok.2.2.2
      simp only [DirT.bytes, itemV, Option.bind_eq_bind, Option.pure_def, a1, u1, e1, a3, u2, e2]
      cases h1 : FromSyntax.parseDate (flat dt) with
      | none => exact ⟨_, rfl⟩
      | some z =>
        simp only [Option.bind_some, bind_ok]
        cases h2 : decimalV (flat pr) with
        | none => exact ⟨_, rfl⟩
        | some q => rfl
    | _ => simp [DirT.bytes] at e
  | «include» i =>
    simp only [hb, Option.bind_eq_bind, Option.bind_eq_some_iff, Option.pure_def, Option.some.injEq] at hview ⊢
    obtain ⟨_, g1, e⟩ := hview
    cases v with
    | «include» p =>
      simp only [DirT.bytes, DirV.include.injEq] at e
      subst e
      obtain ⟨s, hu, _⟩ := str_agree g1 hcan hok.2
      simp only [DirT.bytes, itemV, hu, Option.bind_eq_bind, Option.bind_some, Option.pure_def]
      rfl
    | _ => simp [DirT.bytes] at e
  | assertion a =>
    simp only [hb, Option.bind_eq_bind, Option.bind_eq_some_iff, Option.pure_def, Option.some.injEq] at hview ⊢
    obtain ⟨_, g1, _, g2, e⟩ := hview
    cases v with
    | assertion dt bs =>
      simp only [DirT.bytes, DirV.assertion.injEq] at e
      obtain ⟨rfl, rfl⟩ := e
      have a1 := date_agree g1 hcan.1 hok.1.2
      have hf := forall2_strengthen (P := fun w : BalanceT => w.ok ∧ w.canon)
        (forall2_of_mapM (viewBalance text) BalanceT.bytes _ bs g2) (fun w hw => ⟨hok.2.2 w hw, hcan.2 w hw⟩)
      have a2 := mapM_agree (elabBalance text) (fun w : BalanceT => balanceV w.bytes)
        (fun b w => viewBalance text b = some w.bytes ∧ (w.ok ∧ w.canon))
        (fun b w h => balance_agree h.1 h.2.1 h.2.2) a.balances bs hf
      simp only [DirT.bytes, itemV, Option.bind_eq_bind, Option.pure_def, a1, List.mapM_map]
      cases h1 : FromSyntax.parseDate (flat dt) with
      | none => exact ⟨_, rfl⟩
      | some z =>
        simp only [Option.bind_some, bind_ok]
        cases h2 : bs.mapM (fun w : BalanceT => balanceV w.bytes) with
        | none =>
          rw [h2] at a2
          obtain ⟨m, hm⟩ := a2
          have : bs.mapM (balanceV ∘ BalanceT.bytes) = none := h2
          simp only [this, Option.bind_none]
          exact ⟨m, by rw [hm]; rfl⟩
        | some xs =>
          rw [h2] at a2
          have : bs.mapM (balanceV ∘ BalanceT.bytes) = some xs := h2
          simp only [agrees_some] at a2
          simp only [this, Option.bind_some, a2, bind_ok, pure_ok, agrees_some, stepM]
    | _ => simp [DirT.bytes] at e


/-! ### files -/

/-- `loadText` after the parse, with the accumulator of `loadItems.go` -/
def core (text : List UInt8) (ds : List Syntax.Directive) (acc : List Directive) : Loaded :=
  match ds.mapM (item text) with
  | none =>
    match loadItems.go (okPrefix (item text) ds) acc with
    | .panic s => .panic s
    | _ => .error
  | some its => loadItems.go its acc

theorem loadText_core (path : String) (text : List UInt8) :
    loadText path text = (match parseText path text with | .error _ => .error | .ok f => core text f.directives []) := by
  unfold loadText core loadFailed loadItems
  cases parseText path text with
  | error e => rfl
  | ok f =>
    simp only
    cases f.directives.mapM (item text) with
    | none => simp only; cases loadItems.go (okPrefix (item text) f.directives) [] <;> rfl
    | some its => rfl

/-- one step of `loadItems.go` -/
def stepL (it : FromSyntax.Item) (acc : List Directive) (k : List Directive → Loaded) : Loaded :=
  match it with
  | .price p => k (.price p :: acc)
  | .opening o => k (.opening o :: acc)
  | .closing c => k (.closing c :: acc)
  | .assertion a => k (.assertion a :: acc)
  | .includeFile _ => k acc
  | .tx t =>
    match Accrual.create t with
    | .ok txs => k ((txs.map Directive.tx).reverse ++ acc)
    | .error => .error
    | .panic s => .panic s

theorem core_nil (acc : List Directive) : core text [] acc = .ok acc.reverse := rfl

theorem core_cons_none {d : Syntax.Directive} (ds : List Syntax.Directive) (acc : List Directive) (h : item text d = none) :
    core text (d :: ds) acc = .error := by
  simp only [core, List.mapM_cons, h, Option.bind_eq_bind, Option.bind_none, okPrefix, loadItems.go]

theorem core_of_none {ds : List Syntax.Directive} (hm : ds.mapM (item text) = none) (acc : List Directive) :
    core text ds acc = (match loadItems.go (okPrefix (item text) ds) acc with | .panic s => .panic s | _ => .error) := by
  simp only [core, hm]

theorem core_of_some {ds : List Syntax.Directive} {its : List FromSyntax.Item} (hm : ds.mapM (item text) = some its)
    (acc : List Directive) : core text ds acc = loadItems.go its acc := by
  simp only [core, hm]

theorem core_cons_some {d : Syntax.Directive} {it : FromSyntax.Item} (ds : List Syntax.Directive) (acc : List Directive)
    (h : item text d = some it) : core text (d :: ds) acc = stepL it acc (core text ds) := by
  cases hm : ds.mapM (item text) with
  | none =>
    have hm' : (d :: ds).mapM (item text) = none := by
      simp only [List.mapM_cons, h, hm, Option.bind_eq_bind, Option.bind_some, Option.bind_none]
    rw [core_of_none hm']
    simp only [okPrefix, h]
    cases it with
    | tx t =>
      simp only [loadItems.go, stepL]
      cases Accrual.create t with
      | ok txs => simp only [core_of_none hm]
      | error => rfl
      | panic s => rfl
    | _ => simp only [loadItems.go, stepL, core_of_none hm]
  | some its =>
    have hm' : (d :: ds).mapM (item text) = some (it :: its) := by
      simp only [List.mapM_cons, h, hm, Option.bind_eq_bind, Option.bind_some, Option.pure_def]
    rw [core_of_some hm']
    cases it with
    | tx t =>
      simp only [loadItems.go, stepL]
      cases Accrual.create t with
      | ok txs => simp only [core_of_some hm]
      | error => rfl
      | panic s => rfl
    | _ => simp only [loadItems.go, stepL, core_of_some hm]

/-- the string-based elaboration of a list of directives against the byte-based one -/
def SameLoad (r : M (List (List Directive))) (acc : List Directive) (L : Loaded) : Prop :=
  (∃ dss, r = .ok dss ∧ L = .ok (acc.reverse ++ dss.flatten)) ∨ (IsErr r ∧ L = .error) ∨
    (∃ t, r = .error (.panic ("accrual: " ++ t)) ∧ L = .panic t)

theorem sameLoad_cons {x : List Directive} {r : M (List (List Directive))} {acc : List Directive} {L : Loaded}
    (h : SameLoad r (x.reverse ++ acc) L) :
    SameLoad ((Except.ok x : M (List Directive)) >>= fun y => r >>= fun ys => pure (y :: ys)) acc L := by
  rcases h with ⟨dss, hr, hL⟩ | ⟨⟨m, hm⟩, hL⟩ | ⟨t, hr, hL⟩
  · left
    refine ⟨x :: dss, by rw [hr]; rfl, ?_⟩
    rw [hL]; simp
  · right; left
    exact ⟨⟨m, by rw [hm]; rfl⟩, hL⟩
  · right; right
    exact ⟨t, by rw [hr]; rfl, hL⟩

theorem dirs_agree : ∀ (ds : List Syntax.Directive) (vs : List DirT),
    List.Forall₂ (fun d v => viewDirective text d = some v.bytes ∧ (v.ok ∧ v.canon)) ds vs →
    ∀ acc, SameLoad (ds.mapM (elabDirective text)) acc (core text ds acc)
  | [], [], _, acc => Or.inl ⟨[], rfl, by simp [core_nil]⟩
  | d :: ds, v :: vs, hf, acc => by
    cases hf with
    | cons hdv hrest =>
      have ih := dirs_agree ds vs hrest
      have hit : item text d = itemV v.bytes := item_of_view hdv.1
      have hag := elabDirective_agree hdv.1 hdv.2.1 hdv.2.2
      rw [← hit] at hag
      rw [List.mapM_cons]
      cases hi : item text d with
      | none =>
        rw [hi] at hag
        obtain ⟨m, hm⟩ := hag
        rw [core_cons_none ds acc hi, hm]
        exact Or.inr (Or.inl ⟨⟨m, rfl⟩, rfl⟩)
      | some it =>
        rw [hi] at hag
        simp only [agrees_some] at hag
        rw [core_cons_some ds acc hi, hag]
        cases it with
        | tx t =>
          simp only [stepM, stepL]
          cases hc : Accrual.create t with
          | ok txs =>
            simp only
            apply sameLoad_cons
            have := ih ((txs.map Directive.tx).reverse ++ acc)
            exact this
          | error => exact Or.inr (Or.inl ⟨⟨_, rfl⟩, rfl⟩)
          | panic s => exact Or.inr (Or.inr ⟨s, rfl, rfl⟩)
        | includeFile p =>
          simp only [stepM, stepL]
          apply sameLoad_cons
          exact ih acc
        | price p => simp only [stepM, stepL]; apply sameLoad_cons; exact ih _
        | opening p => simp only [stepM, stepL]; apply sameLoad_cons; exact ih _
        | closing p => simp only [stepM, stepL]; apply sameLoad_cons; exact ih _
        | assertion p => simp only [stepM, stepL]; apply sameLoad_cons; exact ih _

/-- **`Commands.elabFile` and `FromSyntax.loadText` agree on every parsed file**: the same directives, an error when the
other reports an error, the `transaction.Create` panic (tagged `accrual: `) when the other panics -/
theorem elabFile_agree {path : String} {text : List UInt8} {f : Syntax.File} (hp : parseText path text = .ok f) :
    match loadText path text with
    | .ok ds => elabFile (text, f) = .ok ds
    | .error => IsErr (elabFile (text, f))
    | .panic s => elabFile (text, f) = .error (.panic ("accrual: " ++ s)) := by
  obtain ⟨vs, hvs, hviews⟩ := parse_views hp
  have hf := forall2_strengthen (P := fun v : DirT => v.ok ∧ v.canon)
    (forall2_of_mapM (viewDirective text) DirT.bytes _ vs hviews) hvs
  have := dirs_agree (text := text) f.directives vs hf []
  rw [loadText_core, hp]
  simp only
  unfold elabFile
  simp only
  rcases this with ⟨dss, hr, hL⟩ | ⟨⟨m, hm⟩, hL⟩ | ⟨t, hr, hL⟩
  · rw [hL, hr]; simp; rfl
  · rw [hL, hm]; exact ⟨m, rfl⟩
  · rw [hL, hr]; rfl

end
end Knut.ElabAgree
