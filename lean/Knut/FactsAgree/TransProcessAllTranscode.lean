import Knut.FactsAgree.TransProcessAllBalance
import Knut.FactsAgree.TransBeancount
import Knut.FactsAgree.TransJPrinter2
import Knut.Proofs.Check
/-!
# `knut transcode`: `j.Process(Sort(), ComputePrices(v), check.Check(), Valuate(reg, v))` over a WHOLE journal

The processor list is the one of `cmd/commands/transcode.go` (`execute`; the order was read off the source by hand here and is PINNED by
`FactsAgree/ProcOrderTranscode`, `ProcOrder.transcodeOrder_eq`, against the list extracted from the source on every run).  `processAllTranscode` is its sequential
meaning, `Pipeline.seqRun` of the system `transcodeSys` — four stages, stage `k` = the translated closures of the `k`-th processor folded
over a day by `Processor.Process` (`TransProcess.processDay`), each on its own field of the record `TrGo`.  That `cpr.Seq` delivers
`seqRun` on every successful schedule is `C19.C19_confluent` (`processAllTranscode_meaning`); `seqRun` as the meaning of
`Journal.Process` is the stated modelling step of `TransProcessAll.lean`.

* `processAllTranscode_eq`: stage-major `seqRun` = all four stages on every day in turn (`fusedTranscode`);
* **`transcode_day_agrees`**: one day through the four translated stages against `Beancount.processDay` of the model, in BOTH
  directions: both succeed — the captured states related again (`TrInv`), the Go day standing for the model's processed day as far as
  `beancount.Transcode` reads it (`TransBeancount.PDayRel`) — or both fail (never a panic, never out of fuel);
* **`processAllTranscode_agrees`**: over the journal, by induction: the Go run succeeds ⇒ the model's run (`ProcOrd`) succeeds and the
  days that leave the last stage stand for its processed days; the Go run fails ⇒ the model's run fails (`ProcFail`).

THE UNSTABLE SORT.  `Sort` is `compare.Sort(d.Transactions, transaction.Compare)` = `sort.Slice`: WHICH sorted permutation comes back is
the parameter `srt` (as in `TransJPrinter2`), assumed to be a permutation in which no later element is `Smaller` than an earlier one on
the days' transactions (`SortOK`).  The model sorts with the stable `sortTxs`; the stages after `Sort` see the order (the checker's
state, the order of the valued transactions).  Stated assumptions under which every admissible `srt` yields the model's list:
`TargetsOK d` (transactions of a day that compare equal carry the same `@performance` targets — `transaction.Compare` does not look at
them) and `AccountsByName` (one account per name among the day's postings — what the registry guarantees); then transactions that
compare equal ARE equal and the sorted permutation is unique (`sorted_perm_eq`).  `DayRelS`: the Go days stand for the model's, the
descriptions exactly the model's (`Sort` compares them).

MAP ITERATION ORDER.  As for `knut balance`: `Valuate.DayStart` ranges over a Go map; the theorems hold for EVERY family of iteration
orders `oV` that reach every key once; the model's run is the one in which `vQty` is re-listed before each day in the order Go iterates
(`ProcOrd` / `ProcFail`: lookup-equivalent list without duplicate keys).  `Beancount.process` is the instance that re-lists nothing
(`Properties/C16Go2.lean`: `ProcOrd_of_processFrom`); the clauses of C16 are proved there for every `ProcOrd`.

DESCRIPTIONS.  `Valuate` builds its value adjustments through `transaction.Builder.Build`, which replaces `"` by `'` in the description;
the model keeps the description.  `DescOK`: the descriptions of the model's processed day contain nothing `descText` changes (they are
made of account and commodity names, which cannot contain `"`; a user's description is a quoted string).
-/
namespace Knut.FactsAgree.TransProcessAll
open Knut Knut.GoSem Knut.Pipeline
open Knut.Generated.Go
open Knut.FactsAgree.TransProcess Knut.FactsAgree.TransCheck
open Knut.FactsAgree.TransAccount (accountGo)
open Knut.FactsAgree.TransPrice (cGo)
open Knut.FactsAgree.TransJPrinter2 (SortOK sortProc sortDay TRelE TargetsOK AllRel_perm AllRel_pairwise le_of_not_smaller AllRel_imp
  pointwise_targets)
open Knut.FactsAgree.TransBeancount (PDayRel TRelB AccountsByName TEq cmpTx_eq_TEq)

/-! ### the sorted permutation is unique -/

theorem eq_of_pointwise {ts : List Knut.Transaction} (hinj : AccountsByName ts) : ∀ {l1 l2 : List Knut.Transaction},
    List.Forall₂ (fun x y => JournalPrinter.cmpTx x y = .eq ∧ x.targets = y.targets) l1 l2 →
    (∀ x ∈ l1, x ∈ ts) → (∀ y ∈ l2, y ∈ ts) → l1 = l2 := by
  intro l1 l2 h
  induction h with
  | nil => intro _ _; rfl
  | @cons x y l1 l2 hxy _ ih =>
    intro h1 h2
    obtain ⟨e1, e2, e3⟩ := cmpTx_eq_TEq hinj (h1 x List.mem_cons_self) (h2 y List.mem_cons_self) hxy.1
    have e4 := hxy.2
    have hxy' : x = y := by
      cases x; cases y
      simp only at e1 e2 e3 e4
      subst e1 e2 e3 e4
      rfl
    rw [hxy', ih (fun a ha => h1 a (List.mem_cons_of_mem _ ha)) (fun a ha => h2 a (List.mem_cons_of_mem _ ha))]

/-- under `TargetsOK` and `AccountsByName` a sorted permutation of the day's transactions is the model's `sortTxs` of them -/
theorem sorted_perm_eq (d : Knut.Day) (ht : TargetsOK d) (hinj : AccountsByName d.transactions) (ts' : List Knut.Transaction)
    (hp : ts'.Perm d.transactions) (hs : ts'.Pairwise (fun a b => JournalPrinter.leTx a b = true)) :
    ts' = JournalPrinter.sortTxs d.transactions := by
  have hperm : ts'.Perm (JournalPrinter.sortTxs d.transactions) := hp.trans (List.mergeSort_perm _ _).symm
  have hpw := Knut.Layout.sorted_perm_pointwise JournalPrinter.leTx JournalPrinter.leTx_trans Knut.Layout.leTx_refl _ _ hs
    (JournalPrinter.sortTxs_sorted d.transactions) hperm
  exact eq_of_pointwise hinj
    (pointwise_targets d ht hpw (fun x hx => hp.mem_iff.mp hx) (fun y hy => (List.mergeSort_perm _ _).mem_iff.mp hy))
    (fun x hx => hp.mem_iff.mp hx) (fun y hy => (List.mergeSort_perm _ _).mem_iff.mp hy)

/-- a Go day stands for the model day, the descriptions of its transactions exactly the model's -/
structure DayRelS (cur : String → Bool) (g : journal.Day) (d : Knut.Day) : Prop where
  rel : DayRel cur g d
  exact : AllRel (TRelE cur) g.Transactions d.transactions

/-- the model day as `Sort` leaves it -/
def sd (d : Knut.Day) : Knut.Day := { d with transactions := JournalPrinter.sortTxs d.transactions }

/-- **the day after `Sort`** stands for the model's sorted day, whatever sorted permutation `sort.Slice` chose -/
theorem sortedDay_eq (cur : String → Bool) (srt : List transaction.Transaction → List transaction.Transaction)
    {g : journal.Day} {d : Knut.Day} (hs : SortOK srt g.Transactions) (h : DayRelS cur g d) (ht : TargetsOK d)
    (hinj : AccountsByName d.transactions) :
    DayRel cur { g with Transactions := srt g.Transactions } (sd d) := by
  obtain ⟨ts', hE, hperm⟩ := AllRel_perm hs.perm h.exact
  have hsorted : ts'.Pairwise (fun a b => JournalPrinter.leTx a b = true) :=
    AllRel_pairwise (P := fun a b => transaction.Compare b a ≠ .ok (-1)) (Q := fun x y => JournalPrinter.leTx x y = true)
      (fun a b x y hax hby hab => le_of_not_smaller cur hax hby hab) hE hs.sorted
  have he := sorted_perm_eq d ht hinj ts' hperm hsorted
  subst he
  exact ⟨h.rel.date, h.rel.prices, h.rel.openings, AllRel_imp (fun _ _ r => r.1) hE, h.rel.assertions, h.rel.closings⟩

/-! ### the system -/

/-- the captured states of the four processors -/
structure TrGo where
  so : journal.Sort_.State
  cp : journal.ComputePrices.State
  chk : check.Checker
  va : journal.Valuate.State

/-- what the processors are built from, and the parameters the translation makes explicit -/
structure TrPar where
  val : commodity.Commodity                              -- `valuation` (non-nil: `execute` returns before otherwise)
  ext1 : account.Account → account.Account               -- `reg.Accounts().ValuationAccountFor`
  srt : List transaction.Transaction → List transaction.Transaction  -- what `sort.Slice` returns for `compare.Sort(·, Compare)`
  ord : check.Checker → close.Close → List amounts.Key   -- iteration order of `Checker.close`
  fuel : journal.ComputePrices.State → journal.Day → Nat -- fuel of `Prices.Normalize`
  oV : journal.Valuate.State → journal.Day → List amounts.Key        -- iteration order of `Valuate.DayStart`

def tSort (P : TrPar) : Stage journal.Sort_.State := stageOf (processDay (sortProc P.srt))
def tPrices (P : TrPar) : Stage journal.ComputePrices.State :=
  stageOf (fun st d => processDay (computePricesProc P.val (P.fuel st d)) st d)
def tCheck (P : TrPar) : Stage check.Checker := stageOf (processDay (checkProc P.ord))
def tValuate (P : TrPar) : Stage journal.Valuate.State :=
  stageOf (fun st d => processDay (valuateProc P.val P.ext1 (P.oV st d)) st d)

/-- **the instantiation of `Pipeline.Sys`** for `Process(Sort(), ComputePrices(v), check.Check(), Valuate(reg, v))` -/
def transcodeSys (P : TrPar) (G0 : TrGo) (days : List journal.Day) : Sys TrGo journal.Day PErr :=
  { n := 4, init := fun _ => G0, items := days,
    f := fun k =>
      match k with
      | 1 => liftStage TrGo.so (fun S s => { S with so := s }) (tSort P)
      | 2 => liftStage TrGo.cp (fun S s => { S with cp := s }) (tPrices P)
      | 3 => liftStage TrGo.chk (fun S s => { S with chk := s }) (tCheck P)
      | 4 => liftStage TrGo.va (fun S s => { S with va := s }) (tValuate P)
      | _ => idStage }

/-- **the sequential meaning of `Journal.Process` for `knut transcode`**: the days as they leave the last stage (what
`beancount.Transcode` is handed), `none` if a stage failed -/
def processAllTranscode (P : TrPar) (G0 : TrGo) (days : List journal.Day) : Option (List journal.Day) :=
  seqRun (transcodeSys P G0 days)

/-- every successful schedule of the transition system of `cpr.Seq` delivers `processAllTranscode` (`C19_confluent`) -/
theorem processAllTranscode_meaning (P : TrPar) (G0 : TrGo) (days : List journal.Day)
    {s : St TrGo journal.Day PErr} (h : Reach (transcodeSys P G0 days) s) (hd : s.done (transcodeSys P G0 days)) :
    processAllTranscode P G0 days = some s.out := seq_meaning h hd

abbrev TFused := ((journal.Sort_.State × journal.ComputePrices.State) × check.Checker) × journal.Valuate.State

/-- all four stages on one day -/
def fusedTranscode (P : TrPar) : TFused → journal.Day → Except PErr (TFused × journal.Day) :=
  fuse (fuse (fuse (tSort P) (tPrices P)) (tCheck P)) (tValuate P)

def tFusedInit (G0 : TrGo) : TFused := (((G0.so, G0.cp), G0.chk), G0.va)

/-- **stage-major = day-major** -/
theorem processAllTranscode_eq (P : TrPar) (G0 : TrGo) (days : List journal.Day) :
    processAllTranscode P G0 days = seqStage (fusedTranscode P) (tFusedInit G0) days := by
  unfold processAllTranscode seqRun transcodeSys fusedTranscode tFusedInit
  simp only [seqUpTo, Option.bind_some]
  rw [seqStage_lift' TrGo.so _ (fun _ _ => rfl), seqStage_lift' TrGo.cp _ (fun _ _ => rfl),
    seqStage_lift' TrGo.chk _ (fun _ _ => rfl), seqStage_lift' TrGo.va _ (fun _ _ => rfl)]
  rw [seqStage_fuse, seqStage_fuse, seqStage_fuse]

/-- the four stages on one day, spelled out (`Sort` never fails) -/
theorem fusedTranscode_eq (P : TrPar) (g1 : journal.Sort_.State) (g2 : journal.ComputePrices.State) (g3 : check.Checker)
    (g4 : journal.Valuate.State) (dg : journal.Day) :
    fusedTranscode P (((g1, g2), g3), g4) dg =
      match tPrices P g2 { dg with Transactions := P.srt dg.Transactions } with
      | .error e => .error e
      | .ok (g2', a2) =>
        match tCheck P g3 a2 with
        | .error e => .error e
        | .ok (g3', a3) =>
          match tValuate P g4 a3 with
          | .error e => .error e
          | .ok (g4', a4) => .ok ((((⟨⟩, g2'), g3'), g4'), a4) := by
  have hsort : tSort P g1 dg = .ok (⟨⟩, { dg with Transactions := P.srt dg.Transactions }) := stageOf_ok (sortDay P.srt g1 dg)
  unfold fusedTranscode fuse
  simp only [hsort]
  cases tPrices P g2 { dg with Transactions := P.srt dg.Transactions } with
  | error e => rfl
  | ok r2 =>
    obtain ⟨g2', a2⟩ := r2
    simp only
    cases tCheck P g3 a2 with
    | error e => rfl
    | ok r3 =>
      obtain ⟨g3', a3⟩ := r3
      simp only
      cases tValuate P g4 a3 with
      | error e => rfl
      | ok r4 => rfl

/-! ### the model's day, spelled out; the re-listed runs -/

theorem processDay_eq (v : Knut.Commodity) (st : BalState) (d : Knut.Day) :
    Beancount.processDay v st d =
      match Balance.pricesDay v st (sd d) with
      | .error e => .error e
      | .ok sp =>
        match Check.day sp.chk (sd d) with
        | .error e => .error (BalErr.check e)
        | .ok c =>
          match Balance.valuateDay v { sp with chk := c } (sd d) with
          | .error e => .error e
          | .ok (s4, txs) => .ok (s4, { date := d.date, openings := d.openings, transactions := txs, closings := d.closings }) := by
  unfold Beancount.processDay sd Balance.checkStage
  simp only [bind, Except.bind]
  cases Balance.pricesDay v st { d with transactions := JournalPrinter.sortTxs d.transactions } with
  | error e => rfl
  | ok sp =>
    simp only
    cases Check.day sp.chk { d with transactions := JournalPrinter.sortTxs d.transactions } with
    | error e => rfl
    | ok c =>
      simp only
      cases Balance.valuateDay v { sp with chk := c } { d with transactions := JournalPrinter.sortTxs d.transactions } with
      | error e => rfl
      | ok r => rfl

/-- the model's run in which, before each day, `vQty` (the map `Valuate.DayStart` ranges over) is re-listed -/
inductive ProcOrd (v : Knut.Commodity) : BalState → List Knut.Day → List Beancount.ProcDay → Prop
  | nil (st : BalState) : ProcOrd v st [] []
  | cons {st st1 : BalState} {d : Knut.Day} {ds : List Knut.Day} {pd : Beancount.ProcDay} {pds : List Beancount.ProcDay}
      (vq : Knut.AMap Position Rat) : Relist st.vQty vq → Knut.AMap.NodupKeys vq →
      Beancount.processDay v { st with vQty := vq } d = .ok (st1, pd) → ProcOrd v st1 ds pds → ProcOrd v st (d :: ds) (pd :: pds)

/-- the re-listed run of the model fails (on its first day, or later) -/
inductive ProcFail (v : Knut.Commodity) : BalState → List Knut.Day → Prop
  | here {st : BalState} {d : Knut.Day} {ds : List Knut.Day} {e : BalErr} (vq : Knut.AMap Position Rat) :
      Relist st.vQty vq → Knut.AMap.NodupKeys vq → Beancount.processDay v { st with vQty := vq } d = .error e →
      ProcFail v st (d :: ds)
  | later {st st1 : BalState} {d : Knut.Day} {ds : List Knut.Day} {pd : Beancount.ProcDay} (vq : Knut.AMap Position Rat) :
      Relist st.vQty vq → Knut.AMap.NodupKeys vq → Beancount.processDay v { st with vQty := vq } d = .ok (st1, pd) →
      ProcFail v st1 ds → ProcFail v st (d :: ds)

/-- a map listed in an order without repetitions has no duplicate keys -/
theorem qtyIn_nodup (cur : String → Bool) {g : amounts.Amounts}
    (hkeys : ∀ k : amounts.Key, (Knut.AMap.find? g k).isSome → ∃ p, k = keyGo cur p) :
    ∀ o : List amounts.Key, o.Nodup → Knut.AMap.NodupKeys (qtyIn g o) := by
  intro o
  induction o with
  | nil => intro _; exact List.nodup_nil
  | cons k rest ih =>
    intro hnd
    have hnd' := List.nodup_cons.mp hnd
    cases hf : Knut.AMap.find? g k with
    | none =>
      have : qtyIn g (k :: rest) = qtyIn g rest := by simp [qtyIn, hf]
      rw [this]; exact ih hnd'.2
    | some x =>
      obtain ⟨r, rfl⟩ := hkeys k (by simp [hf])
      have : qtyIn g (keyGo cur r :: rest) = (r, x) :: qtyIn g rest := by simp [qtyIn, hf, posOf_keyGo]
      rw [this]
      unfold Knut.AMap.NodupKeys
      simp only [List.map_cons]
      refine List.nodup_cons.mpr ⟨?_, ih hnd'.2⟩
      intro hm
      obtain ⟨e, he, her⟩ := List.mem_map.mp hm
      unfold qtyIn at he
      obtain ⟨k', hk', hke⟩ := List.mem_filterMap.mp he
      cases hf' : Knut.AMap.find? g k' with
      | none => rw [hf'] at hke; cases hke
      | some y =>
        rw [hf'] at hke
        simp only [Option.map_some, Option.some.injEq] at hke
        obtain ⟨r', rfl⟩ := hkeys k' (by simp [hf'])
        rw [← hke, posOf_keyGo] at her
        simp only at her
        subst her
        exact hnd'.1 hk'

/-! ### the relation between the Go states and the model state -/

/-- what relates the parameters of the Go processors to the model's valuation commodity -/
structure TrParOK (cur : String → Bool) (v : Knut.Commodity) (P : TrPar) : Prop where
  val : P.val = cGo cur v
  ext1 : ∀ a : Knut.Account, P.ext1 (accountGo a) = accountGo (valuationAccountFor a)
  ord : OrdOK P.ord
  fuel : FuelOK cur v P.fuel
  oV : ∀ g dg k, (Knut.AMap.find? g.quantities k).isSome → k ∈ P.oV g dg
  oVnodup : ∀ g dg, (P.oV g dg).Nodup

/-- the captured states of the four processors stand for the model state -/
structure TrInv (cur : String → Bool) (G : TFused) (st : BalState) : Prop where
  cp : CPEquiv cur G.1.1.2 st.graph st.norm
  chk : StEquiv cur G.1.2 st.chk
  va : ∃ old, VEquiv cur G.2 st.vPrev old st.vQty

/-- the states the four constructors start from stand for the model's initial state -/
theorem TrInv_init (cur : String → Bool) (so : journal.Sort_.State) :
    TrInv cur (tFusedInit ⟨so, ⟨GoZero.zero, []⟩, checkInit, ⟨GoZero.zero, GoZero.zero, []⟩⟩) {} :=
  ⟨⟨TransPrice.PEquivS_nil cur, NPEquivO_nil cur⟩, checkInit_equiv cur, ⟨none, NPEquivO_nil cur, NPEquivO_nil cur, QEquiv_nil cur⟩⟩

/-- the descriptions of the model's processed day are left alone by `transaction.Builder.Build` (no `"` in them) -/
def DescOK (v : Knut.Commodity) (d : Knut.Day) : Prop :=
  ∀ (st st' : BalState) (pd : Beancount.ProcDay), Beancount.processDay v st d = .ok (st', pd) →
    ∀ t ∈ pd.transactions, JournalPrinter.descText t.description = t.description

/-- the day of a result of `Processor.Process` -/
def dayOf {σ : Type} (r : GoSem.Outcome (σ × journal.Day × Option Error)) (dflt : journal.Day) : journal.Day :=
  match r with
  | .ok (_, d', _) => d'
  | _ => dflt

theorem TRelB_of_TRel (cur : String → Bool) : ∀ {l : List transaction.Transaction} {txs : List Knut.Transaction},
    AllRel (TRel cur) l txs → (∀ t ∈ txs, JournalPrinter.descText t.description = t.description) → AllRel (TRelB cur) l txs
  | _, _, .nil, _ => .nil
  | _, _, .cons (b := t) h rest, hd => by
    refine .cons ⟨h.1, ?_, h.2.2.1⟩ (TRelB_of_TRel cur rest (fun t ht => hd t (List.mem_cons_of_mem _ ht)))
    rcases h.2.1 with e | e
    · exact e
    · rw [e]; exact hd t List.mem_cons_self

/-- **one day through the four translated stages against `Beancount.processDay`** of the model (its `vQty` re-listed in the order
`Valuate.DayStart` iterates): both succeed — the new states related again, the day that leaves `Valuate` standing for the model's
processed day as `beancount.Transcode` reads it — or both fail; the translated stages never panic and never run out of fuel -/
theorem transcode_day_agrees (cur : String → Bool) (v : Knut.Commodity) (P : TrPar) (hP : TrParOK cur v P)
    {G : TFused} {st : BalState} (hI : TrInv cur G st) (dg : journal.Day) (d : Knut.Day) (hd : DayRelS cur dg d)
    (hs : SortOK P.srt dg.Transactions) (ht : TargetsOK d) (hinj : AccountsByName d.transactions) (hdesc : DescOK v d) :
    ∃ vq, Relist st.vQty vq ∧ Knut.AMap.NodupKeys vq ∧
      match fusedTranscode P G dg, Beancount.processDay v { st with vQty := vq } d with
      | .ok (G', dg'), .ok (st', pd) => TrInv cur G' st' ∧ PDayRel cur dg' pd
      | .error _, .error _ => True
      | _, _ => False := by
  obtain ⟨⟨⟨g1, g2⟩, g3⟩, g4⟩ := G
  obtain ⟨hcp, hchk, old, hva⟩ := hI
  simp only at hcp hchk hva
  have hd1 : DayRel cur { dg with Transactions := P.srt dg.Transactions } (sd d) := sortedDay_eq cur P.srt hs hd ht hinj
  generalize hdgs : ({ dg with Transactions := P.srt dg.Transactions } : journal.Day) = dgs at hd1
  have hopen : dgs.Openings = dg.Openings := by rw [← hdgs]
  have hclose : dgs.Closings = dg.Closings := by rw [← hdgs]
  -- the re-listed `vQty`: in the order `Valuate.DayStart` iterates on the day that reaches it
  refine ⟨qtyIn g4.quantities (P.oV g4 (dayOf (processDay (computePricesProc P.val (P.fuel g2 dgs)) g2 dgs) dgs)),
    relist_of_QEquiv hva.qty _ (hP.oV g4 _), qtyIn_nodup cur hva.qty.keys _ (hP.oVnodup g4 _), ?_⟩
  rw [fusedTranscode_eq, hdgs, processDay_eq]
  have hval := hP.val
  -- stage 2: prices
  have A := ComputePrices_day_agrees cur v (P.fuel g2 dgs)
    { st with vQty := qtyIn g4.quantities (P.oV g4 (dayOf (processDay (computePricesProc P.val (P.fuel g2 dgs)) g2 dgs) dgs)) }
    hcp dgs (sd d) hd1.prices (fun graph' hg => hP.fuel g2 dgs _ _ (sd d) hcp hd1.prices graph' hg)
  rw [← hval] at A
  unfold tPrices stageOf
  dsimp only
  cases hr2 : processDay (computePricesProc P.val (P.fuel g2 dgs)) g2 dgs with
  | panic m => rw [hr2] at A; revert A; simp only [dayOf]; cases Balance.pricesDay v _ (sd d) <;> simp
  | outOfFuel => rw [hr2] at A; revert A; simp only [dayOf]; cases Balance.pricesDay v _ (sd d) <;> simp
  | ok r2 =>
    obtain ⟨g2', x2, e2⟩ := r2
    rw [hr2] at A
    simp only [dayOf] at A ⊢
    cases e2 with
    | some e =>
      revert A
      cases Balance.pricesDay v _ (sd d) <;> simp
    | none =>
      cases hpd : Balance.pricesDay v { st with vQty := qtyIn g4.quantities (P.oV g4 x2) } (sd d) with
      | error e => rw [hpd] at A; exact absurd A (by simp)
      | ok sp =>
        rw [hpd] at A
        simp only at A ⊢
        obtain ⟨hcp1, hx2, hvp, hvq⟩ := A
        obtain ⟨p1, _, _, _, _, _⟩ := pricesDay_fields hpd
        have hd2 : DayRel cur x2 (sd d) := by
          rw [hx2]; exact ⟨hd1.date, hd1.prices, hd1.openings, hd1.transactions, hd1.assertions, hd1.closings⟩
        -- stage 3: check
        have C := Check_day_agrees cur hP.ord hchk x2 (sd d) hd2
        rw [p1]
        unfold tCheck stageOf
        revert C
        cases hr3 : processDay (checkProc P.ord) g3 x2 with
        | panic m => cases Check.day st.chk (sd d) <;> simp [SimStep]
        | outOfFuel => cases Check.day st.chk (sd d) <;> simp [SimStep]
        | ok r3 =>
          obtain ⟨g3', x3, e3⟩ := r3
          cases e3 with
          | some e => cases Check.day st.chk (sd d) <;> simp [SimStep]
          | none =>
            cases hck : Check.day st.chk (sd d) with
            | error e => simp [SimStep]
            | ok c =>
              simp only [SimStep]
              intro C
              obtain ⟨hchk1, hx3⟩ := C
              subst hx3
              -- stage 4: valuate
              have hve' : VEquiv cur g4 ({ sp with chk := c } : BalState).vPrev old st.vQty := by
                show VEquiv cur g4 sp.vPrev old st.vQty
                rw [hvp]; exact hva
              have hn : NPEquivO cur x3.Normalized ({ sp with chk := c } : BalState).norm := by
                rw [hx2]; exact hcp1.previous
              have B := Valuate_day_agrees cur v P.ext1 hP.ext1 { sp with chk := c } hve' (P.oV g4 x3) (hP.oV g4 x3) x3 (sd d)
                hd2.date hn hd2.transactions
              have esp : ({ ({ sp with chk := c } : BalState) with vQty := qtyIn g4.quantities (P.oV g4 x3) } : BalState) =
                  { sp with chk := c } := by
                have : sp.vQty = qtyIn g4.quantities (P.oV g4 x3) := hvq
                cases sp
                simp only at this
                subst this
                rfl
              rw [esp, ← hval] at B
              unfold tValuate stageOf
              dsimp only
              revert B
              cases hr4 : processDay (valuateProc P.val P.ext1 (P.oV g4 x3)) g4 x3 with
              | panic m => cases Balance.valuateDay v { sp with chk := c } (sd d) <;> simp
              | outOfFuel => cases Balance.valuateDay v { sp with chk := c } (sd d) <;> simp
              | ok r4 =>
                obtain ⟨g4', x4, e4⟩ := r4
                cases e4 with
                | some e => cases Balance.valuateDay v { sp with chk := c } (sd d) <;> simp
                | none =>
                  cases hvd : Balance.valuateDay v { sp with chk := c } (sd d) with
                  | error e => simp
                  | ok r =>
                    obtain ⟨s4, txs⟩ := r
                    simp only
                    intro B
                    obtain ⟨hv2, l, hx4, hl⟩ := B
                    obtain ⟨f1, f2, f3, _, _, _⟩ := valuateDay_fields hvd
                    have hmo : Beancount.processDay v { st with vQty := qtyIn g4.quantities (P.oV g4 x3) } d =
                        .ok (s4, { date := d.date, openings := d.openings, transactions := txs, closings := d.closings }) := by
                      rw [processDay_eq, hpd]
                      simp only
                      rw [p1, hck]
                      simp only
                      rw [hvd]
                    refine ⟨⟨?_, ?_, ⟨_, hv2⟩⟩, ?_, ?_, ?_⟩
                    · show CPEquiv cur g2' s4.graph s4.norm
                      rw [f2, f3]; exact hcp1
                    · show StEquiv cur g3' s4.chk
                      rw [f1]; exact hchk1
                    · show AllRel Knut.FactsAgree.TransJournal.OpenRel x4.Openings d.openings
                      rw [hx4, hx2]
                      show AllRel Knut.FactsAgree.TransJournal.OpenRel dgs.Openings d.openings
                      rw [hopen]
                      exact AllRel_imp (fun _ _ h => h) hd.rel.openings
                    · show AllRel (TRelB cur) x4.Transactions txs
                      rw [hx4]
                      exact TRelB_of_TRel cur hl (hdesc _ _ _ hmo)
                    · show AllRel Knut.FactsAgree.TransJournal.CloseRel x4.Closings d.closings
                      rw [hx4, hx2]
                      show AllRel Knut.FactsAgree.TransJournal.CloseRel dgs.Closings d.closings
                      rw [hclose]
                      exact AllRel_imp (fun _ _ h => h) hd.rel.closings

/-- what the theorems presuppose of a model day (see the header): the unstable sort cannot show, descriptions without `"` -/
structure TrDayOK (v : Knut.Commodity) (d : Knut.Day) : Prop where
  targets : TargetsOK d
  accounts : AccountsByName d.transactions
  desc : DescOK v d

/-- **the whole journal, by induction over the days**, both directions -/
theorem transcode_seq_agrees (cur : String → Bool) (v : Knut.Commodity) (P : TrPar) (hP : TrParOK cur v P) :
    ∀ (gdays : List journal.Day) (days : List Knut.Day), AllRel (DayRelS cur) gdays days →
      (∀ g ∈ gdays, SortOK P.srt g.Transactions) → (∀ d ∈ days, TrDayOK v d) →
      ∀ (G : TFused) (st : BalState), TrInv cur G st →
        match seqStage (fusedTranscode P) G gdays with
        | some out => ∃ pds, ProcOrd v st days pds ∧ AllRel (PDayRel cur) out pds
        | none => ProcFail v st days := by
  intro gdays days hrel
  induction hrel with
  | nil =>
    intro _ _ G st _
    rw [seqStage_nil]
    exact ⟨[], .nil st, .nil⟩
  | @cons dg d gds ds hd _ ih =>
    intro hs hok G st hI
    have hdk := hok d List.mem_cons_self
    obtain ⟨vq, hr, hn, hm⟩ := transcode_day_agrees cur v P hP hI dg d hd (hs dg List.mem_cons_self) hdk.targets hdk.accounts
      hdk.desc
    rw [seqStage_cons]
    cases hgo : fusedTranscode P G dg with
    | error e =>
      rw [hgo] at hm
      cases hmo : Beancount.processDay v { st with vQty := vq } d with
      | ok r => rw [hmo] at hm; exact absurd hm (by simp)
      | error e' => exact ProcFail.here vq hr hn hmo
    | ok r =>
      obtain ⟨G', dg'⟩ := r
      rw [hgo] at hm
      cases hmo : Beancount.processDay v { st with vQty := vq } d with
      | error e' => rw [hmo] at hm; exact absurd hm (by simp)
      | ok r' =>
        obtain ⟨st', pd⟩ := r'
        rw [hmo] at hm
        simp only at hm ⊢
        have := ih (fun g hg => hs g (List.mem_cons_of_mem _ hg)) (fun d' hd' => hok d' (List.mem_cons_of_mem _ hd')) G' st' hm.1
        revert this
        cases seqStage (fusedTranscode P) G' gds with
        | none => intro h; exact ProcFail.later vq hr hn hmo h
        | some o =>
          intro h
          obtain ⟨pds, hpo, hpr⟩ := h
          exact ⟨pd :: pds, .cons vq hr hn hmo hpo, .cons hm.2 hpr⟩

/-- **`Journal.Process` of `knut transcode` over a whole journal = the model's run** (`Beancount.processFrom`, its `vQty` re-listed
before each day in the order Go iterates), in both directions, for EVERY admissible sorting function, family of iteration orders and
fuels: the sequential run of the four translated stages succeeds ⇒ the model's run succeeds on the days the Go days stand for and the
Go days that leave the last stage — the journal `beancount.Transcode` is handed — stand for the model's processed days; it fails ⇒
the model's run fails. -/
theorem processAllTranscode_agrees (cur : String → Bool) (v : Knut.Commodity) (P : TrPar) (hP : TrParOK cur v P) (G0 : TrGo)
    (hinit : TrInv cur (tFusedInit G0) {}) (gdays : List journal.Day) (days : List Knut.Day)
    (hdays : AllRel (DayRelS cur) gdays days) (hs : ∀ g ∈ gdays, SortOK P.srt g.Transactions) (hok : ∀ d ∈ days, TrDayOK v d) :
    match processAllTranscode P G0 gdays with
    | some out => ∃ pds, ProcOrd v {} days pds ∧ AllRel (PDayRel cur) out pds
    | none => ProcFail v {} days := by
  rw [processAllTranscode_eq]
  exact transcode_seq_agrees cur v P hP gdays days hdays hs hok _ _ hinit

/-- the success direction as an implication -/
theorem processAllTranscode_ok (cur : String → Bool) (v : Knut.Commodity) (P : TrPar) (hP : TrParOK cur v P) (G0 : TrGo)
    (hinit : TrInv cur (tFusedInit G0) {}) (gdays : List journal.Day) (days : List Knut.Day)
    (hdays : AllRel (DayRelS cur) gdays days) (hs : ∀ g ∈ gdays, SortOK P.srt g.Transactions) (hok : ∀ d ∈ days, TrDayOK v d)
    (out : List journal.Day) (h : processAllTranscode P G0 gdays = some out) :
    ∃ pds, ProcOrd v {} days pds ∧ AllRel (PDayRel cur) out pds := by
  have := processAllTranscode_agrees cur v P hP G0 hinit gdays days hdays hs hok
  rw [h] at this
  exact this

/-- the failure direction as an implication -/
theorem processAllTranscode_fails (cur : String → Bool) (v : Knut.Commodity) (P : TrPar) (hP : TrParOK cur v P) (G0 : TrGo)
    (hinit : TrInv cur (tFusedInit G0) {}) (gdays : List journal.Day) (days : List Knut.Day)
    (hdays : AllRel (DayRelS cur) gdays days) (hs : ∀ g ∈ gdays, SortOK P.srt g.Transactions) (hok : ∀ d ∈ days, TrDayOK v d)
    (h : processAllTranscode P G0 gdays = none) : ProcFail v {} days := by
  have := processAllTranscode_agrees cur v P hP G0 hinit gdays days hdays hs hok
  rw [h] at this
  exact this

/-! ### Non-vacuity: the empty journal — the four stages succeed on no day, the initial states are related (`TrInv_init`) -/
example (P : TrPar) (G0 : TrGo) : processAllTranscode P G0 [] = some [] := by
  rw [processAllTranscode_eq]; rfl

end Knut.FactsAgree.TransProcessAll
