import Knut.Proofs.PortfolioBalance
import Knut.Properties.C20Periods
/-!
# C20 — the values behind `portfolio weights` / `returns` are the figures of `knut balance -v`

`knut portfolio weights` "shows for each commodity its share of the total valued asset/liability holdings that
`knut balance -v` reports for that date".  `C20_weights_share` (Properties/C20.lean) says the weights of a date are
`value / Σ values` of the map `V1` that `ComputeValues` holds at the end of that day.  Here `V1` is tied to the model of
the balance command (`Knut.Balance.run`: check, ComputePrices, Valuate, Filter, CloseAccounts, Query; the log of report
inserts): for every commodity `c` and every column date `D` of the balance report,

  `V1(D)(c)  =  Σ amount of the report inserts on asset/liability accounts, commodity c, in the columns up to D`

(`balanceValue`; the balance report is cumulative, so this is the figure it shows for `c` on `D`, summed over the
asset/liability accounts that pass `--account`).  The two commands run different processor lists —
`ComputePrices, check, Valuate, ComputeValues` vs `check, ComputePrices, Valuate, Filter, CloseAccounts, Query` — the proof
runs them in lockstep over the same list of days and shows that `check` and `ComputePrices` commute, that closing
transactions never touch asset/liability accounts, and that `Align` puts a transaction dated `x` into a column up to
`D` exactly when `x ≤ D`.

Hypotheses: the same `-v`, `--account`, `--commodity`; no `-m`, no `--remap` on the balance (`Matches`); `D` is a column
of the balance report and its period ends increase (true of every partition, `endDates_increasing`); every day up to `D`
lies inside the balance's window or nothing has been booked up to it (without `--from` the window of `knut balance`
starts at the first transaction; with a later `--from` the balance shows the change inside the window only, and the
statement would be false).  Exact arithmetic; both pipelines over the SAME list of days: the commands register different
additional empty days (period ends / period starts) before `Build`, and that an empty day changes neither pipeline's
figures is not mechanised (the harness compares with the real `knut balance -v` on every case).
-/
namespace Knut.C20
open Knut Knut.Performance Knut.Weights

/-- **`V1` is the valued balance.**  For every day list and every run of the portfolio pipeline over it, the balance
pipeline over the same days succeeds, and for every commodity `c` the value `ComputeValues` holds at the end of day `D`
(`valueAt perfs D`: the `V1` of the last day not after `D`) is the total of the balance report's inserts on
asset/liability accounts for `c` in the columns up to `D`. -/
theorem C20_values_are_valued_balance (cfg : Cfg) (b : BalCfg) (v : Commodity) (hm : Matches cfg b v)
    (days : List Day) (perfs : List DayPerf)
    (hsorted : List.Pairwise (· < ·) (days.map (·.date)))
    (hdates : ∀ d ∈ days, ∀ t ∈ d.transactions, t.date = d.date)
    (hp : perfFrom cfg {} days = .ok perfs)
    (hper : List.Pairwise (· < ·) (b.periods.map (·.stop))) (D : Int) (hD : D ∈ b.periods.map (·.stop))
    (hwin : ∀ pre d post, days = pre ++ d :: post → d.date ≤ D →
      b.span.contains d.date = true ∨ ∀ x ∈ pre ++ [d], x.transactions = []) :
    ∃ stF, Balance.run b days = .ok stF ∧ ∀ c, (valueAt perfs D).get c 0 = balanceValue stF.entries c D := by
  have hal : ∀ x, dateOK (alignIn b.periods x) D = decide (x ≤ D) := fun x => dateOK_align D x b.periods hper hD
  have hinv : MTM.CloseInv ({} : BalState) := by intro k hk; cases hk
  have hsame : SameSt ({} : PState).bal ({} : BalState) := ⟨rfl, rfl, rfl, rfl, rfl⟩
  have hwin' : ∀ pre d post, days = pre ++ d :: post → d.date ≤ D →
      b.span.contains d.date = true ∨ (({} : BalState).vQty = [] ∧ ∀ x ∈ pre ++ [d], x.transactions = []) := by
    intro pre d post h1 h2
    rcases hwin pre d post h1 h2 with h | h
    · exact Or.inl h
    · exact Or.inr ⟨rfl, h⟩
  have hlinked := perfFrom_linked days {} perfs hp
  have hds : DSorted perfs := dsorted_of_dates (by rw [perfFrom_dates days {} perfs hp]; exact hsorted)
  obtain ⟨stF, hrun, _⟩ := balance_run hm "" D hal days {} {} perfs hsame hinv rfl hdates hwin' hp
  refine ⟨stF, hrun, ?_⟩
  intro c
  obtain ⟨stF', hrun', hsum⟩ := balance_run hm c D hal days {} {} perfs hsame hinv rfl hdates hwin' hp
  rw [hrun] at hrun'
  injection hrun' with e; subst e
  rw [valueAt_eq_gains perfs hlinked hds c D, hsum]
  have : balanceValue ({} : BalState).entries c D = 0 := rfl
  rw [this, Rat.zero_add]

/-- … for the record of a day: `V1` of the day dated `D`, the map the weights of `D` are computed from -/
theorem C20_v1_is_valued_balance (cfg : Cfg) (b : BalCfg) (v : Commodity) (hm : Matches cfg b v)
    (days : List Day) (perfs : List DayPerf)
    (hsorted : List.Pairwise (· < ·) (days.map (·.date)))
    (hdates : ∀ d ∈ days, ∀ t ∈ d.transactions, t.date = d.date)
    (hp : perfFrom cfg {} days = .ok perfs)
    (hper : List.Pairwise (· < ·) (b.periods.map (·.stop))) (p : DayPerf) (hpm : p ∈ perfs)
    (hD : p.date ∈ b.periods.map (·.stop))
    (hwin : ∀ pre d post, days = pre ++ d :: post → d.date ≤ p.date →
      b.span.contains d.date = true ∨ ∀ x ∈ pre ++ [d], x.transactions = []) :
    ∃ stF, Balance.run b days = .ok stF ∧
      (∀ c, p.v1.get c 0 = balanceValue stF.entries c p.date) ∧
      (∀ e ∈ p.v1, e.2 = balanceValue stF.entries e.1 p.date) := by
  obtain ⟨stF, hrun, hval⟩ := C20_values_are_valued_balance cfg b v hm days perfs hsorted hdates hp hper p.date hD hwin
  have hrec := C20_valueAt_record perfs (by rw [perfFrom_dates days {} perfs hp]; exact hsorted) p hpm
  rw [hrec] at hval
  refine ⟨stF, hrun, hval, ?_⟩
  intro e he
  have hn := perfFrom_v1_nodup days [] {} perfs (reach_empty cfg) hp p hpm
  rw [← hval e.1, get_of_mem_nodup hn he]

/-- **the weights are shares of the valued balance**: on a period end day `D` whose record is `p`, `weights` adds every
commodity of `V1` with the weight `balance value of the commodity / Σ balance values of the commodities of V1`, the
balance values being those of `knut balance -v` (same filters) for the date `D` -/
theorem C20_weights_are_shares_of_valued_balance (cfg : Cfg) (b : BalCfg) (v : Commodity) (hm : Matches cfg b v)
    (days : List Day) (perfs : List DayPerf)
    (hsorted : List.Pairwise (· < ·) (days.map (·.date)))
    (hdates : ∀ d ∈ days, ∀ t ∈ d.transactions, t.date = d.date)
    (hp : perfFrom cfg {} days = .ok perfs)
    (hper : List.Pairwise (· < ·) (b.periods.map (·.stop))) (p : DayPerf) (hpm : p ∈ perfs)
    (hD : p.date ∈ b.periods.map (·.stop))
    (hwin : ∀ pre d post, days = pre ++ d :: post → d.date ≤ p.date →
      b.span.contains d.date = true ∨ ∀ x ∈ pre ++ [d], x.transactions = [])
    (mapping : List MapRule) (u u' : Universe) (adds : List Add)
    (hq : queryDay mapping u p.date p.v1 = some (adds, u')) :
    ∃ stF, Balance.run b days = .ok stF ∧
      adds.map (·.weight) = p.v1.map (fun e => balanceValue stF.entries e.1 p.date /
        ((p.v1.map (fun e' => balanceValue stF.entries e'.1 p.date)).sum)) := by
  obtain ⟨stF, hrun, _, hmem⟩ := C20_v1_is_valued_balance cfg b v hm days perfs hsorted hdates hp hper p hpm hD hwin
  refine ⟨stF, hrun, ?_⟩
  rw [(C20_weights_share mapping u u' p.date p.v1 adds hq).1]
  have hsum : sumVals p.v1 = (p.v1.map (fun e' => balanceValue stF.entries e'.1 p.date)).sum := by
    unfold sumVals
    congr 1
    apply List.map_congr_left
    intro e he
    exact hmem e he
  rw [hsum]
  apply List.map_congr_left
  intro e he
  rw [hmem e he]

/-! ### Non-vacuity: the journal of `Properties/C20Periods.lean` through both pipelines -/

def pB : BalCfg := { valuation := some "CHF", span := ⟨1, 3⟩, periods := [⟨1, 1⟩, ⟨2, 2⟩, ⟨3, 3⟩] }

example : Matches pF.cfg pB "CHF" := ⟨rfl, rfl, rfl, rfl, rfl, fun _ => rfl⟩

/-- the balance report of the three days: 200, then 220 (a value adjustment of 20), then 220 USD and 50 CHF -/
example : (match Balance.run pB [pDay1, pDay2, pDay3] with
    | .ok st => decide (balanceValue st.entries "USD" 1 = 200 ∧ balanceValue st.entries "USD" 2 = 220 ∧
        balanceValue st.entries "USD" 3 = 220 ∧ balanceValue st.entries "CHF" 3 = 50 ∧
        balanceValue st.entries "CHF" 2 = 0 ∧ st.entries.length = 10)
    | .error _ => false) = true := by decide +kernel

/-- the hypotheses of `C20_values_are_valued_balance` hold for this journal and every column `D ∈ {1, 2, 3}` -/
example (D : Int) (hD : D ∈ pB.periods.map (·.stop)) :
    ∃ stF, Balance.run pB [pDay1, pDay2, pDay3] = .ok stF ∧
      ∀ c, (valueAt pPerfs D).get c 0 = balanceValue stF.entries c D := by
  apply C20_values_are_valued_balance pF.cfg pB "CHF" ⟨rfl, rfl, rfl, rfl, rfl, fun _ => rfl⟩ [pDay1, pDay2, pDay3] pPerfs
    (by decide) (by decide +kernel) p_perfs (by decide) D hD
  intro pre d post hsplit _
  left
  rcases p_split hsplit with ⟨_, rfl⟩ | ⟨_, rfl⟩ | ⟨_, rfl⟩ <;> decide

/-- the value of the portfolio at the end of day 2 is the 220 of the balance -/
example : (valueAt pPerfs 2).get "USD" 0 = 220 := by decide +kernel

end Knut.C20
