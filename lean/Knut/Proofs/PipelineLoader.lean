import Knut.Model.Pipeline
/-!
# The journal builder receives every directive exactly once, whatever the arrival order
-/
namespace Knut.Pipeline

/-- the directives of date `d` and kind `k` in a list, in order -/
def sel (d : Int) (k : Kind) (l : List Dir) : List Dir := l.filter (fun x => x.date == d && x.kind == k)

theorem Day.get_add (dy : Day) (x : Dir) (k : Kind) :
    (dy.add x).get k = dy.get k ++ (if x.kind = k then [x] else []) := by
  cases hk : x.kind <;> cases k <;> simp [Day.add, Day.get, hk]

@[simp] theorem Day.add_date (dy : Day) (x : Dir) : (dy.add x).date = dy.date := by
  cases hk : x.kind <;> simp [Day.add, hk]

theorem Builder.get_nil (d : Int) (k : Kind) : Builder.get [] d k = [] := rfl

theorem Builder.get_cons (dy : Day) (ds : List Day) (d : Int) (k : Kind) :
    Builder.get (dy :: ds) d k = if dy.date = d then dy.get k else Builder.get ds d k := by
  by_cases h : dy.date = d
  · simp [Builder.get, h]
  · have : (dy.date == d) = false := by simpa using h
    simp [Builder.get, h, this]

theorem Builder.get_add (b : Builder) (x : Dir) (d : Int) (k : Kind) :
    (Builder.add b x).get d k = b.get d k ++ (if x.date = d ∧ x.kind = k then [x] else []) := by
  induction b with
  | nil =>
    simp only [Builder.add, Builder.get_cons, Builder.get_nil, Day.add_date, Day.get_add]
    by_cases hd : x.date = d
    · simp [hd, Day.get]; cases k <;> simp
    · simp [hd]
  | cons dy ds ih =>
    simp only [Builder.add]
    by_cases hx : dy.date = x.date
    · simp only [hx, if_true, Builder.get_cons, Day.add_date, Day.get_add]
      by_cases hd : x.date = d
      · simp [hd]
      · simp [hd]
    · simp only [hx, if_false, Builder.get_cons, ih]
      by_cases hd : dy.date = d
      · have : ¬ x.date = d := by rw [← hd]; exact fun h => hx h.symm
        simp [hd, this]
      · simp [hd]

theorem foldl_add_get (ds : List Dir) (b : Builder) (d : Int) (k : Kind) :
    (ds.foldl Builder.add b).get d k = b.get d k ++ sel d k ds := by
  induction ds generalizing b with
  | nil => simp [sel]
  | cons x xs ih =>
    simp only [List.foldl_cons, ih, Builder.get_add, sel, List.filter_cons]
    by_cases h : x.date = d ∧ x.kind = k
    · simp [h.1, h.2]
    · have : (x.date == d && x.kind == k) = false := by
        simp only [Bool.and_eq_false_iff, beq_eq_false_iff_ne]
        by_cases h1 : x.date = d
        · right; exact fun h2 => h ⟨h1, h2⟩
        · left; exact h1
      simp [h, this]

theorem stream_get_aux (arrival : List (List Dir)) (b : Builder) (d : Int) (k : Kind) :
    (arrival.foldl (fun b ds => ds.foldl Builder.add b) b).get d k = b.get d k ++ sel d k arrival.flatten := by
  induction arrival generalizing b with
  | nil => simp [sel]
  | cons ds rest ih =>
    simp only [List.foldl_cons, ih, foldl_add_get, List.flatten_cons, sel, List.filter_append, List.append_assoc]

/-- the builder's slice for (date, kind) is exactly the matching directives of the arriving lists, in arrival order -/
theorem stream_get (arrival : List (List Dir)) (d : Int) (k : Kind) :
    (fromModelStream arrival).get d k = sel d k arrival.flatten := by
  have := stream_get_aux arrival [] d k
  simpa [fromModelStream, Builder.get] using this

/-! ### `Build`: the days sorted by date -/

theorem insertDay_perm (d : Day) (l : List Day) : (insertDay d l).Perm (d :: l) := by
  induction l with
  | nil => exact List.Perm.refl _
  | cons e es ih =>
    simp only [insertDay]
    split
    · exact List.Perm.refl _
    · exact (List.Perm.cons e ih).trans (List.Perm.swap d e es)

theorem build_perm (b : Builder) : b.build.Perm b := by
  induction b with
  | nil => exact List.Perm.refl _
  | cons d ds ih =>
    simp only [Builder.build, List.foldr_cons]
    exact (insertDay_perm d _).trans (List.Perm.cons d ih)

theorem insertDay_sorted (d : Day) (l : List Day) (h : l.Pairwise (fun a b => a.date ≤ b.date)) :
    (insertDay d l).Pairwise (fun a b => a.date ≤ b.date) := by
  induction l with
  | nil => simp [insertDay]
  | cons e es ih =>
    simp only [insertDay]
    have ⟨h1, h2⟩ := List.pairwise_cons.mp h
    split
    · rename_i hle
      refine List.pairwise_cons.mpr ⟨?_, h⟩
      intro x hx
      rcases List.mem_cons.mp hx with rfl | hx
      · exact hle
      · exact Int.le_trans hle (h1 x hx)
    · rename_i hnle
      refine List.pairwise_cons.mpr ⟨?_, ih h2⟩
      intro x hx
      have := (insertDay_perm d es).mem_iff.mp hx
      rcases List.mem_cons.mp this with rfl | hx
      · omega
      · exact h1 x hx

theorem build_sorted (b : Builder) : b.build.Pairwise (fun a b => a.date ≤ b.date) := by
  induction b with
  | nil => simp [Builder.build]
  | cons d ds ih =>
    simp only [Builder.build, List.foldr_cons]
    exact insertDay_sorted d _ ih

/-! ### fan-in -/

theorem fan_run_counts {pf : Bool} {s s' : Fan} {ls : List FanLabel} (h : FanRun pf s ls s') :
    s'.pending + ls.count .push + ls.count .abandon = s.pending ∧ s'.delivered = s.delivered + ls.count .push ∧
    s'.draining = s.draining ∧ (s.cancelled = true → s'.cancelled = true) ∧
    (s'.cancelled = false → ls.count .abandon = 0) := by
  induction h with
  | nil => simp
  | cons l hs _ ih =>
    obtain ⟨h1, h2, h3, h4, h5⟩ := ih
    cases l with
    | push =>
      simp only [fanStep] at hs
      split at hs
      · rename_i hc
        injection hs with hs; subst hs
        simp only [List.count_cons] at h1 h2 h3 h4 h5 ⊢
        refine ⟨by simp at h1 ⊢; omega, by simp at h2 ⊢; omega, h3, h4, by simpa using h5⟩
      · cases hs
    | abandon =>
      simp only [fanStep] at hs
      split at hs
      · rename_i hc
        injection hs with hs; subst hs
        simp only [List.count_cons] at h1 h2 h3 h4 h5 ⊢
        refine ⟨by simp at h1 ⊢; omega, by simpa using h2, h3, h4, ?_⟩
        intro hf
        have := h4 hc.2
        rw [hf] at this; cases this
      · cases hs
    | cancel =>
      simp only [fanStep] at hs
      split at hs
      · injection hs with hs; subst hs
        simp only [List.count_cons] at h1 h2 h3 h4 h5 ⊢
        refine ⟨by simpa using h1, by simpa using h2, h3, fun _ => h4 trivial, ?_⟩
        intro hf
        have := h4 trivial
        rw [hf] at this; cases this
      · cases hs

theorem fan_no_cancel_after {pf : Bool} {a b : Fan} {ms : List FanLabel} (hrun : FanRun pf a ms b) :
    a.cancelled = true → ms.count .cancel = 0 := by
  induction hrun with
  | nil => intro _; simp
  | cons l' hs' _ ih' =>
    intro hcan
    cases l' with
    | push =>
      simp only [fanStep] at hs'; split at hs'
      · injection hs' with hs'; subst hs'; simpa [List.count_cons] using ih' hcan
      · cases hs'
    | abandon =>
      simp only [fanStep] at hs'; split at hs'
      · injection hs' with hs'; subst hs'; simpa [List.count_cons] using ih' hcan
      · cases hs'
    | cancel =>
      simp only [fanStep] at hs'; split at hs'
      · rename_i hc'; rw [hcan] at hc'; cases hc'.2
      · cases hs'

/-- the context is cancelled at most once -/
theorem fan_cancel_once {pf : Bool} {s s' : Fan} {ls : List FanLabel} (h : FanRun pf s ls s') : ls.count .cancel ≤ 1 := by
  induction h with
  | nil => simp
  | cons l hs hr ih =>
    cases l with
    | push => simpa [List.count_cons] using ih
    | abandon => simpa [List.count_cons] using ih
    | cancel =>
      simp only [fanStep] at hs
      split at hs
      · injection hs with hs; subst hs
        have := fan_no_cancel_after hr rfl
        simp [this]
      · cases hs

theorem fan_length (ls : List FanLabel) : ls.length = ls.count .push + ls.count .abandon + ls.count .cancel := by
  induction ls with
  | nil => simp
  | cons l ls ih => cases l <;> simp [ih] <;> omega

/-! ### the census predicate holds for the model's journal, whatever the arrival order -/

theorem sameDirs_iff_perm (e o : List Dir) : sameDirs e o = true ↔ e.Perm o := by
  rw [List.perm_iff_count]
  simp only [sameDirs, List.all_eq_true, List.mem_append, beq_iff_eq]
  constructor
  · intro h a
    by_cases ha : a ∈ e ∨ a ∈ o
    · exact h a ha
    · have h1 : a ∉ e := fun x => ha (Or.inl x)
      have h2 : a ∉ o := fun x => ha (Or.inr x)
      rw [List.count_eq_zero_of_not_mem h1, List.count_eq_zero_of_not_mem h2]
  · intro h a _; exact h a

theorem Day.all_add (d : Day) (x : Dir) : (d.add x).all.Perm (x :: d.all) := by
  rw [List.perm_iff_count]
  intro a
  cases hk : x.kind <;> simp [Day.all, Day.add, hk, List.count_append, List.count_cons] <;> omega

theorem printed_add (b : Builder) (x : Dir) : (printed (Builder.add b x)).Perm (x :: printed b) := by
  induction b with
  | nil =>
    have := Day.all_add { date := x.date } x
    simpa [printed, Builder.add, Day.all] using this
  | cons d ds ih =>
    simp only [Builder.add]
    split
    · simp only [printed, List.flatMap_cons]
      exact (List.Perm.append_right _ (Day.all_add d x)).trans (by simp)
    · simp only [printed, List.flatMap_cons] at ih ⊢
      exact (List.Perm.append_left _ ih).trans (by
        rw [List.perm_iff_count]; intro a; simp [List.count_append, List.count_cons]; omega)

theorem printed_foldl_add (ds : List Dir) (b : Builder) : (printed (ds.foldl Builder.add b)).Perm (printed b ++ ds) := by
  induction ds generalizing b with
  | nil => simp
  | cons x xs ih =>
    simp only [List.foldl_cons]
    refine (ih _).trans ?_
    refine (List.Perm.append_right _ (printed_add b x)).trans ?_
    rw [List.perm_iff_count]; intro a; simp [List.count_append, List.count_cons]; omega

theorem printed_stream_aux (arrival : List (List Dir)) (b : Builder) :
    (printed (arrival.foldl (fun b ds => ds.foldl Builder.add b) b)).Perm (printed b ++ arrival.flatten) := by
  induction arrival generalizing b with
  | nil => simp
  | cons ds rest ih =>
    simp only [List.foldl_cons, List.flatten_cons]
    refine (ih _).trans ?_
    rw [← List.append_assoc]
    exact List.Perm.append_right _ (printed_foldl_add ds b)

theorem printed_stream (arrival : List (List Dir)) : (printed (fromModelStream arrival)).Perm arrival.flatten := by
  simpa [fromModelStream, printed] using printed_stream_aux arrival []

theorem printed_perm {a b : List Day} (h : a.Perm b) : (printed a).Perm (printed b) := by
  induction h with
  | nil => exact List.Perm.refl _
  | cons x _ ih => simp only [printed, List.flatMap_cons] at ih ⊢; exact List.Perm.append_left _ ih
  | swap x y l =>
    simp only [printed, List.flatMap_cons]
    rw [List.perm_iff_count]; intro a; simp [List.count_append]; omega
  | trans _ _ ih1 ih2 => exact ih1.trans ih2

/-- every directive sits in the day of its date -/
def DayWF (b : List Day) : Prop := ∀ d ∈ b, ∀ x ∈ d.all, x.date = d.date

theorem mem_all_add {d : Day} {x y : Dir} (h : y ∈ (d.add x).all) : y = x ∨ y ∈ d.all := by
  have := (Day.all_add d x).mem_iff.mp h
  simpa using this

theorem dayWF_add {b : Builder} (h : DayWF b) (x : Dir) : DayWF (Builder.add b x) := by
  induction b with
  | nil =>
    intro d hd y hy
    simp only [Builder.add, List.mem_singleton] at hd
    subst hd
    rcases mem_all_add hy with rfl | hy
    · simp
    · simp [Day.all] at hy
  | cons e es ih =>
    simp only [Builder.add]
    split
    · rename_i heq
      intro d hd y hy
      rcases List.mem_cons.mp hd with rfl | hd
      · rcases mem_all_add hy with rfl | hy
        · simp [heq]
        · simpa using h e List.mem_cons_self y hy
      · exact h d (List.mem_cons_of_mem _ hd) y hy
    · intro d hd y hy
      rcases List.mem_cons.mp hd with rfl | hd
      · exact h d List.mem_cons_self y hy
      · exact ih (fun d hd => h d (List.mem_cons_of_mem _ hd)) d hd y hy

theorem dayWF_stream (arrival : List (List Dir)) : DayWF (fromModelStream arrival) := by
  have key : ∀ (ds : List Dir) (b : Builder), DayWF b → DayWF (ds.foldl Builder.add b) := by
    intro ds
    induction ds with
    | nil => intro b h; exact h
    | cons x xs ih => intro b h; exact ih _ (dayWF_add h x)
  have key2 : ∀ (arr : List (List Dir)) (b : Builder), DayWF b → DayWF (arr.foldl (fun b ds => ds.foldl Builder.add b) b) := by
    intro arr
    induction arr with
    | nil => intro b h; exact h
    | cons ds rest ih => intro b h; exact ih _ (key ds b h)
  exact key2 arrival [] (by intro d hd; cases hd)

theorem printed_sorted {days : List Day} (hwf : DayWF days) (hs : days.Pairwise (fun a b => a.date ≤ b.date)) :
    (printed days).Pairwise (fun a b => a.date ≤ b.date) := by
  induction days with
  | nil => simp [printed]
  | cons d ds ih =>
    have ⟨h1, h2⟩ := List.pairwise_cons.mp hs
    simp only [printed, List.flatMap_cons]
    rw [List.pairwise_append]
    refine ⟨?_, ih (fun e he => hwf e (List.mem_cons_of_mem _ he)) h2, ?_⟩
    · -- within a day all dates are equal
      have hd := hwf d List.mem_cons_self
      generalize d.all = l at hd
      induction l with
      | nil => simp
      | cons a as iha =>
        refine List.pairwise_cons.mpr ⟨?_, iha (fun x hx => hd x (List.mem_cons_of_mem _ hx))⟩
        intro b hb
        rw [hd a List.mem_cons_self, hd b (List.mem_cons_of_mem _ hb)]
        exact Int.le_refl _
    · intro a ha b hb
      obtain ⟨e, he, hbe⟩ := List.mem_flatMap.mp hb
      rw [hwf d List.mem_cons_self a ha, hwf e (List.mem_cons_of_mem _ he) b hbe]
      exact h1 e he

/-- **the census predicate holds on the model**: what the built journal prints is, for every arrival
order, exactly the arriving directives, in date order -/
theorem census_model (arrival : List (List Dir)) :
    censusOK arrival.flatten (printed (fromModelStream arrival).build) = true := by
  simp only [censusOK, Bool.and_eq_true]
  constructor
  · rw [sameDirs_iff_perm]
    exact ((printed_perm (build_perm _)).trans (printed_stream arrival)).symm
  · simp only [datesSorted, decide_eq_true_eq]
    apply printed_sorted
    · intro d hd
      exact dayWF_stream arrival d ((build_perm _).mem_iff.mp hd)
    · exact build_sorted _

end Knut.Pipeline
