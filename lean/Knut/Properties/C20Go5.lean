import Knut.Properties.C20Go4
import Knut.FactsAgree.TransWeightsQueryDays
/-!
# C20 over the Go pipeline of `knut portfolio weights` INCLUDING `weights.Query.Execute`

`C20Go4.C20_weights_process_go_partial` stopped before the query ("PARTIAL exactly in the untranslated `Query.Execute`").
`FactsAgree/TransWeightsQuery(.Days)` now tie the query's DayEnd closure to the model (`Query_days_agrees_of_order`): two fragments of
the closure are translated, the remaining statements are pinned by source text and read by hand (see the header there).

* **`C20_weights_process_query_go`** (without `-v`): whenever the model's `weightAdds f ds` succeeds with `adds`, the four translated
  stages succeed for every admissible family of iteration orders, and the query run over the days `out` that reach it
  (`TransWeightsQuery.goQuery`) hands to the translated `Report.Add` EXACTLY the model's `adds`, in order: the report afterwards is
  `addAll r adds` (`TransWeightsTree.Add_fold_agrees`, `C20Go.C20_nodeWeight_is_wsum_go` continue from there).

Hypotheses that stay, besides those of `C20Go4`: the Go query is built from the model's flags (`UEq` for the universe, the mapping
rules `ruleGo`), and **`hord`**: on each day reaching the query, `dict.SortedKeys(V1, commodity.Compare)` visits the commodities in the
order in which the model lists `v1` (the model folds over its list as it stands; with `hord` the ORDER of the adds and of the in-place
writes into the universe is the same on both sides).  The caveat "partial in `Query.Execute`" of `C20Go4` is replaced by: the query is
tied per fragment/pin, not translated as one function.
-/
namespace Knut.C20Go5
open Knut Knut.GoSem Knut.Performance Knut.Weights Knut.PortfolioSpec Knut.Pipeline
open Knut.Generated.Go
open Knut.FactsAgree.TransPosting (commodityGo)
open Knut.FactsAgree.TransPerformance (perfDaysV valuedDays UEq)
open Knut.FactsAgree.TransProcess (AllRel)
open Knut.FactsAgree.TransProcessAllReturns
open Knut.FactsAgree.TransProcessAllWeights
open Knut.FactsAgree.TransMapping (ruleGo ruleOf ruleOf_ruleGo ruleGo_ok RuleOK)
open Knut.FactsAgree.TransWeightsQuery (DayRelQ goQuery Query_days_agrees_of_order)
open Knut.FactsAgree.TransWeights (addAll)

/-- the order hypothesis on one day: the sorted keys of the Go `V1` are the model's `v1` keys as listed -/
def OrdRel (cur : String → Bool) (d : journal.Day) (dp : DayPerf) : Prop :=
  ∀ p, d.Performance = some p → sortedKeys p.V1 commodity.Compare = dp.v1.map (fun e => commodityGo cur e.1)

theorem allRel_Q (cur : String → Bool) {out : List journal.Day} {perfs : List DayPerf} (h1 : AllRel (DayRelW cur) out perfs) :
    AllRel (OrdRel cur) out perfs → AllRel (DayRelQ cur) out perfs := by
  induction h1 with
  | nil => intro _; exact .nil
  | cons hab _ ih =>
    intro h2
    cases h2 with
    | cons ho ht =>
      obtain ⟨hd, p, hp, _, hv1⟩ := hab
      exact .cons ⟨hd, p, hp, hv1, ho p hp⟩ (ih ht)

theorem map_ruleOf_ruleGo (m : List MapRule) : (m.map ruleGo).map ruleOf = m := by
  induction m with
  | nil => rfl
  | cons r m ih => simp only [List.map_cons, ruleOf_ruleGo, ih]

/-- **the Go pipeline of `knut portfolio weights` with the query**: the report receives the model's adds -/
theorem C20_weights_process_query_go (cur : String → Bool) (f : WFlags) (hv : f.valuation = none) (ds : List Directive)
    (adds : List Add) (h : weightAdds f ds = .ok (some adds)) :
    ∃ (part : Knut.Partition) (days : List Knut.Day) (ms : List (Int × List Knut.Transaction)),
      setup f.toFlags ds = .ok (part, days) ∧ valuedDays f.toFlags.cfg ({} : PState).bal days = some ms ∧
      (∀ (P : RetPar), RetParOK cur f.toFlags.cfg P →
        ∀ (cf : performance.Calculator.ComputeFlows.State) (pf : performance.Perf.State)
          (gdays : List journal.Day), AllRel (DayRelP cur) gdays days →
          ∃ out, processAllWeights P (weightsInit cur f.toFlags.cfg cf pf) gdays = some out ∧
            AllRel (DayRelW cur) out (perfDaysV f.toFlags.cfg ([], []) ms) ∧
            (AllRel (OrdRel cur) out (perfDaysV f.toFlags.cfg ([], []) ms) →
              ∀ (q : weights.Query) (r : weights.Report), UEq cur q.Universe f.classes → q.Mapping = f.mapping.map ruleGo →
                ∃ q', goQuery part.endDates (q, r) out = GoSem.Outcome.bind (addAll r adds) (fun r' => .ok (q', r')))) := by
  obtain ⟨part, days, ms, hs, hms, hq, hgo, _, _⟩ := C20Go4.C20_weights_process_go_partial cur f hv ds adds h
  refine ⟨part, days, ms, hs, hms, ?_⟩
  intro P hP cf pf gdays hdays
  obtain ⟨out, hout, hrel⟩ := hgo P hP cf pf gdays hdays
  refine ⟨out, hout, hrel, ?_⟩
  intro hord q r hu hmap
  have hm : ∀ r ∈ q.Mapping, RuleOK r := by
    intro r hr
    rw [hmap] at hr
    obtain ⟨m, _, rfl⟩ := List.mem_map.mp hr
    exact ruleGo_ok m
  have key := Query_days_agrees_of_order cur part.endDates out _ (allRel_Q cur hrel hord) q r f.classes hu hm
  rw [hmap, map_ruleOf_ruleGo, hq] at key
  obtain ⟨q', hq', _, _⟩ := key
  exact ⟨q', hq'⟩

/-! ### Non-vacuity: the hypothesis `weightAdds … = ok (some adds)` is satisfiable (the journal without directives, `C20Go4.weightAdds_empty`;
on a NON-EMPTY journal the four stages before the query succeed with concrete admissible parameters: `C20Go4.ex_weights_pipeline`) -/
example (cur : String → Bool) : ∃ part days ms, setup ({ to := 10, from? := some 1 } : WFlags).toFlags [] = .ok (part, days) ∧
    valuedDays ({ to := 10, from? := some 1 } : WFlags).toFlags.cfg ({} : PState).bal days = some ms := by
  obtain ⟨part, days, ms, h1, h2, _⟩ := C20_weights_process_query_go cur _ rfl _ _ C20Go4.weightAdds_empty
  exact ⟨part, days, ms, h1, h2⟩

end Knut.C20Go5
