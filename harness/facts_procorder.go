package main

import (
	"fmt"
	"go/ast"
	"go/token"
	"os"
	"path/filepath"
	"strconv"
	"strings"
)

// PROCESSOR ORDER of every pipeline command (called from extractFacts; writes lean/Knut/Generated/ProcOrder.lean).
//
// Each of the commands below builds, in its `execute` method, the list of `*journal.Processor`s it hands to `Journal.Process`
// (`cpr.Seq` over the days).  The composition modules lean/Knut/FactsAgree/TransProcessAll*.lean compose the translated stages in
// exactly that order; this extractor reads the order off the syntax tree of the tree under test on every run, and
// lean/Knut/FactsAgree/ProcOrder*.lean pin it to the lists those modules assume (one module per command family — ProcOrderBalance,
// ProcOrderTranscode, ProcOrderCheck, ProcOrderPrint, ProcOrderPortfolio — and the hub ProcOrder, which imports them and adds register).
//
// Per command <c> two definitions (namespace Knut.Generated.ProcOrder):
//
//   <c>Order : List String                    the callee of every processor expression, in the order of the list.  The callee is written
//                                             `pkg.F` for a function of an imported package, `pkg.T.M` for a method called on a composite
//                                             literal `pkg.T{…}.M(…)`, and `(pkg.T).M` / `(*pkg.T).M` for a method of a local variable that
//                                             `execute` defines by `v := pkg.T{…}` / `v := &pkg.T{…}`.  A processor that is appended under
//                                             a condition (`if c { procs = append(procs, p) }`) is written `<callee> if <c>` (`!(c)` in
//                                             the else branch, nested conditions joined by ` && `).
//   <c>Calls : List (String × List String)    the same entries with the source text of the arguments of the (outermost) call.
//
// Accepted shapes (everything else is an ERROR: the definitions of the command are NOT emitted, so that the FactsAgree module of the
// command (and the hub) no longer builds, and lines `census-gone-site <module> <file>: …` are printed, which bin/check reports as a broken obligation):
//
//   * `execute` contains exactly ONE call `….Process(…)`;
//   * its arguments are the processor expressions themselves, or ONE variable followed by `...` that `execute` defines ONCE (`:=` / `var`)
//     by a slice literal `[]*journal.Processor{…}` and otherwise only extends by `v = append(v, p, …)` statements that stand at the top
//     level of `execute` or in (nested) `if` statements without init clause, all of them BEFORE the `Process` call; the variable must
//     not be mentioned anywhere else;
//   * every processor expression is a call whose callee has one of the three forms above.

type procOrderCmd struct{ name, file, mod string } // mod: the module of Knut.FactsAgree that pins the command (the hub ProcOrder pins all)

var procOrderCmds = []procOrderCmd{
	{"balance", "cmd/commands/balance.go", "ProcOrderBalance"},
	{"register", "cmd/commands/register.go", "ProcOrder"},
	{"transcode", "cmd/commands/transcode.go", "ProcOrderTranscode"},
	{"check", "cmd/commands/check.go", "ProcOrderCheck"},
	{"print", "cmd/commands/print.go", "ProcOrderPrint"},
	{"returns", "cmd/commands/portfolio/returns.go", "ProcOrderPortfolio"},
	{"weights", "cmd/commands/portfolio/weights.go", "ProcOrderPortfolio"},
}

type procOrderEntry struct {
	callee string
	args   []string
}

// procOrderCallee normalises the callee of one processor expression.
func procOrderCallee(ff *factFile, e ast.Expr, imports map[string]bool, locals map[string]string) (string, error) {
	call, ok := e.(*ast.CallExpr)
	if !ok {
		return "", fmt.Errorf("processor expression `%s` is not a call", c08Src(ff, e))
	}
	var walk func(x ast.Expr) (string, error)
	walk = func(x ast.Expr) (string, error) {
		switch v := x.(type) {
		case *ast.Ident:
			if t, ok := locals[v.Name]; ok {
				return "(" + t + ")", nil
			}
			if imports[v.Name] {
				return v.Name, nil
			}
			return "", fmt.Errorf("`%s` in `%s` is neither an imported package nor a local variable defined by a composite literal", v.Name, c08Src(ff, call.Fun))
		case *ast.SelectorExpr:
			s, err := walk(v.X)
			if err != nil {
				return "", err
			}
			return s + "." + v.Sel.Name, nil
		case *ast.CompositeLit:
			if v.Type == nil {
				return "", fmt.Errorf("untyped composite literal in `%s`", c08Src(ff, call.Fun))
			}
			return walk(v.Type)
		case *ast.ParenExpr:
			return walk(v.X)
		}
		return "", fmt.Errorf("callee `%s` has an unexpected form (%T)", c08Src(ff, call.Fun), x)
	}
	if _, ok := call.Fun.(*ast.SelectorExpr); !ok {
		return "", fmt.Errorf("callee `%s` is not of the form pkg.F / pkg.T{…}.M / v.M", c08Src(ff, call.Fun))
	}
	return walk(call.Fun)
}

// procOrderOf reads the processor list of one command file.
func procOrderOf(ff *factFile) ([]procOrderEntry, error) {
	var fd *ast.FuncDecl
	for _, d := range ff.file.Decls {
		if f, ok := d.(*ast.FuncDecl); ok && f.Name.Name == "execute" && f.Recv != nil {
			if fd != nil {
				return nil, fmt.Errorf("more than one method `execute`")
			}
			fd = f
		}
	}
	if fd == nil || fd.Body == nil {
		return nil, fmt.Errorf("no method `execute`")
	}
	imports := map[string]bool{}
	for _, im := range ff.file.Imports {
		p, _ := strconv.Unquote(im.Path.Value)
		n := p[strings.LastIndex(p, "/")+1:]
		if im.Name != nil {
			n = im.Name.Name
		}
		imports[n] = true
	}
	// local variables defined ONCE by `v := T{…}` / `v := &T{…}` (receivers of processor constructors such as `calculator.ComputeValues()`)
	locals := map[string]string{}
	defs := map[string]int{}
	ast.Inspect(fd.Body, func(n ast.Node) bool {
		as, ok := n.(*ast.AssignStmt)
		if !ok {
			return true
		}
		for i, l := range as.Lhs {
			id, ok := l.(*ast.Ident)
			if !ok {
				continue
			}
			defs[id.Name]++
			if as.Tok != token.DEFINE || len(as.Lhs) != len(as.Rhs) {
				continue
			}
			r, star := as.Rhs[i], ""
			if u, ok := r.(*ast.UnaryExpr); ok && u.Op == token.AND {
				r, star = u.X, "*"
			}
			if cl, ok := r.(*ast.CompositeLit); ok && cl.Type != nil {
				if _, isArr := cl.Type.(*ast.ArrayType); !isArr {
					locals[id.Name] = star + c08Src(ff, cl.Type)
				}
			}
		}
		return true
	})
	for v := range locals {
		if defs[v] != 1 || imports[v] {
			delete(locals, v)
		}
	}
	// the one Process call
	var calls []*ast.CallExpr
	ast.Inspect(fd.Body, func(n ast.Node) bool {
		if c, ok := n.(*ast.CallExpr); ok {
			if s, ok := c.Fun.(*ast.SelectorExpr); ok && s.Sel.Name == "Process" {
				calls = append(calls, c)
			}
		}
		return true
	})
	if len(calls) != 1 {
		return nil, fmt.Errorf("`execute` contains %d calls `….Process(…)`, expected exactly one", len(calls))
	}
	pc := calls[0]
	type item struct {
		e    ast.Expr
		cond string
	}
	var items []item
	if pc.Ellipsis == token.NoPos {
		if len(pc.Args) == 0 {
			return nil, fmt.Errorf("`Process()` without processors")
		}
		for _, a := range pc.Args {
			items = append(items, item{a, ""})
		}
	} else {
		if len(pc.Args) != 1 {
			return nil, fmt.Errorf("`Process(%s)`: processors and a spread slice mixed", c08Src(ff, pc))
		}
		sv, ok := pc.Args[0].(*ast.Ident)
		if !ok {
			return nil, fmt.Errorf("`Process(%s...)`: the spread argument is not a variable", c08Src(ff, pc.Args[0]))
		}
		name := sv.Name
		handled := map[*ast.Ident]bool{sv: true}
		isProcSlice := func(e ast.Expr) (*ast.CompositeLit, bool) {
			cl, ok := e.(*ast.CompositeLit)
			if !ok {
				return nil, false
			}
			at, ok := cl.Type.(*ast.ArrayType)
			if !ok || at.Len != nil {
				return nil, false
			}
			return cl, strings.HasSuffix(c08Src(ff, at.Elt), "journal.Processor")
		}
		defined, after := false, false
		var walk func(stmts []ast.Stmt, cond string, top bool) error
		walk = func(stmts []ast.Stmt, cond string, top bool) error {
			for _, s := range stmts {
				if s.Pos() <= pc.Pos() && pc.End() <= s.End() {
					if !top {
						return fmt.Errorf("the `Process` call stands inside a nested statement")
					}
					after = true
					continue
				}
				switch v := s.(type) {
				case *ast.AssignStmt:
					if len(v.Lhs) != 1 || len(v.Rhs) != 1 {
						continue
					}
					id, ok := v.Lhs[0].(*ast.Ident)
					if !ok || id.Name != name {
						continue
					}
					if v.Tok == token.DEFINE {
						cl, ok := isProcSlice(v.Rhs[0])
						if !ok || defined || !top || after {
							return fmt.Errorf("`%s`: unexpected definition of the processor slice", c08Src(ff, v.Lhs[0])+" := …")
						}
						defined = true
						handled[id] = true
						for _, e := range cl.Elts {
							items = append(items, item{e, cond})
						}
						continue
					}
					ap, ok := v.Rhs[0].(*ast.CallExpr)
					fn, isId := (ast.Expr)(nil), false
					if ok {
						fn = ap.Fun
						_, isId = fn.(*ast.Ident)
					}
					if v.Tok != token.ASSIGN || !ok || !isId || fn.(*ast.Ident).Name != "append" || len(ap.Args) < 2 || ap.Ellipsis != token.NoPos || !defined || after {
						return fmt.Errorf("`%s`: the processor slice is changed other than by `%s = append(%s, p, …)` before the Process call", c08Src(ff, v), name, name)
					}
					first, ok := ap.Args[0].(*ast.Ident)
					if !ok || first.Name != name {
						return fmt.Errorf("`%s`: append to another slice", c08Src(ff, v))
					}
					handled[id], handled[first] = true, true
					for _, e := range ap.Args[1:] {
						items = append(items, item{e, cond})
					}
				case *ast.DeclStmt:
					gd, ok := v.Decl.(*ast.GenDecl)
					if !ok {
						continue
					}
					for _, sp := range gd.Specs {
						vs, ok := sp.(*ast.ValueSpec)
						if !ok {
							continue
						}
						for i, n := range vs.Names {
							if n.Name != name {
								continue
							}
							if defined || !top || after {
								return fmt.Errorf("`var %s`: unexpected definition of the processor slice", name)
							}
							defined = true
							handled[n] = true
							if i < len(vs.Values) {
								cl, ok := isProcSlice(vs.Values[i])
								if !ok {
									return fmt.Errorf("`var %s = %s`: not a slice literal of processors", name, c08Src(ff, vs.Values[i]))
								}
								for _, e := range cl.Elts {
									items = append(items, item{e, cond})
								}
							} else if vs.Type == nil || !strings.HasSuffix(c08Src(ff, vs.Type), "journal.Processor") {
								return fmt.Errorf("`var %s`: not a slice of processors", name)
							}
						}
					}
				case *ast.IfStmt:
					if v.Init != nil {
						// `if err := …; err != nil { return err }` and the like: must not touch the slice (checked by the mention count below)
						continue
					}
					c := c08Src(ff, v.Cond)
					and := func(x string) string {
						if cond == "" {
							return x
						}
						return cond + " && " + x
					}
					if err := walk(v.Body.List, and(c), false); err != nil {
						return err
					}
					switch el := v.Else.(type) {
					case *ast.BlockStmt:
						if err := walk(el.List, and("!("+c+")"), false); err != nil {
							return err
						}
					case *ast.IfStmt:
						if err := walk([]ast.Stmt{el}, and("!("+c+")"), false); err != nil {
							return err
						}
					}
				}
			}
			return nil
		}
		if err := walk(fd.Body.List, "", true); err != nil {
			return nil, err
		}
		if !defined {
			return nil, fmt.Errorf("`Process(%s...)`: `execute` does not define `%s` by a slice literal of processors", name, name)
		}
		// every mention of the variable must be one that was accounted for
		var stray ast.Node
		ast.Inspect(fd, func(n ast.Node) bool {
			if id, ok := n.(*ast.Ident); ok && id.Name == name && !handled[id] && stray == nil {
				stray = id
			}
			return true
		})
		if stray != nil {
			return nil, fmt.Errorf("the processor slice `%s` is mentioned in line %d outside its definition, `append` statements and the Process call", name, ff.fset.Position(stray.Pos()).Line)
		}
	}
	var res []procOrderEntry
	for _, it := range items {
		callee, err := procOrderCallee(ff, it.e, imports, locals)
		if err != nil {
			return nil, err
		}
		if it.cond != "" {
			callee += " if " + it.cond
		}
		var args []string
		for _, a := range it.e.(*ast.CallExpr).Args {
			args = append(args, c08Src(ff, a))
		}
		res = append(res, procOrderEntry{callee, args})
	}
	if len(res) == 0 {
		return nil, fmt.Errorf("empty processor list")
	}
	return res, nil
}

// extractProcOrder writes <gendir>/ProcOrder.lean (only when different).
func extractProcOrder(repo, gendir string) {
	var b strings.Builder
	b.WriteString("/- GENERATED by `harness extract` (harness/facts_procorder.go) from cmd/commands/*.go of the tree under test on every run of bin/check.\n")
	b.WriteString("   The processors each pipeline command hands to `Journal.Process`, in the order of the source. Do not edit. -/\n")
	b.WriteString("namespace Knut.Generated.ProcOrder\n\n")
	for _, c := range procOrderCmds {
		var es []procOrderEntry
		ff, err := parseGo(filepath.Join(repo, c.file))
		if err == nil {
			es, err = procOrderOf(ff)
		}
		if err != nil {
			// no definition: FactsAgree/ProcOrder.lean does not build; and a census line that names the file
			msg := strings.Join(strings.Fields(err.Error()), " ")
			mods := []string{c.mod}
			if c.mod != "ProcOrder" {
				mods = append(mods, "ProcOrder")
			}
			for _, m := range mods {
				fmt.Printf("census-gone-site %s %s: the processor list of `knut %s` cannot be read off `execute`: %s\n", m, c.file, c.name, msg)
			}
			fmt.Fprintf(os.Stderr, "fact missing: %sOrder: %s\n", c.name, msg)
			b.WriteString("-- MISSING " + c.name + "Order, " + c.name + "Calls: " + strings.ReplaceAll(msg, "-/", "- /") + "\n\n")
			continue
		}
		names := make([]string, len(es))
		calls := make([]string, len(es))
		for i, e := range es {
			names[i] = e.callee
			calls[i] = "(" + leanStr(e.callee) + ", " + leanStrList(e.args) + ")"
		}
		fmt.Fprintf(&b, "/-- %s -/\ndef %sOrder : List String :=\n  %s\n", c.file, c.name, leanStrList(names))
		fmt.Fprintf(&b, "def %sCalls : List (String × List String) :=\n  [%s]\n\n", c.name, strings.Join(calls, ",\n   "))
	}
	b.WriteString("end Knut.Generated.ProcOrder\n")
	path := filepath.Join(gendir, "ProcOrder.lean")
	if old, err := os.ReadFile(path); err == nil && string(old) == b.String() {
		return
	}
	if err := os.WriteFile(path, []byte(b.String()), 0o644); err != nil {
		fatalf("%v", err)
	}
}
