package main

// Constructs of the Go→Lean translator that the printer of model directives (lib/journal/printer, journal.Print) needs (builder trans5):
//
//   io.Writer            the TEXT WRITTEN SO FAR (a Lean String), as strings.Builder: `w.Write(bs)` rebinds the writer to `w ++ bs` and
//                        answers (len(bs), nil).  The sink is an in-memory text: an error of the underlying writer (a closed pipe, a full
//                        disk) does not occur in this reading; the `if err != nil` branches of the translated code are present and dead.
//   []byte               the bytes of a (valid UTF-8) text, a Lean String: only passed on to Write (len, indexing, range are rejected)
//   fmt.Fprintf(p, f, …) for p of a translated struct type T with a translated method `Write([]byte) (int, error)`:
//   io.WriteString(p, s)   the call p.Write(<the formatted text>) — fmt formats into a buffer and calls Write exactly once; io.WriteString
//                        calls Write([]byte(s)) once when T has no method WriteString (checked).  State passing as for every pointer receiver.
//   format strings       constant; verbs %s and %v with the flags/width `-`, a decimal width, `*` (Fmt.pad / Fmt.padStar: padding counted in
//                        runes, |*| > 10^6 prints %!(BADWIDTH)); operands: strings, decimal.Decimal (its String method), values whose type
//                        has a translated method String() string (fmt calls it for %s and %v); %d of int
//   named results        locals that start at their zero values; every `return` must list its values (a bare return is rejected)
//   xs != nil            for the struct fields listed in trNilable, whose nil-ness the code observes: the field is `Option (List T)`
//                        (none = nil); it may only be read (as a list: nil reads as empty), compared with nil, copied from another such
//                        field, or set from nil / a slice literal / make([]T, 0)

import (
	"go/ast"
	"go/token"
	"go/types"
	"strconv"
	"strings"
)

func trStubEnsure(pkg, marker, decl string) {
	s := trStubs[pkg]
	if s == "" {
		s = "package " + pkg[strings.LastIndex(pkg, "/")+1:] + "\n"
	}
	if strings.Contains(s, marker) {
		trStubs[pkg] = s
		return
	}
	if strings.HasPrefix(decl, "import ") {
		// right after the package clause
		i := strings.Index(s, "\n")
		trStubs[pkg] = s[:i+1] + decl + "\n" + s[i+1:]
		return
	}
	if !strings.HasSuffix(s, "\n") {
		s += "\n"
	}
	trStubs[pkg] = s + decl + "\n"
}

func init() {
	trStubEnsure("io", "type Writer interface", "type Writer interface { Write(p []byte) (n int, err error) }")
	trStubEnsure("io", "func WriteString(", "func WriteString(w Writer, s string) (n int, err error)")
	trStubEnsure("fmt", `import "io"`, `import "io"`)
	trStubEnsure("fmt", "func Fprintf(", "func Fprintf(w io.Writer, format string, a ...any) (n int, err error)")
	trStubEnsure("strings", "func Join(", "func Join(elems []string, sep string) string")
	trStubEnsure("time", "func (t Time) Format(", "func (t Time) Format(layout string) string")

	trPrims["strings.Join"] = trPrim{lean: "Strings.Join"}
	trPrims["(time.Time).Format"] = trPrim{lean: "Time.FormatISO", args: func(c *trCtx, call *ast.CallExpr) []ast.Expr {
		// only the layout "2006-01-02" has a meaning in the prelude
		if tv := c.info().Types[call.Args[0]]; tv.Value == nil || tv.Value.ExactString() != `"2006-01-02"` {
			trFail(call.Args[0].Pos(), "Time.Format with a layout other than the constant \"2006-01-02\" is outside the subset")
		}
		return nil
	}}
	trPrims["(io.Writer).Write"] = trPrim{lean: "Writer.Write", mutRecv: true, results: true}
}

// ---------------------------------------------------------------------------------------------- io.Writer, []byte

func trIsWriter(ty types.Type) bool { return trIsNamed(ty, "io", "Writer") }

func trIsByteSlice(ty types.Type) bool {
	s, ok := ty.Underlying().(*types.Slice)
	if !ok {
		return false
	}
	b, ok := s.Elem().Underlying().(*types.Basic)
	return ok && b.Kind() == types.Uint8
}

// ---------------------------------------------------------------------------------------------- writer calls

// writerCallee: fmt.Fprintf(p, …) / io.WriteString(p, s) with p of a translated struct type that has a translated method Write:
// the method and the receiver expression
func (t *trTranslator) writerCallee(info *types.Info, x *ast.CallExpr) (*trFunc, ast.Expr) {
	sel, ok := trUnparen(x.Fun).(*ast.SelectorExpr)
	if !ok || len(x.Args) < 2 {
		return nil, nil
	}
	if _, isSel := info.Selections[sel]; isSel {
		return nil, nil
	}
	fo, _ := info.Uses[sel.Sel].(*types.Func)
	if fo == nil {
		return nil, nil
	}
	full := fo.FullName()
	if full != "fmt.Fprintf" && full != "io.WriteString" {
		return nil, nil
	}
	tv, ok := info.Types[x.Args[0]]
	if !ok || tv.Type == nil {
		return nil, nil
	}
	ty := tv.Type
	if p, ok := ty.Underlying().(*types.Pointer); ok {
		ty = p.Elem()
	}
	n, ok := ty.(*types.Named)
	if !ok {
		return nil, nil
	}
	ms := types.NewMethodSet(types.NewPointer(n))
	var write *types.Func
	for i := 0; i < ms.Len(); i++ {
		m, _ := ms.At(i).Obj().(*types.Func)
		if m == nil {
			continue
		}
		switch m.Name() {
		case "Write":
			write = m
		case "WriteString":
			if full == "io.WriteString" {
				return nil, nil // io.WriteString would call it instead of Write
			}
		}
	}
	if write == nil {
		return nil, nil
	}
	sig := write.Type().(*types.Signature)
	if sig.Params().Len() != 1 || !trIsByteSlice(sig.Params().At(0).Type()) || sig.Results().Len() != 2 ||
		!trIsInt(sig.Results().At(0).Type()) || !trIsError(sig.Results().At(1).Type()) {
		return nil, nil
	}
	tf := t.funcs[write.Origin()]
	if tf == nil {
		return nil, nil
	}
	return tf, x.Args[0]
}

// writerSynth: the call `recv.Write(text)` that a writer call stands for; the text is a synthetic expression node that carries
// the translated Lean term
func (c *trCtx) writerSynth(x *ast.CallExpr) *ast.CallExpr {
	tf, _ := c.t.writerCallee(c.info(), x)
	if tf == nil {
		return nil
	}
	sel := trUnparen(x.Fun).(*ast.SelectorExpr)
	var text string
	if sel.Sel.Name == "WriteString" {
		if len(x.Args) != 2 {
			trFail(x.Pos(), "io.WriteString with %d arguments", len(x.Args))
		}
		text = c.expr(x.Args[1])
	} else {
		text = c.sprintf(x, 1)
	}
	node := &ast.BasicLit{ValuePos: x.Pos(), Kind: token.STRING, Value: "\"<formatted text>\""}
	if c.synth == nil {
		c.synth = map[ast.Expr]string{}
	}
	c.synth[node] = text
	c.info().Types[node] = types.TypeAndValue{Type: types.Typ[types.String]}
	cc := *x
	cc.Args = []ast.Expr{node}
	return &cc
}

// ---------------------------------------------------------------------------------------------- formatting

// sprintf: the text that fmt formats for the constant format string x.Args[at] and the operands after it
func (c *trCtx) sprintf(x *ast.CallExpr, at int) string {
	tv := c.info().Types[x.Args[at]]
	if tv.Value == nil {
		trFail(x.Pos(), "a non-constant format string is outside the subset")
	}
	format, _ := strconv.Unquote(tv.Value.ExactString())
	if x.Ellipsis != token.NoPos {
		trFail(x.Pos(), "call with … is outside the subset")
	}
	ops := x.Args[at+1:]
	var parts []string
	arg := 0
	lit := ""
	flush := func() {
		if lit != "" {
			parts = append(parts, trLeanStr(lit))
			lit = ""
		}
	}
	next := func() ast.Expr {
		if arg >= len(ops) {
			trFail(x.Pos(), "format %q: missing operand", format)
		}
		arg++
		return ops[arg-1]
	}
	for i := 0; i < len(format); i++ {
		if format[i] != '%' {
			lit += string(format[i])
			continue
		}
		i++
		if i >= len(format) {
			trFail(x.Pos(), "format %q ends in %%", format)
		}
		if format[i] == '%' {
			lit += "%"
			continue
		}
		minus := false
		if format[i] == '-' {
			minus = true
			i++
		}
		width, star := "", ""
		if i < len(format) && format[i] == '*' {
			w := next()
			if !trIsInt(c.typeOf(w)) || c.typeOf(w) != types.Typ[types.Int] {
				trFail(w.Pos(), "format %q: the operand of * is not an int", format)
			}
			star = c.expr(w)
			i++
		} else {
			for i < len(format) && format[i] >= '0' && format[i] <= '9' {
				if width == "" && format[i] == '0' {
					trFail(x.Pos(), "format %q: the flag 0 is outside the subset", format)
				}
				width += string(format[i])
				i++
			}
			if len(width) > 6 {
				trFail(x.Pos(), "format %q: width too large", format)
			}
		}
		if i >= len(format) {
			trFail(x.Pos(), "format %q ends inside a verb", format)
		}
		verb := format[i]
		var s string
		switch verb {
		case 's', 'v':
			s = c.fmtString(next(), verb)
		case 'd':
			o := next()
			if c.typeOf(o) != types.Typ[types.Int] {
				trFail(o.Pos(), "format %q: %%d with an operand of type %s is outside the subset", format, c.typeOf(o))
			}
			s = "(Strings.itoa " + c.expr(o) + ")"
		default:
			trFail(x.Pos(), "format %q: verb %%%c is outside the subset", format, verb)
		}
		flush()
		switch {
		case star != "":
			s = "(Fmt.padStar " + strconv.FormatBool(minus) + " " + star + " " + s + ")"
		case width != "":
			s = "(Fmt.pad " + strconv.FormatBool(minus) + " (" + width + " : Int) " + s + ")"
		case minus:
			// `%-s`: without a width the flag has no effect
		}
		parts = append(parts, s)
	}
	flush()
	if arg != len(ops) {
		trFail(x.Pos(), "format %q: extra operands (fmt would print %%!(EXTRA …))", format)
	}
	if len(parts) == 0 {
		return "\"\""
	}
	if len(parts) == 1 {
		return parts[0]
	}
	return "(" + strings.Join(parts, " ++ ") + ")"
}

// fmtString: what %s / %v print for the operand: a string itself; a Stringer through its String method (fmt's handleMethods)
func (c *trCtx) fmtString(o ast.Expr, verb byte) string {
	ty := c.typeOf(o)
	if b, ok := ty.(*types.Basic); ok && b.Info()&types.IsString != 0 {
		return c.expr(o)
	}
	if trIsDecimal(ty) {
		return "(Decimal.String " + c.expr(o) + ")"
	}
	if verb == 'v' && c.typeOf(o) == types.Typ[types.Int] {
		return "(Strings.itoa " + c.expr(o) + ")"
	}
	// a named type (or a pointer to one) with a translated method String() string; a named type with an Error method would
	// print that instead (checked: none)
	base := ty
	if p, ok := ty.Underlying().(*types.Pointer); ok {
		base = p.Elem()
	}
	if n, ok := base.(*types.Named); ok && n.Obj().Pkg() != nil {
		ms := types.NewMethodSet(ty)
		var str *types.Func
		for i := 0; i < ms.Len(); i++ {
			m, _ := ms.At(i).Obj().(*types.Func)
			if m == nil {
				continue
			}
			switch m.Name() {
			case "Error", "Format", "GoString":
				trFail(o.Pos(), "operand of type %s has a method %s: outside the subset", ty, m.Name())
			case "String":
				str = m
			}
		}
		if str != nil {
			sig := str.Type().(*types.Signature)
			tf := c.t.funcs[str.Origin()]
			if tf == nil || tf.effect || len(tf.mut) > 0 || tf.norder > 0 || sig.Params().Len() != 0 || sig.Results().Len() != 1 ||
				!isBasicKind(sig.Results().At(0).Type(), types.IsString) {
				trFail(o.Pos(), "operand of type %s: its method String is not a translated pure function", ty)
			}
			c.fn.deps = append(c.fn.deps, tf)
			return "(" + c.t.qname(c.unit(), tf.unit, tf.leanName) + " " + c.expr(o) + ")"
		}
	}
	trFail(o.Pos(), "verb %%%c with an operand of type %s is outside the subset", verb, ty)
	return ""
}

// stringerCallees: the String methods that the operands of the writer calls and Sprintf calls inside root use (for the call order)
func (t *trTranslator) fmtCallees(info *types.Info, x *ast.CallExpr) []*trFunc {
	sel, ok := trUnparen(x.Fun).(*ast.SelectorExpr)
	if !ok {
		return nil
	}
	fo, _ := info.Uses[sel.Sel].(*types.Func)
	if fo == nil || (fo.FullName() != "fmt.Fprintf" && fo.FullName() != "fmt.Sprintf") {
		return nil
	}
	var res []*trFunc
	for _, a := range x.Args {
		tv, ok := info.Types[a]
		if !ok || tv.Type == nil {
			continue
		}
		ms := types.NewMethodSet(tv.Type)
		for i := 0; i < ms.Len(); i++ {
			if m, _ := ms.At(i).Obj().(*types.Func); m != nil && m.Name() == "String" {
				if tf := t.funcs[m.Origin()]; tf != nil {
					res = append(res, tf)
				}
			}
		}
	}
	return res
}

// ---------------------------------------------------------------------------------------------- prelude methods with results

// primResultCall: `a, b := recv.M(args)` / `recv.M(args)` for a prelude method that writes to its receiver AND has results
// (io.Writer.Write): the Lean function returns the new receiver first
func (c *trCtx) primResultCall(call *ast.CallExpr, lhs []ast.Expr, define bool, k trK) (trLines, bool) {
	fo := c.calledFunc(call)
	if fo == nil {
		return nil, false
	}
	p, ok := trPrims[fo.FullName()]
	if !ok || !p.results {
		return nil, false
	}
	sel := trUnparen(call.Fun).(*ast.SelectorExpr)
	args := []string{c.expr(sel.X)}
	for _, a := range call.Args {
		args = append(args, c.expr(a))
	}
	nres := fo.Type().(*types.Signature).Results().Len()
	if len(lhs) != 0 && len(lhs) != nres {
		trFail(call.Pos(), "call of %s with %d results assigned to %d targets", fo.FullName(), nres, len(lhs))
	}
	pre := c.takePre()
	st := c.fresh("r")
	if define {
		for _, l := range lhs {
			c.declare(l)
		}
	}
	targets := append([]ast.Expr{sel.X}, lhs...)
	total := 1 + nres
	var body func(i int) trLines
	body = func(i int) trLines {
		if i == len(targets) {
			return k()
		}
		proj := st + strings.Repeat(".2", i)
		if i < total-1 {
			proj += ".1"
		}
		return c.store(targets[i], proj, call.Pos(), func() trLines { return body(i + 1) })
	}
	return trWrapPre(pre, trLet(st, "", trOne("("+p.lean+" "+strings.Join(args, " ")+")"), body(0))), true
}

// ---------------------------------------------------------------------------------------------- nilable slice fields

// trNilable: struct fields of slice type whose nil-ness the translated code observes (`t.Targets != nil` in the printer: a nil
// slice prints nothing, an empty one prints `@performance()`)
var trNilable = map[string]bool{
	trKnutPath + "lib/model/transaction.Transaction.Targets": true,
	trKnutPath + "lib/model/transaction.Builder.Targets":     true,
}

func trNilableField(recv types.Type, field string) bool {
	if p, ok := recv.Underlying().(*types.Pointer); ok {
		recv = p.Elem()
	}
	n, ok := recv.(*types.Named)
	if !ok || n.Obj().Pkg() == nil {
		return false
	}
	return trNilable[n.Obj().Pkg().Path()+"."+n.Obj().Name()+"."+field]
}

// nilableSel: e is the selection of a nilable field
func (c *trCtx) nilableSel(e ast.Expr) (*ast.SelectorExpr, bool) {
	sel, ok := trUnparen(e).(*ast.SelectorExpr)
	if !ok {
		return nil, false
	}
	s, ok := c.info().Selections[sel]
	if !ok || s.Kind() != types.FieldVal || len(s.Index()) != 1 {
		return nil, false
	}
	return sel, trNilableField(s.Recv(), sel.Sel.Name)
}

// nilableRaw: the Option value of the selection of a nilable field
func (c *trCtx) nilableRaw(sel *ast.SelectorExpr) string {
	c.leanType(c.info().Selections[sel].Recv(), sel.Pos())
	return c.expr(sel.X) + "." + trMangle(sel.Sel.Name)
}

// nilableValue: an expression stored into a nilable field
func (c *trCtx) nilableValue(e ast.Expr, fieldTy types.Type) string {
	if sel, ok := c.nilableSel(e); ok {
		return c.nilableRaw(sel)
	}
	lt := c.leanType(fieldTy, e.Pos())
	if c.isNil(e) {
		return "(none : Option " + lt + ")"
	}
	switch x := trUnparen(e).(type) {
	case *ast.CompositeLit:
		return "(some " + c.expr(x) + ")"
	case *ast.CallExpr:
		if id, ok := trUnparen(x.Fun).(*ast.Ident); ok {
			if b, ok := c.info().Uses[id].(*types.Builtin); ok && b.Name() == "make" {
				return "(some " + c.expr(x) + ")"
			}
		}
	}
	trFail(e.Pos(), "a field whose nil-ness is observed may only be set from nil, a slice literal, make or another such field: the nil-ness of this value is not tracked")
	return ""
}
