import Knut.Proofs.PrintImportBrokers
/-!
# C13, text level: the importer's text parses to its directives; with the accounts opened it is accepted and reprinted

* `importer_printable` - well-formed + fine directives are printable (all eleven importers satisfy both);
* `render_loads` - the text `journal.Print` writes for the builder's journal loads back to the directives, grouped by
  day and kind as printed, a permutation of what the importer added;
* `withOpens_*` - the file the harness feeds to `knut print`: one `open` per account dated before every directive, a blank
  line, then the importer's text. It is the printed form of the journal `openDay :: built days`; `knut print` reproduces it
  whenever the checker accepts it, and the checker does accept it when the importer emitted transactions and prices only
  and all accounts booked on are among the opened ones.
-/
set_option linter.unusedSimpArgs false
set_option linter.unusedVariables false
namespace Knut.Proofs.Import
open Knut Knut.Import Knut.Spec.Import Knut.FromSyntax Knut.JournalPrinter Knut.Utf8

theorem importer_printable {na : Bool} {ds : List Directive} (hw : WF ds) (hf : AllFn na ds) : ∀ d ∈ ds, PrintableDir d :=
  fun d hd => printable_of_wf_fine d (hw d hd) (hf d hd).1

/-- **the importer's text parses to exactly the directives it built** (in the order `journal.Print` writes them) -/
theorem render_loads (path : String) (ds : List Directive) (h : ∀ d ∈ ds, PrintableDir d) :
    loadText path (strBytes (render ds)) = .ok (printedDirs ds) ∧ (printedDirs ds).Perm ds :=
  ⟨load_print path _ (printable_built ds h).dirs, journalDirs_built_perm ds⟩

/-! ### the accounts opened the day before -/

/-- the day of the opens -/
def openDay (o : Int) (accts : List Account) : Day := { date := o, openings := accts.map (fun a => ⟨o, a⟩) }

/-- `<date> open <account>` per account and a blank line -/
def opensText (o : Int) (accts : List Account) : String :=
  String.join (accts.map (fun a => printOpen ⟨o, a⟩ ++ "\n")) ++ (if accts.isEmpty then "" else "\n")

theorem padding_openDay (o : Int) (accts : List Account) (j : List Day) : padding (openDay o accts :: j) = padding j := by
  simp [padding, openDay]

theorem printDay_openDay (pad : Nat) (o : Int) (accts : List Account) : printDay pad (openDay o accts) = opensText o accts := by
  simp [printDay, openDay, opensText, sortTxs, printAssertions, List.map_map, Function.comp_def]

/-- the harness' file is the printed form of the journal with the day of opens in front -/
theorem print_withOpens (o : Int) (accts : List Account) (j : List Day) :
    print (openDay o accts :: j) = opensText o accts ++ print j := by
  unfold print
  rw [padding_openDay, List.map_cons, join_cons, printDay_openDay]

theorem printable_withOpens (o : Int) (accts : List Account) (j : List Day) (hj : PrintableJournal j) (hne : accts ≠ [])
    (ho : PrintableDate o) (ha : ∀ a ∈ accts, PrintableAccount a = true) (hlt : ∀ d ∈ j, o < d.date) :
    PrintableJournal (openDay o accts :: j) := by
  refine ⟨List.pairwise_cons.mpr ⟨fun d hd => hlt d hd, hj.1⟩, ?_⟩
  intro d hd
  rcases List.mem_cons.mp hd with rfl | hd
  · refine ⟨?_, ?_⟩
    · cases accts with
      | nil => exact absurd rfl hne
      | cons a rest => simp [rawDirs, openDay]
    · intro x hx
      simp only [rawDirs, openDay, List.map_nil, List.nil_append, List.append_nil, List.map_map, List.mem_map,
        Function.comp_def] at hx
      obtain ⟨a, ha', rfl⟩ := hx
      exact ⟨rfl, ho, ha a ha'⟩
  · exact hj.2 d hd

/-- **`knut print` reproduces opens + output** whenever the checker accepts it -/
theorem withOpens_reprinted (path : String) (o : Int) (accts : List Account) (ds : List Directive)
    (h : ∀ d ∈ ds, PrintableDir d) (hne : accts ≠ []) (ho : PrintableDate o)
    (ha : ∀ a ∈ accts, PrintableAccount a = true) (hlt : ∀ d ∈ ds, o < d.date)
    (hacc : (Check.run (openDay o accts :: (Builder.ofList ds).build)).isOk = true) :
    printFile path (strBytes (opensText o accts ++ render ds)) = .ok (opensText o accts ++ render ds) := by
  have hj := printable_built ds h
  have hlt' : ∀ d ∈ (Builder.ofList ds).build, o < d.date := by
    intro d hd
    have : d.date ∈ (Builder.ofList ds).days.map (·.date) := List.mem_map.mpr ⟨d, hd, rfl⟩
    rw [ofList_dates] at this
    obtain ⟨x, hx, e⟩ := List.mem_map.mp this
    rw [← e]; exact hlt x hx
  have := printFile_fixpoint path _ (printable_withOpens o accts _ hj hne ho ha hlt') hacc
  rw [print_withOpens] at this
  exact this

/-! ### acceptance: transactions and prices on opened accounts -/

theorem contains_iff {a : Account} {l : List Account} : l.contains a = true ↔ a ∈ l := by simp

theorem openAll (accts : List Account) (st : CheckState) (hnd : accts.Nodup) (hnew : ∀ a ∈ accts, a ∉ st.accounts) (o : Int) :
    ∃ st', (accts.map (fun a => (⟨o, a⟩ : Open))).foldlM Check.openAcc st = .ok st' ∧
      ∀ a, a ∈ st'.accounts ↔ a ∈ accts ∨ a ∈ st.accounts := by
  induction accts generalizing st with
  | nil => exact ⟨st, rfl, by simp⟩
  | cons a rest ih =>
    rw [List.nodup_cons] at hnd
    have hna : a ∉ st.accounts := hnew a List.mem_cons_self
    have hstep : Check.openAcc st ⟨o, a⟩ = .ok { st with accounts := a :: st.accounts } := by
      unfold Check.openAcc
      simp [hna]
    obtain ⟨st', h1, h2⟩ := ih { st with accounts := a :: st.accounts } hnd.2 (by
      intro b hb hmem
      simp only [List.mem_cons] at hmem
      rcases hmem with rfl | hmem
      · exact hnd.1 hb
      · exact hnew b (List.mem_cons_of_mem _ hb) hmem)
    refine ⟨st', ?_, ?_⟩
    · simp only [List.map_cons, List.foldlM_cons, hstep]
      exact h1
    · intro b
      rw [h2 b]
      simp only [List.mem_cons]
      constructor
      · rintro (h | h | h)
        · exact Or.inl (Or.inr h)
        · exact Or.inl (Or.inl h)
        · exact Or.inr h
      · rintro ((h | h) | h)
        · exact Or.inr (Or.inl h)
        · exact Or.inl h
        · exact Or.inr (Or.inr h)

theorem posting_ok (t : Transaction) (p : Posting) (st : CheckState) (h : p.account ∈ st.accounts) :
    ∃ st', Check.posting st t p = .ok st' ∧ st'.accounts = st.accounts := by
  have hc : st.accounts.contains p.account = true := by simpa using h
  unfold Check.posting
  simp only [hc, Bool.not_true, Bool.false_eq_true, if_false]
  split
  · exact ⟨_, rfl, rfl⟩
  · exact ⟨_, rfl, rfl⟩

theorem postings_ok (t : Transaction) (ps : List Posting) (st : CheckState) (h : ∀ p ∈ ps, p.account ∈ st.accounts) :
    ∃ st', ps.foldlM (fun st p => Check.posting st t p) st = .ok st' ∧ st'.accounts = st.accounts := by
  induction ps generalizing st with
  | nil => exact ⟨st, rfl, rfl⟩
  | cons p rest ih =>
    obtain ⟨st1, h1, e1⟩ := posting_ok t p st (h p List.mem_cons_self)
    obtain ⟨st2, h2, e2⟩ := ih st1 (fun q hq => by rw [e1]; exact h q (List.mem_cons_of_mem _ hq))
    refine ⟨st2, ?_, e2.trans e1⟩
    simp only [List.foldlM_cons, h1]
    exact h2

theorem txs_ok (ts : List Transaction) (st : CheckState) (h : ∀ t ∈ ts, ∀ p ∈ t.postings, p.account ∈ st.accounts) :
    ∃ st', ts.foldlM (fun st t => t.postings.foldlM (fun st p => Check.posting st t p) st) st = .ok st' ∧
      st'.accounts = st.accounts := by
  induction ts generalizing st with
  | nil => exact ⟨st, rfl, rfl⟩
  | cons t rest ih =>
    obtain ⟨st1, h1, e1⟩ := postings_ok t t.postings st (h t List.mem_cons_self)
    obtain ⟨st2, h2, e2⟩ := ih st1 (fun u hu p hp => by rw [e1]; exact h u (List.mem_cons_of_mem _ hu) p hp)
    refine ⟨st2, ?_, e2.trans e1⟩
    simp only [List.foldlM_cons, h1]
    exact h2

/-- a day of transactions (and prices) only -/
def TxDay (d : Day) : Prop := d.openings = [] ∧ d.assertions = [] ∧ d.closings = []

theorem day_ok (d : Day) (st : CheckState) (hd : TxDay d) (h : ∀ t ∈ d.transactions, ∀ p ∈ t.postings, p.account ∈ st.accounts) :
    ∃ st', Check.day st d = .ok st' ∧ st'.accounts = st.accounts := by
  obtain ⟨st1, h1, e1⟩ := txs_ok d.transactions st h
  refine ⟨st1, ?_, e1⟩
  unfold Check.day
  rw [hd.1, hd.2.1, hd.2.2]
  simp only [List.foldlM_nil, bind_pure_comp, pure_bind]
  rw [h1]; rfl

theorem days_ok (j : List Day) (st : CheckState) (hd : ∀ d ∈ j, TxDay d)
    (h : ∀ d ∈ j, ∀ t ∈ d.transactions, ∀ p ∈ t.postings, p.account ∈ st.accounts) :
    ∃ st', j.foldlM Check.day st = .ok st' := by
  induction j generalizing st with
  | nil => exact ⟨st, rfl⟩
  | cons d rest ih =>
    obtain ⟨st1, h1, e1⟩ := day_ok d st (hd d List.mem_cons_self) (h d List.mem_cons_self)
    obtain ⟨st2, h2⟩ := ih st1 (fun x hx => hd x (List.mem_cons_of_mem _ hx))
      (fun x hx t ht p hp => by rw [e1]; exact h x (List.mem_cons_of_mem _ hx) t ht p hp)
    exact ⟨st2, by simp only [List.foldlM_cons, h1]; exact h2⟩

/-- the builder's days hold transactions and prices only if the directives do -/
theorem built_txDays (ds : List Directive) (h : ∀ d ∈ ds, TxOrPrice d) : ∀ d ∈ (Builder.ofList ds).build, TxDay d := by
  intro d hd
  have key : ∀ {α : Type} (k : Kind α), (∀ x ∈ ds, k.pick x = none) → k.proj d = [] := by
    intro α k hk
    have hs := ofList_spec k ds
    rw [← contentOn_self k _ hs.1 d hd, hs.2]
    unfold collect
    apply List.filterMap_eq_nil_iff.mpr
    intro x hx
    split
    · exact hk x hx
    · rfl
  refine ⟨key openKind ?_, key assertKind ?_, key closeKind ?_⟩ <;>
  · intro x hx
    have := h x hx
    cases x <;> first | rfl | exact this.elim

theorem built_tx_mem (ds : List Directive) (d : Day) (hd : d ∈ (Builder.ofList ds).build) (t : Transaction)
    (ht : t ∈ d.transactions) : Directive.tx t ∈ ds := by
  apply (mem_journalDirs_built ds _).mp
  exact List.mem_flatMap.mpr ⟨d, hd, (mem_dayDirs d _).mpr (Or.inr (Or.inr (Or.inl ⟨t, ht, rfl⟩)))⟩

/-- **opens + output is accepted** when the importer emitted transactions and prices only and every account booked on
is opened exactly once -/
theorem withOpens_accepted (o : Int) (accts : List Account) (ds : List Directive) (hnd : accts.Nodup)
    (hna : ∀ d ∈ ds, TxOrPrice d) (hacc : ∀ t, Directive.tx t ∈ ds → ∀ p ∈ t.postings, p.account ∈ accts) :
    (Check.run (openDay o accts :: (Builder.ofList ds).build)).isOk = true := by
  unfold Check.run
  rw [List.foldlM_cons]
  obtain ⟨st0, h0, e0⟩ := openAll accts {} hnd (fun a _ hm => by cases hm) o
  have hday : Check.day {} (openDay o accts) = .ok st0 := by
    unfold Check.day openDay
    simp only [List.foldlM_nil, bind_pure_comp, pure_bind]
    rw [h0]; rfl
  rw [hday]
  obtain ⟨st', h'⟩ := days_ok (Builder.ofList ds).build st0 (built_txDays ds hna) (by
    intro d hd t ht p hp
    rw [e0]
    exact Or.inl (hacc t (built_tx_mem ds d hd t ht) p hp))
  show (List.foldlM Check.day st0 (Builder.ofList ds).build).isOk = true
  rw [h']; rfl

end Knut.Proofs.Import
