import Knut.GoSem.Parse
/-!
# Meaning of `time.Parse(layout, s)` for the layouts of the importers (`harness/trans_units_import.go`)

`time.Parse("02.01.2006", s)` (`ch.swisscard2`, `ch.swisscard`, `ch.supercard`, `ch.cumulus`): the steps of the importer models'
layout interpreter (`Model/Import/Common.lean`: `parseEls` on `layoutDMYdot` = `02`, `.`, `01`, `.`, `2006`), written out for this
layout so that the generated modules need not import the model; `FactsAgree/TransImportSwisscard2.lean` proves the copy equal to
the original (`parseDMYdot_model`).  The original is compared with the real `time.Parse` by the stream `lib-date` of C13.

* `getnum(value, fixed)`: two digits (with `fixed` exactly two; otherwise one or two);
* `skip(value, ".")`: the next character is the point;
* the month is range checked at once (`1…12`), the day after the whole value is read (`1…daysIn`), the year is exactly four digits,
  text after the year is an error (`extra text`).

An `error` keeps the message class only; on an error Go returns the zero `time.Time`.
-/
namespace Knut.GoSem

namespace ParseLayout

def charVal (c : Char) : Nat := c.toNat - '0'.toNat

/-- `getnum(value, fixed)` -/
def getnum (fixed : Bool) : List Char → Option (Nat × List Char)
  | [] => none
  | a :: rest =>
    if !Parse.isDig a then none else
    match rest with
    | b :: rest' => if Parse.isDig b then some (charVal a * 10 + charVal b, rest') else if fixed then none else some (charVal a, rest)
    | [] => if fixed then none else some (charVal a, [])

/-- `skip(value, ".")` -/
def skipDot : List Char → Option (List Char)
  | [] => none
  | c :: v => if c == '.' then some v else none

/-- `2006`: exactly four digits -/
def year4 : List Char → Option (Nat × List Char)
  | a :: b :: c :: d :: v' =>
    if Parse.isDig a && Parse.isDig b && Parse.isDig c && Parse.isDig d then
      some (charVal a * 1000 + charVal b * 100 + charVal c * 10 + charVal d, v')
    else none
  | _ => none

def daysIn (y m : Int) : Int :=
  if m = 2 then (if Date.isLeap y then 29 else 28)
  else if m = 4 || m = 6 || m = 9 || m = 11 then 30 else 31

/-- `time.Parse("02.01.2006", s)` as a day number -/
def parseDMYdot (s : String) : Option Int :=
  (getnum true s.toList).bind (fun (d, v1) =>
  (skipDot v1).bind (fun v2 =>
  (getnum true v2).bind (fun (m, v3) =>
  if m = 0 || 12 < m then none else
  (skipDot v3).bind (fun v4 =>
  (year4 v4).bind (fun (y, v5) =>
  if !v5.isEmpty then none else
  if (d : Int) < 1 || daysIn y m < d then none else some (Date.ofCivil y m d))))))

end ParseLayout

namespace Time
/-- `time.Parse("02.01.2006", s)`: the day number, or the error (then the zero time: day 0) -/
def ParseDMYdot (s : String) : Int × Option Error :=
  match ParseLayout.parseDMYdot s with
  | some d => (d, none)
  | none => (0, some ⟨"time.Parse"⟩)
end Time

end Knut.GoSem
