import Knut.Proofs.MTMSpec
import Knut.Proofs.LedgerCommand
/-!
# C03: helper lemmas for the command-level clauses (missing price, gain account, flows)

* `mem_daysOf_tx` – every transaction directive sits in the day of its date in the day list the command builds;
* `dayQ_valuate` – a day that went through all stages went through `Balance.valuateDay` with the normalised prices the
  state holds afterwards;
* `sorted_prefix_at` – in a date-sorted list `L1 ++ d :: L2` the days dated `≤ d.date` are `L1 ++ [d]`;
* `TxShape`, `dayQ_shape`, `pipelineRun_shape` – what the transactions handed to the Query stage look like: a valued
  journal transaction (zero-quantity postings carry no value), a value adjustment, or a closing.
-/
namespace Knut.MTM
open Knut Knut.Dec Knut.LedgerCommand

/-! ### the days of the command hold the journal's transactions -/

theorem insertDay_subset (days : List Day) (x : Int) : ∀ d ∈ days, d ∈ insertDay days x := by
  induction days with
  | nil => intro d hd; cases hd
  | cons d0 rest ih =>
    intro d hd
    unfold insertDay
    split
    · exact List.mem_cons_of_mem _ hd
    · split
      · exact hd
      · rcases List.mem_cons.mp hd with rfl | hd
        · exact List.mem_cons_self
        · exact List.mem_cons_of_mem _ (ih d hd)

theorem ensureDays_subset (dates : List Int) : ∀ (days : List Day), ∀ d ∈ days, d ∈ dates.foldl insertDay days := by
  induction dates with
  | nil => intro days d hd; exact hd
  | cons x rest ih => intro days d hd; rw [List.foldl_cons]; exact ih _ d (insertDay_subset days x d hd)

theorem mem_build_tx (ds : List Directive) (t : Transaction) (ht : Directive.tx t ∈ ds) :
    ∃ d ∈ (Builder.ofList ds).build, d.date = t.date ∧ t ∈ d.transactions := by
  have hspec := (ofList_spec txKind ds).2 t.date
  have hmem : t ∈ collect txKind ds t.date := by
    unfold collect
    rw [List.mem_filterMap]
    exact ⟨Directive.tx t, ht, by simp [Directive.date, txKind]⟩
  rw [← hspec] at hmem
  unfold contentOn at hmem
  cases hf : findDay (Builder.ofList ds).days t.date with
  | none => rw [hf] at hmem; cases hmem
  | some d =>
    rw [hf] at hmem
    simp only [Option.map_some, Option.getD_some] at hmem
    unfold findDay at hf
    have h1 := List.mem_of_find?_eq_some hf
    have h2 := List.find?_some hf
    simp only [decide_eq_true_eq] at h2
    exact ⟨d, h1, h2, hmem⟩

/-- every transaction directive sits in the day of its date in the day list the command builds -/
theorem mem_daysOf_tx (f : BalanceFlags) (ds : List Directive) (part : Partition) (t : Transaction)
    (ht : Directive.tx t ∈ ds) : ∃ d ∈ daysOf f ds part, d.date = t.date ∧ t ∈ d.transactions := by
  obtain ⟨d, hd, h1, h2⟩ := mem_build_tx ds t ht
  refine ⟨d, ?_, h1, h2⟩
  unfold daysOf Builder.build Builder.ensureDays
  split
  · exact ensureDays_subset _ _ d hd
  · exact hd

/-! ### a day that passed all stages passed `valuateDay` -/

theorem dayQ_valuate (cfg : BalCfg) (v : Commodity) (st st' : BalState) (d : Day) (txs : List Transaction)
    (hv : cfg.valuation = some v) (h : dayQ cfg st d = .ok (st', txs)) :
    ∃ stp r, Balance.valuateDay v stp d = .ok r ∧ stp.norm = st'.norm := by
  unfold dayQ at h
  cases hd : Balance.dayTxs cfg st d with
  | error e => rw [hd] at h; cases h
  | ok r =>
    obtain ⟨st3, txs3⟩ := r
    rw [hd] at h; simp only at h
    injection h with h; injection h with h1 h2; subst h1
    unfold Balance.dayTxs at hd
    simp only [bind, Except.bind] at hd
    cases hck : Balance.checkStage st d with
    | error e => rw [hck] at hd; cases hd
    | ok stc =>
      rw [hck] at hd; simp only at hd
      cases hvs : Balance.valuationStage cfg stc d with
      | error e => rw [hvs] at hd; cases hd
      | ok r2 =>
        obtain ⟨st1, txs1⟩ := r2
        rw [hvs] at hd; simp only at hd
        injection hd with hd
        have hfin : st3.norm = st1.norm := by
          unfold Balance.closeStage at hd
          split at hd
          · injection hd with a b; subst a
            exact accumulate_inv (fun s => s.norm = st1.norm) (fun _ _ h _ => h) st1 _ rfl
          · injection hd with a b; subst a; rfl
        unfold Balance.valuationStage at hvs
        rw [hv] at hvs
        simp only [bind, Except.bind] at hvs
        cases hp : Balance.pricesDay v stc d with
        | error e => rw [hp] at hvs; cases hvs
        | ok stp =>
          rw [hp] at hvs; simp only at hvs
          refine ⟨stp, (st1, txs1), hvs, ?_⟩
          simp only
          rw [hfin]
          unfold Balance.valuateDay at hvs
          simp only [bind, Except.bind] at hvs
          split at hvs
          · cases hvs
          · split at hvs
            · cases hvs
            · injection hvs with hvs; injection hvs with a b; subst a; rfl

/-- in a date-sorted list, the days dated up to the date of a member are the members before it and itself -/
theorem sorted_prefix_at (L1 L2 : List Day) (d : Day) (hs : Sorted (L1 ++ d :: L2)) :
    (L1 ++ d :: L2).filter (fun x => x.date ≤ d.date) = L1 ++ [d] := by
  unfold Sorted at hs
  rw [List.pairwise_append] at hs
  obtain ⟨_, h2, h3⟩ := hs
  rw [List.pairwise_cons] at h2
  rw [List.filter_append, List.filter_cons]
  have e1 : L1.filter (fun x => x.date ≤ d.date) = L1 := by
    rw [List.filter_eq_self]
    intro x hx
    have := h3 x hx d List.mem_cons_self
    simp only [decide_eq_true_eq]; omega
  have e2 : L2.filter (fun x => x.date ≤ d.date) = [] := by
    rw [List.filter_eq_nil_iff]
    intro x hx
    have := h2.1 x hx
    simp only [decide_eq_true_eq]; omega
  simp only [e1, e2, Int.le_refl, decide_true, if_true]

/-! ### the shape of the transactions handed to the Query stage -/

/-- a valued journal transaction (zero-quantity postings carry no value), a value adjustment of an asset/liability
position, or a closing of an income/expense/equity position against `Equity:Equity` -/
def TxShape (t : Transaction) : Prop :=
  (∀ p ∈ t.postings, p.quantity = 0 → p.value = 0) ∨
  (∃ a c g, a.isAL = true ∧ t.postings = postingBuild (valuationAccountFor a) a c 0 g) ∨
  (∃ k c q w, k.isAL = false ∧ t.postings = postingBuild k equityAccount c q w)

theorem mapM_valuePosting_zero (v : Commodity) (cur : Option Prices.NPrices) :
    ∀ (ps : List Posting), (∀ p ∈ ps, p.quantity = 0) → ps.mapM (Balance.valuePosting v cur) = .ok ps
  | [], _ => rfl
  | p :: rest, h => by
    simp only [List.mapM_cons, bind, Except.bind]
    have hp : Balance.valuePosting v cur p = .ok p := by
      unfold Balance.valuePosting
      simp only [h p List.mem_cons_self, if_true]
    rw [hp]
    simp only
    rw [mapM_valuePosting_zero v cur rest (fun x hx => h x (List.mem_cons_of_mem _ hx))]
    rfl

theorem valuePosting_keeps_zero (v : Commodity) (cur : Option Prices.NPrices) (p p' : Posting)
    (h : Balance.valuePosting v cur p = .ok p') :
    p'.quantity = p.quantity ∧ (p.quantity = 0 → p'.value = p.value) := by
  unfold Balance.valuePosting at h
  by_cases hq : p.quantity = 0
  · simp only [hq, if_true] at h
    injection h with h; subst h
    exact ⟨rfl, fun _ => rfl⟩
  · simp only [hq, if_false] at h
    split at h
    · injection h with h; subst h; exact ⟨rfl, fun e => absurd e hq⟩
    · simp only [bind, Except.bind] at h
      split at h
      · cases h
      · injection h with h; subst h; exact ⟨rfl, fun e => absurd e hq⟩

theorem mapM_valuePosting_shape (v : Commodity) (cur : Option Prices.NPrices) :
    ∀ (ps ps' : List Posting), ps.mapM (Balance.valuePosting v cur) = .ok ps' →
      (∀ p ∈ ps, p.quantity = 0 → p.value = 0) → ∀ p' ∈ ps', p'.quantity = 0 → p'.value = 0
  | [], ps', h, _ => by
    simp only [List.mapM_nil, pure, Except.pure] at h
    injection h with h; subst h
    intro p hp; cases hp
  | p :: rest, ps', h, hz => by
    simp only [List.mapM_cons, bind, Except.bind] at h
    cases hp : Balance.valuePosting v cur p with
    | error e => rw [hp] at h; cases h
    | ok p1 =>
      rw [hp] at h; simp only at h
      cases hr : rest.mapM (Balance.valuePosting v cur) with
      | error e => rw [hr] at h; cases h
      | ok rest' =>
        rw [hr] at h; simp only [pure, Except.pure] at h
        injection h with h; subst h
        intro x hx hq
        rcases List.mem_cons.mp hx with rfl | hx
        · obtain ⟨k1, k2⟩ := valuePosting_keeps_zero v cur p x hp
          rw [k1] at hq
          rw [k2 hq]
          exact hz p List.mem_cons_self hq
        · exact mapM_valuePosting_shape v cur rest rest' hr (fun y hy => hz y (List.mem_cons_of_mem _ hy)) x hx hq

/-- the adjustments of a day are built by `postingBuild (valuationAccountFor a) a c 0 g` for A/L accounts `a` -/
theorem adjustments_shape (v : Commodity) (date : Int) (prev cur : Option Prices.NPrices)
    (q : AMap Position Rat) (adj : List Transaction) (h : Balance.adjustments v date prev cur q = .ok adj) :
    ∀ t ∈ adj, ∃ a c g, a.isAL = true ∧ t.postings = postingBuild (valuationAccountFor a) a c 0 g := by
  unfold Balance.adjustments at h
  suffices hs : ∀ (q : AMap Position Rat) (acc res : List Transaction),
      q.foldlM (Balance.adjustStep v date prev cur) acc = .ok res →
      (∀ t ∈ acc, ∃ a c g, a.isAL = true ∧ t.postings = postingBuild (valuationAccountFor a) a c 0 g) →
      ∀ t ∈ res, ∃ a c g, a.isAL = true ∧ t.postings = postingBuild (valuationAccountFor a) a c 0 g from
    hs q [] adj h (fun t ht => by cases ht)
  intro q
  induction q with
  | nil =>
    intro acc res h hacc
    simp only [List.foldlM_nil, pure, Except.pure] at h
    injection h with h; subst h; exact hacc
  | cons e rest ih =>
    intro acc res h hacc
    simp only [List.foldlM_cons, bind, Except.bind] at h
    cases hs : Balance.adjustStep v date prev cur acc e with
    | error x => rw [hs] at h; cases h
    | ok acc' =>
      rw [hs] at h; simp only at h
      apply ih acc' res h
      unfold Balance.adjustStep at hs
      split at hs
      · injection hs with hs; subst hs; exact hacc
      · rename_i hcond
        simp only [bind, Except.bind] at hs
        split at hs
        · cases hs
        · split at hs
          · cases hs
          · split at hs
            · injection hs with hs; subst hs; exact hacc
            · injection hs with hs; subst hs
              intro t ht
              rcases List.mem_append.mp ht with ht | ht
              · exact hacc t ht
              · simp only [List.mem_cons, List.not_mem_nil, or_false] at ht
                subst ht
                refine ⟨e.1.1, e.1.2, _, ?_, rfl⟩
                simp only [Bool.or_eq_true, decide_eq_true_eq, Bool.not_eq_true', not_or, Bool.not_eq_false] at hcond
                exact hcond.1.2

theorem valueTx_shape (v : Commodity) (cur : Option Prices.NPrices) (t t' : Transaction)
    (h : Balance.valueTx v cur t = .ok t')
    (ht : (∀ p ∈ t.postings, p.value = 0) ∨
      (∃ a c g, a.isAL = true ∧ t.postings = postingBuild (valuationAccountFor a) a c 0 g)) : TxShape t' := by
  unfold Balance.valueTx at h
  simp only [bind, Except.bind] at h
  cases hm : t.postings.mapM (Balance.valuePosting v cur) with
  | error e => rw [hm] at h; cases h
  | ok ps =>
    rw [hm] at h; simp only at h
    injection h with h; subst h
    rcases ht with hz | ⟨a, c, g, hal, hps⟩
    · left
      exact mapM_valuePosting_shape v cur _ _ hm (fun p hp _ => hz p hp)
    · right; left
      refine ⟨a, c, g, hal, ?_⟩
      simp only
      have hq : ∀ p ∈ t.postings, p.quantity = 0 := by rw [hps]; exact build_qty_zero _ _ _ _
      rw [mapM_valuePosting_zero v cur _ hq] at hm
      injection hm with hm
      rw [← hm, hps]

theorem mapM_valueTx_shape (v : Commodity) (cur : Option Prices.NPrices) :
    ∀ (ts ts' : List Transaction), ts.mapM (Balance.valueTx v cur) = .ok ts' →
      (∀ t ∈ ts, (∀ p ∈ t.postings, p.value = 0) ∨
        (∃ a c g, a.isAL = true ∧ t.postings = postingBuild (valuationAccountFor a) a c 0 g)) →
      ∀ t' ∈ ts', TxShape t'
  | [], ts', h, _ => by
    simp only [List.mapM_nil, pure, Except.pure] at h
    injection h with h; subst h
    intro t ht; cases ht
  | t :: rest, ts', h, hs => by
    simp only [List.mapM_cons, bind, Except.bind] at h
    cases ht : Balance.valueTx v cur t with
    | error e => rw [ht] at h; cases h
    | ok t1 =>
      rw [ht] at h; simp only at h
      cases hr : rest.mapM (Balance.valueTx v cur) with
      | error e => rw [hr] at h; cases h
      | ok rest' =>
        rw [hr] at h; simp only [pure, Except.pure] at h
        injection h with h; subst h
        intro x hx
        rcases List.mem_cons.mp hx with rfl | hx
        · exact valueTx_shape v cur t x ht (hs t List.mem_cons_self)
        · exact mapM_valueTx_shape v cur rest rest' hr (fun y hy => hs y (List.mem_cons_of_mem _ hy)) x hx

theorem closings_shape (date : Int) (cQty cVal : AMap Position Rat) (hk : ∀ k ∈ cQty.map (·.1), k.1.isAL = false) :
    ∀ t ∈ Balance.closings date cQty cVal, TxShape t := by
  intro t ht
  unfold Balance.closings at ht
  rw [List.mem_filterMap] at ht
  obtain ⟨⟨⟨a', c'⟩, q⟩, he, h⟩ := ht
  simp only at h
  split at h
  · cases h
  · injection h with h; subst h
    right; right
    exact ⟨a', c', q, _, hk (a', c') (List.mem_map.mpr ⟨((a', c'), q), he, rfl⟩), rfl⟩

/-- every transaction a day hands to the Query stage has one of the three shapes -/
theorem dayQ_shape (cfg : BalCfg) (v : Commodity) (st st' : BalState) (d : Day) (txs : List Transaction)
    (hv : cfg.valuation = some v) (hinv : CloseInv st)
    (hz : ∀ t ∈ d.transactions, ∀ p ∈ t.postings, p.value = 0)
    (h : dayQ cfg st d = .ok (st', txs)) : ∀ t ∈ txs, TxShape t := by
  unfold dayQ at h
  cases hd : Balance.dayTxs cfg st d with
  | error e => rw [hd] at h; cases h
  | ok r =>
    obtain ⟨st3, txs3⟩ := r
    rw [hd] at h; simp only at h
    injection h with h; injection h with h1 h2; subst h1; subst h2
    unfold Balance.dayTxs at hd
    simp only [bind, Except.bind] at hd
    cases hck : Balance.checkStage st d with
    | error e => rw [hck] at hd; cases hd
    | ok stc =>
      rw [hck] at hd; simp only at hd
      cases hvs : Balance.valuationStage cfg stc d with
      | error e => rw [hvs] at hd; cases hd
      | ok r2 =>
        obtain ⟨st1, txs1⟩ := r2
        rw [hvs] at hd; simp only at hd
        injection hd with hd
        obtain ⟨_, c3⟩ := checkStage_frame st stc d hck
        have hinv1 : CloseInv st1 := by
          unfold CloseInv
          rw [(valuationStage_frame cfg stc st1 d txs1 hvs).1, c3]
          exact hinv
        have h1 : ∀ t ∈ txs1, TxShape t := by
          unfold Balance.valuationStage at hvs
          rw [hv] at hvs
          simp only [bind, Except.bind] at hvs
          cases hp : Balance.pricesDay v stc d with
          | error e => rw [hp] at hvs; cases hvs
          | ok stp =>
            rw [hp] at hvs; simp only at hvs
            unfold Balance.valuateDay at hvs
            simp only [bind, Except.bind] at hvs
            cases ha : Balance.adjustments v d.date stp.vPrev stp.norm stp.vQty with
            | error e => rw [ha] at hvs; cases hvs
            | ok adj =>
              rw [ha] at hvs; simp only at hvs
              cases hm : (d.transactions ++ adj).mapM (Balance.valueTx v stp.norm) with
              | error e => rw [hm] at hvs; cases hvs
              | ok txsv =>
                rw [hm] at hvs; simp only at hvs
                injection hvs with hvs; injection hvs with a b; subst b
                apply mapM_valueTx_shape v stp.norm _ _ hm
                intro t ht
                rcases List.mem_append.mp ht with ht | ht
                · exact Or.inl (hz t ht)
                · exact Or.inr (adjustments_shape v d.date _ _ _ adj ha t ht)
        unfold Balance.closeStage Balance.filterStage at hd
        intro t ht
        split at hd
        · injection hd with a b; subst b
          rcases List.mem_append.mp ht with ht | ht
          · split at ht
            · exact h1 t ht
            · cases ht
          · split at ht
            · exact closings_shape _ _ _ hinv1 t ht
            · cases ht
        · injection hd with a b; subst b
          split at ht
          · exact h1 t ht
          · cases ht

theorem pipelineRun_shape (cfg : BalCfg) (v : Commodity) (hv : cfg.valuation = some v) :
    ∀ (ds : List Day) (st st' : BalState) (txs : List Transaction), CloseInv st →
      (∀ d ∈ ds, ∀ t ∈ d.transactions, ∀ p ∈ t.postings, p.value = 0) →
      pipelineRun cfg st ds = .ok (st', txs) → ∀ t ∈ txs, TxShape t
  | [], st, st', txs, _, _, h => by
    unfold pipelineRun at h
    injection h with h; injection h with h1 h2; subst h2
    intro t ht; cases ht
  | d :: ds, st, st', txs, hinv, hz, h => by
    unfold pipelineRun at h
    cases hq : dayQ cfg st d with
    | error e => rw [hq] at h; cases h
    | ok r =>
      obtain ⟨sd, td⟩ := r
      rw [hq] at h; simp only at h
      cases hr : pipelineRun cfg sd ds with
      | error e => rw [hr] at h; cases h
      | ok r2 =>
        obtain ⟨s2, rest⟩ := r2
        rw [hr] at h; simp only at h
        injection h with h; injection h with h1 h2; subst h1; subst h2
        -- CloseInv after the day: use any A/L account
        obtain ⟨_, _, a3, _⟩ := dayQ_any cfg v st sd d td ⟨["Assets"]⟩ "" hv (by decide) hinv hq
        intro t ht
        rcases List.mem_append.mp ht with ht | ht
        · exact dayQ_shape cfg v st sd d td hv hinv (hz d List.mem_cons_self) hq t ht
        · exact pipelineRun_shape cfg v hv ds sd s2 rest a3 (fun x hx => hz x (List.mem_cons_of_mem _ hx)) hr t ht

/-! ### the gain account mirrors the adjustments -/

/-- the sum of the values of the postings of `txs` selected by `sel` -/
def sumVal (sel : Posting → Bool) (txs : List Transaction) : Rat :=
  (((txs.flatMap (·.postings)).filter sel).map (·.value)).sum

theorem sumVal_nil (sel : Posting → Bool) : sumVal sel [] = 0 := rfl

theorem sumVal_cons (sel : Posting → Bool) (t : Transaction) (ts : List Transaction) :
    sumVal sel (t :: ts) = ((t.postings.filter sel).map (·.value)).sum + sumVal sel ts := by
  unfold sumVal
  rw [List.flatMap_cons, List.filter_append, List.map_append, sum_append_rat]

/-- the value adjustments booked on the position `(a, c)`: its zero-quantity postings -/
def isAdjOn (a : Account) (c : Commodity) (p : Posting) : Bool := onPos a c p && decide (p.quantity = 0)
/-- the bookings on the position `(a, c)`: its non-zero postings -/
def isBookedOn (a : Account) (c : Commodity) (p : Posting) : Bool := onPos a c p && !decide (p.quantity = 0)
/-- the counter-postings of the adjustments of `(a, c)`: zero-quantity postings on `Income:<path of a>` against `a` -/
def isGainOf (a : Account) (c : Commodity) (p : Posting) : Bool :=
  decide (p.account = valuationAccountFor a) && decide (p.other = a) && decide (p.commodity = c) && decide (p.quantity = 0)

/-- the values on a position are its booked values plus its adjustments -/
theorem valOn_split (a : Account) (c : Commodity) (txs : List Transaction) :
    valOn a c txs = sumVal (isBookedOn a c) txs + sumVal (isAdjOn a c) txs := by
  unfold valOn posOn sumVal isBookedOn isAdjOn
  generalize txs.flatMap (·.postings) = ps
  induction ps with
  | nil => simp [Rat.add_zero]
  | cons p rest ih =>
    simp only [List.filter_cons]
    by_cases ho : onPos a c p = true <;> by_cases hq : p.quantity = 0
    · simp only [ho, hq, decide_true, Bool.not_true, Bool.and_false, Bool.and_self, Bool.false_eq_true, if_false, if_true,
        List.map_cons, List.sum_cons, ih]; grind
    · simp only [ho, hq, decide_false, Bool.not_false, Bool.and_true, Bool.and_false, Bool.false_eq_true, if_false, if_true,
        List.map_cons, List.sum_cons, ih]; grind
    · simp only [ho, Bool.false_and, Bool.false_eq_true, if_false, ih]
    · simp only [ho, Bool.false_and, Bool.false_eq_true, if_false, ih]

theorem sum_filter_zero (sel : Posting → Bool) (ps : List Posting) (h : ∀ p ∈ ps, sel p = true → p.value = 0) :
    ((ps.filter sel).map (·.value)).sum = 0 := by
  apply sum_map_zero'
  intro p hp
  exact h p (List.mem_filter.mp hp).1 (List.mem_filter.mp hp).2
where
  sum_map_zero' : ∀ (K : List Posting), (∀ c ∈ K, c.value = 0) → (K.map (·.value)).sum = 0
    | [], _ => rfl
    | k :: K, h => by
      rw [List.map_cons, List.sum_cons, h k List.mem_cons_self, Rat.zero_add]
      exact sum_map_zero' K (fun c hc => h c (List.mem_cons_of_mem _ hc))

/-- the two postings of a value adjustment -/
theorem adjustment_postings (a : Account) (c : Commodity) (g : Rat) :
    postingBuild (valuationAccountFor a) a c 0 g =
      (if g < 0 then
        [⟨a, valuationAccountFor a, c, 0, g⟩, ⟨valuationAccountFor a, a, c, 0, -g⟩]
       else
        [⟨valuationAccountFor a, a, c, 0, -g⟩, ⟨a, valuationAccountFor a, c, 0, g⟩]) := by
  unfold postingBuild
  by_cases hg : g < 0
  · simp [hg, Rat.neg_neg]
  · simp [hg]

/-- in every transaction handed to the Query stage, the counter-postings of the adjustments of `(a, c)` carry minus
the value of the adjustments of `(a, c)` -/
theorem tx_gain_mirrors (a : Account) (c : Commodity) (hal : a.isAL = true) (t : Transaction) (ht : TxShape t) :
    ((t.postings.filter (isGainOf a c)).map (·.value)).sum = -((t.postings.filter (isAdjOn a c)).map (·.value)).sum := by
  rcases ht with hz | ⟨a', c', g, hal', hps⟩ | ⟨k, c', q, w, hk, hps⟩
  · rw [sum_filter_zero _ _ (fun p hp hs => hz p hp (by
        unfold isGainOf at hs
        simp only [Bool.and_eq_true, decide_eq_true_eq] at hs
        exact hs.2)),
      sum_filter_zero _ _ (fun p hp hs => hz p hp (by
        unfold isAdjOn at hs
        simp only [Bool.and_eq_true, decide_eq_true_eq] at hs
        exact hs.2))]
    grind
  · rw [hps, adjustment_postings]
    have hne1 : valuationAccountFor a' ≠ a := valuationAccount_ne a a' hal
    have hne2 : a' ≠ valuationAccountFor a := fun e => (valuationAccount_ne a' a hal') e.symm
    unfold isGainOf isAdjOn onPos
    by_cases hk : a' = a ∧ c' = c
    · obtain ⟨h1, h2⟩ := hk; subst h1; subst h2
      have hne3 : a' ≠ valuationAccountFor a' := ne_valuationAccount a' hal
      split <;> simp [hne1, hne3, Rat.add_zero]
    · by_cases h1 : a' = a
      · have h2 : ¬ c' = c := fun h => hk ⟨h1, h⟩
        subst h1
        split <;> simp [h2, hne1, Rat.neg_zero]
      · have h3 : ¬ valuationAccountFor a' = valuationAccountFor a ∨ True := Or.inr trivial
        split <;> simp [h1, hne1, hne2, Rat.neg_zero]
  · rw [hps]
    have h1 : ∀ p ∈ postingBuild k equityAccount c' q w, isGainOf a c p = false := by
      intro p hp
      unfold isGainOf
      have hacc := build_account _ _ _ _ _ p hp
      have hoth : p.other = k ∨ p.other = equityAccount := by
        unfold postingBuild at hp
        simp only [List.mem_cons, List.not_mem_nil, or_false] at hp
        rcases hp with rfl | rfl <;> simp only <;> split <;> simp
      have : p.other ≠ a := by
        intro e
        rcases hoth with h | h
        · rw [← e, h, hk] at hal; cases hal
        · have := equityAccount_not_AL; rw [← h, e, hal] at this; cases this
      simp [this]
    have h2 : ∀ p ∈ postingBuild k equityAccount c' q w, isAdjOn a c p = false := by
      intro p hp
      unfold isAdjOn onPos
      have : p.account ≠ a := by
        intro e
        rcases build_account _ _ _ _ _ p hp with h | h
        · rw [← e, h, hk] at hal; cases hal
        · have := equityAccount_not_AL; rw [← h, e, hal] at this; cases this
      simp [this]
    have e1 : (postingBuild k equityAccount c' q w).filter (isGainOf a c) = [] := by
      rw [List.filter_eq_nil_iff]; intro p hp; rw [h1 p hp]; simp
    have e2 : (postingBuild k equityAccount c' q w).filter (isAdjOn a c) = [] := by
      rw [List.filter_eq_nil_iff]; intro p hp; rw [h2 p hp]; simp
    rw [e1, e2]
    simp [Rat.neg_zero]

/-- **the gain account mirrors the adjustments**: over any list of transactions of the three shapes, the
counter-postings on `Income:<path of a>` against `a` total minus the adjustments booked on `(a, c)` -/
theorem gain_mirrors (a : Account) (c : Commodity) (hal : a.isAL = true) : ∀ (txs : List Transaction),
    (∀ t ∈ txs, TxShape t) → sumVal (isGainOf a c) txs = -sumVal (isAdjOn a c) txs
  | [], _ => by rw [sumVal_nil, sumVal_nil]; grind
  | t :: ts, h => by
    rw [sumVal_cons, sumVal_cons, tx_gain_mirrors a c hal t (h t List.mem_cons_self),
      gain_mirrors a c hal ts (fun x hx => h x (List.mem_cons_of_mem _ hx))]
    grind

end Knut.MTM
