import Knut.Generated.Census
/-! # C06 / C19 — the census of goroutines, channel operations and locks equals its reviewed expectation

The concurrency part of the census of `harness/facts_c06.go` (see `FactsAgree/C06.lean` for the walk and the fingerprints):
`go` — go statements and `x.Go(…)` of a pool / errgroup (with the receiver's type); `cpr` — calls of the functions of
lib/common/cpr from other packages; `chanrange`, `select` (its cases: `recv`, `recv:Done`, `send`, `default`), `recv`, `send` — channel
operations, each with the innermost enclosing loop or closure; `lock` — the sequence of Lock / RLock / Unlock / RUnlock calls of a function and
the shape of its body's top-level statements in the tokens of `harness/facts_c19.go` (lookup, lookup-return, return-if-found, check, write, return …:
where the reads and writes stand relative to the lock operations).

The structure the models assume (Model/Pipeline for `cpr.Seq`, Model/Registry for the registries, the loader as a fan-in whose arrival
order is arbitrary: C06_journal_deterministic, C05) is this list: a new goroutine, a new producer on a shared channel, a `select` with one
more case or a changed locking sequence fails the theorem named after the file.  The comments say which sites merge SEVERAL producers
(arrival order = schedule) and what makes the consumer independent of it. -/
namespace Knut.FactsAgree.C06Conc
open Knut.Generated

abbrev Site := Census.Site

/-- `cmd/commands/fetch.go` -/
def conc_cmd_commands_fetch_go : List Site := [
  -- one goroutine per configured symbol, each writes its own file; outside C06/C19's commands (network)
  ("cmd/commands/fetch.go", "fetchRunner.execute", "go", "-", "*pool.ErrorPool.Go in range")
]
theorem census_conc_cmd_commands_fetch_go : Census.conc_cmd_commands_fetch_go = conc_cmd_commands_fetch_go := rfl

/-- `cmd/commands/infer.go` -/
def conc_cmd_commands_infer_go : List Site := [
  -- the consumer of the training files: counts are commutative (bayes Model.update), the pool's first error is returned (seed C06-f drops it)
  ("cmd/commands/infer.go", "inferRunner.train", "cpr", "-", "cpr.ForEach in closure"),
  -- producer (recursive parser) and consumer, joined by p.Wait before the model is used
  ("cmd/commands/infer.go", "inferRunner.train", "go", "-", "*pool.ContextPool.Go in straight"),
  -- producer (recursive parser) and consumer, joined by p.Wait before the model is used
  ("cmd/commands/infer.go", "inferRunner.train", "go", "-", "*pool.ContextPool.Go in straight")
]
theorem census_conc_cmd_commands_infer_go : Census.conc_cmd_commands_infer_go = conc_cmd_commands_infer_go := rfl

/-- `lib/common/cpr/cpr.go` -/
def conc_lib_common_cpr_cpr_go : List Site := [
  -- unused by the commands (fan-in of several channels: arrival order)
  ("lib/common/cpr/cpr.go", "Demultiplex", "chanrange", "-", "over <-chan T in closure"),
  -- unused by the commands (fan-in of several channels: arrival order)
  ("lib/common/cpr/cpr.go", "Demultiplex", "go", "-", "go func in range"),
  -- unused by the commands (fan-in of several channels: arrival order)
  ("lib/common/cpr/cpr.go", "Demultiplex", "go", "-", "go func in straight"),
  -- unused by the commands (fan-in of several channels: arrival order)
  ("lib/common/cpr/cpr.go", "Demultiplex", "send", "-", "in chanrange"),
  -- unused by the commands
  ("lib/common/cpr/cpr.go", "ForAll", "go", "-", "go func in range"),
  -- unused by the commands
  ("lib/common/cpr/cpr.go", "Parallel", "go", "-", "go func in range"),
  -- receive or cancellation: Model/Pipeline
  ("lib/common/cpr/cpr.go", "Pop", "select", "-", "recv,recv:Done in straight"),
  -- send or cancellation: Model/Pipeline
  ("lib/common/cpr/cpr.go", "Push", "select", "-", "recv:Done,send in range"),
  -- one goroutine per stage; each stage has ONE producer and ONE consumer, so the order of the days is kept (Properties/C19: deadlock freedom and order)
  ("lib/common/cpr/cpr.go", "Seq", "go", "-", "*pool.ContextPool.Go in range"),
  -- the result, after p.Wait
  ("lib/common/cpr/cpr.go", "Seq", "recv", "-", "in straight")
]
theorem census_conc_lib_common_cpr_cpr_go : Census.conc_lib_common_cpr_cpr_go = conc_lib_common_cpr_cpr_go := rfl

/-- `lib/common/cpr/hook_verif.go` -/
def conc_lib_common_cpr_hook_verif_go : List Site := [
  -- verif build only: the perturbation's random source
  ("lib/common/cpr/hook_verif.go", "hookNext", "lock", "-", "Lock defer Unlock; shape: Lock deferUnlock other other other other return"),
  -- verif build only: the trace file
  ("lib/common/cpr/hook_verif.go", "hookTrace", "lock", "-", "Lock defer Unlock; shape: check Lock deferUnlock other")
]
theorem census_conc_lib_common_cpr_hook_verif_go : Census.conc_lib_common_cpr_hook_verif_go = conc_lib_common_cpr_hook_verif_go := rfl

/-- `lib/journal/journal.go` -/
def conc_lib_journal_journal_go : List Site := [
  -- the single consumer that builds the journal from the directives of all files in ARRIVAL order: C06_journal_deterministic / C05 (days and per-day contents up to order); known finding print-same-day-directives-of-different-files-in-arrival-order; GAP found by the review (reported): a day's prices reach Prices.Insert in arrival order and the last quote of a pair wins, so the same pair quoted differently on one day in two files makes valued reports schedule-dependent
  ("lib/journal/journal.go", "FromModelStream", "cpr", "-", "cpr.FanIn in straight"),
  -- the single consumer that builds the journal from the directives of all files in ARRIVAL order: C06_journal_deterministic / C05 (days and per-day contents up to order); known finding print-same-day-directives-of-different-files-in-arrival-order; GAP found by the review (reported): a day's prices reach Prices.Insert in arrival order and the last quote of a pair wins, so the same pair quoted differently on one day in two files makes valued reports schedule-dependent
  ("lib/journal/journal.go", "FromModelStream", "cpr", "-", "cpr.ForEach in closure"),
  -- the single consumer that builds the journal from the directives of all files in ARRIVAL order: C06_journal_deterministic / C05 (days and per-day contents up to order); known finding print-same-day-directives-of-different-files-in-arrival-order; GAP found by the review (reported): a day's prices reach Prices.Insert in arrival order and the last quote of a pair wins, so the same pair quoted differently on one day in two files makes valued reports schedule-dependent
  ("lib/journal/journal.go", "FromModelStream", "cpr", "-", "cpr.Push in closure"),
  -- the three loader stages
  ("lib/journal/journal.go", "FromPath", "go", "-", "*pool.ContextPool.Go in straight"),
  -- the three loader stages
  ("lib/journal/journal.go", "FromPath", "go", "-", "*pool.ContextPool.Go in straight"),
  -- the three loader stages
  ("lib/journal/journal.go", "FromPath", "go", "-", "*pool.ContextPool.Go in straight"),
  -- the journal, after p.Wait
  ("lib/journal/journal.go", "FromPath", "recv", "-", "in straight"),
  -- the processor pipeline over the sorted days
  ("lib/journal/journal.go", "Journal.Process", "cpr", "-", "cpr.Seq in straight")
]
theorem census_conc_lib_journal_journal_go : Census.conc_lib_journal_journal_go = conc_lib_journal_journal_go := rfl

/-- `lib/model/account/registry.go` -/
def conc_lib_model_account_registry_go : List Site := [
  -- fast path under the read lock (FactsAgree/C19.account_get_fast_path)
  ("lib/model/account/registry.go", "Registry.Get", "lock", "-", "RLock RUnlock; shape: RLock lookup RUnlock return-if-found return getOrCreatePath"),
  -- fast path under the read lock
  ("lib/model/account/registry.go", "Registry.GetPath", "lock", "-", "RLock RUnlock; shape: RLock lookup RUnlock return-if-found return getOrCreatePath"),
  -- read, then write under the write lock
  ("lib/model/account/registry.go", "Registry.SwapType", "lock", "-", "RLock RUnlock Lock defer Unlock; shape: RLock lookup RUnlock return-if-found other other lookup check Lock deferUnlock write return"),
  -- looks the path up again under the write lock (FactsAgree/C19.account_getOrCreate_rechecks)
  ("lib/model/account/registry.go", "Registry.getOrCreatePath", "lock", "-", "Lock defer Unlock; shape: Lock deferUnlock lookup-return check other lookup check other other write return")
]
theorem census_conc_lib_model_account_registry_go : Census.conc_lib_model_account_registry_go = conc_lib_model_account_registry_go := rfl

/-- `lib/model/commodity/registry.go` -/
def conc_lib_model_commodity_registry_go : List Site := [
  -- read lock, then write lock with a second lookup (FactsAgree/C19.commodity_get_rechecks; seed C06-c removes it)
  ("lib/model/commodity/registry.go", "Registry.Get", "lock", "-", "RLock RUnlock Lock defer Unlock; shape: RLock lookup RUnlock return-if-found Lock deferUnlock lookup-return check other write return"),
  -- write under the write lock
  ("lib/model/commodity/registry.go", "Registry.TagCurrency", "lock", "-", "Lock defer Unlock; shape: lookup check Lock deferUnlock other return")
]
theorem census_conc_lib_model_commodity_registry_go : Census.conc_lib_model_commodity_registry_go = conc_lib_model_commodity_registry_go := rfl

/-- `lib/model/model.go` -/
def conc_lib_model_model_go : List Site := [
  -- one goroutine per file converts its directives; several producers push into ONE channel: arrival order (consumed by FromModelStream)
  ("lib/model/model.go", "FromStream", "cpr", "-", "cpr.ForEach in closure"),
  -- one goroutine per file converts its directives; several producers push into ONE channel: arrival order (consumed by FromModelStream)
  ("lib/model/model.go", "FromStream", "cpr", "-", "cpr.Produce in straight"),
  -- one goroutine per file converts its directives; several producers push into ONE channel: arrival order (consumed by FromModelStream)
  ("lib/model/model.go", "FromStream", "cpr", "-", "cpr.Push in closure"),
  -- one goroutine per file converts its directives; several producers push into ONE channel: arrival order (consumed by FromModelStream)
  ("lib/model/model.go", "FromStream", "go", "-", "*pool.ContextPool.Go in closure")
]
theorem census_conc_lib_model_model_go : Census.conc_lib_model_model_go = conc_lib_model_model_go := rfl

/-- `lib/syntax/syntax.go` -/
def conc_lib_syntax_syntax_go : List Site := [
  -- the root file's parser; one goroutine per included file (parseRec), all pushing into one channel: arrival order
  ("lib/syntax/syntax.go", "ParseFileRecursively", "cpr", "-", "cpr.Produce in straight"),
  -- the root file's parser; one goroutine per included file (parseRec), all pushing into one channel: arrival order
  ("lib/syntax/syntax.go", "ParseFileRecursively", "cpr", "-", "cpr.Push in closure"),
  -- the root file's parser; one goroutine per included file (parseRec), all pushing into one channel: arrival order
  ("lib/syntax/syntax.go", "ParseFileRecursively", "go", "-", "*errgroup.Group.Go in closure"),
  -- one goroutine per include directive
  ("lib/syntax/syntax.go", "parseRec", "cpr", "-", "cpr.Push in closure"),
  -- one goroutine per include directive
  ("lib/syntax/syntax.go", "parseRec", "go", "-", "*errgroup.Group.Go in closure")
]
theorem census_conc_lib_syntax_syntax_go : Census.conc_lib_syntax_syntax_go = conc_lib_syntax_syntax_go := rfl

/-- the files with goroutines, channel operations or locks, with the number of such sites of each -/
theorem census_conc_files_and_counts : Census.concFiles = [
  ("cmd/commands/fetch.go", 1),
  ("cmd/commands/infer.go", 3),
  ("lib/common/cpr/cpr.go", 10),
  ("lib/common/cpr/hook_verif.go", 2),
  ("lib/journal/journal.go", 8),
  ("lib/model/account/registry.go", 4),
  ("lib/model/commodity/registry.go", 2),
  ("lib/model/model.go", 4),
  ("lib/syntax/syntax.go", 5)
] := rfl

/-- **known findings that hang on concurrency sites**: (site, key of known_findings.jsonl).  `journal.FromModelStream` is the single
consumer that appends the directives of all files per day and kind in ARRIVAL order; what is neither sorted afterwards nor summed exactly
shows that order.  The site has to be in the census still: when it changes, this list has to be looked at again. -/
def siteFindings : List (Site × String) := [
  -- price / open / balance / close directives of one date from different files are printed in arrival order
  (("lib/journal/journal.go", "FromModelStream", "cpr", "-", "cpr.ForEach in closure"),
   "print-same-day-directives-of-different-files-in-arrival-order"),
  -- a day's prices reach Prices.Insert in arrival order and the last quote of a pair wins
  (("lib/journal/journal.go", "FromModelStream", "cpr", "-", "cpr.ForEach in closure"),
   "valued-reports-same-day-requote-across-files"),
  -- the day's transactions reach portfolio returns (no Sort stage) in arrival order
  (("lib/journal/journal.go", "FromModelStream", "cpr", "-", "cpr.ForEach in closure"),
   "returns-ill-conditioned-period-float-sum-in-arrival-order")]

theorem siteFindings_in_census : siteFindings.all (fun x => Census.concAll.contains x.1) = true := by decide +kernel

end Knut.FactsAgree.C06Conc
