import Knut.Wire
import Knut.GoSem.Basic
import Knut.GoSem.Time
import Knut.GoSem.Decimal
import Knut.GoSem.Strings
/-! Driver ops `gosem …`: the primitives of `Knut/GoSem` (the trusted reading of Go that the translated code is
built on), evaluated for the differential stream `gosem` of C11 (`harness/gosem.go`), which compares each of them
with the real Go primitive. -/
namespace Knut.Driver.GoSem
open Knut Knut.Wire Knut.GoSem

def showOutcome {α : Type} (f : α → String) : Outcome α → String
  | .ok a => "ok " ++ f a
  | .panic _ => "panic"
  | .outOfFuel => "out-of-fuel"

def dec (s : String) : Option Rat := (unhexStr s).bind Knut.Dec.parseDec

def showInts (xs : List Int) : String := " ".intercalate (xs.map toString)

def parseInts (s : String) : Option (List Int) :=
  if s = "-" then some [] else (splitOn s ',').mapM parseInt

def handleStr (fields : List String) : String :=
  match fields with
  | ["gosem", "date", y, m, d] =>
    match parseInt y, parseInt m, parseInt d with
    | some y, some m, some d => toString (Time.Date y m d)
    | _, _, _ => "bad-op"
  | ["gosem", "adddate", t, y, m, d] =>
    match parseInt t, parseInt y, parseInt m, parseInt d with
    | some t, some y, some m, some d => toString (Time.AddDate t y m d)
    | _, _, _, _ => "bad-op"
  | ["gosem", "civil", t] =>
    match parseInt t with
    | some t => s!"{Time.Year t} {Time.Month t} {Time.Day t} {Time.Weekday t} {Time.IsZero t}"
    | none => "bad-op"
  | ["gosem", "tcmp", t, u] =>
    match parseInt t, parseInt u with
    | some t, some u => s!"{Time.Before t u} {Time.After t u} {Time.Equal t u} {Time.Compare t u}"
    | _, _ => "bad-op"
  | ["gosem", "divmod", a, b] =>
    match parseInt a, parseInt b with
    | some a, some b =>
      showOutcome toString (idivE a b) ++ " " ++ showOutcome toString (imodE a b) ++
        (if b ≠ 0 then s!" {idiv a b} {imod a b}" else "")
    | _, _ => "bad-op"
  | ["gosem", "index", xs, i] =>
    match parseInts xs, parseInt i with
    | some xs, some i => showOutcome toString (index xs i)
    | _, _ => "bad-op"
  | ["gosem", "setindex", xs, i, v] =>
    match parseInts xs, parseInt i, parseInt v with
    | some xs, some i, some v => showOutcome showInts (setIndex xs i v)
    | _, _, _ => "bad-op"
  | ["gosem", "slice", xs, lo, hi] =>
    match parseInts xs, parseInt lo, parseInt hi with
    | some xs, some lo, some hi => showOutcome showInts (slice xs lo hi)
    | _, _, _ => "bad-op"
  | ["gosem", "search", bits] =>
    -- sort.Search(len(bits), func(i) bool { return bits[i] == '1' }): any predicate, monotone or not
    let bs := bits.toList.map (· == '1')
    let bs := if bits = "-" then [] else bs
    showOutcome toString (sortSearch (len bs) (fun i => index bs i))
  | ["gosem", "dec1", op, a, n] =>
    match dec a, parseInt n with
    | some a, some n =>
      match op with
      | "neg" => Decimal.String (Decimal.Neg a)
      | "abs" => Decimal.String (Decimal.Abs a)
      | "trunc" => Decimal.String (Decimal.Truncate a n)
      | "round" => Decimal.String (Decimal.Round a n)
      | "fixed" => Decimal.StringFixed a n
      | "pred" => s!"{Decimal.IsZero a} {Decimal.IsNegative a} {Decimal.IsPositive a} {Decimal.Sign a}"
      | "fromint" => Decimal.String (Decimal.NewFromInt n)
      | "shift" => Decimal.String (Decimal.Shift a n)
      | _ => "bad-op"
    | _, _ => "bad-op"
  | ["gosem", "dec2", op, a, b, n] =>
    match dec a, dec b, parseInt n with
    | some a, some b, some n =>
      match op with
      | "add" => Decimal.String (Decimal.Add a b)
      | "sub" => Decimal.String (Decimal.Sub a b)
      | "mul" => Decimal.String (Decimal.Mul a b)
      | "div" => showOutcome Decimal.String (Decimal.Div a b)
      | "quorem" => showOutcome (fun r => Decimal.String r.1 ++ " " ++ Decimal.String r.2) (Decimal.QuoRem a b n)
      | "cmp" => s!"{Decimal.Equal a b} {Decimal.Cmp a b} {Decimal.LessThan a b} {Decimal.GreaterThan a b}"
      | _ => "bad-op"
    | _, _, _ => "bad-op"
  | ["gosem", "str", op, s, a, b, n] =>
    match unhexStr s, unhexStr a, unhexStr b, parseInt n with
    | some s, some a, some b, some n =>
      match op with
      | "replace" => hexStr (Strings.ReplaceAll s a b)
      | "repeat" => hexStr (Strings.Repeat s n)
      | "len" => s!"{Strings.byteLen s} {Strings.RuneCount s}"
      | "itoa" => Strings.itoa n
      | "concat" => hexStr (s ++ a)
      | "cmp" => s!"{decide (s < a)} {decide (s = a)}"
      | "runes" => " ".intercalate ((Strings.runes s).map (fun r => s!"{r.1}:{r.2.toNat}"))
      | "slice" => showOutcome hexStr (Strings.slice s n (match b.toInt? with | some h => h | none => Strings.byteLen s))
      | "index" => toString (Strings.Index s a)
      | "build" => hexStr (Strings.Builder.String (Strings.Builder.WriteRune (Strings.Builder.WriteString s a) (Char.ofNat n.toNat)))
      | "isdigit" => toString (Unicode.IsDigit (Char.ofNat n.toNat))
      | _ => "bad-op"
    | _, _, _, _ => "bad-op"
  | _ => "no-such-op"

def handle (fields : List String) : Option String :=
  let r := handleStr fields
  if r = "no-such-op" then none else some r

end Knut.Driver.GoSem
