import Knut.Properties.C15
import Knut.FactsAgree.TransBayes3
import Knut.FactsAgree.TransBayes4
/-!
# C15 on the generated definitions

The theorems of `Properties/C15.lean` are about the model of `knut infer` (`Infer.train`, `Model.inferBooking`);
`FactsAgree/TransBayes*.lean` prove the functions translated from `/repo`'s `lib/syntax/bayes/bayes.go` (`NewModel`, `Update`, `tokenize`,
`inferAccount`, `Infer`) equal to it (`train_Infer_agrees`).  This module composes them.  The object of every statement is

  `inferGo sc account os gts gt` = `bayes.NewModel(account)`, `m.Update(t)` for every training transaction `t` of `gts` in turn,
  then `m.Infer(gt)` on the target transaction

— the composition `inferRunner.train` / `parseAndInfer` make — built from the GENERATED `Go.bayes.*`; its result is the target
transaction as `Infer` returns it.  `sc` ranges over EVERY `Scorer` (the float arithmetic of `scoreCandidate` plays no role; with the
code's own score the run is the run of the scorer `scorerOf fl`: `C15_real_go`), `os` over every family of iteration orders of the
token sets (one per `update` call site and round) that list each token once, the Go trees over ALL values that the `Extract()` calls
read as the model's fields (`Reads`: `ViewT` for the training transactions, `ViewB` for the target's bookings — in particular the Go
representation of every parsed file: `reads_parsed`).

The clauses are stated on the NODES of the Go tree: "unchanged" is equality of the node (range, path and text pointer included), a
changed account is read through the translated `Range.Extract`.
-/
set_option linter.unusedVariables false
namespace Knut.C15Go
open Knut Knut.GoSem Knut.Syntax Knut.Infer Knut.Spec.Infer
open Knut.Generated.Go
open Knut.FactsAgree.TransBayes hiding Bytes

variable {S : Type}

/-- training on `gts` (transaction `k` with the iteration orders `os k`), then inference on `gt` — in the translation -/
def inferGo (sc : Scorer S) (account : Bytes) (os : Nat → (Int → List Bytes) × (Int → List Bytes))
    (gts : List directives.Transaction) (gt : directives.Transaction) : Outcome directives.Transaction :=
  (trainGo gts 0 os (bayes.NewModel account)).bind (fun gm => bayes.Model.Infer gm gt (flOf sc) (extOf sc))

/-- the hypotheses of `train_Infer_agrees`: what the `Extract()` calls of `Update` and `Infer` read of the Go trees, and iteration
orders that list every token of their set once -/
structure Reads (os : Nat → (Int → List Bytes) × (Int → List Bytes)) (gts : List directives.Transaction) (txs : List TTx)
    (gt : directives.Transaction) (desc : Bytes) (vs : List BookingV) : Prop where
  training : Forall2 ViewT gts txs
  orders : TrainOrdersOK os txs 0
  desc : directives.Range.Extract gt.Description.Content = .ok desc
  bookings : Forall2 ViewB gt.Bookings vs

/-! ## the bridge -/

theorem editBs_length (sc : Scorer S) (m : Model) (desc : Bytes) : ∀ (gbs : List directives.Booking) (vs : List BookingV),
    (editBs sc m desc gbs vs).length = gbs.length
  | [], _ => by simp [editBs]
  | _ :: _, [] => by simp [editBs]
  | gb :: gbs, v :: vs => by simp [editBs, editBs_length sc m desc gbs vs]

theorem editBs_get (sc : Scorer S) (m : Model) (desc : Bytes) : ∀ (gbs : List directives.Booking) (vs : List BookingV) (i : Nat)
    (gb : directives.Booking) (v : BookingV), gbs[i]? = some gb → vs[i]? = some v →
    (editBs sc m desc gbs vs)[i]? = some (editB sc m desc gb v)
  | [], _, _, _, _, h, _ => by simp at h
  | _ :: _, [], _, _, _, _, h => by simp at h
  | gb0 :: gbs, v0 :: vs, 0, gb, v, h1, h2 => by
    simp only [List.getElem?_cons_zero, Option.some.injEq] at h1 h2
    subst h1 h2
    simp [editBs]
  | gb0 :: gbs, v0 :: vs, i + 1, gb, v, h1, h2 => by
    simp only [List.getElem?_cons_succ] at h1 h2
    simp only [editBs, List.getElem?_cons_succ]
    exact editBs_get sc m desc gbs vs i gb v h1 h2

theorem forall2_get {α β : Type} {R : α → β → Prop} : ∀ {l₁ : List α} {l₂ : List β}, Forall2 R l₁ l₂ → ∀ (i : Nat) (a : α),
    l₁[i]? = some a → ∃ b, l₂[i]? = some b ∧ R a b
  | _, _, .nil, _, _, h => by simp at h
  | _, _, .cons r rest, 0, a, h => by
    simp only [List.getElem?_cons_zero, Option.some.injEq] at h
    subst h
    exact ⟨_, rfl, r⟩
  | _, _, .cons r rest, i + 1, a, h => by
    simp only [List.getElem?_cons_succ] at h ⊢
    exact forall2_get rest i a h

theorem forall2_mem_right {α β : Type} {R : α → β → Prop} : ∀ {l₁ : List α} {l₂ : List β}, Forall2 R l₁ l₂ → ∀ b ∈ l₂,
    ∃ a ∈ l₁, R a b
  | _, _, .nil, _, h => by simp at h
  | _, _, .cons r rest, b, h => by
    rcases List.mem_cons.mp h with rfl | h
    · exact ⟨_, by simp, r⟩
    · obtain ⟨a, ha, hr⟩ := forall2_mem_right rest b h
      exact ⟨a, by simp [ha], hr⟩

section
variable (sc : Scorer S) {account : Bytes} {os : Nat → (Int → List Bytes) × (Int → List Bytes)}
  {gts : List directives.Transaction} {txs : List TTx} {gt gt' : directives.Transaction} {desc : Bytes} {vs : List BookingV}

/-- **the bridge**: the translated training + inference returns — no panic, never out of fuel — the target with its bookings edited
by the MODEL's trained tables -/
theorem run_eq (hr : Reads os gts txs gt desc vs) :
    inferGo sc account os gts gt = .ok { gt with Bookings := editBs sc (train account txs) desc gt.Bookings vs } :=
  train_Infer_agrees sc account os gts txs hr.training hr.orders gt desc vs hr.desc hr.bookings

/-- the translated run is total on trees whose `Extract()` calls succeed -/
theorem C15_total_go (hr : Reads os gts txs gt desc vs) : ∃ gt', inferGo sc account os gts gt = .ok gt' := ⟨_, run_eq sc hr⟩

theorem run_ok (hr : Reads os gts txs gt desc vs) (h : inferGo sc account os gts gt = .ok gt') :
    gt' = { gt with Bookings := editBs sc (train account txs) desc gt.Bookings vs } := by
  rw [run_eq sc hr] at h
  injection h with h
  exact h.symm

/-- booking `i` of the result is the edit of booking `i` of the target, and is read as the model's `inferBooking` of its fields -/
theorem run_booking (hr : Reads os gts txs gt desc vs) (h : inferGo sc account os gts gt = .ok gt') {i : Nat}
    {gb : directives.Booking} (hi : gt.Bookings[i]? = some gb) :
    ∃ v gb', vs[i]? = some v ∧ ViewB gb v ∧ gt'.Bookings[i]? = some gb' ∧ gb' = editB sc (train account txs) desc gb v ∧
      ViewB gb' ((train account txs).inferBooking sc desc v) := by
  obtain ⟨v, hv, hview⟩ := forall2_get hr.bookings i gb hi
  have := run_ok sc hr h
  subst this
  exact ⟨v, _, hv, hview, editBs_get sc _ desc _ _ i gb v hi hv, rfl, editB_view sc _ desc gb v hview⟩

/-! ## only the placeholder account of bookings is edited -/

/-- **nothing but the bookings of the transaction is touched**: range, date, description and annotations of the target are the old
nodes, and it has as many bookings as before.  (`Infer` is called on transactions only: the type switch of `parseAndInfer` over the
directives is not translated — the other directives are not handed to package bayes at all.) -/
theorem C15_only_bookings_go (hr : Reads os gts txs gt desc vs) (h : inferGo sc account os gts gt = .ok gt') :
    gt'.Range = gt.Range ∧ gt'.Date = gt.Date ∧ gt'.Description = gt.Description ∧ gt'.Addons = gt.Addons ∧
      gt'.Bookings.length = gt.Bookings.length := by
  have := run_ok sc hr h
  subst this
  exact ⟨rfl, rfl, rfl, rfl, editBs_length sc _ desc _ _⟩

/-- **only booking account fields whose text was the placeholder change**: booking `i` of the result has the old range, quantity and
commodity NODES; an account node whose text (`Extract()`) is not the placeholder is the old node; a new account node is a synthesised
`Account{Range{0, len(a), "", a}}` -/
theorem C15_only_placeholder_go (hr : Reads os gts txs gt desc vs) (h : inferGo sc account os gts gt = .ok gt') {i : Nat}
    {gb : directives.Booking} (hi : gt.Bookings[i]? = some gb) :
    ∃ gb', gt'.Bookings[i]? = some gb' ∧ gb'.Range = gb.Range ∧ gb'.Quantity = gb.Quantity ∧ gb'.Commodity = gb.Commodity ∧
      (directives.Range.Extract gb.Credit.Range ≠ .ok account → gb'.Credit = gb.Credit) ∧
      (directives.Range.Extract gb.Debit.Range ≠ .ok account → gb'.Debit = gb.Debit) ∧
      (gb'.Credit = gb.Credit ∨ ∃ a, gb'.Credit = synth a) ∧ (gb'.Debit = gb.Debit ∨ ∃ a, gb'.Debit = synth a) := by
  obtain ⟨v, gb', hv, hview, hg, he, _⟩ := run_booking sc hr h hi
  obtain ⟨f1, f2, f3, f4, f5⟩ := editB_frame sc (train account txs) desc gb v
  refine ⟨gb', hg, by rw [he]; exact f1, by rw [he]; exact f2, by rw [he]; exact f3, ?_, ?_, by rw [he]; exact f4, by rw [he]; exact f5⟩
  · intro hne
    have hc : v.credit ≠ (train account txs).account := by
      rw [train_account]; intro e; apply hne; rw [hview.credit, e]
    rw [he]
    obtain ⟨_, _, _, d4, _⟩ := editDebit_frame sc (train account txs) desc (editCredit sc (train account txs) desc gb v).1 v
      (editCredit sc (train account txs) desc gb v).2
    unfold editB
    rw [d4]
    unfold editCredit
    rw [if_neg hc]
  · intro hne
    have hd : v.debit ≠ (train account txs).account := by
      rw [train_account]; intro e; apply hne; rw [hview.debit, e]
    rw [he]
    obtain ⟨_, _, _, c4, _⟩ := editCredit_frame sc (train account txs) desc gb v
    unfold editB editDebit
    rw [if_neg hd]
    exact c4

/-- the text of the quantity and commodity and of the account fields that were not the placeholder is what it was -/
theorem C15_only_placeholder_text_go (hr : Reads os gts txs gt desc vs) (h : inferGo sc account os gts gt = .ok gt') {i : Nat}
    {gb : directives.Booking} (hi : gt.Bookings[i]? = some gb) :
    ∃ v v' gb', ViewB gb v ∧ gt'.Bookings[i]? = some gb' ∧ ViewB gb' v' ∧
      v'.quantity = v.quantity ∧ v'.commodity = v.commodity ∧
      (v.credit ≠ account → v'.credit = v.credit) ∧ (v.debit ≠ account → v'.debit = v.debit) := by
  obtain ⟨v, gb', _, hview, hg, _, hv'⟩ := run_booking sc hr h hi
  exact ⟨v, _, gb', hview, hg, hv', C15.C15_only_placeholder sc account txs desc v⟩

/-! ## the replacement comes from the training data and differs from the other account -/

/-- **each replacement occurs in the training journal**: when an account field of booking `i` reads differently after the run, the new
text is read (`Extract()`) from the credit or debit account NODE of a booking of one of the training transactions `gts`, neither of
whose accounts is a macro or reads as the placeholder; it is neither empty nor the placeholder -/
theorem C15_candidate_from_training_go (hr : Reads os gts txs gt desc vs) (h : inferGo sc account os gts gt = .ok gt') {i : Nat}
    {gb gb' : directives.Booking} (hi : gt.Bookings[i]? = some gb) (hi' : gt'.Bookings[i]? = some gb') (a : Bytes)
    (ha : (directives.Range.Extract gb'.Credit.Range = .ok a ∧ directives.Range.Extract gb.Credit.Range ≠ .ok a) ∨
          (directives.Range.Extract gb'.Debit.Range = .ok a ∧ directives.Range.Extract gb.Debit.Range ≠ .ok a)) :
    a ∈ trainingAccounts account txs ∧ a ≠ [] ∧ a ≠ account ∧
    ∃ g ∈ gts, ∃ b ∈ g.Bookings,
      (directives.Range.Extract b.Credit.Range = .ok a ∨ directives.Range.Extract b.Debit.Range = .ok a) ∧
      b.Credit.Macro = false ∧ b.Debit.Macro = false ∧
      directives.Range.Extract b.Credit.Range ≠ .ok account ∧ directives.Range.Extract b.Debit.Range ≠ .ok account := by
  obtain ⟨v, gb'', _, hview, hg, _, hv'⟩ := run_booking sc hr h hi
  rw [hi'] at hg
  injection hg with hg
  subst hg
  have key := C15.C15_candidate_from_training sc account txs desc v a (by
    rcases ha with ⟨h1, h2⟩ | ⟨h1, h2⟩
    · rw [hv'.credit] at h1; injection h1 with h1
      rw [hview.credit] at h2
      exact Or.inl ⟨h1.symm, fun e => h2 (by rw [← h1, e])⟩
    · rw [hv'.debit] at h1; injection h1 with h1
      rw [hview.debit] at h2
      exact Or.inr ⟨h1.symm, fun e => h2 (by rw [← h1, e])⟩)
  obtain ⟨hmem, t, ht, tb, htb, hor, m1, m2, n1, n2, ne1, ne2⟩ := key
  obtain ⟨g, hgm, hvt⟩ := forall2_mem_right hr.training t ht
  obtain ⟨b, hb, hvb, e1, e2⟩ := forall2_mem_right hvt.bookings tb htb
  refine ⟨hmem, ne1, ne2, g, hgm, b, hb, ?_, by rw [← e1]; exact m1, by rw [← e2]; exact m2, ?_, ?_⟩
  · rcases hor with e | e
    · exact Or.inl (by rw [hvb.credit, e])
    · exact Or.inr (by rw [hvb.debit, e])
  · rw [hvb.credit]; intro e; injection e with e; exact n1 e
  · rw [hvb.debit]; intro e; injection e with e; exact n2 e

/-- **each replacement differs from the other account of the booking**: a credit account that reads differently after the run differs
from the debit account it was inferred against and from the debit account of the result; a new debit account differs from the
(possibly new) credit account -/
theorem C15_differs_from_other_go (hr : Reads os gts txs gt desc vs) (h : inferGo sc account os gts gt = .ok gt') {i : Nat}
    {gb : directives.Booking} (hi : gt.Bookings[i]? = some gb) :
    ∃ v v' gb', ViewB gb v ∧ gt'.Bookings[i]? = some gb' ∧ ViewB gb' v' ∧
      (v'.credit ≠ v.credit → v'.credit ≠ v.debit ∧ v'.credit ≠ v'.debit) ∧ (v'.debit ≠ v.debit → v'.debit ≠ v'.credit) := by
  obtain ⟨v, gb', _, hview, hg, _, hv'⟩ := run_booking sc hr h hi
  exact ⟨v, _, gb', hview, hg, hv', C15.C15_differs_from_other sc account txs desc v⟩

/-- **a candidate ⇒ replaced, no candidate ⇒ unchanged**, on the texts read from the result -/
theorem C15_candidate_replaced_go (hr : Reads os gts txs gt desc vs) (h : inferGo sc account os gts gt = .ok gt') {i : Nat}
    {gb : directives.Booking} (hi : gt.Bookings[i]? = some gb) :
    ∃ v v' gb', ViewB gb v ∧ gt'.Bookings[i]? = some gb' ∧ ViewB gb' v' ∧
      (v.credit = account → (∃ a ∈ trainingAccounts account txs, a ≠ v.debit) →
        v'.credit ∈ trainingAccounts account txs ∧ v'.credit ≠ account) ∧
      (v.debit = account → (∃ a ∈ trainingAccounts account txs, a ≠ v'.credit) →
        v'.debit ∈ trainingAccounts account txs ∧ v'.debit ≠ account) ∧
      ((∀ a ∈ trainingAccounts account txs, a = v.debit) → v'.credit = v.credit) ∧
      ((∀ a ∈ trainingAccounts account txs, a = v'.credit) → v'.debit = v.debit) := by
  obtain ⟨v, gb', _, hview, hg, _, hv'⟩ := run_booking sc hr h hi
  have h1 := C15.C15_candidate_replaced sc account txs desc v
  have h2 := C15.C15_no_candidate_unchanged sc account txs desc v
  exact ⟨v, _, gb', hview, hg, hv', h1.1, h1.2, h2.1, h2.2⟩

/-- **the monitor's predicate**: the fields read from the result are related to the fields read from the target by `viewsOK` -/
theorem C15_viewsOK_go (hr : Reads os gts txs gt desc vs) (h : inferGo sc account os gts gt = .ok gt')
    (accr : Option AccrualV) (perf : Option (List Bytes)) (date : Bytes) :
    ∃ vs', Forall2 ViewB gt'.Bookings vs' ∧
      viewsOK account (trainingAccounts account txs) [.transaction accr perf date desc vs] [.transaction accr perf date desc vs'] = true := by
  have := run_ok sc hr h
  subst this
  refine ⟨_, editBs_view sc _ desc _ _ hr.bookings, ?_⟩
  exact C15.C15_viewsOK sc account txs _ (fun _ => Iff.rfl) [.transaction accr perf date desc vs]

end

/-! ## determinism -/

/-- **the choice is the same on every run**: neither the iteration orders of the token sets (every admissible family) nor the order in
which the training transactions arrive (any permutation of what is read of them — the files of the training journal arrive in an order
the scheduler picks) can be observed in the tree the translated run returns -/
theorem C15_deterministic_go (sc : Scorer S) (account : Bytes) {os₁ os₂ : Nat → (Int → List Bytes) × (Int → List Bytes)}
    {gts₁ gts₂ : List directives.Transaction} {txs₁ txs₂ : List TTx} {gt : directives.Transaction} {desc : Bytes} {vs : List BookingV}
    (h₁ : Reads os₁ gts₁ txs₁ gt desc vs) (h₂ : Reads os₂ gts₂ txs₂ gt desc vs) (hp : txs₁.Perm txs₂) :
    inferGo sc account os₁ gts₁ gt = inferGo sc account os₂ gts₂ gt := by
  rw [run_eq sc h₁, run_eq sc h₂, editBs_congr sc (train_perm hp)]

/-- … in particular the orders alone -/
theorem C15_orders_irrelevant_go (sc : Scorer S) (account : Bytes) {os₁ os₂ : Nat → (Int → List Bytes) × (Int → List Bytes)}
    {gts : List directives.Transaction} {txs : List TTx} {gt : directives.Transaction} {desc : Bytes} {vs : List BookingV}
    (h₁ : Reads os₁ gts txs gt desc vs) (h₂ : TrainOrdersOK os₂ txs 0) :
    inferGo sc account os₁ gts gt = inferGo sc account os₂ gts gt :=
  C15_deterministic_go sc account h₁ ⟨h₁.training, h₂, h₁.desc, h₁.bookings⟩ (List.Perm.refl _)

/-- **the code's own score**: with the translated `scoreCandidate` as the score function — over any interpretation `fl` of the float
operations that keeps the scores of the trained candidates above `-Inf` — the run is the run of the scorer `scorerOf fl`, so every
clause above holds of it -/
theorem C15_real_go {F : Type} (fl : Syn.F64 F) (account : Bytes) {os : Nat → (Int → List Bytes) × (Int → List Bytes)}
    {gts : List directives.Transaction} {txs : List TTx} {gt : directives.Transaction} {desc : Bytes} {vs : List BookingV}
    (hr : Reads os gts txs gt desc vs) (hf : FiniteScores fl (trainW os txs 0 (newModel account))) :
    (trainGo gts 0 os (bayes.NewModel account)).bind (fun gm => bayes.Model.Infer gm gt fl (extReal fl))
      = inferGo (scorerOf fl) account os gts gt := by
  rw [run_eq (scorerOf fl) hr]
  exact train_Infer_real fl account os gts txs hr.training hr.orders hf gt desc vs hr.desc hr.bookings

/-! ## the hypotheses on parsed trees -/

/-- the trees of parsed files meet `Reads`: training transactions `ts` of a file `text` that the model can view, and a target
transaction `t` of a file `text'` whose fields the model extracts — in Go's representation -/
theorem reads_parsed {text text' : Bytes} {path path' : String} (os : Nat → (Int → List Bytes) × (Int → List Bytes))
    (ts : List Syntax.Transaction) (txs : List TTx) (hts : ts.mapM (Infer.viewT text) = some txs) (ho : TrainOrdersOK os txs 0)
    (t : Syntax.Transaction) (accr : Option AccrualV) (perf : Option (List Bytes)) (date desc : Bytes) (bookings : List BookingV)
    (hv : viewTransaction text' t = some (.transaction accr perf date desc bookings)) :
    Reads os (ts.map (FactsAgree.TransParser.goTransaction text path)) txs (FactsAgree.TransParser.goTransaction text' path' t) desc bookings := by
  obtain ⟨accr', perf', date', desc', bookings', he, hd, hb⟩ := Infer.viewTransaction_some' hv
  injection he with e1 e2 e3 e4 e5
  subst e4 e5
  refine ⟨?_, ho, ?_, viewBs_goBookings t.bookings bookings hb⟩
  · clear ho
    induction ts generalizing txs with
    | nil => simp at hts; subst hts; exact Forall2.nil
    | cons t0 rest ih =>
      obtain ⟨x, xs, h1, h2, rfl⟩ := (Infer.mapM_cons_some _ t0 rest txs).mp hts
      exact Forall2.cons (viewT_goTransaction h1) (ih xs h2)
  · simp [FactsAgree.TransParser.goTransaction, FactsAgree.TransParser.goQuoted, FactsAgree.TransPrinter.Extract_goRange, hd]

/-! ## Non-vacuity: the worked instance of `TransBayes3` (training on `B F 1 C`, target `B T 1 C`, placeholder `T`) meets `Reads`; the
translated run replaces the debit account `T` by the training account `F` -/

def exOrders : Nat → (Int → List Bytes) × (Int → List Bytes) :=
  fun _ => (fun _ => Infer.tokenize [70] [67] [49] [70], fun _ => Infer.tokenize [70] [67] [49] [66])

theorem ex_reads : Reads exOrders [exTx (exBooking (exRange 0 1) (exRange 1 2))] [⟨[70], [⟨false, false, ⟨[66], [70], [49], [67]⟩⟩]⟩]
    (exTx (exBooking (exRange 0 1) (exRange 2 3))) [70] [⟨[66], [84], [49], [67]⟩] := by
  have x01 := exExtract 0 1 (by omega)
  have x12 := exExtract 1 2 (by omega)
  have x23 := exExtract 2 3 (by omega)
  have x34 := exExtract 3 4 (by omega)
  have x45 := exExtract 4 5 (by omega)
  exact ⟨Forall2.cons ⟨x12, Forall2.cons ⟨⟨x01, x12, x45, x34⟩, rfl, rfl⟩ Forall2.nil⟩ Forall2.nil,
    ⟨⟨orderOK_self _ _ _ _, orderOK_self _ _ _ _, trivial⟩, trivial⟩, x12, Forall2.cons ⟨x01, x23, x45, x34⟩ Forall2.nil⟩

example (sc : Scorer S) : ∃ gt' gb', inferGo sc [84] exOrders [exTx (exBooking (exRange 0 1) (exRange 1 2))]
      (exTx (exBooking (exRange 0 1) (exRange 2 3))) = .ok gt' ∧ gt'.Bookings[0]? = some gb' ∧
    gb'.Credit = ⟨exRange 0 1, false⟩ ∧ directives.Range.Extract gb'.Debit.Range = .ok [70] := by
  obtain ⟨gt', h⟩ := C15_total_go sc (account := [84]) ex_reads
  obtain ⟨gb', hg', _, _, _, hc, _⟩ := C15_only_placeholder_go sc ex_reads h (i := 0) rfl
  obtain ⟨v, v', gb'', hview, hg, hview', hrep⟩ := C15_candidate_replaced_go sc ex_reads h (i := 0) rfl
  obtain ⟨w, w', gb3, hw, hg3, hw', hdiff⟩ := C15_differs_from_other_go sc ex_reads h (i := 0) rfl
  obtain ⟨u, u', gb4, hu, hg4, hu', honly⟩ := C15_only_placeholder_text_go sc ex_reads h (i := 0) rfl
  rw [hg'] at hg hg3 hg4
  injection hg with hg; injection hg3 with hg3; injection hg4 with hg4
  subst hg hg3 hg4
  have x01 : directives.Range.Extract (exRange 0 1) = .ok [66] := exExtract 0 1 (by omega)
  have x23 : directives.Range.Extract (exRange 2 3) = .ok [84] := exExtract 2 3 (by omega)
  have ev : ∀ {x : BookingV}, ViewB (exBooking (exRange 0 1) (exRange 2 3)) x → x.credit = [66] ∧ x.debit = [84] := by
    intro x hx
    have h1 := hx.credit
    have h2 := hx.debit
    rw [show (exBooking (exRange 0 1) (exRange 2 3)).Credit.Range = exRange 0 1 from rfl, x01] at h1
    rw [show (exBooking (exRange 0 1) (exRange 2 3)).Debit.Range = exRange 2 3 from rfl, x23] at h2
    injection h1 with h1; injection h2 with h2
    exact ⟨h1.symm, h2.symm⟩
  have same : ∀ {x y : BookingV}, ViewB gb' x → ViewB gb' y → x.credit = y.credit ∧ x.debit = y.debit := by
    intro x y hx hy
    have h1 := hx.credit; rw [hy.credit] at h1; injection h1 with h1
    have h2 := hx.debit; rw [hy.debit] at h2; injection h2 with h2
    exact ⟨h1.symm, h2.symm⟩
  refine ⟨gt', gb', h, hg', ?_, ?_⟩
  · exact hc (by rw [show (exBooking (exRange 0 1) (exRange 2 3)).Credit.Range = exRange 0 1 from rfl, x01]; decide)
  · have hta : trainingAccounts [84] [⟨[70], [⟨false, false, ⟨[66], [70], [49], [67]⟩⟩]⟩] = [[66], [70]] := by decide
    have hcred : u'.credit = [66] := by rw [honly.2.2.1 (by rw [(ev hu).1]; decide), (ev hu).1]
    have hcv : v'.credit = [66] := by rw [(same hview' hu').1, hcred]
    have h3 := hrep.2.1 (ev hview).2 ⟨[70], by rw [hta]; simp, by rw [hcv]; decide⟩
    rw [hta] at h3
    have hd : w'.debit ≠ w.debit := by
      rw [(same hw' hview').2, (ev hw).2]; exact h3.2
    have h4 := hdiff.2 hd
    rw [(same hw' hview').2, (same hw' hview').1, hcv] at h4
    rw [hview'.debit]
    congr 1
    have := h3.1
    simp only [List.mem_cons, List.not_mem_nil, or_false] at this
    rcases this with e | e
    · exact absurd e h4
    · exact e

end Knut.C15Go
