import Knut.Model.Pipeline
/-!
# Lemmas about the `cpr.Seq` transition system: the invariant and its preservation
-/
namespace Knut.Pipeline

variable {σ α ε : Type}

@[simp] theorem upd_same {β : Type} (g : Nat → β) (k : Nat) (v : β) : upd g k v k = v := by simp [upd]
theorem upd_other {β : Type} (g : Nat → β) {k j : Nat} (v : β) (h : j ≠ k) : upd g k v j = g j := by simp [upd, h]

/-! ### `proc` -/

theorem proc_len {f : σ → α → Except ε (σ × α)} {s0 : σ} {l : List α} :
    ∀ {i : Nat} {s : σ} {o : List α}, proc f s0 l i = some (s, o) → o.length = i ∧ i ≤ l.length := by
  intro i
  induction i with
  | zero => intro s o h; simp [proc] at h; simp [← h.2]
  | succ i ih =>
    intro s o h
    simp only [proc] at h
    split at h
    · cases h
    · rename_i s1 o1 h1
      split at h
      · cases h
      · rename_i a ha
        split at h
        · rename_i s' a' hf
          injection h with h; injection h with h1' h2'
          have := ih h1
          have hlt : i < l.length := by
            rcases Nat.lt_or_ge i l.length with x | x
            · exact x
            · rw [List.getElem?_eq_none x] at ha; cases ha
          subst h2'
          simp; omega
        · cases h

theorem proc_append {f : σ → α → Except ε (σ × α)} {s0 : σ} (l x : List α) :
    ∀ i, i ≤ l.length → proc f s0 (l ++ x) i = proc f s0 l i := by
  intro i
  induction i with
  | zero => intro _; simp [proc]
  | succ i ih =>
    intro h
    simp only [proc]
    rw [ih (by omega), List.getElem?_append_left (by omega)]

theorem proc_step {f : σ → α → Except ε (σ × α)} {s0 : σ} {l : List α} {c : Nat} {s s' : σ} {o : List α} {a a' : α}
    (h : proc f s0 l c = some (s, o)) (ha : l[c]? = some a) (hf : f s a = .ok (s', a')) :
    proc f s0 l (c + 1) = some (s', o ++ [a']) := by
  simp [proc, h, ha, hf]

/-- `proc` only looks at the first `i` items -/
theorem proc_take {f : σ → α → Except ε (σ × α)} {s0 : σ} (l : List α) (i : Nat) (h : i ≤ l.length) :
    proc f s0 (l.take i) i = proc f s0 l i := by
  have := proc_append (f := f) (s0 := s0) (l.take i) (l.drop i) i (by simp; omega)
  rw [List.take_append_drop] at this
  exact this.symm

/-! ### the invariant -/

structure Inv (S : Sys σ α ε) (s : St σ α ε) : Prop where
  fed_le : s.fed ≤ S.items.length
  /-- what stage `k+1` has handed on, plus what it holds, is what stage `k` has handed on -/
  chain : ∀ k, k < S.n → (emitted S s (k + 1)).length + occ s (k + 1) = (emitted S s k).length
  out_eq : s.out = emitted S s S.n
  /-- stage `k+1`'s private state and output are those of a sequential run over what it received -/
  data_idle : ∀ k, k < S.n → s.slot (k + 1) = none →
    proc (S.f (k + 1)) (S.init (k + 1)) (emitted S s k) (s.hist (k + 1)).length = some (s.st (k + 1), s.hist (k + 1))
  data_busy : ∀ k a, k < S.n → s.slot (k + 1) = some (a, false) →
    proc (S.f (k + 1)) (S.init (k + 1)) (emitted S s k) (s.hist (k + 1)).length = some (s.st (k + 1), s.hist (k + 1)) ∧
    (emitted S s k)[(s.hist (k + 1)).length]? = some a
  data_done : ∀ k a, k < S.n → s.slot (k + 1) = some (a, true) →
    proc (S.f (k + 1)) (S.init (k + 1)) (emitted S s k) ((s.hist (k + 1)).length + 1) = some (s.st (k + 1), s.hist (k + 1) ++ [a])
  /-- a recorded error is the error of the stage function on the item the stage still holds -/
  err_ok : ∀ k e, s.err k = some e → 1 ≤ k ∧ k ≤ S.n ∧ ∃ a, s.slot k = some (a, false) ∧ S.f k (s.st k) a = .error e
  canc : s.cancelled = true → ∃ k e, s.reported = some (k, e)
  rep : ∀ k e, s.reported = some (k, e) → s.err k = some e
  norep : s.cancelled = false → s.reported = none
  outside : ∀ k, (k = 0 ∨ S.n < k) → s.slot k = none

theorem emitted_zero (S : Sys σ α ε) (s : St σ α ε) : emitted S s 0 = S.items.take s.fed := by simp [emitted]
theorem emitted_succ (S : Sys σ α ε) (s : St σ α ε) (k : Nat) : emitted S s (k + 1) = s.hist (k + 1) := by simp [emitted]
theorem emitted_pos (S : Sys σ α ε) (s : St σ α ε) {k : Nat} (h : 1 ≤ k) : emitted S s k = s.hist k := by
  have : k ≠ 0 := by omega
  simp [emitted, this]

theorem inv_initial (S : Sys σ α ε) : Inv S (St.initial S) := by
  constructor <;> simp [St.initial, emitted, occ, proc]

/-! ### inversion of `step?` -/

theorem step_feed {S : Sys σ α ε} {s s' : St σ α ε} (h : step? S s .feed = some s') :
    ∃ a, s.cancelled = false ∧ 0 < S.n ∧ s.slot 1 = none ∧ S.items[s.fed]? = some a ∧
      s' = { s with fed := s.fed + 1, slot := upd s.slot 1 (some (a, false)) } := by
  simp only [step?] at h
  split at h
  · rename_i hc
    split at h
    · rename_i a ha
      injection h with h
      exact ⟨a, hc.1, hc.2.1, by simpa using hc.2.2, ha, h.symm⟩
    · cases h
  · cases h

theorem step_direct {S : Sys σ α ε} {s s' : St σ α ε} (h : step? S s .direct = some s') :
    ∃ a, s.cancelled = false ∧ S.n = 0 ∧ S.items[s.fed]? = some a ∧
      s' = { s with fed := s.fed + 1, out := s.out ++ [a] } := by
  simp only [step?] at h
  split at h
  · rename_i hc
    split at h
    · rename_i a ha
      injection h with h
      exact ⟨a, hc.1, hc.2, ha, h.symm⟩
    · cases h
  · cases h

theorem step_work {S : Sys σ α ε} {s s' : St σ α ε} {k : Nat} (h : step? S s (.work k) = some s') :
    ∃ a t a', 1 ≤ k ∧ k ≤ S.n ∧ s.err k = none ∧ s.slot k = some (a, false) ∧ S.f k (s.st k) a = .ok (t, a') ∧
      s' = { s with st := upd s.st k t, slot := upd s.slot k (some (a', true)) } := by
  simp only [step?] at h
  split at h
  · rename_i hc
    split at h
    · rename_i a hs
      split at h
      · rename_i t a' hf
        injection h with h
        exact ⟨a, t, a', hc.1, hc.2.1, by simpa using hc.2.2, hs, hf, h.symm⟩
      · cases h
    · cases h
  · cases h

theorem step_fail {S : Sys σ α ε} {s s' : St σ α ε} {k : Nat} (h : step? S s (.fail k) = some s') :
    ∃ a e, 1 ≤ k ∧ k ≤ S.n ∧ s.err k = none ∧ s.slot k = some (a, false) ∧ S.f k (s.st k) a = .error e ∧
      s' = { s with err := upd s.err k (some e) } := by
  simp only [step?] at h
  split at h
  · rename_i hc
    split at h
    · rename_i a hs
      split at h
      · cases h
      · rename_i e hf
        injection h with h
        exact ⟨a, e, hc.1, hc.2.1, by simpa using hc.2.2, hs, hf, h.symm⟩
    · cases h
  · cases h

theorem step_pass {S : Sys σ α ε} {s s' : St σ α ε} {k : Nat} (h : step? S s (.pass k) = some s') :
    ∃ a, s.cancelled = false ∧ 1 ≤ k ∧ k < S.n ∧ s.slot (k + 1) = none ∧ s.slot k = some (a, true) ∧
      s' = { s with slot := upd (upd s.slot k none) (k + 1) (some (a, false)),
                    hist := upd s.hist k (s.hist k ++ [a]) } := by
  simp only [step?] at h
  split at h
  · rename_i hc
    split at h
    · rename_i a hs
      injection h with h
      exact ⟨a, hc.1, hc.2.1, hc.2.2.1, by simpa using hc.2.2.2, hs, h.symm⟩
    · cases h
  · cases h

theorem step_sink {S : Sys σ α ε} {s s' : St σ α ε} (h : step? S s .sink = some s') :
    ∃ a, s.cancelled = false ∧ 0 < S.n ∧ s.slot S.n = some (a, true) ∧
      s' = { s with slot := upd s.slot S.n none, hist := upd s.hist S.n (s.hist S.n ++ [a]), out := s.out ++ [a] } := by
  simp only [step?] at h
  split at h
  · rename_i hc
    split at h
    · rename_i a hs
      injection h with h
      exact ⟨a, hc.1, hc.2, hs, h.symm⟩
    · cases h
  · cases h

theorem step_cancel {S : Sys σ α ε} {s s' : St σ α ε} {k : Nat} (h : step? S s (.cancel k) = some s') :
    ∃ e, s.cancelled = false ∧ s.err k = some e ∧ s' = { s with cancelled := true, reported := some (k, e) } := by
  simp only [step?] at h
  split at h
  · rename_i hc
    split at h
    · rename_i e he
      injection h with h
      exact ⟨e, hc, he, h.symm⟩
    · cases h
  · cases h

end Knut.Pipeline
