import Knut.Proofs.ElabAgree
import Knut.Proofs.PrintCommands
import Knut.Properties.C05Layout
import Knut.Proofs.Loader
/-!
# `Cmd.run` (the command model C14 compares with the binary) against `printFile` (the model of the C09 theorems)

* `journalOf_single`, `runPrint_single`: on a file without `include` directives `Cmd.run .print` IS `printFile` of the file's
  bytes (same output; error iff error; the `transaction.Create` panic with `Cmd.run`'s tag).
* `journalOf_printable`: every journal that loads — any include tree — consists of printable directives
  (`elabFile_agree` + `loadText_printable` per file); `journalOf_error_not_ok`, `runPrint_ok`.
* `noIncludes_print`, `journalOf_printed`: the printed text has no `include` directive and loads, through `Cmd.run`'s own
  loader and elaboration, to the directives `journal.Print` wrote.
-/
namespace Knut.Syntax
set_option linter.unusedVariables false

theorem seen_eq_directives (path : String) (start : Nat) (acc : List Directive) (s : St) :
    ∀ f s', (fileLoopSeen path start acc s).1 = .ok f s' → (fileLoopSeen path start acc s).2 = f.directives := by
  fun_induction fileLoopSeen path start acc s with
  | case1 acc s hE => intro f s' h; simp only [Res.ok.injEq] at h; rw [← h.1]
  | case2 acc s hE e s1 h1 => intro f s' h; cases h
  | case3 acc s hE d s1 h1 hE1 => intro f s' h; simp only [Res.ok.injEq] at h; rw [← h.1]
  | case4 acc s hE d s1 h1 hE1 e s2 h2 => intro f s' h; cases h
  | case5 acc s hE d s1 h1 hE1 u s2 h2 ih => exact ih

end Knut.Syntax

namespace Knut.ElabAgree
open Knut Knut.Syntax Knut.Utf8 Knut.FromSyntax Knut.Commands Knut.Loader Knut.Layout Knut.JournalPrinter
set_option linter.unusedVariables false

def isInclude (d : Syntax.Directive) : Bool :=
  match d.body with
  | .include _ => true
  | _ => false

/-- the file has no `include` directive (nothing is said about a file that does not parse) -/
def NoIncludes (path : String) (text : List UInt8) : Prop :=
  ∀ f, parseText path text = .ok f → ∀ d ∈ f.directives, isInclude d = false

theorem includePaths_nil (text : List UInt8) (ds : List Syntax.Directive) (h : ∀ d ∈ ds, isInclude d = false) :
    includePaths text ds = [] := by
  unfold includePaths
  rw [List.filterMap_eq_nil_iff]
  intro d hd
  have := h d hd
  unfold isInclude at this
  split at this
  · cases this
  · rename_i hb
    split
    · rename_i i hi; exact absurd hi (hb i)
    · rfl

theorem parseForLoader_includes {file : Loader.Path} {text : List UInt8} {f : Syntax.File} (hp : parseText file text = .ok f) :
    (parseForLoader file text).includes = includePaths text f.directives := by
  unfold parseForLoader
  unfold parseText parseFile at hp
  cases hs : Syntax.start (Utf8.decodeAll text) with
  | err e s => rw [hs] at hp; cases hp
  | ok u s =>
    rw [hs] at hp
    simp only at hp ⊢
    have h1 := fileLoopSeen_fst file s.off [] s
    have h2 := Knut.Syntax.seen_eq_directives file s.off [] s
    cases hl : fileLoopSeen file s.off [] s with
    | mk r seen =>
      rw [hl] at h1 h2
      simp only at h1 h2 ⊢
      rw [← h1] at hp
      cases r with
      | err e s' => cases hp
      | ok f' s' =>
        simp only [Except.ok.injEq] at hp
        subst hp
        rw [h2 f' s' rfl]

/-- **one file without includes**: `journal.FromPath` is the elaboration of that file -/
theorem journalOf_single (fs : FileSys) (path : Loader.Path) (text : List UInt8) (hr : fs.read path = some text)
    (hn : NoIncludes path text) :
    journalOf fs path =
      (match parseText path text with
       | .error _ => .error (.error "loading")
       | .ok f => elabFile (text, f)) := by
  unfold journalOf load
  rw [loadRec_read fs parseForLoader path [] text rfl hr]
  unfold body
  rw [parseForLoader_result]
  cases hp : parseText path text with
  | error e => rfl
  | ok f =>
    simp only
    rw [parseForLoader_includes hp, includePaths_nil text f.directives (hn f hp)]
    simp only [List.map_nil, Loader.collect, journalOfFiles, List.mapM_cons, List.mapM_nil]
    cases elabFile (text, f) with
    | error e => rfl
    | ok ds => simp [bind, Except.bind, pure, Except.pure, Except.map]


/-! ### `knut print` on one file -/

/-- the outcome of `Cmd.run` against the outcome of the one-file model: the same output, an error when the other reports
an error, the `transaction.Create` panic with the tag `Cmd.run` puts in front -/
def SameOutcome (a b : CmdOutcome) : Prop :=
  match b with
  | .ok out => a = .ok out
  | .error _ => ∃ m, a = .error m
  | .panic s => a = .panic ("accrual: " ++ s)

theorem loadText_parse_error {path : String} {text : List UInt8} {e : Syntax.Err} (hp : parseText path text = .error e) :
    loadText path text = .error := by
  unfold loadText; rw [hp]

/-- **`Cmd.run .print` on a file without includes is `printFile` of its bytes** -/
theorem runPrint_single (fs : FileSys) (f : Flags) (text : List UInt8) (hr : fs.read f.path = some text)
    (hn : NoIncludes f.path text) : SameOutcome (Cmd.run .print fs f) (printFile f.path text) := by
  rw [run_print_eq, journalOf_single fs f.path text hr hn]
  unfold printFile
  cases hp : parseText f.path text with
  | error e =>
    rw [loadText_parse_error hp]
    exact ⟨_, rfl⟩
  | ok file =>
    have hag := elabFile_agree hp
    cases hl : loadText f.path text with
    | ok ds =>
      rw [hl] at hag
      simp only at hag ⊢
      rw [hag]
      simp only [printOn]
      cases Check.run (Builder.ofList ds).build with
      | error e => exact ⟨_, rfl⟩
      | ok st => rfl
    | error =>
      rw [hl] at hag
      obtain ⟨m, hm⟩ := hag
      simp only [hm]
      exact ⟨_, rfl⟩
    | panic s =>
      rw [hl] at hag
      simp only at hag ⊢
      rw [hag]
      rfl

/-! ### every journal that loads, whatever its include tree, consists of printable directives -/

theorem mapM_except_mem {α β ε : Type} (g : α → Except ε β) : ∀ (l : List α) (ys : List β), l.mapM g = .ok ys →
    ∀ y ∈ ys, ∃ x ∈ l, g x = .ok y
  | [], ys, h, y, hy => by
    simp only [List.mapM_nil, pure, Except.pure, Except.ok.injEq] at h
    subst h; cases hy
  | x :: xs, ys, h, y, hy => by
    simp only [List.mapM_cons, bind, Except.bind] at h
    cases hx : g x with
    | error e => rw [hx] at h; cases h
    | ok b =>
      rw [hx] at h
      simp only at h
      cases hxs : xs.mapM g with
      | error e => rw [hxs] at h; cases h
      | ok bs =>
        rw [hxs] at h
        simp only [pure, Except.pure, Except.ok.injEq] at h
        subst h
        rcases List.mem_cons.mp hy with rfl | hy
        · exact ⟨x, List.mem_cons_self, hx⟩
        · obtain ⟨x', hx', hg⟩ := mapM_except_mem g xs bs hxs y hy
          exact ⟨x', List.mem_cons_of_mem _ hx', hg⟩

theorem journalOf_printable (fs : FileSys) (root : Loader.Path) (ds : List Directive) (h : journalOf fs root = .ok ds) :
    ∀ x ∈ ds, PrintableDir x := by
  unfold journalOf at h
  cases hl : load fs parseForLoader root with
  | error e => rw [hl] at h; cases h
  | ok files =>
    rw [hl] at h
    simp only [journalOfFiles] at h
    cases hm : files.mapM (fun pf => elabFile pf.2) with
    | error e => rw [hm] at h; cases h
    | ok dss =>
      rw [hm] at h
      simp only [Except.map, Except.ok.injEq] at h
      subst h
      intro x hx
      obtain ⟨l, hl', hxl⟩ := List.mem_flatten.mp hx
      obtain ⟨pf, hpf, hel⟩ := mapM_except_mem _ files dss hm l hl'
      obtain ⟨text, hrd, hres⟩ := loadRec_mem fs parseForLoader root [] files hl pf hpf
      rw [parseForLoader_result] at hres
      cases hp : parseText pf.1 text with
      | error e => rw [hp] at hres; cases hres
      | ok f =>
        rw [hp] at hres
        simp only [Except.ok.injEq] at hres
        have hag := elabFile_agree hp
        rw [hres] at hag
        cases hlt : loadText pf.1 text with
        | ok ds' =>
          rw [hlt] at hag
          simp only at hag
          rw [hel] at hag
          simp only [Except.ok.injEq] at hag
          subst hag
          exact loadText_printable pf.1 text l hlt x hxl
        | error =>
          rw [hlt] at hag
          obtain ⟨m, hm'⟩ := hag
          rw [hel] at hm'; cases hm'
        | panic s =>
          rw [hlt] at hag
          simp only at hag
          rw [hel] at hag; cases hag

/-! ### the printed text has no include directive -/

theorem dirView_not_include (x : Directive) (p : List UInt8) : (dirView x).bytes ≠ .include p := by
  cases x <;> simp [dirView, DirT.bytes]

theorem forall2_mem_left {α β : Type} {R : α → β → Prop} {l : List α} {l' : List β} (h : List.Forall₂ R l l') :
    ∀ a ∈ l, ∃ b ∈ l', R a b := by
  induction h with
  | nil => intro a ha; cases ha
  | cons hab _ ih =>
    intro a ha
    rcases List.mem_cons.mp ha with rfl | ha
    · exact ⟨_, List.mem_cons_self, hab⟩
    · obtain ⟨b, hb, hr⟩ := ih a ha
      exact ⟨b, List.mem_cons_of_mem _ hb, hr⟩

theorem noIncludes_print (path : String) (j : List Day) (h : ∀ x ∈ journalDirs j, PrintableDir x) :
    NoIncludes path (strBytes (print j)) := by
  intro f hp d hd
  have hgood : ∀ i ∈ j.flatMap dayItems, GoodItem i := by
    intro i hi
    obtain ⟨dy, hdy, hi⟩ := List.mem_flatMap.mp hi
    exact good_dayItems dy (fun x hx => h x (List.mem_flatMap.mpr ⟨dy, hdy, hx⟩)) i hi
  obtain ⟨f2, hp2, hv⟩ := parse_rendered_items (padding j) path _ (itemsShape_of_good _ hgood)
  rw [← toks_print j h, ← strBytes_eq_flat] at hp2 hv
  rw [hp] at hp2
  simp only [Except.ok.injEq] at hp2
  subst hp2
  have hvs : viewsOf (j.flatMap dayItems) = (journalDirs j).map dirView := by
    rw [viewsOf_flatMap, journalDirs, List.map_flatMap]
    congr 1
    funext dy
    exact viewsOf_dayItems dy
  rw [hvs, List.map_map] at hv
  have hf := forall2_of_mapM (viewDirective (strBytes (print j))) (DirT.bytes ∘ dirView) _ _ hv
  obtain ⟨x, _, hx⟩ := forall2_mem_left hf d hd
  unfold isInclude
  split
  · rename_i i hb
    exfalso
    unfold viewDirective at hx
    simp only [hb, Option.bind_eq_bind, Option.bind_eq_some_iff, Option.pure_def, Option.some.injEq] at hx
    obtain ⟨p, _, hx⟩ := hx
    exact dirView_not_include x p hx.symm
  · rfl


/-! ### a failing load is an error or a panic, never an output -/

theorem mapM_except_error {α β ε : Type} (g : α → Except ε β) : ∀ (l : List α) (e : ε), l.mapM g = .error e →
    ∃ x ∈ l, g x = .error e
  | [], e, h => by simp only [List.mapM_nil, pure, Except.pure] at h; cases h
  | x :: xs, e, h => by
    simp only [List.mapM_cons, bind, Except.bind] at h
    cases hx : g x with
    | error e' =>
      rw [hx] at h
      simp only [Except.error.injEq] at h
      subst h
      exact ⟨x, List.mem_cons_self, hx⟩
    | ok b =>
      rw [hx] at h
      simp only at h
      cases hxs : xs.mapM g with
      | error e' =>
        rw [hxs] at h
        simp only [Except.error.injEq] at h
        subst h
        obtain ⟨x', hx', hg⟩ := mapM_except_error g xs e' hxs
        exact ⟨x', List.mem_cons_of_mem _ hx', hg⟩
      | ok bs => rw [hxs] at h; cases h

theorem journalOf_error_not_ok (fs : FileSys) (root : Loader.Path) (o : CmdOutcome) (h : journalOf fs root = .error o) :
    ∀ out, o ≠ .ok out := by
  intro out ho
  subst ho
  unfold journalOf at h
  cases hl : load fs parseForLoader root with
  | error e => rw [hl] at h; cases h
  | ok files =>
    rw [hl] at h
    simp only [journalOfFiles] at h
    cases hm : files.mapM (fun pf => elabFile pf.2) with
    | ok dss => rw [hm] at h; cases h
    | error e =>
      rw [hm] at h
      simp only [Except.map, Except.error.injEq] at h
      subst h
      obtain ⟨pf, hpf, hel⟩ := mapM_except_error _ files _ hm
      obtain ⟨text, hrd, hres⟩ := loadRec_mem fs parseForLoader root [] files hl pf hpf
      rw [parseForLoader_result] at hres
      cases hp : parseText pf.1 text with
      | error e => rw [hp] at hres; cases hres
      | ok f =>
        rw [hp] at hres
        simp only [Except.ok.injEq] at hres
        have hag := elabFile_agree hp
        rw [hres] at hag
        cases hlt : loadText pf.1 text with
        | ok ds' => rw [hlt] at hag; simp only at hag; rw [hel] at hag; cases hag
        | error => rw [hlt] at hag; obtain ⟨m, hm'⟩ := hag; rw [hel] at hm'; cases hm'
        | panic s => rw [hlt] at hag; simp only at hag; rw [hel] at hag; cases hag

/-- `knut print` succeeds with `out`: the journal loads, the checker accepts it, `out` is its printed form -/
theorem runPrint_ok {fs : FileSys} {f : Flags} {out : String} (h : Cmd.run .print fs f = .ok out) :
    ∃ ds, journalOf fs f.path = .ok ds ∧ (Check.run (Builder.ofList ds).build).isOk = true ∧
      out = print (Builder.ofList ds).build := by
  rw [run_print_eq] at h
  cases hj : journalOf fs f.path with
  | error o =>
    rw [hj] at h
    simp only at h
    exact absurd h (journalOf_error_not_ok fs f.path o hj out)
  | ok ds =>
    rw [hj] at h
    simp only [printOn] at h
    cases hc : Check.run (Builder.ofList ds).build with
    | error e => rw [hc] at h; cases h
    | ok st =>
      rw [hc] at h
      simp only [CmdOutcome.ok.injEq] at h
      exact ⟨ds, rfl, by rw [hc]; rfl, h.symm⟩

/-- the journal a file holding the printed text loads to -/
theorem journalOf_printed (fs' : FileSys) (path' : Loader.Path) (ds : List Directive) (hp : ∀ x ∈ ds, PrintableDir x)
    (hr : fs'.read path' = some (strBytes (print (Builder.ofList ds).build))) :
    journalOf fs' path' = .ok (printedDirs ds) := by
  have hj := printable_built ds hp
  rw [journalOf_single fs' path' _ hr (noIncludes_print path' _ hj.dirs)]
  have hl := load_print path' _ hj.dirs
  cases hpt : parseText path' (strBytes (print (Builder.ofList ds).build)) with
  | error e => rw [loadText_parse_error hpt] at hl; cases hl
  | ok file =>
    have hag := elabFile_agree hpt
    rw [hl] at hag
    exact hag

end Knut.ElabAgree
