import Knut.Syntax.Scanner
/-!
# Rendering of parser errors: `Range.Location` and `Error.Error`

`Location` walks the text rune by rune (`for pos, ch := range r.Text`, i.e. the same decoding as the scanner)
and counts lines and columns until the byte position equals `r.End`; if it never does, the position of the end
of the text is returned.
-/
namespace Knut.Syntax
open Knut.Utf8

/-- the loop of `Range.Location` -/
def locationL (stop : Nat) : (pos line col : Nat) → List Tok → Nat × Nat
  | _, line, col, [] => (line, col)
  | pos, line, col, t :: rest =>
    if pos == stop then (line, col)
    else if t.r == 10 then locationL stop (pos + t.bytes.length) (line + 1) 1 rest
    else locationL stop (pos + t.bytes.length) line (col + 1) rest

/-- `Range.Location` of a range ending at `stop` in the text with tokens `toks` -/
def location (toks : List Tok) (stop : Nat) : Nat × Nat := locationL stop 0 1 1 toks

/-- `Error.Error()` of one link, without the wrapped part -/
def renderFrame (path : String) (toks : List Tok) : Frame → String
  | .at msg r =>
    let (line, col) := location toks r.stop
    (if path.isEmpty then "" else path ++ ": ") ++ toString line ++ ":" ++ toString col ++ " " ++ msg
  | .zero => "1:1 "
  | .eof => "EOF"

/-- `Error.Error()`: wrapped errors first, one per line -/
def renderErr (path : String) (toks : List Tok) (e : Err) : String :=
  "\n".intercalate (e.map (renderFrame path toks))

end Knut.Syntax
