import Knut.Proofs.PrintImportCards
/-!
# C13, text level: the directives of the broker importers are `Fine`
-/
set_option linter.unusedSimpArgs false
set_option linter.unusedVariables false
namespace Knut.Proofs.Import
open Knut Knut.Import Knut.Spec.Import Knut.FromSyntax

/-- a decoded swissquote row: date in range, decimal amounts -/
def RowOK (r : Swissquote.Row) : Prop :=
  PrintableDate r.date ∧ IsDec r.quantity ∧ IsDec r.price ∧ IsDec r.fee ∧ IsDec r.interest ∧ IsDec r.net

theorem swissquote_toRow_fine {l : Rec} {r : Swissquote.Row} (h : Swissquote.toRow l = .ok r) : RowOK r := by
  unfold Swissquote.toRow at h
  obtain ⟨d, hd, h⟩ := Res.bind_eq_ok h
  obtain ⟨sym, hsym, h⟩ := Res.bind_eq_ok h
  obtain ⟨quantity, hq, h⟩ := Res.bind_eq_ok h
  obtain ⟨price, hp, h⟩ := Res.bind_eq_ok h
  obtain ⟨fee, hf, h⟩ := Res.bind_eq_ok h
  obtain ⟨interest, hi, h⟩ := Res.bind_eq_ok h
  obtain ⟨net, hn, h⟩ := Res.bind_eq_ok h
  obtain ⟨balance, hb, h⟩ := Res.bind_eq_ok h
  obtain ⟨currency, hc, h⟩ := Res.bind_eq_ok h
  simp at h; subst h
  exact ⟨printable_prefix10 rfl rfl hd, dec_ofOptionA hq, dec_ofOptionA hp, dec_ofOptionA hf, dec_ofOptionA hi, dec_ofOptionA hn⟩

theorem swissquote_fn (na : Bool) (a : Swissquote.Accts) (recs : List Rec) (ds : List Directive)
    (h : Swissquote.run a recs = .ok ds) : AllFn na ds := by
  have hstep : ∀ (last : Option Swissquote.Row) (r : Swissquote.Row) (last' : Option Swissquote.Row) (ds : List Directive),
      (∀ l, last = some l → RowOK l) → RowOK r →
      Swissquote.step a last r = .ok (last', ds) → AllFn na ds ∧ ∀ l, last' = some l → RowOK l := by
    intro last r last' ds hl hr h
    obtain ⟨rd, rq, rp, rf, ri, rn⟩ := hr
    unfold Swissquote.step at h
    split at h
    · split at h
      · cases h
      · rename_i sym hsym
        simp at h
        obtain ⟨h1, h2⟩ := h
        subst h1 h2
        refine ⟨AllFn_single (mkTx_fn _ _ _ _ rd ?_), hl⟩
        intro b hb
        simp only [List.mem_cons, List.not_mem_nil, or_false] at hb
        rcases hb with rfl | rfl | rfl
        · simp only; split
          · exact isDec_neg rq
          · exact rq
        · exact isDec_add rn rf
        · exact isDec_neg rf
    · split at h
      · split at h
        · simp at h
          obtain ⟨h1, h2⟩ := h
          subst h1 h2
          exact ⟨AllFn_nil, fun l hl' => by simp at hl'; subst hl'; exact ⟨rd, rq, rp, rf, ri, rn⟩⟩
        · rename_i _ l
          simp at h
          obtain ⟨h1, h2⟩ := h
          subst h1 h2
          have := hl l rfl
          exact ⟨AllFn_single (mkTx_fn _ _ _ _ rd (by simp [this.2.2.2.2.2, rn])), fun l hl' => by simp at hl'⟩
      · split at h
        · cases h
        · split at h
          · split at h
            · cases h
            · rename_i sym hsym
              simp at h
              obtain ⟨h1, h2⟩ := h
              subst h1 h2
              refine ⟨AllFn_single (mkTx_fn _ _ _ _ rd ?_), fun l hl' => by simp at hl'⟩
              by_cases hz : r.fee = 0
              · simp [hz, rp]
              · simp [hz, rp, rf]
          · split at h
            · simp at h
              obtain ⟨h1, h2⟩ := h
              subst h1 h2
              exact ⟨AllFn_single (mkTx_fn _ _ _ _ rd (by simp [rn])), fun l hl' => by simp at hl'⟩
            · split at h
              · simp at h
                obtain ⟨h1, h2⟩ := h
                subst h1 h2
                exact ⟨AllFn_single (mkTx_fn _ _ _ _ rd (by simp [rn])), fun l hl' => by simp at hl'⟩
              · split at h
                · simp at h
                  obtain ⟨h1, h2⟩ := h
                  subst h1 h2
                  exact ⟨AllFn_single (mkTx_fn _ _ _ _ rd (by simp [rn])), fun l hl' => by simp at hl'⟩
                · simp at h
                  obtain ⟨h1, h2⟩ := h
                  subst h1 h2
                  exact ⟨AllFn_single (mkTx_fn _ _ _ _ rd (by simp [rn])), fun l hl' => by simp at hl'⟩
  have hrows : ∀ (ls : List Rec) (last : Option Swissquote.Row) (ds : List Directive), (∀ l, last = some l → RowOK l) →
      Swissquote.rows a last ls = .ok ds → AllFn na ds := by
    intro ls
    induction ls with
    | nil => intro last ds _ h; simp [Swissquote.rows] at h; subst h; exact AllFn_nil
    | cons l ls ih =>
      intro last ds hl h
      unfold Swissquote.rows at h
      split at h
      · cases h
      · obtain ⟨r, hr, h⟩ := Res.bind_eq_ok h
        obtain ⟨⟨last', ds1⟩, hst, h⟩ := Res.bind_eq_ok h
        obtain ⟨ds2, hrec, h⟩ := Res.bind_eq_ok h
        simp at h; subst h
        obtain ⟨w1, hl'⟩ := hstep last r last' ds1 hl (swissquote_toRow_fine hr) hst
        exact AllFn_append w1 (ih last' ds2 hl' hrec)
  unfold Swissquote.run at h
  cases recs with
  | nil => cases h
  | cons hd ls =>
    simp only at h
    split at h
    · cases h
    · exact hrows ls none ds (fun l hl => by cases hl) h

/-! ## interactivebrokers -/

/-- state invariant: the end of the statement period is a date of the years 0000..9999 -/
def StFine (st : IB.St) : Prop := PrintableDate st.dateTo

/-- a parser keeps the invariant and emits fine directives only (`createAssertions` emits assertions: `na = false`) -/
def KeepsF (p : IB.St → Rec → Res IB.Out) : Prop :=
  ∀ st r st' ds, StFine st → p st r = .ok (some (st', ds)) → StFine st' ∧ AllFn false ds

theorem dec_rounded {r : Rec} {i : Nat} {q : Rat} (h : (fld r i).bind IB.rounded = .ok q) : IsDec q := by
  have := fld_bind h
  unfold IB.rounded at this
  obtain ⟨a, _, this⟩ := Res.bind_eq_ok this
  simp at this; subst this
  exact isDec_round _ _

theorem dec_fldComma {r : Rec} {i : Nat} {q : Rat}
    (h : (fld r i).bind (fun s => Res.ofOption (parseDecimalComma s)) = .ok q) : IsDec q :=
  isDec_comma (ofOption_eq_ok (fld_bind h))

theorem dec_fldNew {r : Rec} {i : Nat} {q : Rat}
    (h : (fld r i).bind (fun s => Res.ofOption (newFromString s)) = .ok q) : IsDec q :=
  isDec_newFromString (ofOption_eq_ok (fld_bind h))

theorem date_fldYMD {r : Rec} {i : Nat} {z : Int}
    (h : (fld r i).bind (fun s => Res.ofOption (Knut.Import.parseDate layoutYMD s)) = .ok z) : PrintableDate z :=
  printable_YMD (ofOption_eq_ok (fld_bind h))

theorem date_fldYMD10 {r : Rec} {i : Nat} {z : Int}
    (h : (fld r i).bind (parseDatePrefix10 layoutYMD) = .ok z) : PrintableDate z :=
  printable_prefix10 rfl rfl (fld_bind h)

theorem keepsF_base : KeepsF IB.parseBaseCurrency := by
  intro st r st' ds hst h
  unfold IB.parseBaseCurrency at h
  obtain ⟨b, hb, h⟩ := Res.bind_eq_ok h
  split at h
  · simp at h
  · obtain ⟨v, hv, h⟩ := Res.bind_eq_ok h
    obtain ⟨c, hc, h⟩ := Res.bind_eq_ok h
    simp at h
    obtain ⟨h1, h2⟩ := h
    subst h1 h2
    exact ⟨hst, AllFn_nil⟩

theorem keepsF_period : KeepsF IB.parsePeriod := by
  intro st r st' ds hst h
  unfold IB.parsePeriod at h
  obtain ⟨b, hb, h⟩ := Res.bind_eq_ok h
  split at h
  · simp at h
  · obtain ⟨v, hv, h⟩ := Res.bind_eq_ok h
    obtain ⟨d0, hd0, h⟩ := Res.bind_eq_ok h
    obtain ⟨_, _, h⟩ := Res.bind_eq_ok h
    obtain ⟨d1, hd1, h⟩ := Res.bind_eq_ok h
    obtain ⟨dt, hdt, h⟩ := Res.bind_eq_ok h
    simp at h
    obtain ⟨h1, h2⟩ := h
    subst h1 h2
    exact ⟨printable_Long (ofOption_eq_ok hdt), AllFn_nil⟩

theorem keepsF_forex (a : Swissquote.Accts) : KeepsF (IB.parseForex a) := by
  intro st r st' ds hst h
  unfold IB.parseForex at h
  obtain ⟨b, hb, h⟩ := Res.bind_eq_ok h
  split at h
  · simp at h
  · split at h
    · cases h
    · rename_i base hbase
      obtain ⟨cur, hcur, h⟩ := Res.bind_eq_ok h
      obtain ⟨sym, hsym, h⟩ := Res.bind_eq_ok h
      obtain ⟨stock, hstock, h⟩ := Res.bind_eq_ok h
      obtain ⟨d, hd, h⟩ := Res.bind_eq_ok h
      obtain ⟨qty, hqty, h⟩ := Res.bind_eq_ok h
      obtain ⟨price, hprice, h⟩ := Res.bind_eq_ok h
      obtain ⟨proceeds, hproc, h⟩ := Res.bind_eq_ok h
      obtain ⟨fee, hfee, h⟩ := Res.bind_eq_ok h
      simp at h
      obtain ⟨h1, h2⟩ := h
      subst h1 h2
      have q1 := dec_rounded hqty
      have q2 := dec_rounded hproc
      have q3 := dec_rounded hfee
      refine ⟨hst, AllFn_single (mkTx_fn _ _ _ _ (date_fldYMD10 hd) ?_)⟩
      by_cases hz : fee = 0
      · simp [hz, q1, q2]
      · simp [hz, q1, q2, q3]

theorem keepsF_trade (a : Swissquote.Accts) : KeepsF (IB.parseTrade a) := by
  intro st r st' ds hst h
  unfold IB.parseTrade at h
  obtain ⟨b, hb, h⟩ := Res.bind_eq_ok h
  split at h
  · simp at h
  · obtain ⟨cur, hcur, h⟩ := Res.bind_eq_ok h
    obtain ⟨stock, hstock, h⟩ := Res.bind_eq_ok h
    obtain ⟨d, hd, h⟩ := Res.bind_eq_ok h
    obtain ⟨qty, hqty, h⟩ := Res.bind_eq_ok h
    obtain ⟨price, hprice, h⟩ := Res.bind_eq_ok h
    obtain ⟨proceeds, hproc, h⟩ := Res.bind_eq_ok h
    obtain ⟨fee, hfee, h⟩ := Res.bind_eq_ok h
    simp at h
    obtain ⟨h1, h2⟩ := h
    subst h1 h2
    exact ⟨hst, AllFn_single (mkTx_fn _ _ _ _ (date_fldYMD10 hd)
      (by simp [dec_rounded hqty, dec_rounded hproc, dec_fldNew hfee]))⟩

theorem keepsF_deposit (a : Swissquote.Accts) : KeepsF (IB.parseDeposit a) := by
  intro st r st' ds hst h
  unfold IB.parseDeposit at h
  obtain ⟨b, hb, h⟩ := Res.bind_eq_ok h
  split at h
  · simp at h
  · obtain ⟨cur, hcur, h⟩ := Res.bind_eq_ok h
    obtain ⟨d, hd, h⟩ := Res.bind_eq_ok h
    obtain ⟨q, hq, h⟩ := Res.bind_eq_ok h
    simp at h
    obtain ⟨h1, h2⟩ := h
    subst h1 h2
    exact ⟨hst, AllFn_single (mkTx_fn _ _ _ _ (date_fldYMD hd) (by simp [dec_rounded hq]))⟩

theorem keepsF_dividend (a : Swissquote.Accts) : KeepsF (IB.parseDividend a) := by
  intro st r st' ds hst h
  unfold IB.parseDividend at h
  obtain ⟨b, hb, h⟩ := Res.bind_eq_ok h
  split at h
  · simp at h
  · obtain ⟨cur, hcur, h⟩ := Res.bind_eq_ok h
    obtain ⟨d, hd, h⟩ := Res.bind_eq_ok h
    obtain ⟨q, hq, h⟩ := Res.bind_eq_ok h
    obtain ⟨desc, hdesc, h⟩ := Res.bind_eq_ok h
    simp only at h
    split at h
    · cases h
    · simp at h
      obtain ⟨h1, h2⟩ := h
      subst h1 h2
      exact ⟨hst, AllFn_single (mkTx_fn _ _ _ _ (date_fldYMD hd) (by simp [dec_fldComma hq]))⟩

theorem keepsF_interest (a : Swissquote.Accts) : KeepsF (IB.parseInterest a) := by
  intro st r st' ds hst h
  unfold IB.parseInterest at h
  obtain ⟨b, hb, h⟩ := Res.bind_eq_ok h
  split at h
  · simp at h
  · obtain ⟨cur, hcur, h⟩ := Res.bind_eq_ok h
    obtain ⟨d, hd, h⟩ := Res.bind_eq_ok h
    obtain ⟨q, hq, h⟩ := Res.bind_eq_ok h
    obtain ⟨desc, hdesc, h⟩ := Res.bind_eq_ok h
    simp at h
    obtain ⟨h1, h2⟩ := h
    subst h1 h2
    exact ⟨hst, AllFn_single (mkTx_fn _ _ _ _ (date_fldYMD hd) (by simp [dec_fldComma hq]))⟩

theorem keepsF_withholding (a : Swissquote.Accts) : KeepsF (IB.parseWithholdingTax a) := by
  intro st r st' ds hst h
  unfold IB.parseWithholdingTax at h
  obtain ⟨b, hb, h⟩ := Res.bind_eq_ok h
  split at h
  · simp at h
  · obtain ⟨desc, hdesc, h⟩ := Res.bind_eq_ok h
    obtain ⟨cur, hcur, h⟩ := Res.bind_eq_ok h
    obtain ⟨d, hd, h⟩ := Res.bind_eq_ok h
    obtain ⟨q, hq, h⟩ := Res.bind_eq_ok h
    simp only at h
    split at h
    · cases h
    · simp at h
      obtain ⟨h1, h2⟩ := h
      subst h1 h2
      exact ⟨hst, AllFn_single (mkTx_fn _ _ _ _ (date_fldYMD hd) (by simp [dec_fldComma hq]))⟩

theorem fn_assertion (d : Int) (a : Account) (q : Rat) (c : Commodity) (hd : PrintableDate d) (hq : IsDec q) :
    Fn false (.assertion { date := d, balances := [⟨a, q, c⟩] }) := by
  refine ⟨⟨hd, ?_⟩, fun h => by cases h⟩
  intro b hb
  simp only [List.mem_cons, List.not_mem_nil, or_false] at hb
  subst hb; exact hq

theorem keepsF_positions (a : Swissquote.Accts) : KeepsF (IB.createAssertions a) := by
  intro st r st' ds hst h
  unfold IB.createAssertions at h
  obtain ⟨b, hb, h⟩ := Res.bind_eq_ok h
  split at h
  · simp at h
  · split at h
    · cases h
    · obtain ⟨sym, hsym, h⟩ := Res.bind_eq_ok h
      obtain ⟨q, hq, h⟩ := Res.bind_eq_ok h
      simp at h
      obtain ⟨h1, h2⟩ := h
      subst h1 h2
      exact ⟨hst, AllFn_single (fn_assertion _ _ _ _ hst (dec_fldNew hq))⟩

theorem keepsF_forexBalances (a : Swissquote.Accts) : KeepsF (IB.createCurrencyAssertions a) := by
  intro st r st' ds hst h
  unfold IB.createCurrencyAssertions at h
  obtain ⟨b, hb, h⟩ := Res.bind_eq_ok h
  split at h
  · simp at h
  · split at h
    · cases h
    · obtain ⟨sym, hsym, h⟩ := Res.bind_eq_ok h
      obtain ⟨q, hq, h⟩ := Res.bind_eq_ok h
      simp at h
      obtain ⟨h1, h2⟩ := h
      subst h1 h2
      exact ⟨hst, AllFn_single (fn_assertion _ _ _ _ hst (dec_rounded hq))⟩

theorem tryAll_keepsF {ps : List (IB.St → Rec → Res IB.Out)} (h : ∀ p ∈ ps, KeepsF p) (st : IB.St) (r : Rec) (st' : IB.St)
    (ds : List Directive) (hst : StFine st) (hrun : IB.tryAll ps st r = .ok (st', ds)) : StFine st' ∧ AllFn false ds := by
  induction ps with
  | nil => simp [IB.tryAll] at hrun; obtain ⟨h1, h2⟩ := hrun; subst h1 h2; exact ⟨hst, AllFn_nil⟩
  | cons p ps ih =>
    unfold IB.tryAll at hrun
    obtain ⟨o, ho, hrun⟩ := Res.bind_eq_ok hrun
    cases o with
    | some x =>
      obtain ⟨st1, ds1⟩ := x
      simp at hrun
      obtain ⟨h1, h2⟩ := hrun
      subst h1 h2
      exact h p (by simp) st r _ _ hst ho
    | none => exact ih (fun q hq => h q (by simp [hq])) hrun

theorem interactivebrokers_fn (a : Swissquote.Accts) (recs : List Rec) (ds : List Directive)
    (h : IB.run a recs = .ok ds) : AllFn false ds := by
  have hall : ∀ p ∈ IB.parsers a, KeepsF p := by
    intro p hp
    simp only [IB.parsers, List.mem_cons, List.not_mem_nil, or_false] at hp
    rcases hp with rfl | rfl | rfl | rfl | rfl | rfl | rfl | rfl | rfl | rfl
    · exact keepsF_base
    · exact keepsF_period
    · exact keepsF_forex a
    · exact keepsF_trade a
    · exact keepsF_deposit a
    · exact keepsF_dividend a
    · exact keepsF_interest a
    · exact keepsF_withholding a
    · exact keepsF_positions a
    · exact keepsF_forexBalances a
  have hrows : ∀ (rs : List Rec) (st : IB.St) (ds : List Directive), StFine st → IB.run' a st rs = .ok ds → AllFn false ds := by
    intro rs
    induction rs with
    | nil => intro st ds _ h; simp [IB.run'] at h; subst h; exact AllFn_nil
    | cons r rs ih =>
      intro st ds hst h
      unfold IB.run' at h
      obtain ⟨⟨st1, ds1⟩, hstep, h⟩ := Res.bind_eq_ok h
      obtain ⟨ds2, hrec, h⟩ := Res.bind_eq_ok h
      simp at h; subst h
      obtain ⟨h1, h2⟩ := tryAll_keepsF hall st r st1 ds1 hst hstep
      exact AllFn_append h2 (ih st1 ds2 h1 hrec)
  exact hrows recs {} ds (by unfold StFine; decide) h

end Knut.Proofs.Import
