import Knut.Proofs.ImportCards
import Knut.Proofs.ImportAccounts
import Knut.Proofs.ImportBrokers
import Knut.Proofs.ImportIB
import Knut.Proofs.ImportFaithful
import Knut.Proofs.ImportWF
/-!
# C13 — importers turn every statement row into a valid, faithful journal entry

**Property.** For each bank importer and every well-formed statement, the emitted text is valid for knut's own
parser and, once the accounts it uses are opened, is accepted and re-printed unchanged; each booking row of the
statement yields exactly one transaction on the row's date whose effect on the import account is the row's signed
amount in the row's currency, and nothing else is emitted except the balance assertions and prices the statement
itself carries.  Whatever characters occur in free-text fields, the output stays syntactically valid.

**What is modelled.**  `Model/Import/*.lean`: one executable model per importer (all eleven) from the records as
`encoding/csv` / `encoding/json` decoded them to the directives added to the `journal.Builder`, with explicit
`error` / `panic` outcomes; the output text is `JournalPrinter.print` of those directives (the model of
`journal.Print`, C09).  `Spec/ImportItems.lean` is the specification side: per format, which records are booking
rows, their date / currency / signed amount, and the balances and prices the statement carries.
`Spec/ImportSpec.lean` says what *faithful* means (`Faithful`: the directives are the statement's items one for
one, in order; a booking item is matched by a transaction on its date whose net effect on the import account is
the stated amount in *every* commodity and which has at least one booking).

**Proved here, for all record lists of any length and any field contents** (all eleven importers; the flags' accounts
must differ from the import account, otherwise a posting pair cancels itself):

* `C13_<importer>` — if the importer succeeds, its directives are `Faithful` to the statement: booking row ↦ exactly
  one transaction, on the row's date, with exactly the row's effect on the import account; carried balances and
  prices verbatim; nothing else (same length, pointwise).  Readings of `Faithful`: `C13_count`,
  `C13_booking_row`, `C13_nothing_else`.
* `C13_<importer>_wellformed` — every emitted directive is `wellFormed`: transactions have at least one booking (a
  zero-amount row still yields its booking line), all account and commodity names are valid names for knut's parser,
  the stored description has no double quote, whatever the free-text fields contain.
* `C13_monitor_complete` / `C13_monitor_sound` — the executable predicate the monitor evaluates on the REAL output
  (`faithfulB`) holds of faithful directives, and whenever it holds the directives are, up to the reordering
  `journal.Print` applies, faithful.
* `C13_description_has_no_quote`, `C13_replaceQuotes_idempotent` — the description a built transaction stores contains
  no double quote, and replacing again (as the printer still does) changes nothing: the day's transactions are sorted by
  the very text that is printed (repair 7934e0c of `C13-quote-replaced-after-sorting`).
* witnesses of the places where a format is *not* one-row-one-transaction
  (`wise_conversion_two_transactions`, `swissquote_forex_pair_one_transaction`), and of the repaired behaviour
  `swissquote_sale_without_proceeds_is_a_sale` (repair c9fcfe1).  `ch.postfinance`'s model no longer has an echo
  (repair 3b9fb06): `Postfinance.run` yields directives only.

**The text-level clause** (the emitted text is valid for knut's parser and, once the accounts are opened, accepted and
re-printed unchanged) is proved in `Properties/C13Text.lean`, for all eleven importers and all statements, on top of C09's
print-then-parse theorems for `journal.Print`'s layout (`Properties/C09Text.lean`; the printer's quote replacement is the
character-wise `JournalPrinter.descText`, the identity on the quote-free descriptions `mkTx` stores):
`C13_<importer>_printable` (every emitted directive satisfies C09's hypothesis `PrintableDir`: names from
`C13_<importer>_wellformed` here, dates in the range of `time.Parse`, decimal amounts, booking normal form),
`C13_text_parses` / `C13_text_parser_accepts` (the text loads to exactly the directives built, in print order, and prints
to itself), `C13_text_valid` (opens + output is accepted and reproduced byte for byte by `knut print`, for the eight
importers that emit transactions and prices only), and for `revolut2`, `revolut`, `us.interactivebrokers`, whose output
carries the statement's balance assertions, `C13_text_accepted_iff_consistent` / `C13_text_valid_iff_consistent`: accepted
and reproduced if and only if the statement's balance column is consistent with its amounts (`Consistent`, a predicate on
the statement's items). The same clause is also decided on every run on the REAL output by the monitors `output_parses`
(knut's parser), `output_parses_lean_parser` (the parser model), `directives_wellformed`, `output_accepted` and
`output_reprinted_unchanged` (`knut print` on opens + output), over free text with quotes, separators, newlines, control
characters and Unicode.  (Until repair 7934e0c the second half was false: the printer replaced `"` by `'` only after the
day's transactions had been sorted by the unreplaced description; `C13_description_has_no_quote` is what the model
carries of the repair.)
-/
namespace Knut.C13
open Knut Knut.Import Knut.Spec.Import Knut.Proofs.Import

/-! ## The eleven row theorems -/

/-- `ch.swisscard2`: every record after the header ↦ one transaction on `Transaktionsdatum` lowering the card account by `Betrag` `Währung` -/
theorem C13_swisscard2 (acct : Account) (hacct : acct ≠ tbd) (recs : List Rec) (ds : List Directive)
    (h : Swisscard2.run acct recs = .ok ds) : Faithful acct (swisscard2 recs) ds :=
  swisscard2_faithful acct hacct recs ds h

/-- `ch.swisscard`: every record whose first two fields hold dates ↦ one transaction lowering the card account by the billing amount in CHF -/
theorem C13_swisscard (acct : Account) (hacct : acct ≠ tbd) (recs : List Rec) (ds : List Directive)
    (h : Swisscard.run acct recs = .ok ds) : Faithful acct (swisscard recs) ds :=
  swisscard_faithful acct hacct recs ds h

/-- `ch.supercard`: every booking record ↦ one transaction: `Gutschrift` raises, `Belastung` lowers the account -/
theorem C13_supercard (acct : Account) (hacct : acct ≠ tbd) (recs : List Rec) (ds : List Directive)
    (h : Supercard.run acct recs = .ok ds) : Faithful acct (supercard recs) ds :=
  supercard_faithful acct hacct recs ds h

/-- `ch.cumulus`: booking and rounding lines ↦ one transaction each; FX comment lines change descriptions only -/
theorem C13_cumulus (acct : Account) (hacct : acct ≠ tbd) (recs : List Rec) (ds : List Directive)
    (h : Cumulus.run acct recs = .ok ds) : Faithful acct (cumulus recs) ds :=
  cumulus_faithful acct hacct recs ds h

/-- `ch.postfinance`: the records of the booking block ↦ one transaction each in the statement's currency -/
theorem C13_postfinance (acct : Account) (hacct : acct ≠ tbd) (recs : List Rec) (ds : List Directive)
    (h : Postfinance.run acct recs = .ok ds) : Faithful acct (postfinance recs) ds :=
  postfinance_faithful acct hacct recs ds h

/-- `revolut2`: completed rows ↦ one transaction each (amount minus fee); then one balance per (day, currency): the last row's -/
theorem C13_revolut2 (acct fee : Account) (hacct : acct ≠ tbd) (hfee : acct ≠ fee) (recs : List Rec) (ds : List Directive)
    (h : Revolut2.run acct fee recs = .ok ds) : Faithful acct (revolut2 recs) ds :=
  revolut2_faithful acct fee hacct hfee recs ds h

/-- `revolut`: every row ↦ one transaction (exchange rows move both currencies), preceded by the day's balance at each change of date -/
theorem C13_revolut (acct : Account) (hacct : acct ≠ tbd) (hval : acct ≠ valuationAccountFor acct) (recs : List Rec)
    (ds : List Directive) (h : Revolut.run acct recs = .ok ds) : Faithful acct (revolut recs) ds :=
  revolut_faithful acct hacct hval recs ds h

/-- `com.wise`: rows that are not cancelled ↦ their transaction(s): one, or conversion + payment (see `wise_conversion_two_transactions`) -/
theorem C13_wise (acct feeAcct trading : Account) (hacct : acct ≠ tbd) (hfee : acct ≠ feeAcct) (htr : acct ≠ trading)
    (recs : List Rec) (ds : List Directive) (h : Wise.run acct feeAcct trading recs = .ok ds) :
    Faithful acct (wise recs) ds :=
  wise_faithful acct feeAcct trading hacct hfee htr recs ds h

/-- `ch.viac`: every non-zero daily value on or after `--from` ↦ one price (rounded to cents); no transactions at all -/
theorem C13_viac (a : Account) (com : Commodity) (fromDay : Int) (es : List (String × String)) (ds : List Directive)
    (h : Viac.run com fromDay es = .ok ds) : Faithful a (viac com fromDay es) ds :=
  viac_faithful a com fromDay es ds h

/-- `ch.swissquote`: every row ↦ one transaction changing the cash account by `Nettobetrag` (trades also move the
shares; dividends are gross minus tax); a forex pair ↦ one transaction (see `swissquote_forex_pair_one_transaction`) -/
theorem C13_swissquote (a : Swissquote.Accts) (ok : AcctsOK a) (recs : List Rec) (ds : List Directive)
    (h : Swissquote.run a recs = .ok ds) : Faithful a.account (swissquote recs) ds :=
  swissquote_faithful a ok recs ds h

/-- `us.interactivebrokers`: trades, deposits / withdrawals, dividends, interest and withholding tax rows ↦ one transaction
each (amounts as the importer rounds them, see `C13-interactivebrokers-rounds-to-cents`); open positions and forex balances ↦
balances on the last day of the statement period; every other record ↦ nothing -/
theorem C13_interactivebrokers (a : Swissquote.Accts) (ok : AcctsOK a) (recs : List Rec) (ds : List Directive)
    (h : IB.run a recs = .ok ds) : Faithful a.account (interactivebrokers recs) ds :=
  interactivebrokers_faithful a ok recs ds h

/-! ## Every emitted directive is well-formed (the hypothesis of the print-then-parse round trip)

`wellFormed`: a transaction's stored description contains no double quote, it has at least one booking and its postings
come in pairs; every account is a valid account
name (a type and non-empty alphanumeric segments), every commodity (also the `@performance` targets) a non-empty
alphanumeric name — for the character class of knut's registry **and** parser (`unicode.IsLetter/IsDigit`, regenerated
tables).  Hypothesis: the flags' accounts are ones the registry accepted (`AccOK`, implied by `accountFlag s = .ok a`:
`accOK_of_flag`).  Free-text fields only reach descriptions, where `transaction.Builder.Build` neutralises the one
character the syntax cannot carry. -/

theorem C13_swisscard2_wellformed (acct : Account) (ha : AccOK acct) (recs : List Rec) (ds : List Directive)
    (h : Swisscard2.run acct recs = .ok ds) : ∀ d ∈ ds, wellFormed alnum d = true := swisscard2_wf acct ha recs ds h
theorem C13_swisscard_wellformed (acct : Account) (ha : AccOK acct) (recs : List Rec) (ds : List Directive)
    (h : Swisscard.run acct recs = .ok ds) : ∀ d ∈ ds, wellFormed alnum d = true := swisscard_wf acct ha recs ds h
theorem C13_supercard_wellformed (acct : Account) (ha : AccOK acct) (recs : List Rec) (ds : List Directive)
    (h : Supercard.run acct recs = .ok ds) : ∀ d ∈ ds, wellFormed alnum d = true := supercard_wf acct ha recs ds h
theorem C13_cumulus_wellformed (acct : Account) (ha : AccOK acct) (recs : List Rec) (ds : List Directive)
    (h : Cumulus.run acct recs = .ok ds) : ∀ d ∈ ds, wellFormed alnum d = true := cumulus_wf acct ha recs ds h
theorem C13_postfinance_wellformed (acct : Account) (ha : AccOK acct) (recs : List Rec) (ds : List Directive)
    (h : Postfinance.run acct recs = .ok ds) : ∀ d ∈ ds, wellFormed alnum d = true :=
  postfinance_wf acct ha recs ds h
theorem C13_revolut2_wellformed (acct fee : Account) (ha : AccOK acct) (hf : AccOK fee) (recs : List Rec) (ds : List Directive)
    (h : Revolut2.run acct fee recs = .ok ds) : ∀ d ∈ ds, wellFormed alnum d = true := revolut2_wf acct fee ha hf recs ds h
theorem C13_revolut_wellformed (acct : Account) (ha : AccOK acct) (recs : List Rec) (ds : List Directive)
    (h : Revolut.run acct recs = .ok ds) : ∀ d ∈ ds, wellFormed alnum d = true := revolut_wf acct ha recs ds h
theorem C13_wise_wellformed (acct feeAcct trading : Account) (ha : AccOK acct) (hf : AccOK feeAcct) (ht : AccOK trading)
    (recs : List Rec) (ds : List Directive) (h : Wise.run acct feeAcct trading recs = .ok ds) :
    ∀ d ∈ ds, wellFormed alnum d = true := wise_wf acct feeAcct trading ha hf ht recs ds h
theorem C13_viac_wellformed (com : Commodity) (hcom : ComOK com) (fromDay : Int) (es : List (String × String))
    (ds : List Directive) (h : Viac.run com fromDay es = .ok ds) : ∀ d ∈ ds, wellFormed alnum d = true :=
  viac_wf com hcom fromDay es ds h
theorem C13_swissquote_wellformed (a : Swissquote.Accts) (v : AcctsValid a) (recs : List Rec) (ds : List Directive)
    (h : Swissquote.run a recs = .ok ds) : ∀ d ∈ ds, wellFormed alnum d = true := swissquote_wf a v recs ds h
theorem C13_interactivebrokers_wellformed (a : Swissquote.Accts) (v : AcctsValid a) (recs : List Rec) (ds : List Directive)
    (h : IB.run a recs = .ok ds) : ∀ d ∈ ds, wellFormed alnum d = true := interactivebrokers_wf a v recs ds h

/-- **the stored description of every emitted transaction has no double quote** (it is what `journal.Sort` compares and,
up to the printer's idempotent replacement, what is printed) -/
theorem C13_description_has_no_quote (t : Transaction) (h : wellFormed alnum (.tx t) = true) :
    ∀ c ∈ t.description.toList, c ≠ '"' := by
  unfold wellFormed at h
  simp only [Bool.and_eq_true, List.all_eq_true] at h
  intro c hc
  have := h.1.1.1.1 c hc
  simpa using this

/-- replacing the quotes of a built description again changes nothing: the printer's own replacement is idle -/
theorem C13_replaceQuotes_idempotent (s : String) : replaceQuotes (replaceQuotes s) = replaceQuotes s := by
  unfold replaceQuotes
  simp only [String.toList_ofList, List.map_map]
  congr 1
  apply List.map_congr_left
  intro c _
  by_cases hc : c = '"'
  · subst hc; decide
  · simp [hc]

/-- the accounts the driver (like the registry) accepts as flags are `AccOK` -/
theorem C13_flag_accounts_ok (s : String) (a : Account) (h : accountFlag s = .ok a) : AccOK a := accOK_of_flag h

/-! ## What `Faithful` says, clause by clause -/

theorem all2_get {α β : Type} {R : α → β → Prop} {as : List α} {bs : List β} (h : All2 R as bs) :
    ∀ (i : Nat) (a : α), as[i]? = some a → ∃ b, bs[i]? = some b ∧ R a b := by
  induction h with
  | nil => intro i a h; simp at h
  | cons hab _ ih =>
    intro i a h
    cases i with
    | zero => simp at h; subst h; exact ⟨_, by simp, hab⟩
    | succ i => simp at h; obtain ⟨b, hb, hr⟩ := ih i a h; exact ⟨b, by simpa using hb, hr⟩

theorem all2_get' {α β : Type} {R : α → β → Prop} {as : List α} {bs : List β} (h : All2 R as bs) :
    ∀ (i : Nat) (b : β), bs[i]? = some b → ∃ a, as[i]? = some a ∧ R a b := by
  induction h with
  | nil => intro i a h; simp at h
  | cons hab _ ih =>
    intro i b h
    cases i with
    | zero => simp at h; subst h; exact ⟨_, by simp, hab⟩
    | succ i => simp at h; obtain ⟨a, ha, hr⟩ := ih i b h; exact ⟨a, by simpa using ha, hr⟩

/-- no row dropped or doubled: as many directives as items -/
theorem C13_count (a : Account) (items : List Item) (ds : List Directive) (h : Faithful a items ds) :
    ds.length = items.length := (all2_length h).symm

/-- **each booking row yields exactly one transaction on the row's date whose effect on the import account is the row's
signed amount in the row's currency** (and zero in every other commodity): the `i`-th item, if a booking row, is matched by
the `i`-th directive, a transaction with that date and that effect, with at least one booking -/
theorem C13_booking_row (a : Account) (items : List Item) (ds : List Directive) (h : Faithful a items ds)
    (i : Nat) (date : Int) (effs : List (Commodity × Rat)) (hi : items[i]? = some (.booking date effs)) :
    ∃ t, ds[i]? = some (.tx t) ∧ t.date = date ∧ (∀ c, effectOn a c t.postings = expected effs c) ∧ t.postings ≠ [] := by
  obtain ⟨d, hd, hm⟩ := all2_get h i _ hi
  cases d with
  | tx t => exact ⟨t, hd, hm⟩
  | price _ => exact absurd hm (by simp [Matches])
  | opening _ => exact absurd hm (by simp [Matches])
  | assertion _ => exact absurd hm (by simp [Matches])
  | closing _ => exact absurd hm (by simp [Matches])

/-- **nothing else is emitted**: every directive is the one an item of the statement asks for (a booking row's transaction,
a carried balance on the import account, a carried price) -/
theorem C13_nothing_else (a : Account) (items : List Item) (ds : List Directive) (h : Faithful a items ds)
    (i : Nat) (d : Directive) (hd : ds[i]? = some d) : ∃ it, items[i]? = some it ∧ Matches a it d :=
  all2_get' h i d hd

/-- in particular no `open`/`close` directive is ever emitted -/
theorem C13_no_open_close (a : Account) (items : List Item) (ds : List Directive) (h : Faithful a items ds) (d : Directive)
    (hd : d ∈ ds) : (∀ o, d ≠ .opening o) ∧ (∀ c, d ≠ .closing c) := by
  obtain ⟨i, hi⟩ := List.getElem?_of_mem hd
  obtain ⟨it, _, hm⟩ := C13_nothing_else a items ds h i d hi
  refine ⟨fun o ho => ?_, fun c hc => ?_⟩
  · subst ho; cases it <;> simp [Matches] at hm
  · subst hc; cases it <;> simp [Matches] at hm

/-! ## One transaction per row, for the formats whose rows are all booking rows -/

/-- `ch.swisscard2`: exactly one transaction per record after the header, and nothing else -/
theorem C13_swisscard2_one_tx_per_row (acct : Account) (hacct : acct ≠ tbd) (recs : List Rec) (ds : List Directive)
    (h : Swisscard2.run acct recs = .ok ds) : ds.length = recs.length - 1 ∧ ∀ d ∈ ds, ∃ t, d = .tx t := by
  have hf := C13_swisscard2 acct hacct recs ds h
  refine ⟨?_, ?_⟩
  · rw [C13_count acct _ ds hf]
    unfold swisscard2
    have : ∀ l : List Rec, (l.flatMap swisscard2Row).length = l.length := by
      intro l; induction l with
      | nil => rfl
      | cons r l ih => simp [List.flatMap_cons, swisscard2Row, ih]
    rw [this, List.length_drop]
  · intro d hd
    obtain ⟨i, hi⟩ := List.getElem?_of_mem hd
    obtain ⟨it, hit, hm⟩ := C13_nothing_else acct _ ds hf i d hi
    have : ∃ date effs, it = .booking date effs := by
      have hmem := List.mem_of_getElem? hit
      unfold swisscard2 at hmem
      simp only [List.mem_flatMap] at hmem
      obtain ⟨r, _, hr⟩ := hmem
      simp [swisscard2Row] at hr
      exact ⟨_, _, hr⟩
    obtain ⟨date, effs, hb⟩ := this
    subst hb
    cases d with
    | tx t => exact ⟨t, rfl⟩
    | price _ => exact absurd hm (by simp [Matches])
    | opening _ => exact absurd hm (by simp [Matches])
    | assertion _ => exact absurd hm (by simp [Matches])
    | closing _ => exact absurd hm (by simp [Matches])

/-! ## The monitor's predicate -/

/-- the executable predicate holds of the model's output (all inputs): `P x (M x)` -/
theorem C13_monitor_complete (a : Account) (items : List Item) (ds : List Directive) (h : Faithful a items ds) :
    faithfulB a items ds = true := faithfulB_of_faithful a items ds h

/-- whenever the executable predicate accepts directives read back from an output, they are — up to the order in which
`journal.Print` lists them — faithful to the items -/
theorem C13_monitor_sound (a : Account) (items : List Item) (ds : List Directive) (h : faithfulB a items ds = true) :
    ∃ ds', ds'.Perm ds ∧ Faithful a items ds' := faithfulB_sound a items ds h

/-- the executable match is exactly the proposition -/
theorem C13_matchesB_iff (a : Account) (i : Item) (d : Directive) : matchesB a i d = true ↔ Matches a i d :=
  matchesB_iff a i d

/-! ## Non-vacuity, and the places where a format or the code deviates (kernel-checked witnesses) -/

def card : Account := ⟨["Liabilities", "Card"]⟩
def bank : Account := ⟨["Assets", "Bank"]⟩
def hdr12 : Rec := ["Transaktionsdatum", "Beschreibung", "Händler", "Kartennummer", "Währung", "Betrag", "Fremdwährung",
  "Betrag in Fremdwährung", "Debit/Kredit", "Status", "Händlerkategorie", "Registrierte Kategorie"]
def row1 : Rec := ["06.07.2024", "say \"hi\"; x", "aa", "11", "CHF", "72.60", "", "", "Belastung", "Gebucht", "Familie", "STORES"]
def row0 : Rec := ["07.07.2024", "zero", "aa", "11", "EUR", "0.00", "", "", "Belastung", "Gebucht", "Familie", "STORES"]

/-- the hypothesis of `C13_swisscard2` is satisfiable: the model imports a statement (with a quote and a separator in the
free text, and a zero amount) … -/
example : Swisscard2.run card [hdr12, row1, row0] =
    .ok [mkTx 739072 "say \"hi\"; x / aa / Familie / 11 / STORES / Belastung" [⟨card, tbd, "CHF", 363/5⟩],
         mkTx 739073 "zero / aa / Familie / 11 / STORES / Belastung" [⟨card, tbd, "EUR", 0⟩]] := by decide +kernel

/-- … and the specification reads two booking rows from it: 72.60 CHF off the card on 2024-07-06, 0 EUR on 2024-07-07 -/
example : swisscard2 [hdr12, row1, row0] = [.booking 739072 [("CHF", -(363/5 : Rat))], .booking 739073 [("EUR", -0)]] := by
  decide +kernel

/-- the predicate is not trivially true: the sign-flipped transaction is rejected -/
example : matchesB card (.booking 5 [("CHF", -3)]) (mkTx 5 "x" [⟨card, tbd, "CHF", 3⟩]) = true ∧
    matchesB card (.booking 5 [("CHF", 3)]) (mkTx 5 "x" [⟨card, tbd, "CHF", 3⟩]) = false ∧
    matchesB card (.booking 6 [("CHF", -3)]) (mkTx 5 "x" [⟨card, tbd, "CHF", 3⟩]) = false ∧
    faithfulB card [.booking 5 [("CHF", -3)]] [mkTx 5 "x" [⟨card, tbd, "CHF", 3⟩], mkTx 5 "x" [⟨card, tbd, "CHF", 3⟩]] = false ∧
    faithfulB card [.booking 5 [("CHF", -3)], .booking 5 [("CHF", -3)]] [mkTx 5 "x" [⟨card, tbd, "CHF", 3⟩]] = false := by
  decide +kernel

def wiseRow1 : Rec := ["CARD_TRANSACTION-12", "COMPLETED", "OUT", "2024-01-11 15:20:30", "2024-01-11 15:20:30", "0.06", "CHF", "", "",
  "Rocky", "12.25", "CHF", "Linkt", "21.53", "AUD", "1.75685000", "", ""]

/-- number of directives and number of transactions among them of a successful run -/
def counts : Res (List Directive) → Option (Nat × Nat)
  | .ok ds => some (ds.length, (ds.filter (fun d => match d with | .tx _ => true | _ => false)).length)
  | _ => none

/-- `com.wise` books a card payment in a foreign currency as TWO transactions (conversion, then payment): the literal
"exactly one transaction per row" does not hold for this format (recorded as `C13-wise-conversion-two-transactions`) -/
theorem wise_conversion_two_transactions :
    (wiseRow wiseRow1).length = 2 ∧
    counts (Wise.row bank ⟨["Expenses", "Fees"]⟩ ⟨["Expenses", "Trading"]⟩ wiseRow1) = some (2, 2) := by
  decide +kernel

def sqAccts : Swissquote.Accts := ⟨bank, ⟨["Income", "Dividends"]⟩, ⟨["Expenses", "Tax"]⟩, ⟨["Expenses", "Fees"]⟩,
  ⟨["Income", "Interest"]⟩, ⟨["Expenses", "Trading"]⟩⟩
def sqHdr : Rec := ["Datum", "Auftrag #", "Transaktionen", "Symbol", "Name", "ISIN", "Anzahl", "Stückpreis", "Kosten",
  "Aufgelaufene Zinsen", "Nettobetrag", "Saldo", "Währung"]
def sqFx1 : Rec := ["09-10-2020 12:13:40", "0", "Forex-Gutschrift", "", "", "", "1.0", "830.07", "0.00", "0.00", "830.07", "798.82", "CHF"]
def sqFx2 : Rec := ["09-10-2020 12:13:40", "0", "Forex-Belastung", "", "", "", "1.0", "918.00", "0.00", "0.00", "-918.00", "0.80", "USD"]
def sqSale : Rec := ["09-10-2020 12:17:42", "7", "Verkauf", "VWRL", "Vanguard", "IE00", "8.0", "0.00", "12.90", "0.00", "-12.90", "85.12", "CHF"]

/-- `ch.swissquote` books the two rows of a forex pair as ONE transaction (recorded as `C13-swissquote-forex-pair-one-transaction`) -/
theorem swissquote_forex_pair_one_transaction :
    (swissquote [sqHdr, sqFx1, sqFx2]).length = 1 ∧ counts (Swissquote.run sqAccts [sqHdr, sqFx1, sqFx2]) = some (1, 1) := by
  decide +kernel

/-- `ch.swissquote` tells a sale from a purchase by the row type (repair c9fcfe1): a sale (`Verkauf`) of 8 shares
without proceeds takes 8 shares out of the account (it used to be booked as +8, finding
`C13-swissquote-sale-without-proceeds-booked-as-purchase`, fixed) -/
theorem swissquote_sale_without_proceeds_is_a_sale :
    (match Swissquote.run sqAccts [sqHdr, sqSale] with
     | .ok [.tx t] => some (effectOn bank "VWRL" t.postings)
     | _ => none) = some (-8) := by
  decide +kernel

end Knut.C13
