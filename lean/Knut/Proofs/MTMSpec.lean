import Knut.Proofs.MTMWindow
import Knut.Spec.MTM
/-!
# C03: the pipeline's Valuate/ComputePrices state IS the specification's quantity and price (`Spec/MTM.lean`)

`Spec.qtyAt days a c D` sums the bookings dated `≤ D`, `Spec.pricesAt v days D` normalises the declarations dated `≤ D`.
For the pipeline run on the days dated `≤ D` (a prefix of a date-sorted day list):

* `qtyAt_eq` – `Spec.qtyAt` is the sum over the days dated `≤ D` of the quantities booked on the position;
* `run_qty_spec` – the quantity map of `Valuate` after those days holds `Spec.qtyAt` at every A/L position;
* `run_prices_spec` – `ComputePrices`' normalised prices (and `Valuate`'s previous prices) after those days are
  `Spec.pricesAt`;
* `mtm_eq_sum` – `Spec.mtm` is the sum of the per-commodity terms when each exists.
-/
namespace Knut.MTM
open Knut Knut.Dec Knut.Spec

/-! ### prices -/

/-- one `Prices.Insert` per declaration, stopping at a zero price -/
def insDecl (g : Prices.Prices) (p : Price) : Option Prices.Prices := Prices.insert g ⟨p.commodity, p.price, p.target⟩

/-- the price graph after the declarations of a list of days -/
def graphOf (L : List Day) : Option Prices.Prices := L.foldlM (fun g d => d.prices.foldlM insDecl g) []

/-- `Day.Normalized` after a list of days: nil before the first declaration -/
def normOf (v : Commodity) (L : List Day) : Option Prices.NPrices :=
  if L.all (fun d => d.prices.isEmpty) then none else (graphOf L).map (fun g => Prices.normalize g v)

theorem pricesAt_eq (v : Commodity) (days : List Day) (D : Int) :
    Spec.pricesAt v days D = normOf v (days.filter (fun d => d.date ≤ D)) := rfl

theorem graphOf_snoc (L : List Day) (d : Day) :
    graphOf (L ++ [d]) = (graphOf L).bind (fun g => d.prices.foldlM insDecl g) := by
  unfold graphOf
  rw [List.foldlM_append]
  cases L.foldlM (fun g d => d.prices.foldlM insDecl g) ([] : Prices.Prices) with
  | none => rfl
  | some g => simp [List.foldlM_cons, List.foldlM_nil]

theorem pricesFold_option (ps : List Price) : ∀ (g g' : Prices.Prices),
    ps.foldlM (fun g p =>
      match Prices.insert g ⟨p.commodity, p.price, p.target⟩ with
      | some g' => Except.ok g'
      | none => Except.error BalErr.zeroPrice) g = .ok g' → ps.foldlM insDecl g = some g' := by
  induction ps with
  | nil =>
    intro g g' h
    simp only [List.foldlM_nil, pure, Except.pure] at h
    injection h with h; subst h; rfl
  | cons p rest ih =>
    intro g g' h
    simp only [List.foldlM_cons, bind, Except.bind] at h
    rw [List.foldlM_cons]
    unfold insDecl
    cases hi : Prices.insert g ⟨p.commodity, p.price, p.target⟩ with
    | none => rw [hi] at h; cases h
    | some g1 =>
      rw [hi] at h; simp only at h
      simp only [Option.bind_eq_bind, Option.bind_some]
      exact ih g1 g' h

theorem pricesDay_spec (v : Commodity) (st st' : BalState) (d : Day) (h : Balance.pricesDay v st d = .ok st') :
    d.prices.foldlM insDecl st.graph = some st'.graph ∧
    st'.norm = (if d.prices.isEmpty then st.norm else some (Prices.normalize st'.graph v)) ∧
    st'.vPrev = st.vPrev := by
  unfold Balance.pricesDay at h
  simp only [bind, Except.bind] at h
  split at h
  · cases h
  · rename_i g hg
    injection h with h; subst h
    exact ⟨pricesFold_option _ _ _ hg, rfl, rfl⟩

/-- the price fields after one day through all stages -/
theorem dayQ_prices (cfg : BalCfg) (v : Commodity) (st st' : BalState) (d : Day) (txs : List Transaction)
    (hv : cfg.valuation = some v) (h : dayQ cfg st d = .ok (st', txs)) :
    d.prices.foldlM insDecl st.graph = some st'.graph ∧
    st'.norm = (if d.prices.isEmpty then st.norm else some (Prices.normalize st'.graph v)) ∧
    st'.vPrev = st'.norm := by
  unfold dayQ at h
  cases hd : Balance.dayTxs cfg st d with
  | error e => rw [hd] at h; cases h
  | ok r =>
    obtain ⟨st3, txs3⟩ := r
    rw [hd] at h; simp only at h
    injection h with h; injection h with h1 h2; subst h1; subst h2
    unfold Balance.dayTxs at hd
    simp only [bind, Except.bind] at hd
    cases hck : Balance.checkStage st d with
    | error e => rw [hck] at hd; cases hd
    | ok stc =>
      rw [hck] at hd; simp only at hd
      cases hvs : Balance.valuationStage cfg stc d with
      | error e => rw [hvs] at hd; cases hd
      | ok r2 =>
        obtain ⟨st1, txs1⟩ := r2
        rw [hvs] at hd; simp only at hd
        injection hd with hd
        have c0 : stc.graph = st.graph ∧ stc.norm = st.norm := by
          unfold Balance.checkStage at hck
          split at hck
          · injection hck with hck; subst hck; exact ⟨rfl, rfl⟩
          · cases hck
        have hfin : st3.graph = st1.graph ∧ st3.norm = st1.norm ∧ st3.vPrev = st1.vPrev := by
          unfold Balance.closeStage at hd
          split at hd
          · injection hd with a b; subst a
            exact accumulate_inv (fun s => s.graph = st1.graph ∧ s.norm = st1.norm ∧ s.vPrev = st1.vPrev)
              (fun _ _ h _ => h) st1 _ ⟨rfl, rfl, rfl⟩
          · injection hd with a b; subst a; exact ⟨rfl, rfl, rfl⟩
        unfold Balance.valuationStage at hvs
        rw [hv] at hvs
        simp only [bind, Except.bind] at hvs
        cases hp : Balance.pricesDay v stc d with
        | error e => rw [hp] at hvs; cases hvs
        | ok stp =>
          rw [hp] at hvs; simp only at hvs
          obtain ⟨p1, p2, _⟩ := pricesDay_spec v stc stp d hp
          have hval : st1.graph = stp.graph ∧ st1.norm = stp.norm ∧ st1.vPrev = stp.norm := by
            unfold Balance.valuateDay at hvs
            simp only [bind, Except.bind] at hvs
            split at hvs
            · cases hvs
            · split at hvs
              · cases hvs
              · injection hvs with hvs; injection hvs with a b; subst a; exact ⟨rfl, rfl, rfl⟩
          simp only
          rw [hfin.1, hfin.2.1, hfin.2.2, hval.1, hval.2.1, hval.2.2, ← c0.1, ← c0.2]
          exact ⟨p1, p2, rfl⟩

/-- the price invariant of the run: after the days `L` the graph holds their declarations, the normalised prices are
`normOf v L`, and `Valuate`'s previous prices are the same -/
def PriceInv (v : Commodity) (L : List Day) (st : BalState) : Prop :=
  graphOf L = some st.graph ∧ st.norm = normOf v L ∧ st.vPrev = st.norm

theorem priceInv_init (v : Commodity) : PriceInv v [] {} := ⟨rfl, rfl, rfl⟩

theorem priceInv_day (cfg : BalCfg) (v : Commodity) (L : List Day) (st st' : BalState) (d : Day) (txs : List Transaction)
    (hv : cfg.valuation = some v) (hi : PriceInv v L st) (h : dayQ cfg st d = .ok (st', txs)) :
    PriceInv v (L ++ [d]) st' := by
  obtain ⟨i1, i2, _⟩ := hi
  obtain ⟨p1, p2, p3⟩ := dayQ_prices cfg v st st' d txs hv h
  have hg : graphOf (L ++ [d]) = some st'.graph := by rw [graphOf_snoc, i1]; exact p1
  refine ⟨hg, ?_, p3⟩
  rw [p2]
  unfold normOf
  rw [hg, List.all_append]
  simp only [List.all_cons, List.all_nil, Bool.and_true, Option.map_some]
  by_cases he : d.prices.isEmpty = true
  · simp only [he, if_true, Bool.and_true]
    rw [i2]
    unfold normOf
    have hgs : st'.graph = st.graph := by
      have : d.prices = [] := List.isEmpty_iff.mp he
      rw [this] at p1
      simp only [List.foldlM_nil, pure] at p1
      injection p1 with p1; exact p1.symm
    rw [i1, hgs]
    rfl
  · simp only [he, Bool.and_false, Bool.false_eq_true, if_false]

theorem priceInv_run (cfg : BalCfg) (v : Commodity) (hv : cfg.valuation = some v) :
    ∀ (ds L : List Day) (st st' : BalState) (txs : List Transaction), PriceInv v L st →
      pipelineRun cfg st ds = .ok (st', txs) → PriceInv v (L ++ ds) st'
  | [], L, st, st', txs, hi, h => by
    unfold pipelineRun at h
    injection h with h; injection h with h1 h2; subst h1
    rw [List.append_nil]; exact hi
  | d :: ds, L, st, st', txs, hi, h => by
    unfold pipelineRun at h
    cases hq : dayQ cfg st d with
    | error e => rw [hq] at h; cases h
    | ok r =>
      obtain ⟨sd, td⟩ := r
      rw [hq] at h; simp only at h
      cases hr : pipelineRun cfg sd ds with
      | error e => rw [hr] at h; cases h
      | ok r2 =>
        obtain ⟨s2, rest⟩ := r2
        rw [hr] at h; simp only at h
        injection h with h; injection h with h1 h2; subst h1
        have := priceInv_run cfg v hv ds (L ++ [d]) sd s2 rest (priceInv_day cfg v L st sd d td hv hi hq) hr
        rw [List.append_assoc] at this
        exact this

/-- **prices**: after `Balance.run` on the days dated `≤ D`, the normalised prices of ComputePrices and the previous
prices of Valuate are `Spec.pricesAt v days D` -/
theorem run_prices_spec (cfg : BalCfg) (v : Commodity) (hv : cfg.valuation = some v) (days : List Day) (D : Int)
    (st : BalState) (h : Balance.run cfg (days.filter (fun d => d.date ≤ D)) = .ok st) :
    st.norm = Spec.pricesAt v days D ∧ st.vPrev = Spec.pricesAt v days D := by
  obtain ⟨txs, hp, _⟩ := run_pipelineRun cfg _ st h
  obtain ⟨_, i2, i3⟩ := priceInv_run cfg v hv _ [] {} st txs (priceInv_init v) hp
  rw [List.nil_append] at i2
  rw [pricesAt_eq]
  exact ⟨i2, i3.trans i2⟩

/-! ### quantities -/

/-- the quantities booked on `(a, c)` over a list of days -/
def qtySum (a : Account) (c : Commodity) (L : List Day) : Rat := (L.map (fun d => (qtysOn a c d.transactions).sum)).sum

theorem qtySum_append (a : Account) (c : Commodity) (xs ys : List Day) :
    qtySum a c (xs ++ ys) = qtySum a c xs + qtySum a c ys := by
  unfold qtySum
  rw [List.map_append, sum_append_rat]

theorem userPostings_cons (d : Day) (ds : List Day) :
    userPostings (d :: ds) = d.transactions.flatMap (fun t => t.postings.map (fun p => (t.date, p))) ++ userPostings ds := by
  unfold userPostings
  rw [List.flatMap_cons]

theorem day_postings_filter (a : Account) (c : Commodity) (D dd : Int) :
    ∀ (ts : List Transaction), (∀ t ∈ ts, t.date = dd) →
    (((ts.flatMap (fun t => t.postings.map (fun p => (t.date, p)))).filter
        (fun (x : Int × Posting) => decide (x.1 ≤ D) && decide (x.2.account = a) && decide (x.2.commodity = c))).map
          (fun x => x.2.quantity)) = if dd ≤ D then qtysOn a c ts else []
  | [], _ => by unfold qtysOn posOn; simp
  | t :: rest, h => by
    have ih := day_postings_filter a c D dd rest (fun x hx => h x (List.mem_cons_of_mem _ hx))
    have ht : t.date = dd := h t List.mem_cons_self
    rw [List.flatMap_cons, List.filter_append, List.map_append, ih]
    unfold qtysOn
    rw [posOn_cons, List.map_append]
    by_cases hle : dd ≤ D
    · simp only [hle, if_true]
      congr 1
      rw [List.filter_map, List.map_map]
      congr 1
      apply List.filter_congr
      intro p _
      simp only [Function.comp, ht, hle, decide_true, Bool.true_and]
      rfl
    · simp only [hle, if_false, List.append_nil]
      rw [List.filter_map, List.map_map]
      have : t.postings.filter ((fun (x : Int × Posting) => decide (x.1 ≤ D) && decide (x.2.account = a) && decide (x.2.commodity = c)) ∘ fun p => (t.date, p)) = [] := by
        rw [List.filter_eq_nil_iff]
        intro p _
        simp only [Function.comp, ht, hle, decide_false, Bool.false_and, Bool.false_eq_true, not_false_eq_true]
      rw [this]
      rfl

/-- **`Spec.qtyAt` by days**: with every transaction filed under its date, the specification's running quantity is the
sum over the days dated `≤ D` -/
theorem qtyAt_eq (a : Account) (c : Commodity) (D : Int) : ∀ (days : List Day),
    (∀ d ∈ days, ∀ t ∈ d.transactions, t.date = d.date) →
    Spec.qtyAt days a c D = qtySum a c (days.filter (fun d => d.date ≤ D))
  | [], _ => rfl
  | d :: ds, h => by
    have ih := qtyAt_eq a c D ds (fun x hx => h x (List.mem_cons_of_mem _ hx))
    unfold Spec.qtyAt at ih ⊢
    rw [userPostings_cons, List.filter_append, List.map_append, sum_append_rat, ih]
    have hd := day_postings_filter a c D d.date d.transactions (h d List.mem_cons_self)
    have e : (fun (x : Int × Posting) => decide (x.1 ≤ D) && decide (x.2.account = a) && decide (x.2.commodity = c)) =
        (fun x : Int × Posting => match x with | (d, p) => decide (d ≤ D) && decide (p.account = a) && decide (p.commodity = c)) := by
      funext x; obtain ⟨x1, x2⟩ := x; rfl
    rw [e] at hd
    rw [hd, List.filter_cons]
    by_cases hle : d.date ≤ D
    · simp only [hle, decide_true, if_true]
      unfold qtySum
      rw [List.map_cons, List.sum_cons]
    · simp only [hle, decide_false, if_false, Bool.false_eq_true, List.sum_nil, Rat.zero_add]

/-- **quantities**: after `Balance.run` on the days dated `≤ D`, `Valuate`'s quantity of every asset/liability
position is `Spec.qtyAt days a c D` -/
theorem run_qty_spec (cfg : BalCfg) (v : Commodity) (hv : cfg.valuation = some v) (days : List Day) (D : Int)
    (hcons : ∀ d ∈ days, ∀ t ∈ d.transactions, t.date = d.date)
    (a : Account) (c : Commodity) (hal : a.isAL = true)
    (st : BalState) (h : Balance.run cfg (days.filter (fun d => d.date ≤ D)) = .ok st) :
    st.vQty.get (a, c) 0 = Spec.qtyAt days a c D := by
  obtain ⟨txs, hp, _⟩ := run_pipelineRun cfg _ st h
  have hinv0 : CloseInv {} := by intro k hk; cases hk
  obtain ⟨q1, _⟩ := pipelineRun_any cfg v a c hv hal _ {} st txs hinv0 hp
  rw [q1, qtyAt_eq a c D days hcons]
  unfold qtySum
  have : ({} : BalState).vQty.get (a, c) 0 = 0 := rfl
  rw [this, Rat.zero_add]

/-! ### an open position has a price -/

theorem foldlM_ok_mem {α β ε : Type} (f : β → α → Except ε β) : ∀ (l : List α) (b r : β), l.foldlM f b = .ok r →
    ∀ x ∈ l, ∃ b1 b2, f b1 x = .ok b2
  | [], _, _, _, x, hx => by cases hx
  | y :: rest, b, r, h, x, hx => by
    simp only [List.foldlM_cons, bind, Except.bind] at h
    cases hy : f b y with
    | error e => rw [hy] at h; cases h
    | ok b' =>
      rw [hy] at h; simp only at h
      rcases List.mem_cons.mp hx with rfl | hx
      · exact ⟨b, b', hy⟩
      · exact foldlM_ok_mem f rest b' r h x hx

theorem mapM_ok_mem' {α β ε : Type} (f : α → Except ε β) : ∀ (l : List α) (r : List β), l.mapM f = .ok r →
    ∀ x ∈ l, ∃ y, f x = .ok y
  | [], _, _, x, hx => by cases hx
  | a :: rest, r, h, x, hx => by
    simp only [List.mapM_cons, bind, Except.bind] at h
    cases ha : f a with
    | error e => rw [ha] at h; cases h
    | ok b =>
      rw [ha] at h; simp only at h
      cases hr : rest.mapM f with
      | error e => rw [hr] at h; cases h
      | ok rest' =>
        rcases List.mem_cons.mp hx with rfl | hx
        · exact ⟨b, ha⟩
        · exact mapM_ok_mem' f rest rest' hr x hx

theorem adjustStep_ok_price (v : Commodity) (date : Int) (prev cur : Option Prices.NPrices)
    (acc res : List Transaction) (a : Account) (c : Commodity) (q : Rat) (hc : c ≠ v) (hal : a.isAL = true) (hq : q ≠ 0)
    (h : Balance.adjustStep v date prev cur acc ((a, c), q) = .ok res) :
    ∃ p, Balance.lookupPrice cur c = .ok p := by
  unfold Balance.adjustStep at h
  have : (decide (c = v) || !a.isAL || decide (q = 0)) = false := by simp [hc, hal, hq]
  simp only [this, Bool.false_eq_true, if_false, bind, Except.bind] at h
  cases hp : Balance.lookupPrice prev c with
  | error e => rw [hp] at h; cases h
  | ok pp =>
    rw [hp] at h; simp only at h
    cases hcu : Balance.lookupPrice cur c with
    | error e => rw [hcu] at h; cases h
    | ok cp => exact ⟨cp, rfl⟩

theorem valuePosting_ok_price (v : Commodity) (cur : Option Prices.NPrices) (p p' : Posting)
    (hq : p.quantity ≠ 0) (hc : p.commodity ≠ v) (h : Balance.valuePosting v cur p = .ok p') :
    ∃ x, Balance.lookupPrice cur p.commodity = .ok x := by
  unfold Balance.valuePosting at h
  simp only [hq, hc, if_false, bind, Except.bind] at h
  cases hl : Balance.lookupPrice cur p.commodity with
  | error e => rw [hl] at h; cases h
  | ok x => exact ⟨x, rfl⟩

theorem sum_ne_zero_mem : ∀ (l : List Rat), l.sum ≠ 0 → ∃ x ∈ l, x ≠ 0
  | [], h => absurd rfl h
  | x :: rest, h => by
    by_cases hx : x = 0
    · rw [List.sum_cons, hx, Rat.zero_add] at h
      obtain ⟨y, hy, hy0⟩ := sum_ne_zero_mem rest h
      exact ⟨y, List.mem_cons_of_mem _ hy, hy0⟩
    · exact ⟨x, List.mem_cons_self, hx⟩

/-- the valuation stage succeeded and the position is open afterwards: its commodity has a price that day -/
theorem valuationStage_open_price (cfg : BalCfg) (v : Commodity) (st st' : BalState) (d : Day) (txs : List Transaction)
    (a : Account) (c : Commodity) (hv : cfg.valuation = some v) (hc : c ≠ v) (hal : a.isAL = true)
    (h : Balance.valuationStage cfg st d = .ok (st', txs)) (hq : st'.vQty.get (a, c) 0 ≠ 0) :
    ∃ p, Balance.lookupPrice st'.vPrev c = .ok p := by
  obtain ⟨q1, _⟩ := valuationStage_vQty cfg v st st' d txs a c hv hal h
  unfold Balance.valuationStage at h
  rw [hv] at h
  simp only [bind, Except.bind] at h
  cases hp : Balance.pricesDay v st d with
  | error e => rw [hp] at h; cases h
  | ok stp =>
    rw [hp] at h; simp only at h
    obtain ⟨f1, _⟩ := pricesDay_frame v st stp d hp
    unfold Balance.valuateDay at h
    simp only [bind, Except.bind] at h
    cases ha : Balance.adjustments v d.date stp.vPrev stp.norm stp.vQty with
    | error e => rw [ha] at h; cases h
    | ok adj =>
      rw [ha] at h; simp only at h
      cases hm : (d.transactions ++ adj).mapM (Balance.valueTx v stp.norm) with
      | error e => rw [hm] at h; cases h
      | ok txsv =>
        rw [hm] at h; simp only at h
        injection h with h; injection h with h1 h2; subst h1
        simp only
        by_cases h0 : st.vQty.get (a, c) 0 = 0
        · -- opened today: a non-zero booking on (a, c) was valued
          rw [h0, Rat.zero_add] at q1
          rw [q1] at hq
          obtain ⟨x, hx, hx0⟩ := sum_ne_zero_mem _ hq
          unfold qtysOn at hx
          obtain ⟨p, hp', rfl⟩ := List.mem_map.mp hx
          obtain ⟨t, ht, hpt, e1, e2⟩ := mem_posOn hp'
          obtain ⟨t', ht'⟩ := mapM_ok_mem' _ _ _ hm t (List.mem_append_left _ ht)
          unfold Balance.valueTx at ht'
          simp only [bind, Except.bind] at ht'
          cases hps : t.postings.mapM (Balance.valuePosting v stp.norm) with
          | error e => rw [hps] at ht'; cases ht'
          | ok ps =>
            obtain ⟨p', hp''⟩ := mapM_ok_mem' _ _ _ hps p hpt
            have := valuePosting_ok_price v stp.norm p p' hx0 (by rw [e2]; exact hc) hp''
            rw [e2] at this
            exact this
        · -- open at the start of the day: the adjustment step looked the price up
          have hfind : ∃ q, AMap.find? st.vQty (a, c) = some q ∧ q ≠ 0 := by
            unfold AMap.get at h0
            cases hf : AMap.find? st.vQty (a, c) with
            | none => rw [hf] at h0; exact absurd rfl h0
            | some q => rw [hf] at h0; exact ⟨q, rfl, h0⟩
          obtain ⟨q, hf, hq0⟩ := hfind
          have hmem : ((a, c), q) ∈ stp.vQty := by rw [f1]; exact AMap.mem_of_find? hf
          unfold Balance.adjustments at ha
          obtain ⟨b1, b2, hs⟩ := foldlM_ok_mem _ _ _ _ ha _ hmem
          exact adjustStep_ok_price v d.date stp.vPrev stp.norm b1 b2 a c q hc hal hq0 hs

/-- … through all stages of the day -/
theorem dayQ_open_price (cfg : BalCfg) (v : Commodity) (st st' : BalState) (d : Day) (txs : List Transaction)
    (a : Account) (c : Commodity) (hv : cfg.valuation = some v) (hc : c ≠ v) (hal : a.isAL = true)
    (h : dayQ cfg st d = .ok (st', txs)) (hq : st'.vQty.get (a, c) 0 ≠ 0) :
    ∃ p, Balance.lookupPrice st'.vPrev c = .ok p := by
  unfold dayQ at h
  cases hd : Balance.dayTxs cfg st d with
  | error e => rw [hd] at h; cases h
  | ok r =>
    obtain ⟨st3, txs3⟩ := r
    rw [hd] at h; simp only at h
    injection h with h; injection h with h1 h2; subst h1; subst h2
    unfold Balance.dayTxs at hd
    simp only [bind, Except.bind] at hd
    cases hck : Balance.checkStage st d with
    | error e => rw [hck] at hd; cases hd
    | ok stc =>
      rw [hck] at hd; simp only at hd
      cases hvs : Balance.valuationStage cfg stc d with
      | error e => rw [hvs] at hd; cases hd
      | ok r2 =>
        obtain ⟨st1, txs1⟩ := r2
        rw [hvs] at hd; simp only at hd
        injection hd with hd
        have hfin : SameVal st3 st1 := by
          unfold Balance.closeStage at hd
          split at hd
          · injection hd with a b; subst a; exact accumulate_sameVal _ _
          · injection hd with a b; subst a; exact ⟨rfl, rfl⟩
        simp only at hq ⊢
        rw [hfin.1] at hq
        rw [hfin.2]
        exact valuationStage_open_price cfg v stc st1 d txs1 a c hv hc hal hvs hq

/-- **an open position has a price**: after a successful run over any days, an asset/liability position in a commodity
other than `V` that is open (non-zero quantity) has a price in `Valuate`'s previous prices -/
theorem pipelineRun_open_price (cfg : BalCfg) (v : Commodity) (a : Account) (c : Commodity)
    (hv : cfg.valuation = some v) (hc : c ≠ v) (hal : a.isAL = true) :
    ∀ (ds : List Day) (st st' : BalState) (txs : List Transaction),
      pipelineRun cfg st ds = .ok (st', txs) → ds ≠ [] → st'.vQty.get (a, c) 0 ≠ 0 →
      ∃ p, Balance.lookupPrice st'.vPrev c = .ok p
  | [], _, _, _, _, hne, _ => absurd rfl hne
  | d :: ds, st, st', txs, h, _, hq => by
    unfold pipelineRun at h
    cases hq' : dayQ cfg st d with
    | error e => rw [hq'] at h; cases h
    | ok r =>
      obtain ⟨sd, td⟩ := r
      rw [hq'] at h; simp only at h
      cases hr : pipelineRun cfg sd ds with
      | error e => rw [hr] at h; cases h
      | ok r2 =>
        obtain ⟨s2, rest⟩ := r2
        rw [hr] at h; simp only at h
        injection h with h; injection h with h1 h2; subst h1
        cases ds with
        | nil =>
          unfold pipelineRun at hr
          injection hr with hr; injection hr with e1 e2; subst e1
          exact dayQ_open_price cfg v st sd d td a c hv hc hal hq' hq
        | cons d2 ds2 =>
          exact pipelineRun_open_price cfg v a c hv hc hal (d2 :: ds2) sd s2 rest hr (by simp) hq

/-! ### `Spec.mtm` as a sum -/

/-- the term of one commodity in `Spec.mtm` -/
def mtmTerm (v : Commodity) (days : List Day) (a : Account) (D : Int) (c : Commodity) : Option Rat :=
  let q := Spec.qtyAt days a c D
  if q = 0 then some 0
  else if c = v then some q
  else match Spec.pricesAt v days D with
    | none => none
    | some np => (Prices.find c np).map (fun p => q * p)

/-- one step of the fold in `Spec.mtm` -/
def mtmStep (v : Commodity) (days : List Day) (a : Account) (D : Int) (acc : Rat) (c : Commodity) : Option Rat :=
  let q := Spec.qtyAt days a c D
  if q = 0 then some acc
  else if c = v then some (acc + q)
  else match Spec.pricesAt v days D with
    | none => none
    | some np => (Prices.find c np).map (fun p => acc + q * p)

theorem mtm_unfold (v : Commodity) (days : List Day) (a : Account) (D : Int) :
    Spec.mtm v days a D = (Spec.commoditiesOf days a).foldlM (mtmStep v days a D) 0 := rfl

theorem mtmStep_eq (v : Commodity) (days : List Day) (a : Account) (D : Int) (acc : Rat) (c : Commodity) :
    mtmStep v days a D acc c = (mtmTerm v days a D c).map (fun x => acc + x) := by
  unfold mtmStep mtmTerm
  simp only
  split
  · simp only [Option.map_some, Rat.add_zero]
  · split
    · rfl
    · cases Spec.pricesAt v days D with
      | none => rfl
      | some np =>
        simp only
        cases Prices.find c np <;> rfl

theorem mtm_fold (v : Commodity) (days : List Day) (a : Account) (D : Int) (g : Commodity → Rat) :
    ∀ (cs : List Commodity) (acc : Rat), (∀ c ∈ cs, mtmTerm v days a D c = some (g c)) →
    cs.foldlM (mtmStep v days a D) acc = some (acc + (cs.map g).sum)
  | [], acc, _ => by simp [Rat.add_zero]
  | c :: cs, acc, h => by
    rw [List.foldlM_cons, mtmStep_eq, h c List.mem_cons_self]
    simp only [Option.map_some, Option.bind_eq_bind, Option.bind_some]
    rw [mtm_fold v days a D g cs _ (fun x hx => h x (List.mem_cons_of_mem _ hx)), List.map_cons, List.sum_cons]
    congr 1; grind

/-- **`Spec.mtm` is the sum of its terms** when every term exists -/
theorem mtm_eq_sum (v : Commodity) (days : List Day) (a : Account) (D : Int) (g : Commodity → Rat)
    (h : ∀ c ∈ Spec.commoditiesOf days a, mtmTerm v days a D c = some (g c)) :
    Spec.mtm v days a D = some (((Spec.commoditiesOf days a).map g).sum) := by
  rw [mtm_unfold, mtm_fold v days a D g _ 0 h, Rat.zero_add]

/-- the specification's price of `c` in `v` on day `D`: 1 for `v` itself, else the normalised price of the declarations
dated `≤ D` (0 if there is none — a case `run_mtm_spec` excludes for open positions) -/
def specPrice (v : Commodity) (days : List Day) (D : Int) (c : Commodity) : Rat :=
  if c = v then 1 else priceOr (Spec.pricesAt v days D) c 0

/-- **`Spec.mtm` exists and is Σ quantity × price whenever the pipeline accepts the days dated `≤ D`** -/
theorem run_mtm_spec (cfg : BalCfg) (v : Commodity) (hv : cfg.valuation = some v) (days : List Day) (D : Int)
    (hcons : ∀ d ∈ days, ∀ t ∈ d.transactions, t.date = d.date)
    (a : Account) (hal : a.isAL = true)
    (st : BalState) (h : Balance.run cfg (days.filter (fun d => d.date ≤ D)) = .ok st) :
    Spec.mtm v days a D =
      some (((Spec.commoditiesOf days a).map (fun c => Spec.qtyAt days a c D * specPrice v days D c)).sum) := by
  apply mtm_eq_sum
  intro c _
  have hq := run_qty_spec cfg v hv days D hcons a c hal st h
  obtain ⟨_, hpv⟩ := run_prices_spec cfg v hv days D st h
  unfold mtmTerm specPrice
  simp only
  by_cases h0 : Spec.qtyAt days a c D = 0
  · simp only [h0, if_true, Rat.zero_mul]
  · simp only [h0, if_false]
    by_cases hcv : c = v
    · simp only [hcv, if_true, Rat.mul_one]
    · simp only [hcv, if_false]
      obtain ⟨txs, hp, _⟩ := run_pipelineRun cfg _ st h
      have hne : days.filter (fun d => d.date ≤ D) ≠ [] := by
        intro he
        rw [he] at hp
        unfold pipelineRun at hp
        injection hp with hp; injection hp with e1 e2; subst e1
        exact h0 hq.symm
      obtain ⟨p, hl⟩ := pipelineRun_open_price cfg v a c hv hcv hal _ {} st txs hp hne (by rw [hq]; exact h0)
      rw [hpv] at hl
      rw [priceOr_of_ok 0 hl]
      unfold Balance.lookupPrice at hl
      cases hnp : Spec.pricesAt v days D with
      | none => rw [hnp] at hl; cases hl
      | some np =>
        rw [hnp] at hl; simp only at hl ⊢
        cases hf : Prices.find c np with
        | none => rw [hf] at hl; cases hl
        | some x =>
          rw [hf] at hl; injection hl with hl; subst hl
          rfl

end Knut.MTM
