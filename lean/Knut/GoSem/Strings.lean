import Knut.GoSem.Basic
/-!
# Go strings for the translated code

A Go `string` is a byte string; the translated code handles valid UTF-8 text only, as a Lean
`String`.  `len(s)` is the number of UTF-8 bytes, `utf8.RuneCountInString` the number of code points.
-/
namespace Knut.GoSem.Strings

/-- `len(s)` -/
@[simp] def byteLen (s : String) : Int := (s.utf8ByteSize : Int)
/-- `utf8.RuneCountInString(s)` for valid UTF-8 -/
@[simp] def RuneCount (s : String) : Int := (s.length : Int)
/-- `strings.Repeat(s, n)` (panics for negative `n` in Go: callers in the subset pass lengths) -/
def Repeat (s : String) (n : Int) : String := String.join (List.replicate n.toNat s)
/-- `strings.ReplaceAll(s, old, new)` -/
def ReplaceAll (s old new : String) : String := s.replace old new
/-- `%d` / `strconv.Itoa` -/
@[simp] def itoa (n : Int) : String := toString n

end Knut.GoSem.Strings
