import Knut.Spec.ImportItems
/-!
# C13 helper lemmas: effects of built postings, list relations, the row combinators
-/
namespace Knut.Proofs.Import
open Knut Knut.Import Knut.Spec.Import

theorem effectOn_append (a : Account) (c : Commodity) (ps qs : List Posting) :
    effectOn a c (ps ++ qs) = effectOn a c ps + effectOn a c qs := by
  induction ps with
  | nil => simp [effectOn, Rat.zero_add]
  | cons p ps ih => simp [effectOn, ih, Rat.add_assoc]

def pbEffect (a : Account) (c' : Commodity) (b : PB) : Rat :=
  (if b.debit = a ∧ b.commodity = c' then b.quantity else 0) + (if b.credit = a ∧ b.commodity = c' then -b.quantity else 0)

theorem effectOn_postingBuild (a : Account) (c' : Commodity) (cr dr : Account) (c : Commodity) (q : Rat) :
    effectOn a c' (postingBuild cr dr c q) = pbEffect a c' ⟨cr, dr, c, q⟩ := by
  unfold postingBuild pbEffect
  by_cases hq : q < 0
  · simp [hq, effectOn]; grind
  · simp [hq, effectOn, Rat.lt_irrefl]; grind

def pbSum (a : Account) (c' : Commodity) : List PB → Rat
  | [] => 0
  | b :: bs => pbEffect a c' b + pbSum a c' bs

theorem effectOn_buildPostings (a : Account) (c' : Commodity) (bs : List PB) :
    effectOn a c' (buildPostings bs) = pbSum a c' bs := by
  induction bs with
  | nil => simp [buildPostings, effectOn, pbSum]
  | cons b bs ih =>
    have : buildPostings (b :: bs) = postingBuild b.credit b.debit b.commodity b.quantity ++ buildPostings bs := by
      simp [buildPostings]
    rw [this, effectOn_append, effectOn_postingBuild, pbSum, ← ih]

theorem buildPostings_ne_nil {bs : List PB} (h : bs ≠ []) : buildPostings bs ≠ [] := by
  cases bs with
  | nil => exact absurd rfl h
  | cons b bs => simp [buildPostings, postingBuild]

/-- a transaction built by `mkTx` matches a booking item when its posting builders net to the stated amounts -/
theorem mkTx_matches (a : Account) (d : Int) (desc : String) (bs : List PB) (tg : Option (List Commodity))
    (effs : List (Commodity × Rat)) (h : ∀ c, pbSum a c bs = expected effs c) (hne : bs ≠ []) :
    Matches a (.booking d effs) (mkTx d desc bs tg) := by
  unfold mkTx Matches
  exact ⟨rfl, fun c => by rw [effectOn_buildPostings]; exact h c, buildPostings_ne_nil hne⟩

theorem all2_append {α β : Type} {R : α → β → Prop} {as as' : List α} {bs bs' : List β}
    (h : All2 R as bs) (h' : All2 R as' bs') : All2 R (as ++ as') (bs ++ bs') := by
  induction h with
  | nil => simpa using h'
  | cons hab _ ih => exact All2.cons hab ih

theorem mapRows_faithful {f : Rec → Res (List Directive)} {g : Rec → List Item} {a : Account}
    (h : ∀ r ds, f r = .ok ds → All2 (Matches a) (g r) ds) :
    ∀ rs ds, mapRows f rs = .ok ds → All2 (Matches a) (rs.flatMap g) ds := by
  intro rs
  induction rs with
  | nil => intro ds hd; simp [mapRows] at hd; subst hd; exact All2.nil
  | cons r rs ih =>
    intro ds hd
    simp only [mapRows] at hd
    obtain ⟨d1, h1, hd⟩ := Res.bind_eq_ok hd
    obtain ⟨d2, h2, hd⟩ := Res.bind_eq_ok hd
    simp at hd
    subst hd
    simp only [List.flatMap_cons]
    exact all2_append (h r d1 h1) (ih d2 h2)


theorem ofOption_eq_ok {α : Type} {o : Option α} {a : α} (h : Res.ofOption o = .ok a) : o = some a := by
  cases o <;> simp [Res.ofOption] at h; subst h; rfl

theorem mustCommodity_eq_ok {s : String} {c : Commodity} (h : mustCommodity s = .ok c) : c = s ∧ validCommodity s = true := by
  unfold mustCommodity at h; split at h <;> simp at h; exact ⟨h.symm, by assumption⟩

theorem getCommodity_eq_ok {s : String} {c : Commodity} (h : getCommodity s = .ok c) : c = s ∧ validCommodity s = true := by
  unfold getCommodity at h; split at h <;> simp at h; exact ⟨h.symm, by assumption⟩

end Knut.Proofs.Import
