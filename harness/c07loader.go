package main

// C07, stream "loader": the parser driven the way the loader drives it.
//
// Include trees are generated on disk (all valid; with failing members: missing include, directory as include, syntax
// error early / late in a member, invalid UTF-8, include cycle, several of these; small files and files of hundreds of KB
// to MB next to the failing member, so that their parse is still running when the failure arrives) and loaded with
// syntax.ParseFileRecursively (and syntax.ParseFile per file) in a worker process (this binary re-executed with
// C07_WORKER set, so that the verif hooks of lib/common/cpr see KNUT_VERIF_SEED), several times per tree under
// different GOMAXPROCS, consumer speeds and caller-side cancellations. C07's predicates are evaluated on EVERY syntax
// tree delivered on the channel and on every error the load returns:
//   - the tree belongs to a file of the load, its text is the file's content, the file range is [0, len]
//   - every range carries that text/path and Extract() is the slice
//   - Lean treeOK (nested, sorted, gaps blank/comment, cover) on (file content, delivered tree)
//   - the delivered tree is the model's tree of the file content (files up to c07lModelLimit bytes)
//   - a syntax error carries the text/path of a file of the load, is errOK, and is the error of that file's text
//     (so it is absent for a file whose text parses)
//   - no panic, no hang

import (
	"bufio"
	"bytes"
	"context"
	"crypto/sha1"
	"encoding/hex"
	"encoding/json"
	"errors"
	"fmt"
	"io/fs"
	"os"
	"os/exec"
	"path"
	"path/filepath"
	"runtime"
	"strings"
	"syscall"
	"time"

	"github.com/sboehler/knut/lib/syntax"
	"github.com/sboehler/knut/lib/syntax/directives"
)

func init() {
	if job := os.Getenv("C07_WORKER"); job != "" {
		c07lWorker(job)
		os.Exit(0)
	}
}

// ---------------------------------------------------------------- job / result records (parent <-> worker)

type c07lRun struct {
	Procs      int `json:"procs"`       // GOMAXPROCS of the run (0: the machine's default)
	CancelUs   int `json:"cancel_us"`   // the caller cancels the context after this many microseconds (-1: never)
	ConsumerUs int `json:"consumer_us"` // the consumer of the channel sleeps up to this long between two receives
}

type c07lJob struct {
	Index int       `json:"index"`
	Dir   string    `json:"dir"`
	Root  string    `json:"root"`  // absolute, clean
	Files []string  `json:"files"` // absolute, clean
	Runs  []c07lRun `json:"runs"`
}

type c07lTreeRec struct {
	Path     string `json:"path"`
	Src      string `json:"src"` // "rec" (delivered by ParseFileRecursively) | "single" (syntax.ParseFile)
	Known    bool   `json:"known"`
	TextSame bool   `json:"text_same"`
	Start    int    `json:"start"`
	End      int    `json:"end"`
	TextLen  int    `json:"text_len"`
	RangesOK bool   `json:"ranges_ok"`
	Detail   string `json:"detail"`
	Dump     string `json:"dump"`
	NumDirs  int    `json:"num_dirs"`
	Count    int    `json:"count"`
	Run      int    `json:"run"` // first run that delivered it (-1: syntax.ParseFile)
}

type c07lErrRec struct {
	Kind    string `json:"kind"` // syntax | ctx | fs | cycle | other | panic | hang
	Src     string `json:"src"`
	Path    string `json:"path"`
	Known   bool   `json:"known"`
	Frames  string `json:"frames"`
	Message string `json:"message"`
	TextOK  bool   `json:"text_ok"`
	Detail  string `json:"detail"`
	LocOK   bool   `json:"loc_ok"` // every link's Location() and rendered line:col is the position of its offset, inside the text
	LocInfo string `json:"loc_info"`
	LocWide bool   `json:"loc_wide"`
	Count   int    `json:"count"`
	Run     int    `json:"run"`
}

type c07lResult struct {
	Index     int           `json:"index"`
	Trees     []c07lTreeRec `json:"trees"`
	Errs      []c07lErrRec  `json:"errs"`
	NilErrs   int           `json:"nil_errs"`
	Delivered int           `json:"delivered"`
}

// ---------------------------------------------------------------- worker side

func c07lTreeOf(f directives.File, src string, run int, content map[string]string) c07lTreeRec {
	t := c07lTreeRec{Path: f.Path, Src: src, Run: run, Start: f.Start, End: f.End, TextLen: len(f.Text), NumDirs: len(f.Directives), Count: 1}
	text, ok := content[path.Clean(f.Path)]
	t.Known = ok
	t.TextSame = ok && f.Text == text
	var w synWalk
	root := w.file(f)
	t.Dump = root.Dump()
	// every range of the tree against the tree's own text (the tree's text against the file's content is TextSame)
	t.RangesOK, t.Detail = synRangesOK(w.ranges, f.Text, f.Path)
	return t
}

func c07lErrOf(err error, src string, run int, content map[string]string) c07lErrRec {
	e := c07lErrRec{Src: src, Run: run, Count: 1, Message: err.Error()}
	var de directives.Error
	var pe *fs.PathError
	switch {
	case errors.As(err, &de):
		e.Kind = "syntax"
		k := c07ErrLocations(de)
		e.LocOK, e.LocInfo, e.LocWide = k.ok, k.info, k.wide
		// the file the error speaks about: the first link that carries a path
		for x := error(de); x != nil; {
			d, ok := x.(directives.Error)
			if !ok {
				break
			}
			if d.Path != "" || d.Text != "" {
				e.Path = d.Path
				break
			}
			x = d.Wrapped
		}
		text, ok := content[path.Clean(e.Path)]
		e.Known = ok
		if ok {
			e.Frames, _, e.TextOK, e.Detail = synFrames(err, text, e.Path)
		} else {
			e.Frames, _, _, _ = synFrames(err, "", e.Path)
			e.Detail = "the error names no file of the load"
		}
	case errors.Is(err, context.Canceled) || errors.Is(err, context.DeadlineExceeded):
		e.Kind = "ctx"
	case errors.As(err, &pe):
		e.Kind = "fs"
	case strings.HasPrefix(e.Message, "include cycle"):
		e.Kind = "cycle"
	default:
		e.Kind = "other"
	}
	return e
}

type c07lAcc struct {
	res   c07lResult
	trees map[string]int
	errs  map[string]int
}

func (a *c07lAcc) tree(t c07lTreeRec) {
	h := sha1.Sum([]byte(t.Dump))
	key := fmt.Sprintf("%s|%s|%d|%d|%d|%v|%v|%x", t.Path, t.Src, t.Start, t.End, t.TextLen, t.TextSame, t.RangesOK, h)
	if i, ok := a.trees[key]; ok {
		a.res.Trees[i].Count++
		return
	}
	a.trees[key] = len(a.res.Trees)
	a.res.Trees = append(a.res.Trees, t)
}

func (a *c07lAcc) err(e c07lErrRec) {
	key := e.Kind + "|" + e.Src + "|" + e.Path + "|" + e.Message
	if i, ok := a.errs[key]; ok {
		a.res.Errs[i].Count++
		return
	}
	a.errs[key] = len(a.res.Errs)
	a.res.Errs = append(a.res.Errs, e)
}

func c07lWorker(jobFile string) {
	b, err := os.ReadFile(jobFile)
	if err != nil {
		fatalf("%v", err)
	}
	var jobs []c07lJob
	if err := json.Unmarshal(b, &jobs); err != nil {
		fatalf("%v", err)
	}
	out, err := os.Create(jobFile + ".out")
	if err != nil {
		fatalf("%v", err)
	}
	defer out.Close()
	defaultProcs := runtime.GOMAXPROCS(0)
	for _, job := range jobs {
		content := map[string]string{}
		for _, f := range job.Files {
			if tb, err := os.ReadFile(f); err == nil {
				content[f] = string(tb)
			}
		}
		acc := &c07lAcc{res: c07lResult{Index: job.Index}, trees: map[string]int{}, errs: map[string]int{}}
		rng := NewRNG(uint64(job.Index)*2654435761+17, "c07l-worker", job.Index)
		dead := false
		for ri, run := range job.Runs {
			if run.Procs > 0 {
				runtime.GOMAXPROCS(run.Procs)
			} else {
				runtime.GOMAXPROCS(defaultProcs)
			}
			type outcome struct {
				files []directives.File
				err   error
				pnc   string
			}
			done := make(chan outcome, 1)
			go func() {
				var o outcome
				defer func() {
					if r := recover(); r != nil {
						o.pnc = fmt.Sprint(r)
					}
					done <- o
				}()
				ch, worker := syntax.ParseFileRecursively(job.Root)
				ctx, cancel := context.WithCancel(context.Background())
				defer cancel()
				errCh := make(chan error, 1)
				go func() { errCh <- worker(ctx) }()
				if run.CancelUs >= 0 {
					t := time.AfterFunc(time.Duration(run.CancelUs)*time.Microsecond, cancel)
					defer t.Stop()
				}
				for f := range ch {
					o.files = append(o.files, f)
					if run.ConsumerUs > 0 {
						time.Sleep(time.Duration(rng.Intn(run.ConsumerUs+1)) * time.Microsecond)
					}
				}
				o.err = <-errCh
			}()
			select {
			case o := <-done:
				for _, f := range o.files {
					acc.res.Delivered++
					acc.tree(c07lTreeOf(f, "rec", ri, content))
				}
				switch {
				case o.pnc != "":
					acc.err(c07lErrRec{Kind: "panic", Src: "rec", Run: ri, Count: 1, Message: o.pnc})
				case o.err != nil:
					acc.err(c07lErrOf(o.err, "rec", ri, content))
				default:
					acc.res.NilErrs++
				}
			case <-time.After(120 * time.Second):
				acc.err(c07lErrRec{Kind: "hang", Src: "rec", Run: ri, Count: 1, Message: "ParseFileRecursively: no result after 120s (the consumer keeps reading)"})
				dead = true
			}
			if dead {
				break
			}
		}
		runtime.GOMAXPROCS(defaultProcs)
		if !dead {
			// syntax.ParseFile on every file of the tree
			for _, f := range job.Files {
				func() {
					defer func() {
						if r := recover(); r != nil {
							acc.err(c07lErrRec{Kind: "panic", Src: "single", Path: f, Run: -1, Count: 1, Message: fmt.Sprint(r)})
						}
					}()
					tree, err := syntax.ParseFile(f)
					if err != nil {
						acc.err(c07lErrOf(err, "single", -1, content))
						return
					}
					acc.tree(c07lTreeOf(tree, "single", -1, content))
				}()
			}
		}
		for i := range acc.res.Errs {
			acc.res.Errs[i].Message = hex8(acc.res.Errs[i].Message) // a message may quote bytes that are no valid UTF-8
		}
		w := bufio.NewWriter(out)
		enc := json.NewEncoder(w)
		enc.Encode(acc.res)
		w.Flush()
		if dead {
			return // goroutines of the hung load are still around: the remaining cases run in a fresh process
		}
	}
}

// ---------------------------------------------------------------- generators

type c07lFile struct {
	Rel  string
	Abs  string
	Text string
	Role string
}

type c07lCase struct {
	Index   int
	Kind    string // what fails
	Shape   string
	Size    string
	Files   []c07lFile
	Dirs    []string // extra directories (include targets that are directories)
	Runs    []c07lRun
	Sched   uint64 // KNUT_VERIF_SEED of the worker process (0: hook off)
	parses  map[string]synResult
	byAbs   map[string]*c07lFile
	Comment string
}

// c07lPiece: a few valid directives (no include), every line terminated, followed by a blank line.
func c07lPiece(r *RNG, n int) string {
	for try := 0; try < 6; try++ {
		g := &synGen{r: r, nl: "\n", ws: []string{" ", " ", "\t"}, tags: map[string]bool{}}
		if r.Chance(1, 8) {
			g.nl = "\r\n"
			g.ws = []string{" ", "\t", "\r"}
		}
		g.unicode = r.Chance(1, 3)
		var b strings.Builder
		for i := 0; i < n; i++ {
			var d, kind string
			for k := 0; k < 20; k++ {
				d, kind = g.directive()
				if !strings.Contains(kind, "include") {
					break
				}
			}
			if strings.Contains(kind, "include") {
				d = "2020-01-01 open A:B"
			}
			b.WriteString(d)
			if !strings.HasSuffix(d, "\n") {
				b.WriteString(g.nl)
			}
			b.WriteString(g.nl)
			switch r.Intn(6) {
			case 0:
				b.WriteString(g.comment() + g.nl)
			case 1:
				b.WriteString(g.nl)
			}
		}
		text := b.String()
		if res := implParse(text, "p.knut"); res.Outcome == "ok" && res.NumDirs == n {
			return text
		}
	}
	return strings.Repeat("2020-01-01 open A:B\n\n", n)
}

var c07lWords = []string{"lorem ipsum dolor sit amet ", "2020-01-01 open Assets:Cash ", "include \"x.knut\" ", "é漢字 ", "@performance(USD) ", "\"quoted\" ", "// ", "\t\t", "0123456789 "}

func c07lFill(r *RNG, n int) string {
	w := Pick(r, c07lWords)
	return strings.Repeat(w, n/len(w)+1)[:n/len(w)*len(w)]
}

// c07lBulk: one piece of valid text that costs the parser time but adds (almost) no directives.
func c07lBulk(r *RNG, style string, n int) (string, int) {
	if n < 8 {
		n = 8
	}
	if style == "mixed" {
		style = Pick(r, []string{"comments", "blank", "longtok", "comments"})
	}
	switch style {
	case "blank":
		var b strings.Builder
		for b.Len() < n {
			switch r.Intn(4) {
			case 0:
				b.WriteString(strings.Repeat(Pick(r, []string{" ", "\t", "\r"}), r.Range(1, 40)) + "\n")
			default:
				b.WriteString("\n")
			}
		}
		return b.String(), 0
	case "longtok":
		switch r.Intn(3) {
		case 0:
			return "2021-03-04 \"" + strings.ReplaceAll(c07lFill(r, n), "\"", "'") + "\"\nAssets:Bank Expenses:Food 12.50 CHF\nAssets:Bank Expenses:Rent 1200 CHF\n\n", 1
		case 1:
			return "2021-03-04 open Assets:" + strings.Repeat(Pick(r, []string{"a", "Z", "é", "9"}), n/2) + ":Cash\n\n", 1
		default:
			return "2021-03-04 price AAPL " + strings.Repeat("7", n/2) + "." + strings.Repeat("3", n/4+1) + " USD\n\n", 1
		}
	default: // comments
		var b strings.Builder
		for b.Len() < n {
			l := r.Range(20, 400)
			if r.Chance(1, 4) {
				l = r.Range(400, 60000)
			}
			if l > n-b.Len()+20 {
				l = n - b.Len() + 20
			}
			b.WriteString(Pick(r, []string{"# ", "* ", "// ", "#", "*"}) + c07lFill(r, l) + "\n")
		}
		return b.String(), 0
	}
}

// c07lBody builds the text of a file of about `size` bytes: blocks of bulk and of directives; the include lines are put
// at the given positions (fractions of the blocks). dirBudget bounds the number of directives (the Lean predicates cost
// directives x bytes).
func c07lBody(r *RNG, size int, includes []c07lInc) string {
	var blocks []string
	if size <= 6000 {
		n := r.Range(0, 6)
		if size > 1500 {
			n = r.Range(5, 40)
		}
		for i := 0; i < n; i++ {
			blocks = append(blocks, c07lPiece(r, r.Range(1, 3)))
		}
		if r.Chance(1, 3) {
			blocks = append([]string{"# journal\n\n"}, blocks...)
		}
	} else {
		style := Pick(r, []string{"comments", "comments", "blank", "longtok", "dense", "mixed", "mixed"})
		dirBudget := 60000000 / size
		if dirBudget > 1500 {
			dirBudget = 1500
		}
		if dirBudget < 30 {
			dirBudget = 30
		}
		nBlocks := r.Range(8, 60)
		if style == "dense" {
			// as many directives as the budget allows, the rest of the size in comments
			nBlocks = dirBudget / 4
		}
		perBlockDirs := dirBudget / nBlocks
		if perBlockDirs < 1 {
			perBlockDirs = 1
		}
		total, dirs := 0, 0
		for i := 0; total < size && i < 4*nBlocks; i++ {
			var piece string
			if dirs < dirBudget {
				k := r.Range(1, perBlockDirs)
				if k > 6 {
					// a block of many directives: repeat a few generated pieces
					p := c07lPiece(r, 3)
					piece = strings.Repeat(p, k/3)
					k = k / 3 * 3
				} else {
					piece = c07lPiece(r, k)
				}
				dirs += k
			}
			st := style
			if st == "dense" {
				st = "comments"
			}
			bulk, d := c07lBulk(r, st, (size-total)/(nBlocks-i%nBlocks)-len(piece))
			dirs += d
			if r.Bool() {
				piece = piece + bulk
			} else {
				piece = bulk + piece
			}
			blocks = append(blocks, piece)
			total += len(piece)
		}
	}
	// include lines at block boundaries
	at := map[int][]string{}
	for _, inc := range includes {
		p := int(inc.Pos * float64(len(blocks)+1))
		if p > len(blocks) {
			p = len(blocks)
		}
		line := "include \"" + inc.Path + "\"\n"
		if r.Chance(1, 3) {
			line += "\n"
		}
		at[p] = append(at[p], line)
	}
	var b strings.Builder
	for i := 0; i <= len(blocks); i++ {
		for _, l := range at[i] {
			b.WriteString(l)
		}
		if i < len(blocks) {
			b.WriteString(blocks[i])
		}
	}
	return b.String()
}

type c07lInc struct {
	Path string  // as written in the include directive (relative to the including file's directory)
	Pos  float64 // 0 = top of the file, 1 = end
}

var c07lKinds = []string{"valid", "missing", "syntax-early", "syntax-late", "cycle", "utf8", "isdir", "multi", "cancel", "missing", "syntax-late", "valid"}

func c07lPos(r *RNG) float64 {
	switch r.Intn(4) {
	case 0:
		return 0
	case 1:
		return 1
	}
	return float64(r.Intn(1000)) / 1000
}

func c07lBreak(r *RNG, text string, late bool) string {
	garbage := Pick(r, []string{"2020-01-01 opne A:B\n", "2020-01-01 open\n", "2020-01-01 \"x\nA B 1 CHF\n", "include x\n", "2020-1-1 open A\n", "@performance(\n2020-01-01 open A\n", "2020-01-01 price CHF x USD\n", "?\n", "2020-01-01 balance A 1\n",
		// the same with non-ASCII text before the position of the error on its line (column != byte distance)
		"2020-01-01 open Aktiven:Geb\u00e4ude:Z\u00fcrich!\n", "2020-01-01 \"Caf\u00e9 \U0001f600 e\u0301\" x\nA B 1 CHF\n", "include \"\u6f22\u5b57/\u00fc.knut\" x\n", "2020-01-01 price \u00c9uro 1.5 \u03a9 !\n", "2020-01-01 balance \U0001d49c:\u044f 1\n", "@performance(\u03a9, \u00c9uro\n2020-01-01 open A\n", "2020-01-01 open \u00e9\xff\n"})
	var cand string
	if late {
		cand = text + garbage
	} else {
		cand = garbage + text
	}
	if implParse(cand, "p.knut").Outcome == "err" {
		return cand
	}
	if late {
		return text + "\n2020-01-01 opne A:B\n"
	}
	return "2020-01-01 opne A:B\n" + text
}

// c07lGen generates the include tree of case `index`.
func c07lGen(c *Ctx, index int, dir string) *c07lCase {
	r := c.Rng("loader", index)
	cs := &c07lCase{Index: index, Kind: c07lKinds[index%len(c07lKinds)]}
	// sizes: every other case has one or two big members
	nFiles := r.Range(1, 9)
	maxBig := c.N(900000, 3000000)
	big := map[int]int{}
	switch index % 4 {
	case 0, 2:
		cs.Size = "small"
	case 1:
		cs.Size = "big1"
	default:
		cs.Size = "big2"
	}
	cs.Shape = Pick(r, []string{"flat", "flat", "chain", "bushy", "bushy"})
	if nFiles == 1 {
		cs.Shape = "single"
	}
	parent := make([]int, nFiles)
	for i := 1; i < nFiles; i++ {
		switch cs.Shape {
		case "flat":
			parent[i] = 0
		case "chain":
			parent[i] = i - 1
		default:
			parent[i] = r.Intn(i)
		}
	}
	if cs.Size != "small" {
		k := 1
		if cs.Size == "big2" {
			k = 2
		}
		for j := 0; j < k; j++ {
			sz := r.Range(60000, 400000)
			if r.Chance(1, 3) {
				sz = r.Range(400000, maxBig)
			}
			big[r.Intn(nFiles)] = sz
		}
		if r.Chance(1, 3) {
			// the root itself is the big one (the failing include sits in the middle of a long parse)
			big[0] = r.Range(100000, maxBig)
		}
	}
	dirs := make([]string, nFiles)
	rels := make([]string, nFiles)
	for i := 0; i < nFiles; i++ {
		dirs[i] = Pick(r, []string{"", "", "a", "a/b", "c d"})
		if i == 0 {
			dirs[i] = ""
		}
		rels[i] = path.Join(dirs[i], fmt.Sprintf("f%d%s", i, Pick(r, []string{".knut", ".knut", ".prices", ""})))
	}
	relTo := func(from int, target string) string {
		p, err := filepath.Rel(filepath.Join(dir, dirs[from]), filepath.Join(dir, target))
		if err != nil {
			return target
		}
		return p
	}
	includes := make([][]c07lInc, nFiles)
	for i := 1; i < nFiles; i++ {
		includes[parent[i]] = append(includes[parent[i]], c07lInc{Path: relTo(parent[i], rels[i]), Pos: c07lPos(r)})
	}
	roles := make([]string, nFiles)
	for i := range roles {
		roles[i] = "valid"
		if _, ok := big[i]; ok {
			roles[i] = "valid-big"
		}
	}
	roles[0] = "root/" + roles[0]
	broken := map[int]string{}
	fail := func(kind string) {
		m := r.Intn(nFiles)
		switch kind {
		case "missing":
			includes[m] = append(includes[m], c07lInc{Path: Pick(r, []string{"missing.knut", "a/nope.knut", "../outside.knut", "f0.knut.bak"}), Pos: c07lPos(r)})
			roles[m] += "+includes-missing"
		case "isdir":
			includes[m] = append(includes[m], c07lInc{Path: relTo(m, "somedir"), Pos: c07lPos(r)})
			cs.Dirs = append(cs.Dirs, "somedir")
			roles[m] += "+includes-directory"
		case "cycle":
			// an ancestor (or the file itself) is included again
			a := m
			for k := r.Intn(3); k > 0 && a != 0; k-- {
				a = parent[a]
			}
			includes[m] = append(includes[m], c07lInc{Path: relTo(m, rels[a]), Pos: c07lPos(r)})
			roles[m] += "+includes-ancestor"
		case "syntax-early", "syntax-late", "utf8":
			if nFiles > 1 && m == 0 && r.Chance(3, 4) {
				m = r.Range(1, nFiles-1)
			}
			broken[m] = kind
			roles[m] += "+" + kind
			if kind == "syntax-late" && r.Chance(1, 2) {
				if _, ok := big[m]; !ok {
					big[m] = r.Range(8000, 120000) // the error arrives late
				}
			}
		}
	}
	switch cs.Kind {
	case "valid", "cancel":
	case "multi":
		ks := []string{"missing", "isdir", "cycle", "syntax-early", "syntax-late", "utf8"}
		fail(Pick(r, ks))
		fail(Pick(r, ks))
	default:
		fail(cs.Kind)
	}
	for i := 0; i < nFiles; i++ {
		size := r.Range(0, 6000)
		if r.Chance(1, 2) {
			size = r.Range(0, 600)
		}
		if sz, ok := big[i]; ok {
			size = sz
		}
		text := c07lBody(r, size, includes[i])
		switch broken[i] {
		case "syntax-early":
			text = c07lBreak(r, text, false)
		case "syntax-late":
			text = c07lBreak(r, text, true)
		case "utf8":
			bad := Pick(r, []string{"\xff", "\xc3", "\xed\xa0\x80", "\xf4\x90\x80\x80", "\xe2\x82"})
			switch r.Intn(3) {
			case 0:
				text = bad + text
			case 1:
				text = text + "2020-01-01 open A" + bad + "\n"
			default:
				p := r.Intn(len(text) + 1)
				text = text[:p] + bad + text[p:]
			}
		}
		cs.Files = append(cs.Files, c07lFile{Rel: rels[i], Abs: filepath.Join(dir, rels[i]), Text: text, Role: roles[i]})
	}
	// runs: GOMAXPROCS, consumer speed, caller-side cancellation
	nRuns := c.N(6, 10)
	if c.Replay {
		nRuns *= 6
	}
	total := 0
	for _, f := range cs.Files {
		total += len(f.Text)
	}
	est := total/40 + 300 // microseconds the load takes, roughly
	for k := 0; k < nRuns; k++ {
		run := c07lRun{Procs: Pick(r, []int{0, 0, 1, 2, 4}), CancelUs: -1, ConsumerUs: Pick(r, []int{0, 0, 0, 30, 300})}
		if cs.Kind == "cancel" || r.Chance(1, 8) {
			switch r.Intn(4) {
			case 0:
				run.CancelUs = 0
			case 1:
				run.CancelUs = r.Range(1, 200)
			default:
				run.CancelUs = r.Range(1, est)
			}
		}
		cs.Runs = append(cs.Runs, run)
	}
	return cs
}

func (cs *c07lCase) write(dir string) error {
	for _, d := range cs.Dirs {
		if err := os.MkdirAll(filepath.Join(dir, d), 0o755); err != nil {
			return err
		}
	}
	for _, f := range cs.Files {
		if err := os.MkdirAll(filepath.Dir(f.Abs), 0o755); err != nil {
			return err
		}
		if err := os.WriteFile(f.Abs, []byte(f.Text), 0o644); err != nil {
			return err
		}
	}
	return nil
}

func (cs *c07lCase) input(file string, run *c07lRun) map[string]any {
	var files []map[string]any
	for _, f := range cs.Files {
		m := map[string]any{"path": f.Rel, "len": len(f.Text), "role": f.Role}
		if res, ok := cs.parses[f.Abs]; ok {
			m["parses"] = res.Outcome
		}
		if len(f.Text) <= 300 {
			m["text_hex"] = hex8(f.Text)
		} else {
			m["head_hex"] = hex8(f.Text[:200])
		}
		files = append(files, m)
	}
	in := map[string]any{"kind": cs.Kind, "shape": cs.Shape, "size": cs.Size, "root": cs.Files[0].Rel, "files": files,
		"KNUT_VERIF_SEED": cs.Sched, "note": "regenerate the tree from (stream, index, seed); the outcome depends on the schedule, a replay runs six times as many loads"}
	if file != "" {
		in["file"] = file
	}
	if run != nil {
		in["run"] = map[string]any{"GOMAXPROCS": run.Procs, "cancel_us": run.CancelUs, "consumer_us": run.ConsumerUs}
	}
	return in
}

func hex8(s string) string { return fmt.Sprintf("%x", s) }

// ---------------------------------------------------------------- parent side

// c07lModelLimit: files up to this size are also parsed by the Lean model and compared with every delivered tree.
const c07lModelLimit = 150000

func c07lProc(timeout time.Duration, env []string, bin string) (stderr string, timedOut bool) {
	ctx, cancel := context.WithTimeout(context.Background(), timeout)
	defer cancel()
	cmd := exec.CommandContext(ctx, bin)
	cmd.Env = append(os.Environ(), env...)
	cmd.SysProcAttr = &syscall.SysProcAttr{Setpgid: true}
	var se bytes.Buffer
	cmd.Stderr = &se
	cmd.Run()
	if ctx.Err() == context.DeadlineExceeded {
		if cmd.Process != nil {
			syscall.Kill(-cmd.Process.Pid, syscall.SIGKILL)
		}
		return se.String(), true
	}
	return se.String(), false
}

// c07lRunBatch runs the cases in one worker process; cases the worker did not answer are run once more, one per process.
func c07lRunBatch(self, dir string, cases []*c07lCase, tag string) (map[int]c07lResult, map[int]string) {
	results := map[int]c07lResult{}
	trouble := map[int]string{}
	var run func(cs []*c07lCase, tag string, retry bool)
	run = func(cases []*c07lCase, tag string, retry bool) {
		var jobs []c07lJob
		for _, cs := range cases {
			job := c07lJob{Index: cs.Index, Dir: filepath.Dir(cs.Files[0].Abs), Root: cs.Files[0].Abs, Runs: cs.Runs}
			for _, f := range cs.Files {
				job.Files = append(job.Files, f.Abs)
			}
			jobs = append(jobs, job)
		}
		jobFile := filepath.Join(dir, "job-"+tag+".json")
		writeJSON(jobFile, jobs)
		env := []string{"C07_WORKER=" + jobFile}
		if cases[0].Sched != 0 {
			env = append(env, fmt.Sprintf("KNUT_VERIF_SEED=%d", cases[0].Sched))
		}
		stderr, timedOut := c07lProc(time.Duration(300+200*len(cases))*time.Second, env, self)
		if f, err := os.Open(jobFile + ".out"); err == nil {
			sc := bufio.NewScanner(f)
			sc.Buffer(make([]byte, 1<<20), 1<<30)
			for sc.Scan() {
				var res c07lResult
				if json.Unmarshal(sc.Bytes(), &res) == nil {
					for i := range res.Errs {
						if mb, err := hex.DecodeString(res.Errs[i].Message); err == nil {
							res.Errs[i].Message = string(mb)
						}
					}
					results[res.Index] = res
				}
			}
			f.Close()
		}
		os.Remove(jobFile)
		os.Remove(jobFile + ".out")
		var missing []*c07lCase
		for _, cs := range cases {
			if _, ok := results[cs.Index]; !ok {
				missing = append(missing, cs)
			}
		}
		if len(missing) == 0 {
			return
		}
		if len(cases) == 1 || !retry {
			for _, cs := range missing {
				if timedOut {
					trouble[cs.Index] = "hang: the worker process did not finish; stderr: " + clip(stderr)
				} else {
					trouble[cs.Index] = "panic (worker process died): " + clip(stderr)
				}
			}
			return
		}
		for _, cs := range missing {
			run([]*c07lCase{cs}, fmt.Sprintf("%s-%d", tag, cs.Index), false)
		}
	}
	run(cases, tag, true)
	return results, trouble
}

// loader runs the stream.
func (x *c07run) loader() {
	c := x.c
	nCases := c.N(48, 200)
	const batchSize = 8
	self, err := os.Executable()
	if err != nil {
		fatalf("%v", err)
	}
	base := filepath.Join(c.WorkDir, "c07loader")
	os.MkdirAll(base, 0o755)
	defer os.RemoveAll(base)
	nBatches := (nCases + batchSize - 1) / batchSize
	const wave = 3 // batches (worker processes) running at the same time
	for b0 := 0; b0 < nBatches; b0 += wave {
		tw := time.Now()
		var batches [][]*c07lCase
		for b := b0; b < b0+wave && b < nBatches; b++ {
			var cases []*c07lCase
			for i := b * batchSize; i < (b+1)*batchSize && i < nCases; i++ {
				if !c.Want("loader", i) {
					continue
				}
				dir := filepath.Join(base, fmt.Sprintf("case%d", i))
				cs := c07lGen(c, i, dir)
				// two of three batches run with the hook's schedule perturbation
				if b%3 != 2 {
					cs.Sched = c.Seed*1000 + uint64(b) + 1
				}
				if err := cs.write(dir); err != nil {
					fatalf("c07 loader: %v", err)
				}
				cases = append(cases, cs)
			}
			if len(cases) > 0 {
				batches = append(batches, cases)
			}
		}
		if len(batches) == 0 {
			continue
		}
		tGen := time.Since(tw)
		tw = time.Now()
		results := make([]map[int]c07lResult, len(batches))
		troubles := make([]map[int]string, len(batches))
		parallelFor(len(batches), wave, func(k int) {
			results[k], troubles[k] = c07lRunBatch(self, base, batches[k], fmt.Sprintf("%d", batches[k][0].Index))
		})
		tRun := time.Since(tw)
		tw = time.Now()
		for k, cases := range batches {
			for _, cs := range cases {
				res, ok := results[k][cs.Index]
				x.loaderCheck(cs, res, ok, troubles[k][cs.Index])
				os.RemoveAll(filepath.Join(base, fmt.Sprintf("case%d", cs.Index)))
			}
			x.bt.Flush()
		}
		if os.Getenv("C07_LOADER_DEBUG") != "" {
			fmt.Fprintf(os.Stderr, "loader wave %d: gen %v run %v check %v\n", b0, tGen, tRun, time.Since(tw))
		}
	}
}

// loaderCheck evaluates the property's predicates on everything one case delivered.
func (x *c07run) loaderCheck(cs *c07lCase, res c07lResult, have bool, trouble string) {
	c := x.c
	const stream = "loader"
	idx := cs.Index
	c.Evals++
	cs.parses = map[string]synResult{}
	cs.byAbs = map[string]*c07lFile{}
	maxLen := 0
	for i := range cs.Files {
		f := &cs.Files[i]
		cs.byAbs[f.Abs] = f
		cs.parses[f.Abs] = implParse(f.Text, f.Abs)
		if len(f.Text) > maxLen {
			maxLen = len(f.Text)
		}
	}
	if !have {
		c.Monitor(stream, idx, "C07_total(loader)", cs.input("", nil), false, trouble)
		c.Class("loader/" + cs.Kind + "/crash")
		return
	}
	if idx < 2 {
		c.Sample(map[string]any{"stream": stream, "input": cs.input("", nil), "impl": fmt.Sprintf("%d loads: %d trees delivered (%d distinct), %d loads without error, %d distinct errors", len(cs.Runs), res.Delivered, len(res.Trees), res.NilErrs, len(res.Errs))})
	}
	// the model's tree of every file that is small enough: asked once per file, compared with every tree delivered for it
	type treeRef struct {
		rec c07lTreeRec
		in  map[string]any
	}
	perFile := map[string][]treeRef{}
	treeAsk := map[string][]treeRef{}
	var treeOrder []string
	for _, t := range res.Trees {
		t := t
		var run *c07lRun
		if t.Run >= 0 && t.Run < len(cs.Runs) {
			run = &cs.Runs[t.Run]
		}
		f := cs.byAbs[path.Clean(t.Path)]
		rel := t.Path
		if f != nil {
			rel = f.Rel
		}
		in := cs.input(rel, run)
		in["delivered_by"] = map[string]string{"rec": "syntax.ParseFileRecursively", "single": "syntax.ParseFile"}[t.Src]
		in["delivered_times"] = t.Count
		wantLen := -1
		if f != nil {
			wantLen = len(f.Text)
		}
		c.Tag(stream + "/tree/" + t.Src)
		c.Monitor(stream, idx, "C07_file_range(loader: the tree is the tree of a file of the load, its text is the file's content, the file range is [0,len])", in,
			f != nil && t.TextSame && t.Start == 0 && t.End == wantLen,
			fmt.Sprintf("tree of %s: known file %v, text is the file's content %v (text %d bytes, file %d bytes), file range [%d,%d), %d directives", rel, f != nil, t.TextSame, t.TextLen, wantLen, t.Start, t.End, t.NumDirs))
		c.Monitor(stream, idx, "C07_extract_is_slice(text identity)", in, t.RangesOK, t.Detail)
		if f == nil {
			continue
		}
		// the Lean predicate once per distinct (file, tree)
		key := f.Abs + "|" + t.Dump
		if _, asked := treeAsk[key]; !asked {
			treeOrder = append(treeOrder, key)
		}
		treeAsk[key] = append(treeAsk[key], treeRef{t, in})
		if len(f.Text) <= c07lModelLimit {
			perFile[f.Abs] = append(perFile[f.Abs], treeRef{t, in})
		}
	}
	for _, key := range treeOrder {
		refs := treeAsk[key]
		f := cs.byAbs[path.Clean(refs[0].rec.Path)]
		x.bt.Add(func(mon string) {
			for _, ref := range refs {
				c.Monitor(stream, idx, "treeOK", ref.in, mon == "ok", fmt.Sprintf("tree of %s (%d bytes) %s => %s", f.Rel, len(f.Text), clipTo(ref.rec.Dump, 1200), mon))
			}
		}, "c07tree", Hex(f.Text), refs[0].rec.Dump)
	}
	for abs, refs := range perFile {
		refs := refs
		f := cs.byAbs[abs]
		x.bt.Add(func(model string) {
			for _, ref := range refs {
				c.Compare(stream, idx, "c07parse", ref.in, "ok "+ref.rec.Dump, model)
			}
		}, "c07parse", Hex(f.Abs), Hex(f.Text))
	}
	// errors
	kinds := map[string]bool{}
	for _, e := range res.Errs {
		e := e
		kinds[e.Kind] = true
		var run *c07lRun
		if e.Run >= 0 && e.Run < len(cs.Runs) {
			run = &cs.Runs[e.Run]
		}
		f := cs.byAbs[path.Clean(e.Path)]
		rel := e.Path
		if f != nil {
			rel = f.Rel
		}
		in := cs.input(rel, run)
		in["returned_by"] = map[string]string{"rec": "syntax.ParseFileRecursively", "single": "syntax.ParseFile"}[e.Src]
		in["returned_times"] = e.Count
		c.Tag(stream + "/err/" + e.Kind)
		switch e.Kind {
		case "panic", "hang":
			c.Monitor(stream, idx, "C07_total(loader)", in, false, e.Kind+": "+e.Message)
		case "syntax":
			if !c.Monitor(stream, idx, "C07_error_renderable(text identity)", in, f != nil && e.TextOK, e.Detail+" | "+clipTo(e.Message, 300)) || f == nil {
				continue
			}
			c.Monitor(stream, idx, "C07_error_renderable(every line:col is the position of the link's offset, inside the text)", in, e.LocOK, e.LocInfo+" | "+clipTo(e.Message, 300))
			if e.LocWide {
				c.Tag(stream + "/err/non-ascii-before-position")
			}
			n := len(f.Text)
			x.bt.Add(func(mon string) {
				c.Monitor(stream, idx, "errOK", in, mon == "ok", fmt.Sprintf("frames %s len %d => %s", e.Frames, n, mon))
			}, "c07err", fmt.Sprint(n), e.Frames)
			// the parser's answer is a function of the text: a syntax error is the error of that file's text
			// (and there is none for a file whose text parses)
			own := cs.parses[f.Abs]
			c.Monitor(stream, idx, "C07(loader: a reported syntax error is the error of the file's own text; none for a text that parses)", in,
				own.Outcome == "err" && own.Message == e.Message && own.Frames == e.Frames,
				fmt.Sprintf("%s (%d bytes) on its own: %s; the load reported: %s %s", rel, n, clipTo(own.String(), 300), e.Frames, clipTo(e.Message, 400)))
			if own.Outcome == "err" && n <= c07lModelLimit {
				x.bt.Add(func(model string) {
					c.Compare(stream, idx, "c07parse", in, "err "+e.Frames+" "+Hex(e.Message), model)
				}, "c07parse", Hex(f.Abs), Hex(f.Text))
			}
		}
	}
	var ks []string
	for k := range kinds {
		ks = append(ks, k)
	}
	sortStrings(ks)
	if res.NilErrs > 0 {
		ks = append(ks, "nil")
	}
	c.Class(fmt.Sprintf("loader/%s/%s/files%s/max%s/%s", cs.Kind, cs.Shape, bucket(len(cs.Files)), c07lSizeBucket(maxLen), strings.Join(ks, "+")))
}

func c07lSizeBucket(n int) string {
	switch {
	case n < 1000:
		return "<1K"
	case n < 10000:
		return "<10K"
	case n < 100000:
		return "<100K"
	case n < 1000000:
		return "<1M"
	}
	return ">=1M"
}
