import Knut.Proofs.InferReparse
import Knut.Proofs.SyntaxSem
/-!
# Training reads a parsed file only through its field views (helper lemmas for C15)

`bayes.Model.Update` reads the description, the four booking fields and the `Macro` flags of the two account nodes.
For a tree the parser returned the flag is a function of the account text (`parseText_shape`: a macro iff it starts
with `$`), so the training transactions of a parsed file are a function of the typed views of its directives:
`fileTxs_of_views`. With the print-then-parse lemmas this evaluates the whole command on texts given as rendered
token lists (used for the non-vacuity example of `Properties/C15Parse.lean`).
-/
namespace Knut.Infer
open Knut Knut.Syntax Knut.Spec.Syntax Knut.Utf8

/-- a booking as training reads it, from its fields: the macro flags are decided by the first byte -/
def tbookingOfView (b : BookingV) : TBooking := ⟨isDollar b.credit, isDollar b.debit, b⟩

/-- the training transactions of a file, from the views of its directives -/
def txsOfViews (vs : List DirV) : List TTx :=
  vs.filterMap fun v =>
    match v with
    | .transaction _ _ _ desc bs => some ⟨desc, bs.map tbookingOfView⟩
    | _ => none

theorem mapM_tbookings {text : Bytes} : ∀ (l : List Booking) (bvs : List BookingV), (∀ b ∈ l, BookingShape text b) →
    l.mapM (viewBooking text) = some bvs →
    l.mapM (fun b => (viewBooking text b).map fun v => (⟨b.credit.isMacro, b.debit.isMacro, v⟩ : TBooking)) =
      some (bvs.map tbookingOfView)
  | [], bvs, _, h => by simp at h; subst h; simp
  | b :: l, bvs, hs, h => by
    obtain ⟨v, vs', h1, h2, rfl⟩ := (mapM_cons_some _ b l bvs).mp h
    have ih := mapM_tbookings l vs' (fun x hx => hs x (List.mem_cons_of_mem _ hx)) h2
    obtain ⟨e1, e2⟩ := viewBooking_some h1
    obtain ⟨s1, s2⟩ := hs b (by simp)
    rw [List.mapM_cons, h1, ih]
    simp [tbookingOfView, s1 _ e1, s2 _ e2]

theorem viewTransaction_some' {text : Bytes} {tr : Transaction} {w : DirV} (h : viewTransaction text tr = some w) :
    ∃ accr perf date desc bookings, w = .transaction accr perf date desc bookings ∧
      tr.description.content.extract text = some desc ∧ tr.bookings.mapM (viewBooking text) = some bookings := by
  unfold viewTransaction at h
  split at h <;> split at h <;>
    (simp only [Option.bind_eq_bind, Option.pure_def, Option.bind_eq_some_iff, Option.some.injEq] at h
     obtain ⟨accr, _, perf, _, date, _, desc, hd, bookings, hb, rfl⟩ := h
     exact ⟨_, _, _, desc, bookings, rfl, hd, hb⟩)

theorem viewT_of_view {text : Bytes} {t : Transaction} {v : DirV} (hs : ∀ b ∈ t.bookings, BookingShape text b)
    (h : viewTransaction text t = some v) :
    ∃ accr perf date desc bookings, v = .transaction accr perf date desc bookings ∧
      viewT text t = some ⟨desc, bookings.map tbookingOfView⟩ := by
  obtain ⟨accr, perf, date, desc, bookings, rfl, hd, hb⟩ := viewTransaction_some' h
  refine ⟨accr, perf, date, desc, bookings, rfl, ?_⟩
  simp only [viewT, hd, mapM_tbookings t.bookings bookings hs hb, Option.bind_eq_bind, Option.bind_some, Option.pure_def]

theorem fileTxs_aux {text : Bytes} : ∀ (ds : List Directive) (vs : List DirV), (∀ d ∈ ds, DirShape text d) →
    ds.mapM (viewDirective text) = some vs →
    (ds.filterMap fun d => match d.body with | .transaction t => some t | _ => none).mapM (viewT text) = some (txsOfViews vs)
  | [], vs, _, h => by simp at h; subst h; simp [txsOfViews]
  | d :: ds, vs, hs, h => by
    obtain ⟨v, vs', h1, h2, rfl⟩ := (mapM_cons_some _ d ds vs).mp h
    have ih := fileTxs_aux ds vs' (fun x hx => hs x (List.mem_cons_of_mem _ hx)) h2
    have hd := hs d (by simp)
    unfold DirShape at hd
    unfold viewDirective at h1
    cases hb : d.body with
    | transaction t =>
      rw [hb] at hd h1
      obtain ⟨accr, perf, date, desc, bookings, rfl, hvt⟩ := viewT_of_view hd.2 h1
      simp only [List.filterMap_cons, hb, List.mapM_cons, hvt, ih, txsOfViews]
      rfl
    | «open» o =>
      rw [hb] at h1
      simp only [Option.bind_eq_bind, Option.pure_def, Option.bind_eq_some_iff, Option.some.injEq] at h1
      obtain ⟨_, _, _, _, rfl⟩ := h1
      simpa [List.filterMap_cons, hb, txsOfViews] using ih
    | close o =>
      rw [hb] at h1
      simp only [Option.bind_eq_bind, Option.pure_def, Option.bind_eq_some_iff, Option.some.injEq] at h1
      obtain ⟨_, _, _, _, rfl⟩ := h1
      simpa [List.filterMap_cons, hb, txsOfViews] using ih
    | assertion a =>
      rw [hb] at h1
      simp only [Option.bind_eq_bind, Option.pure_def, Option.bind_eq_some_iff, Option.some.injEq] at h1
      obtain ⟨_, _, _, _, rfl⟩ := h1
      simpa [List.filterMap_cons, hb, txsOfViews] using ih
    | price p =>
      rw [hb] at h1
      simp only [Option.bind_eq_bind, Option.pure_def, Option.bind_eq_some_iff, Option.some.injEq] at h1
      obtain ⟨_, _, _, _, _, _, _, _, rfl⟩ := h1
      simpa [List.filterMap_cons, hb, txsOfViews] using ih
    | «include» i =>
      rw [hb] at h1
      simp only [Option.bind_eq_bind, Option.pure_def, Option.bind_eq_some_iff, Option.some.injEq] at h1
      obtain ⟨_, _, rfl⟩ := h1
      simpa [List.filterMap_cons, hb, txsOfViews] using ih

/-- **training reads a parsed file only through the views of its directives** -/
theorem fileTxs_of_views {path : String} {text : Bytes} {f : File} {vs : List DirV} (h : parseText path text = .ok f)
    (hv : f.directives.mapM (viewDirective text) = some vs) : fileTxs text f = some (txsOfViews vs) :=
  fileTxs_aux f.directives vs (parseText_shape h) hv

end Knut.Infer
