/-!
# Decimal amounts as exact rationals

`shopspring/decimal` values are modelled by their *value* in `Rat` (core Lean).  All
operations knut uses are functions of the value:

* `Add/Sub/Mul/Neg/Cmp/Equal/IsZero/Sign`  – exact field operations / comparisons
* `Truncate(n)`        – `trunc n`  (toward zero)
* `Round(n)`           – `roundHalfAway n`
* `Div`                – `div16 a b = roundHalfAway 16 (a / b)` (`DivisionPrecision = 16`)
* `QuoRem(b, p)`       – `quoRem a b p = (trunc p (a / b), a - trunc p (a / b) * b)`, panics for `b = 0`
* `String()`           – `showDec`   (shortest plain decimal, trailing zeros trimmed)
* `StringFixed(n)`     – `showFixed n`
* `NewFromString`      – `parseDec`  (plain `-?digits(.digits)?` as the journal grammar produces)
-/
namespace Knut.Dec

def pow10 (n : Nat) : Int := (10 : Int) ^ n

/-- scaled numerator `⌊r · 10^n⌋` toward zero -/
def scaledTrunc (n : Nat) (r : Rat) : Int := Int.tdiv (r.num * pow10 n) r.den

/-- `Truncate(n)`: drop digits after the `n`-th decimal place (toward zero) -/
def trunc (n : Nat) (r : Rat) : Rat := mkRat (scaledTrunc n r) (10 ^ n)

/-- numerator of `r · 10^n` rounded half away from zero -/
def scaledRound (n : Nat) (r : Rat) : Int :=
  let num := r.num * pow10 n
  let q := Int.tdiv num r.den
  let rem := num - q * r.den        -- same sign as num, |rem| < den
  if 2 * rem.natAbs ≥ r.den then (if r.num < 0 then q - 1 else q + 1) else q

/-- `Round(n)` for `n ≥ 0` -/
def roundHalfAway (n : Nat) (r : Rat) : Rat := mkRat (scaledRound n r) (10 ^ n)

/-- `Round(places)` for any `places : Int` (negative: round to tens, hundreds, …) -/
def roundPlaces (places : Int) (r : Rat) : Rat :=
  if 0 ≤ places then roundHalfAway places.toNat r
  else
    let k := (-places).toNat
    let m := scaledRound 0 (r / (pow10 k : Int))
    ((m * pow10 k : Int) : Rat)

/-- `Div` of shopspring: `DivRound(_, 16)` -/
def div16 (a b : Rat) : Rat := roundHalfAway 16 (a / b)

/-- `QuoRem(b, p)`; `none` is the "decimal division by 0" panic -/
def quoRem (a b : Rat) (p : Nat) : Option (Rat × Rat) :=
  if b = 0 then none else
    let q := trunc p (a / b)
    some (q, a - q * b)

/-- smallest `k ≤ fuel` with `den ∣ 10^k` (the number of decimal places of a decimal rational) -/
def findScale (den : Nat) : Nat → Nat → Nat
  | 0, k => k
  | fuel + 1, k => if (10 ^ k) % den = 0 then k else findScale den fuel (k + 1)

def scaleOf (r : Rat) : Nat := findScale r.den r.den 0

def natDigits (n : Nat) : String := toString n

def padLeftZeros (s : String) (width : Nat) : String :=
  String.ofList (List.replicate (width - s.length) '0') ++ s

/-- plain decimal with exactly `k` fractional digits of the integer `m / 10^k` -/
def showScaled (m : Int) (k : Nat) : String :=
  let neg := m < 0
  let a := m.natAbs
  let ip := a / 10 ^ k
  let fp := a % 10 ^ k
  let body := if k = 0 then natDigits ip else natDigits ip ++ "." ++ padLeftZeros (natDigits fp) k
  if neg then "-" ++ body else body

/-- `String()`: shortest plain decimal representation -/
def showDec (r : Rat) : String :=
  let k := scaleOf r
  showScaled (r.num * pow10 k / r.den) k

/-- `StringFixed(places)` -/
def showFixed (places : Int) (r : Rat) : String :=
  if 0 ≤ places then showScaled (scaledRound places.toNat r) places.toNat
  else showScaled (roundPlaces places r).num 0

def isDigit (c : Char) : Bool := '0' ≤ c && c ≤ '9'

def digitsToNat (cs : List Char) : Nat := cs.foldl (fun acc c => acc * 10 + (c.toNat - '0'.toNat)) 0

/-- `-?digits(.digits)?` (what the journal grammar admits). -/
def parseDec (s : String) : Option Rat :=
  let cs := s.toList
  let (neg, cs) := match cs with
    | '-' :: rest => (true, rest)
    | _ => (false, cs)
  let ip := cs.takeWhile isDigit
  let rest := cs.dropWhile isDigit
  if ip.isEmpty then none else
  match rest with
  | [] =>
    let v : Int := digitsToNat ip
    some ((if neg then -v else v : Int) : Rat)
  | '.' :: fp =>
    if fp.isEmpty || !fp.all isDigit then none else
    let v : Int := digitsToNat (ip ++ fp)
    some (mkRat (if neg then -v else v) (10 ^ fp.length))
  | _ => none

/-- wire format of the driver: `num/den` -/
def showRat (r : Rat) : String := s!"{r.num}/{r.den}"

def parseRat (s : String) : Option Rat :=
  match (s.split (· == '/')).toList.map (·.toString) with
  | [n] => n.toInt?.map (fun (i : Int) => (i : Rat))
  | [n, d] => do
    let n ← n.toInt?
    let d ← d.toNat?
    if d = 0 then none else some (mkRat n d)
  | _ => none

end Knut.Dec
