import Knut.Model.Journal
/-!
# Specification of a well-formed journal (property C04)

State = the set of open accounts and the *log* of all asset/liability postings so far.  The running
quantity of a position is the sum over the log.  Taking directives by date and, within a day, in the
order opens, transactions, assertions, closes:

* an open must hit an account that is not open;
* every posting and every assertion must refer to an open account;
* an assertion on an asset/liability account must equal the running quantity (zero if none);
* a close must hit an open account all of whose positions are zero.

`strict = true` additionally demands that an assertion on a *non* asset/liability account asserts 0
(this is what the code does; the property text constrains asset/liability assertions only).
The result is either the final state or the offending directive.
-/
namespace Knut.Spec

structure LState where
  opened : List Account := []
  log : List Posting := []      -- asset/liability postings, oldest first

def qtyOf (log : List Posting) (a : Account) (c : Commodity) : Rat :=
  ((log.filter (fun p => p.account = a && p.commodity = c)).map (·.quantity)).sum

def allZero (log : List Posting) (a : Account) : Bool :=
  (log.filter (fun p => p.account = a)).all (fun p => qtyOf log a p.commodity = 0)

def stepOpen (s : LState) (o : Open) : Except Directive LState :=
  if s.opened.contains o.account then .error (.opening o) else .ok { s with opened := o.account :: s.opened }

def stepPosting (s : LState) (t : Transaction) (p : Posting) : Except Directive LState :=
  if !s.opened.contains p.account then .error (.tx t)
  else .ok (if p.account.isAL then { s with log := s.log ++ [p] } else s)

def stepBalance (strict : Bool) (s : LState) (a : Assertion) (b : Balance) : Except Directive LState :=
  if !s.opened.contains b.account then .error (.assertion a)
  else if b.account.isAL then
    (if qtyOf s.log b.account b.commodity = b.quantity then .ok s else .error (.assertion a))
  else if strict && b.quantity ≠ 0 then .error (.assertion a)
  else .ok s

def stepClose (s : LState) (c : Close) : Except Directive LState :=
  if !allZero s.log c.account then .error (.closing c)
  else if !s.opened.contains c.account then .error (.closing c)
  else .ok { s with opened := s.opened.filter (· ≠ c.account) }

def stepDay (strict : Bool) (s : LState) (d : Day) : Except Directive LState := do
  let s ← d.openings.foldlM stepOpen s
  let s ← d.transactions.foldlM (fun s t => t.postings.foldlM (fun s p => stepPosting s t p) s) s
  let s ← d.assertions.foldlM (fun s a => a.balances.foldlM (fun s b => stepBalance strict s a b) s) s
  d.closings.foldlM stepClose s

/-- the verdict: `ok` = well-formed, `error d` = first offending directive -/
def verdict (strict : Bool) (days : List Day) : Except Directive LState := days.foldlM (stepDay strict) {}

def wellFormed (days : List Day) : Bool := (verdict false days).isOk

end Knut.Spec
