package main

// Constructs of the Go→Lean translator that the printer of model directives (lib/journal/printer, journal.Print) needs (builder trans5):
//
//   io.Writer            the TEXT WRITTEN SO FAR (a Lean String), as strings.Builder: `w.Write(bs)` rebinds the writer to `w ++ bs` and
//                        answers (len(bs), nil).  The sink is an in-memory text: an error of the underlying writer (a closed pipe, a full
//                        disk) does not occur in this reading; the `if err != nil` branches of the translated code are present and dead.
//   []byte               the bytes of a (valid UTF-8) text, a Lean String: only passed on to Write (len, indexing, range are rejected)
//   fmt.Fprintf(p, f, …) for p of a translated struct type T with a translated method `Write([]byte) (int, error)`:
//   io.WriteString(p, s)   the call p.Write(<the formatted text>) — fmt formats into a buffer and calls Write exactly once; io.WriteString
//                        calls Write([]byte(s)) once when T has no method WriteString (checked).  State passing as for every pointer receiver.
//   format strings       constant; verbs %s and %v with the flags/width `-`, a decimal width, `*` (Fmt.pad / Fmt.padStar: padding counted in
//                        runes, |*| > 10^6 prints %!(BADWIDTH)); operands: strings, decimal.Decimal (its String method), values whose type
//                        has a translated method String() string (fmt calls it for %s and %v); %d of int
//   named results        locals that start at their zero values; every `return` must list its values (a bare return is rejected)
//   xs != nil            for the struct fields listed in trNilable, whose nil-ness the code observes: the field is `Option (List T)`
//                        (none = nil); it may only be read (as a list: nil reads as empty), compared with nil, copied from another such
//                        field, or set from nil / a slice literal / make([]T, 0)

import (
	"go/ast"
	"go/token"
	"go/types"
	"sort"
	"strconv"
	"strings"
)

func trStubEnsure(pkg, marker, decl string) {
	s := trStubs[pkg]
	if s == "" {
		s = "package " + pkg[strings.LastIndex(pkg, "/")+1:] + "\n"
	}
	if strings.Contains(s, marker) {
		trStubs[pkg] = s
		return
	}
	if strings.HasPrefix(decl, "import ") {
		// right after the package clause
		i := strings.Index(s, "\n")
		trStubs[pkg] = s[:i+1] + decl + "\n" + s[i+1:]
		return
	}
	if !strings.HasSuffix(s, "\n") {
		s += "\n"
	}
	trStubs[pkg] = s + decl + "\n"
}

func init() {
	trStubEnsure("io", "type Writer interface", "type Writer interface { Write(p []byte) (n int, err error) }")
	trStubEnsure("io", "func WriteString(", "func WriteString(w Writer, s string) (n int, err error)")
	trStubEnsure("fmt", `import "io"`, `import "io"`)
	trStubEnsure("fmt", "func Fprintf(", "func Fprintf(w io.Writer, format string, a ...any) (n int, err error)")
	trStubEnsure("strings", "func Join(", "func Join(elems []string, sep string) string")
	trStubEnsure("time", "func (t Time) Format(", "func (t Time) Format(layout string) string")

	trPrims["strings.Join"] = trPrim{lean: "Strings.Join"}
	trPrims["(time.Time).Format"] = trPrim{lean: "Time.FormatISO", args: func(c *trCtx, call *ast.CallExpr) []ast.Expr {
		// only the layout "2006-01-02" has a meaning in the prelude
		if tv := c.info().Types[call.Args[0]]; tv.Value == nil || tv.Value.ExactString() != `"2006-01-02"` {
			trFail(call.Args[0].Pos(), "Time.Format with a layout other than the constant \"2006-01-02\" is outside the subset")
		}
		return nil
	}}
	trPrims["(io.Writer).Write"] = trPrim{lean: "Writer.Write", mutRecv: true, results: true}
}

// ---------------------------------------------------------------------------------------------- io.Writer, []byte

func trIsWriter(ty types.Type) bool { return trIsNamed(ty, "io", "Writer") }

func trIsByteSlice(ty types.Type) bool {
	s, ok := ty.Underlying().(*types.Slice)
	if !ok {
		return false
	}
	b, ok := s.Elem().Underlying().(*types.Basic)
	return ok && b.Kind() == types.Uint8
}

// ---------------------------------------------------------------------------------------------- writer calls

// writerCallee: fmt.Fprintf(p, …) / io.WriteString(p, s) with p of a translated struct type that has a translated method Write:
// the method and the receiver expression
func (t *trTranslator) writerCallee(info *types.Info, x *ast.CallExpr) (*trFunc, ast.Expr) {
	sel, ok := trUnparen(x.Fun).(*ast.SelectorExpr)
	if !ok || len(x.Args) < 2 {
		return nil, nil
	}
	if _, isSel := info.Selections[sel]; isSel {
		return nil, nil
	}
	fo, _ := info.Uses[sel.Sel].(*types.Func)
	if fo == nil {
		return nil, nil
	}
	full := fo.FullName()
	if full != "fmt.Fprintf" && full != "io.WriteString" {
		return nil, nil
	}
	tv, ok := info.Types[x.Args[0]]
	if !ok || tv.Type == nil {
		return nil, nil
	}
	ty := tv.Type
	if p, ok := ty.Underlying().(*types.Pointer); ok {
		ty = p.Elem()
	}
	n, ok := ty.(*types.Named)
	if !ok {
		return nil, nil
	}
	ms := types.NewMethodSet(types.NewPointer(n))
	var write *types.Func
	for i := 0; i < ms.Len(); i++ {
		m, _ := ms.At(i).Obj().(*types.Func)
		if m == nil {
			continue
		}
		switch m.Name() {
		case "Write":
			write = m
		case "WriteString":
			if full == "io.WriteString" {
				return nil, nil // io.WriteString would call it instead of Write
			}
		}
	}
	if write == nil {
		return nil, nil
	}
	sig := write.Type().(*types.Signature)
	if sig.Params().Len() != 1 || !trIsByteSlice(sig.Params().At(0).Type()) || sig.Results().Len() != 2 ||
		!trIsInt(sig.Results().At(0).Type()) || !trIsError(sig.Results().At(1).Type()) {
		return nil, nil
	}
	tf := t.funcs[write.Origin()]
	if tf == nil {
		return nil, nil
	}
	return tf, x.Args[0]
}

// writerSynth: the call `recv.Write(text)` that a writer call stands for; the text is a synthetic expression node that carries
// the translated Lean term
func (c *trCtx) writerSynth(x *ast.CallExpr) *ast.CallExpr {
	tf, _ := c.t.writerCallee(c.info(), x)
	if tf == nil {
		return nil
	}
	sel := trUnparen(x.Fun).(*ast.SelectorExpr)
	var text string
	if sel.Sel.Name == "WriteString" {
		if len(x.Args) != 2 {
			trFail(x.Pos(), "io.WriteString with %d arguments", len(x.Args))
		}
		text = c.expr(x.Args[1])
	} else {
		text = c.sprintf(x, 1)
	}
	node := &ast.BasicLit{ValuePos: x.Pos(), Kind: token.STRING, Value: "\"<formatted text>\""}
	if c.synth == nil {
		c.synth = map[ast.Expr]string{}
	}
	c.synth[node] = text
	c.info().Types[node] = types.TypeAndValue{Type: types.Typ[types.String]}
	cc := *x
	cc.Args = []ast.Expr{node}
	return &cc
}

// ---------------------------------------------------------------------------------------------- formatting

// sprintf: the text that fmt formats for the constant format string x.Args[at] and the operands after it
func (c *trCtx) sprintf(x *ast.CallExpr, at int) string {
	if s, ok := c.floatSprintf(x, at); ok {
		return s // a verb f (trans_units_tablerender.go)
	}
	tv := c.info().Types[x.Args[at]]
	if tv.Value == nil {
		trFail(x.Pos(), "a non-constant format string is outside the subset")
	}
	format, _ := strconv.Unquote(tv.Value.ExactString())
	if x.Ellipsis != token.NoPos {
		trFail(x.Pos(), "call with … is outside the subset")
	}
	ops := x.Args[at+1:]
	var parts []string
	arg := 0
	lit := ""
	flush := func() {
		if lit != "" {
			parts = append(parts, trLeanStr(lit))
			lit = ""
		}
	}
	next := func() ast.Expr {
		if arg >= len(ops) {
			trFail(x.Pos(), "format %q: missing operand", format)
		}
		arg++
		return ops[arg-1]
	}
	for i := 0; i < len(format); i++ {
		if format[i] != '%' {
			lit += string(format[i])
			continue
		}
		i++
		if i >= len(format) {
			trFail(x.Pos(), "format %q ends in %%", format)
		}
		if format[i] == '%' {
			lit += "%"
			continue
		}
		minus := false
		if format[i] == '-' {
			minus = true
			i++
		}
		width, star := "", ""
		if i < len(format) && format[i] == '*' {
			w := next()
			if !trIsInt(c.typeOf(w)) || c.typeOf(w) != types.Typ[types.Int] {
				trFail(w.Pos(), "format %q: the operand of * is not an int", format)
			}
			star = c.expr(w)
			i++
		} else {
			for i < len(format) && format[i] >= '0' && format[i] <= '9' {
				if width == "" && format[i] == '0' {
					trFail(x.Pos(), "format %q: the flag 0 is outside the subset", format)
				}
				width += string(format[i])
				i++
			}
			if len(width) > 6 {
				trFail(x.Pos(), "format %q: width too large", format)
			}
		}
		if i >= len(format) {
			trFail(x.Pos(), "format %q ends inside a verb", format)
		}
		verb := format[i]
		var s string
		switch verb {
		case 's', 'v':
			s = c.fmtString(next(), verb)
		case 'd':
			o := next()
			if c.typeOf(o) != types.Typ[types.Int] {
				trFail(o.Pos(), "format %q: %%d with an operand of type %s is outside the subset", format, c.typeOf(o))
			}
			s = "(Strings.itoa " + c.expr(o) + ")"
		default:
			trFail(x.Pos(), "format %q: verb %%%c is outside the subset", format, verb)
		}
		flush()
		switch {
		case star != "":
			s = "(Fmt.padStar " + strconv.FormatBool(minus) + " " + star + " " + s + ")"
		case width != "":
			s = "(Fmt.pad " + strconv.FormatBool(minus) + " (" + width + " : Int) " + s + ")"
		case minus:
			// `%-s`: without a width the flag has no effect
		}
		parts = append(parts, s)
	}
	flush()
	if arg != len(ops) {
		trFail(x.Pos(), "format %q: extra operands (fmt would print %%!(EXTRA …))", format)
	}
	if len(parts) == 0 {
		return "\"\""
	}
	if len(parts) == 1 {
		return parts[0]
	}
	return "(" + strings.Join(parts, " ++ ") + ")"
}

// fmtString: what %s / %v print for the operand: a string itself; a Stringer through its String method (fmt's handleMethods)
func (c *trCtx) fmtString(o ast.Expr, verb byte) string {
	ty := c.typeOf(o)
	if b, ok := ty.(*types.Basic); ok && b.Info()&types.IsString != 0 {
		return c.expr(o)
	}
	if trIsDecimal(ty) {
		return "(Decimal.String " + c.expr(o) + ")"
	}
	if verb == 'v' && c.typeOf(o) == types.Typ[types.Int] {
		return "(Strings.itoa " + c.expr(o) + ")"
	}
	// a named type (or a pointer to one) with a translated method String() string; a named type with an Error method would
	// print that instead (checked: none)
	base := ty
	if p, ok := ty.Underlying().(*types.Pointer); ok {
		base = p.Elem()
	}
	if n, ok := base.(*types.Named); ok && n.Obj().Pkg() != nil {
		ms := types.NewMethodSet(ty)
		var str *types.Func
		for i := 0; i < ms.Len(); i++ {
			m, _ := ms.At(i).Obj().(*types.Func)
			if m == nil {
				continue
			}
			switch m.Name() {
			case "Error", "Format", "GoString":
				trFail(o.Pos(), "operand of type %s has a method %s: outside the subset", ty, m.Name())
			case "String":
				str = m
			}
		}
		if str != nil {
			sig := str.Type().(*types.Signature)
			tf := c.t.funcs[str.Origin()]
			if tf == nil || tf.effect || len(tf.mut) > 0 || tf.norder > 0 || sig.Params().Len() != 0 || sig.Results().Len() != 1 ||
				!isBasicKind(sig.Results().At(0).Type(), types.IsString) {
				trFail(o.Pos(), "operand of type %s: its method String is not a translated pure function", ty)
			}
			c.fn.deps = append(c.fn.deps, tf)
			return "(" + c.t.qname(c.unit(), tf.unit, tf.leanName) + " " + c.expr(o) + ")"
		}
	}
	trFail(o.Pos(), "verb %%%c with an operand of type %s is outside the subset", verb, ty)
	return ""
}

// stringerCallees: the String methods that the operands of the writer calls and Sprintf calls inside root use (for the call order)
func (t *trTranslator) fmtCallees(info *types.Info, x *ast.CallExpr) []*trFunc {
	sel, ok := trUnparen(x.Fun).(*ast.SelectorExpr)
	if !ok {
		return nil
	}
	fo, _ := info.Uses[sel.Sel].(*types.Func)
	if fo == nil || (fo.FullName() != "fmt.Fprintf" && fo.FullName() != "fmt.Sprintf") {
		return nil
	}
	var res []*trFunc
	for _, a := range x.Args {
		tv, ok := info.Types[a]
		if !ok || tv.Type == nil {
			continue
		}
		ms := types.NewMethodSet(tv.Type)
		for i := 0; i < ms.Len(); i++ {
			if m, _ := ms.At(i).Obj().(*types.Func); m != nil && m.Name() == "String" {
				if tf := t.funcs[m.Origin()]; tf != nil {
					res = append(res, tf)
				}
			}
		}
	}
	return res
}

// ---------------------------------------------------------------------------------------------- prelude methods with results

// primResultCall: `a, b := recv.M(args)` / `recv.M(args)` for a prelude method that writes to its receiver AND has results
// (io.Writer.Write): the Lean function returns the new receiver first
func (c *trCtx) primResultCall(call *ast.CallExpr, lhs []ast.Expr, define bool, k trK) (trLines, bool) {
	fo := c.calledFunc(call)
	if fo == nil {
		return nil, false
	}
	p, ok := trPrims[fo.FullName()]
	if !ok || !p.results {
		return nil, false
	}
	sel := trUnparen(call.Fun).(*ast.SelectorExpr)
	args := []string{c.expr(sel.X)}
	for _, a := range call.Args {
		args = append(args, c.expr(a))
	}
	nres := fo.Type().(*types.Signature).Results().Len()
	if len(lhs) != 0 && len(lhs) != nres {
		trFail(call.Pos(), "call of %s with %d results assigned to %d targets", fo.FullName(), nres, len(lhs))
	}
	pre := c.takePre()
	st := c.fresh("r")
	if define {
		for _, l := range lhs {
			c.declare(l)
		}
	}
	targets := append([]ast.Expr{sel.X}, lhs...)
	total := 1 + nres
	var body func(i int) trLines
	body = func(i int) trLines {
		if i == len(targets) {
			return k()
		}
		proj := st + strings.Repeat(".2", i)
		if i < total-1 {
			proj += ".1"
		}
		return c.store(targets[i], proj, call.Pos(), func() trLines { return body(i + 1) })
	}
	return trWrapPre(pre, trLet(st, "", trOne("("+p.lean+" "+strings.Join(args, " ")+")"), body(0))), true
}

// ---------------------------------------------------------------------------------------------- nilable slice fields

// trNilable: struct fields of slice type whose nil-ness the translated code observes (`t.Targets != nil` in the printer: a nil
// slice prints nothing, an empty one prints `@performance()`)
var trNilable = map[string]bool{
	trKnutPath + "lib/model/transaction.Transaction.Targets": true,
	trKnutPath + "lib/model/transaction.Builder.Targets":     true,
}

func trNilableField(recv types.Type, field string) bool {
	if p, ok := recv.Underlying().(*types.Pointer); ok {
		recv = p.Elem()
	}
	n, ok := recv.(*types.Named)
	if !ok || n.Obj().Pkg() == nil {
		return false
	}
	return trNilable[n.Obj().Pkg().Path()+"."+n.Obj().Name()+"."+field]
}

// nilableSel: e is the selection of a nilable field
func (c *trCtx) nilableSel(e ast.Expr) (*ast.SelectorExpr, bool) {
	sel, ok := trUnparen(e).(*ast.SelectorExpr)
	if !ok {
		return nil, false
	}
	s, ok := c.info().Selections[sel]
	if !ok || s.Kind() != types.FieldVal || len(s.Index()) != 1 {
		return nil, false
	}
	return sel, trNilableField(s.Recv(), sel.Sel.Name)
}

// nilableRaw: the Option value of the selection of a nilable field
func (c *trCtx) nilableRaw(sel *ast.SelectorExpr) string {
	c.leanType(c.info().Selections[sel].Recv(), sel.Pos())
	return c.expr(sel.X) + "." + trMangle(sel.Sel.Name)
}

// nilableValue: an expression stored into a nilable field
func (c *trCtx) nilableValue(e ast.Expr, fieldTy types.Type) string {
	if sel, ok := c.nilableSel(e); ok {
		return c.nilableRaw(sel)
	}
	lt := c.leanType(fieldTy, e.Pos())
	if c.isNil(e) {
		return "(none : Option " + lt + ")"
	}
	if r, ok := c.createNilableValue(e); ok {
		return r // a tracked slice variable (trans_units_create.go)
	}
	switch x := trUnparen(e).(type) {
	case *ast.CompositeLit:
		return "(some " + c.expr(x) + ")"
	case *ast.CallExpr:
		if id, ok := trUnparen(x.Fun).(*ast.Ident); ok {
			if b, ok := c.info().Uses[id].(*types.Builtin); ok && b.Name() == "make" {
				return "(some " + c.expr(x) + ")"
			}
		}
	}
	trFail(e.Pos(), "a field whose nil-ness is observed may only be set from nil, a slice literal, make or another such field: the nil-ness of this value is not tracked")
	return ""
}

// ============================================================================================== journal.Print (part 2)
//
//   compare.Sort(X, F)     as a statement, F a translated function: `X := ext<N> X` — sort.Slice is unstable, so WHICH permutation
//                          sorted by F comes back is not specified; it is a deterministic function of the slice, which becomes a
//                          parameter `ext<N> : List T → List T` (listed in the externals); the agreement theorems hold for every
//                          function that returns a permutation of its argument sorted by F
//   x := &T{F: func…}      a CLOSURE RECORD: a struct literal with function literals that assign captured variables (`p.UpdatePadding(t)`
//                          on the captured printer). The record is not a value in the translation; each literal becomes a definition
//                          `Fn.x.F (written captured…) (read captured…) (params…) : (written captured… × results)` (state passing).
//                          The variable may only be passed to an effect call
//   r := recv.M(args…)     an EFFECT CALL: M is a function of /repo that is not translated (journal.Journal.Process: cpr.Seq) and gets
//                          pointers to translated state — the receiver variable, closure records. What it does is not translated: the
//                          new values of everything it can write through (the receiver, the captured variables the records' literals
//                          assign) and its results are ONE extra parameter `ext<N> : (new values… × results…)` of the translated
//                          function; the agreement theorem fixes it to the hand-written meaning of the callee built from the
//                          translated literals. The written variables are rebound
//   f(x) with x *T for a parameter of a sum-type interface   the constructor of the dynamic type is applied (`Directive.Price pr`)
//   w io.Writer moved      `p := printer.New(w)` with New = `return &T{fld: w}`: from there on the sink lives in `p.fld`; w may not be
//                          used again; the translated function returns the final text of the sink first (as for every parameter that
//                          is written through)

const trCompareSort = trKnutPath + "lib/common/compare.Sort"

// sortStmtParts: the statement compare.Sort(X, F)
func (t *trTranslator) isSortStmt(info *types.Info, x *ast.CallExpr) bool {
	sel, ok := trUnparen(x.Fun).(*ast.SelectorExpr)
	if !ok || len(x.Args) != 2 {
		return false
	}
	if _, isSel := info.Selections[sel]; isSel {
		return false
	}
	fo, _ := info.Uses[sel.Sel].(*types.Func)
	return fo != nil && fo.Origin().FullName() == trCompareSort
}

func (c *trCtx) sortStmt(call *ast.CallExpr, k trK) (trLines, bool) {
	if !c.t.isSortStmt(c.info(), call) {
		return nil, false
	}
	fo := c.calledFunc(call)
	c.t.checkPinned(fo, call.Pos())
	// the comparator: a translated function
	var cmp *types.Func
	switch f := trUnparen(call.Args[1]).(type) {
	case *ast.Ident:
		cmp, _ = c.info().Uses[f].(*types.Func)
	case *ast.SelectorExpr:
		if _, isSel := c.info().Selections[f]; !isSel {
			cmp, _ = c.info().Uses[f.Sel].(*types.Func)
		}
	}
	if cmp == nil || c.t.funcs[cmp.Origin()] == nil {
		trFail(call.Pos(), "compare.Sort with a comparator that is not a translated function is outside the subset")
	}
	c.fn.deps = append(c.fn.deps, c.t.funcs[cmp.Origin()])
	lt := c.leanType(c.typeOf(call.Args[0]), call.Pos())
	ty := lt + " → " + lt
	c.norder++
	n := "ext" + itoa(c.norder)
	c.extraParams = append(c.extraParams, "("+n+" : "+ty+")")
	c.extraTypes = append(c.extraTypes, ty)
	c.externals = append(c.externals, n+" = "+trSrcText(c.t.l.fset, call)+" [sort.Slice as a function of the slice: SOME permutation sorted by "+cmp.FullName()+"]")
	return c.store(call.Args[0], "("+n+" "+c.expr(call.Args[0])+")", call.Pos(), k), true
}

// ---------------------------------------------------------------------------------------------- closure records

type trClosureRec struct {
	obj     types.Object
	lit     *ast.CompositeLit
	written []types.Object // captured variables that the literals assign (through or by rebinding), in declaration order
}

// closureRecLit: &T{F: func…, …} with at least one function literal that assigns a captured variable
func (c *trCtx) closureRecLit(e ast.Expr) *ast.CompositeLit {
	u, ok := trUnparen(e).(*ast.UnaryExpr)
	if !ok || u.Op != token.AND {
		return nil
	}
	cl, ok := u.X.(*ast.CompositeLit)
	if !ok || len(cl.Elts) == 0 {
		return nil
	}
	writes := false
	for _, el := range cl.Elts {
		kv, ok := el.(*ast.KeyValueExpr)
		if !ok {
			return nil
		}
		fl, ok := kv.Value.(*ast.FuncLit)
		if !ok {
			return nil
		}
		if len(c.assignedIn(fl.Body)) > 0 {
			writes = true
		}
	}
	if !writes {
		return nil
	}
	return cl
}

// closureRecOf: the closure record a local variable is defined as (`x := &T{…}` anywhere in the function), found syntactically
func (c *trCtx) closureRecOf(o types.Object) *trClosureRec {
	if o == nil || c.fn.decl == nil || c.fn.decl.Body == nil {
		return nil
	}
	var res *trClosureRec
	ast.Inspect(c.fn.decl.Body, func(n ast.Node) bool {
		as, ok := n.(*ast.AssignStmt)
		if !ok || as.Tok != token.DEFINE || len(as.Lhs) != 1 || len(as.Rhs) != 1 {
			return true
		}
		id, ok := as.Lhs[0].(*ast.Ident)
		if !ok || c.info().Defs[id] != o {
			return true
		}
		if cl := c.closureRecLit(as.Rhs[0]); cl != nil {
			rec := &trClosureRec{obj: o, lit: cl}
			seen := map[types.Object]bool{}
			for _, el := range cl.Elts {
				fl := el.(*ast.KeyValueExpr).Value.(*ast.FuncLit)
				for _, w := range c.assignedIn(fl.Body) {
					if !seen[w] {
						seen[w] = true
						rec.written = append(rec.written, w)
					}
				}
			}
			sort.Slice(rec.written, func(i, j int) bool { return rec.written[i].Pos() < rec.written[j].Pos() })
			res = rec
		}
		return false
	})
	return res
}

// closureRecStmt: `x := &T{F: func…}`: one definition per literal; x itself has no value
func (c *trCtx) closureRecStmt(x *ast.AssignStmt, k trK) (trLines, bool) {
	if x.Tok != token.DEFINE || len(x.Lhs) != 1 || len(x.Rhs) != 1 {
		return nil, false
	}
	id, ok := x.Lhs[0].(*ast.Ident)
	if !ok {
		return nil, false
	}
	rec := c.closureRecOf(c.info().Defs[id])
	if rec == nil {
		return nil, false
	}
	if c.loop != nil || c.inLambda > 0 {
		trFail(x.Pos(), "a closure record inside a loop is outside the subset")
	}
	isWritten := map[types.Object]bool{}
	for _, w := range rec.written {
		isWritten[w] = true
	}
	for _, el := range rec.lit.Elts {
		kv := el.(*ast.KeyValueExpr)
		field := kv.Key.(*ast.Ident).Name
		fl := kv.Value.(*ast.FuncLit)
		fsig, ok := c.typeOf(fl).(*types.Signature)
		if !ok || fsig.Variadic() {
			trFail(fl.Pos(), "this function literal is outside the subset")
		}
		cbFn := &trFunc{unit: c.fn.unit, pkg: c.fn.pkg, decl: c.fn.decl, obj: c.fn.obj, leanName: c.fn.leanName + "." + trMangle(id.Name) + "." + trMangle(field)}
		cbFn.effect = c.t.nodeEffect(c.fn.pkg, fl.Body)
		cc := &trCtx{t: c.t, fn: cbFn, names: map[types.Object]string{}, used: map[string]bool{"fuel": true}, opaqueParams: map[types.Object]bool{}, inCallback: true}
		// captured variables: the written ones first (the state), then the ones only read
		var ps []string
		var captured []types.Object
		for _, w := range rec.written {
			captured = append(captured, w)
		}
		usedHere := map[types.Object]bool{}
		ast.Inspect(fl.Body, func(n ast.Node) bool {
			if id, ok := n.(*ast.Ident); ok {
				if o := c.info().Uses[id]; o != nil {
					usedHere[o] = true
				}
			}
			return true
		})
		for _, o := range c.freeVars(nil, fl.Body) {
			if !isWritten[o] && usedHere[o] {
				captured = append(captured, o)
			}
		}
		for _, o := range captured {
			d := cc.paramDecl(o.(*types.Var), fl.Pos())
			if d == "" {
				trFail(fl.Pos(), "the closure captures %s, whose type is not translatable", o.Name())
			}
			ps = append(ps, d)
		}
		for i := 0; i < fsig.Params().Len(); i++ {
			d := cc.paramDecl(fsig.Params().At(i), fl.Pos())
			if d == "" {
				trFail(fl.Pos(), "a parameter of this function literal has an untranslatable type")
			}
			ps = append(ps, d)
		}
		through := map[types.Object]bool{}
		for _, o := range cc.assignedIn2(true, fl.Body) {
			through[o] = true
		}
		cbFn.mutObjs = append(cbFn.mutObjs, rec.written...)
		for i := 0; i < fsig.Params().Len(); i++ {
			v := fsig.Params().At(i)
			switch v.Type().Underlying().(type) {
			case *types.Pointer, *types.Map:
				if through[v] {
					cbFn.mut = append(cbFn.mut, i)
					cbFn.mutObjs = append(cbFn.mutObjs, v)
				}
			}
		}
		var rts []string
		for _, m := range cbFn.mutObjs {
			rts = append(rts, cc.leanType(m.Type(), fl.Pos()))
		}
		cc.nresults = fsig.Results().Len()
		for i := 0; i < fsig.Results().Len(); i++ {
			if fsig.Results().At(i).Name() != "" {
				trFail(fl.Pos(), "named results of a function literal are outside the subset")
			}
			cc.resultTypes = append(cc.resultTypes, fsig.Results().At(i).Type())
			rts = append(rts, cc.leanType(fsig.Results().At(i).Type(), fl.Pos()))
		}
		cbFn.resType = "Unit"
		if len(rts) == 1 {
			cbFn.resType = rts[0]
		} else if len(rts) > 1 {
			cbFn.resType = "(" + strings.Join(rts, " × ") + ")"
		}
		term := cc.stmts(fl.Body.List, func() trLines {
			if fsig.Results().Len() > 0 {
				trFail(fl.End(), "internal: control reaches the end of a closure with results")
			}
			return cc.returnTerm(nil, fl.End())
		})
		ps = append(ps, cc.extraParams...)
		if len(cc.extraParams) > 0 {
			trFail(fl.Pos(), "a closure of a closure record that needs extra parameters (map orders, untranslated calls) is outside the subset")
		}
		rt := cbFn.resType
		if cbFn.effect {
			rt = "Outcome " + rt
		}
		var names []string
		for _, w := range rec.written {
			names = append(names, w.Name())
		}
		var b strings.Builder
		for _, a := range cc.aux {
			b.WriteString(a + "\n")
		}
		b.WriteString("/-- Go: the closure `" + field + "` of the record `" + id.Name + "` in `" + c.fn.leanName + "` (" + c.t.l.relPos(fl.Pos()) +
			"); the captured variables it assigns (" + strings.Join(names, ", ") + ") are passed in and returned first -/\ndef " + cbFn.leanName + " " + strings.Join(ps, " ") + " : " + rt + " :=\n" +
			term.indent(2).String() + "\n")
		c.aux = append(c.aux, b.String())
		c.fn.deps = append(c.fn.deps, cbFn.deps...)
	}
	return k(), true
}

// ---------------------------------------------------------------------------------------------- effect calls

// effectCallWrites: for a call of an untranslated function of /repo that gets pointers to translated state: the variables it can
// write through (receiver variable first, then the written captured variables of the closure records among the arguments)
func (c *trCtx) effectCallWrites(x *ast.CallExpr) ([]types.Object, bool) {
	fo := c.calledFunc(x)
	if fo == nil || fo.Pkg() == nil || !strings.HasPrefix(fo.Pkg().Path(), trKnutPath) {
		return nil, false
	}
	if _, pinned := trPinned[fo.Origin().FullName()]; pinned || c.t.funcs[fo.Origin()] != nil {
		return nil, false
	}
	var writes []types.Object
	seen := map[types.Object]bool{}
	add := func(o types.Object) {
		if o != nil && !seen[o] {
			seen[o] = true
			writes = append(writes, o)
		}
	}
	hasRec := false
	for _, a := range x.Args {
		if id, ok := trUnparen(a).(*ast.Ident); ok {
			if rec := c.closureRecOf(c.info().Uses[id]); rec != nil {
				hasRec = true
			}
		}
	}
	if !hasRec {
		return nil, false
	}
	if sel, ok := trUnparen(x.Fun).(*ast.SelectorExpr); ok {
		if s, isSel := c.info().Selections[sel]; isSel && s.Kind() == types.MethodVal {
			if id, ok := trUnparen(sel.X).(*ast.Ident); ok {
				if v, ok := c.info().Uses[id].(*types.Var); ok {
					if _, isPtr := v.Type().Underlying().(*types.Pointer); isPtr {
						add(v)
					}
				}
			}
		}
	}
	for _, a := range x.Args {
		if id, ok := trUnparen(a).(*ast.Ident); ok {
			if rec := c.closureRecOf(c.info().Uses[id]); rec != nil {
				for _, w := range rec.written {
					add(w)
				}
			}
		}
	}
	return writes, true
}

// effectCall: `lhs… := recv.M(args…)` / `recv.M(args…)` for an effect call
func (c *trCtx) effectCall(call *ast.CallExpr, lhs []ast.Expr, define bool, k trK) (trLines, bool) {
	writes, ok := c.effectCallWrites(call)
	if !ok {
		return nil, false
	}
	if c.loop != nil || c.inLambda > 0 || c.inCallback {
		trFail(call.Pos(), "an effect call inside a loop or closure is outside the subset")
	}
	fo := c.calledFunc(call)
	// every argument: a closure record, or a call of a translated constructor of closures (which captures nothing of this function)
	for _, a := range call.Args {
		if id, ok := trUnparen(a).(*ast.Ident); ok && c.closureRecOf(c.info().Uses[id]) != nil {
			continue
		}
		if inner, ok := trUnparen(a).(*ast.CallExpr); ok && len(inner.Args) == 0 {
			if g := c.calledFunc(inner); g != nil && c.t.funcs[g.Origin()] != nil {
				if ret, _ := c.t.closureCtor(c.t.funcs[g.Origin()]); ret != nil {
					c.fn.deps = append(c.fn.deps, c.t.funcs[g.Origin()])
					continue
				}
			}
		}
		trFail(a.Pos(), "argument of the effect call %s: neither a closure record nor a call of a translated constructor of closures without arguments", fo.FullName())
	}
	var tys, names []string
	for _, w := range writes {
		tys = append(tys, c.leanType(w.Type(), call.Pos()))
		names = append(names, w.Name())
	}
	res := fo.Type().(*types.Signature).Results()
	if len(lhs) != 0 && len(lhs) != res.Len() {
		trFail(call.Pos(), "effect call with %d results assigned to %d targets", res.Len(), len(lhs))
	}
	for i := 0; i < res.Len(); i++ {
		tys = append(tys, c.leanType(res.At(i).Type(), call.Pos()))
	}
	ty := tys[0]
	if len(tys) > 1 {
		ty = "(" + strings.Join(tys, " × ") + ")"
	}
	c.norder++
	n := "ext" + itoa(c.norder)
	c.extraParams = append(c.extraParams, "("+n+" : "+ty+")")
	c.extraTypes = append(c.extraTypes, ty)
	c.externals = append(c.externals, n+" = "+trSrcText(c.t.l.fset, call)+" [EFFECT CALL of "+fo.FullName()+": the new values of "+strings.Join(names, ", ")+", then its results]")
	if define {
		for _, l := range lhs {
			c.declare(l)
		}
	}
	total := len(tys)
	proj := func(i int) string {
		if total == 1 {
			return n
		}
		p := n + strings.Repeat(".2", i)
		if i < total-1 {
			p += ".1"
		}
		return p
	}
	var body func(i int) trLines
	body = func(i int) trLines {
		if i < len(writes) {
			v := writes[i].(*types.Var)
			return trLet(c.local(v), c.leanType(v.Type(), call.Pos()), trOne(proj(i)), body(i+1))
		}
		j := i - len(writes)
		if j >= len(lhs) {
			return k()
		}
		return c.store(lhs[j], proj(i), call.Pos(), func() trLines { return body(i + 1) })
	}
	return body(0), true
}

// ---------------------------------------------------------------------------------------------- interface arguments

// ifaceArg: an argument of pointer type passed for a parameter of a sum-type interface: the constructor of its dynamic type
func (c *trCtx) ifaceArg(paramTy types.Type, a ast.Expr, s string) string {
	n, ok := paramTy.(*types.Named)
	if !ok || n.Obj().Pkg() == nil {
		return s
	}
	if _, isIface := n.Underlying().(*types.Interface); !isIface {
		return s
	}
	at := c.typeOf(a)
	if types.Identical(at, paramTy) {
		return s
	}
	if c.t.unitOfPkg(n.Obj().Pkg()) == nil {
		return s
	}
	for _, alt := range c.t.implementers(n) {
		if types.Identical(alt.typ, at) {
			return "(" + c.leanType(paramTy, a.Pos()) + "." + alt.ctor + " " + s + ")"
		}
	}
	trFail(a.Pos(), "a value of type %s passed as %s: not a declared implementer", at, paramTy)
	return s
}

// ---------------------------------------------------------------------------------------------- a writer parameter moved into a struct

type trWriterMove struct {
	param types.Object // the io.Writer parameter
	local types.Object // p of `p := F(w)`
	field string       // the field of p's struct that holds the writer
	stmt  *ast.AssignStmt
}

// movedField: F is a translated function `func F(w io.Writer) *T { return &T{fld: w} }`: the field
func (t *trTranslator) movedField(tf *trFunc) string {
	if tf == nil || tf.decl == nil || tf.decl.Body == nil || len(tf.decl.Body.List) != 1 {
		return ""
	}
	sig := tf.obj.Type().(*types.Signature)
	if sig.Params().Len() != 1 || !trIsWriter(sig.Params().At(0).Type()) {
		return ""
	}
	ret, ok := tf.decl.Body.List[0].(*ast.ReturnStmt)
	if !ok || len(ret.Results) != 1 {
		return ""
	}
	e := trUnparen(ret.Results[0])
	if u, ok := e.(*ast.UnaryExpr); ok && u.Op == token.AND {
		e = u.X
	}
	cl, ok := e.(*ast.CompositeLit)
	if !ok {
		return ""
	}
	field := ""
	for _, el := range cl.Elts {
		kv, ok := el.(*ast.KeyValueExpr)
		if !ok {
			return ""
		}
		if id, ok := trUnparen(kv.Value).(*ast.Ident); ok && tf.pkg.info.Uses[id] == sig.Params().At(0) {
			if field != "" {
				return ""
			}
			field = kv.Key.(*ast.Ident).Name
		}
	}
	return field
}

// writerMoveOf: the function moves its io.Writer parameter into a local struct with its first use (`p := F(w)`), and never uses it again
func (t *trTranslator) writerMoveOf(f *trFunc) *trWriterMove {
	if f.decl == nil || f.decl.Body == nil {
		return nil
	}
	sig := f.obj.Type().(*types.Signature)
	var w *types.Var
	for i := 0; i < sig.Params().Len(); i++ {
		if trIsWriter(sig.Params().At(i).Type()) {
			if w != nil {
				return nil
			}
			w = sig.Params().At(i)
		}
	}
	if w == nil {
		return nil
	}
	info := f.pkg.info
	uses := 0
	ast.Inspect(f.decl.Body, func(n ast.Node) bool {
		if id, ok := n.(*ast.Ident); ok && info.Uses[id] == w {
			uses++
		}
		return true
	})
	if uses != 1 {
		return nil
	}
	for _, s := range f.decl.Body.List {
		as, ok := s.(*ast.AssignStmt)
		if !ok || as.Tok != token.DEFINE || len(as.Lhs) != 1 || len(as.Rhs) != 1 {
			continue
		}
		call, ok := trUnparen(as.Rhs[0]).(*ast.CallExpr)
		if !ok || len(call.Args) != 1 {
			continue
		}
		id, ok := trUnparen(call.Args[0]).(*ast.Ident)
		if !ok || info.Uses[id] != w {
			continue
		}
		var fo *types.Func
		switch fn := trUnparen(call.Fun).(type) {
		case *ast.Ident:
			fo, _ = info.Uses[fn].(*types.Func)
		case *ast.SelectorExpr:
			if _, isSel := info.Selections[fn]; !isSel {
				fo, _ = info.Uses[fn.Sel].(*types.Func)
			}
		}
		if fo == nil {
			return nil
		}
		field := t.movedField(t.funcs[fo.Origin()])
		if field == "" {
			field = trCsvMovedField(fo) // csv.NewWriter(w) (trans_units_tablerender.go)
		}
		lid, ok := as.Lhs[0].(*ast.Ident)
		if field == "" || !ok {
			return nil
		}
		// the local must not be returned or stored (then the sink would outlive the function through it)
		local := info.Defs[lid]
		escapes := false
		ast.Inspect(f.decl.Body, func(n ast.Node) bool {
			if r, ok := n.(*ast.ReturnStmt); ok {
				for _, e := range r.Results {
					if id := trBaseIdent(e); id != nil && info.Uses[id] == local {
						escapes = true
					}
				}
			}
			return true
		})
		if escapes {
			return nil
		}
		return &trWriterMove{param: w, local: local, field: field, stmt: as}
	}
	return nil
}

// mutName: the current value of a parameter that is written through (the moved writer lives in a field of a local)
func (c *trCtx) mutName(m types.Object) string {
	if s, ok := c.csvDropped(m); ok {
		return s // the sink of a csv.Writer that is dropped (trans_units_tablerender.go)
	}
	if mv := c.writerMove; mv != nil && mv.param == m {
		if n, ok := c.names[mv.local]; ok {
			return n + "." + trMangle(mv.field)
		}
	}
	return c.names[m]
}

// ---------------------------------------------------------------------------------------------- if … { return } as a Flow join

// trFlowJoin: functions in which `if c { …return… }` followed by more statements is a JOIN in Flow (`match (if c then … Flow.ret v …
// else Flow.next st) with | Flow.ret v => v | Flow.next st => rest`) instead of the rest of the block continued inside both branches
// (which doubles the rest at every such `if`: journal.Print has one per directive kind).  Opt-in per function: the shape of the
// generated definitions of the functions translated before stays as their agreement proofs expect it.
var trFlowJoin = map[string]bool{
	trKnutPath + "lib/journal.Print": true,
}

// onlyReturnsLeave: the statements leave their block by `return` only (no break/continue of an enclosing loop, no panic)
func trOnlyReturnsLeave(nodes []ast.Node) bool {
	ok := true
	var visit func(n ast.Node, inLoop bool)
	visit = func(n ast.Node, inLoop bool) {
		ast.Inspect(n, func(m ast.Node) bool {
			switch x := m.(type) {
			case *ast.BranchStmt:
				if !inLoop {
					ok = false
				}
			case *ast.ExprStmt:
				if call, isCall := x.X.(*ast.CallExpr); isCall {
					if id, isID := call.Fun.(*ast.Ident); isID && id.Name == "panic" {
						ok = false
					}
				}
			case *ast.ForStmt:
				if m != n {
					visit(x.Body, true)
					return false
				}
			case *ast.RangeStmt:
				if m != n {
					visit(x.Body, true)
					return false
				}
			case *ast.FuncLit:
				return false
			}
			return true
		})
	}
	for _, n := range nodes {
		if n != nil && !isNilNode(n) {
			visit(n, false)
		}
	}
	return ok
}

func (c *trCtx) flowJoinWanted(nodes []ast.Node) bool {
	root := c.fn.leanName
	if i := strings.Index(root, "."); i >= 0 && c.fn.decl != nil && c.fn.decl.Recv == nil {
		root = root[:i]
	}
	return trFlowJoin[c.fn.pkg.path+"."+root] && !c.pureMode() && trOnlyReturnsLeave(nodes)
}

// flowJoin: `if cond { a } else { b }` (some path returns) followed by k
func (c *trCtx) flowJoin(cond string, a func(k trK) trLines, b func(k trK) trLines, nodes []ast.Node, pos token.Pos, k trK) trLines {
	vars := c.assignedIn(nodes...)
	tuple, _ := c.tupleOf(vars)
	effect := c.fn.effect
	saved := c.loop
	c.loop = &trLoopCtx{kind: "rangerec", flow: true, wrapOk: effect, outer: saved}
	next := func() trLines {
		if effect {
			return trOne("Outcome.ok (Flow.next " + tuple + ")")
		}
		return trOne("(Flow.next " + tuple + ")")
	}
	ta := a(next)
	tb := b(next)
	c.loop = saved
	t := trIte(cond, ta, tb)
	r := c.fresh("r")
	st := c.fresh("st")
	if len(vars) == 1 {
		st = c.names[vars[0]]
	}
	rest := c.unpack(st, vars, k())
	after := trLines{"match " + r + " with", "| Flow.ret v => " + c.retRaw("v", pos)[0], "| Flow.next " + st + " =>"}
	after = append(after, rest.indent(2)...)
	if !effect {
		return trLet(r, "", t, after)
	}
	out := trLines{"Outcome.bind ("}
	out = append(out, t.indent(2)...)
	out[len(out)-1] += ") (fun " + r + " =>"
	out = append(out, after.indent(2)...)
	out[len(out)-1] += ")"
	return out
}
