package main

// Go→Lean translator for the SYNTAX layer: lib/syntax/directives, lib/syntax/scanner, lib/syntax/parser, and lib/syntax/printer (the unit and
// what it adds — io.Writer, fmt.Fprintf, type switches — are in trans_syntax_printer.go).
//
// Same idea as trans*.go (definitions regenerated from /repo's source on every run, each proved equal to the hand-written model:
// lean/Knut/FactsAgree/TransScanner.lean, TransParser.lean … TransParser4.lean, ending in ParseFile_agrees), but a reading of Go of its own, because this layer needs what the
// model/journal layer excludes (lean/Knut/GoSem/Syntax.lean is its prelude):
//   string            its BYTES (Syn.GoString = List UInt8); constants are `Syn.lit "…"`; len / s[lo:hi] count bytes
//   rune              Int (compared and tested only); constants are folded ('-' is 45, scanner.EOF is -1)
//   error             the closed sum GoError = nil | io.EOF | directives.Error{Range, Message, Wrapped} (generated from the struct)
//   any               (the field Directive.Directive) the closed sum GoAny of the struct types the translated code stores there
//   func(rune) bool   a Lean function Int → Bool (parameters, names of translated pure functions, unicode.IsLetter/IsDigit,
//                     function literals that consist of one return)
//   func(T)           (the field Parser.Callback) Syn.Proc: nil or not; a CALL of it is no step of the translated function
//   embedded structs  a field named after the type; promoted fields and methods take the path through it
//   *T                the struct value; a pointer receiver that the body assigns through (directly or by the calls it makes) is
//                     returned first (state passing).  The one real alias of this layer, Scope.Scanner (a Scope points back to the
//                     scanner that made it), is left out of the struct: methods of Scope that read through it take the scanner as an
//                     explicit last argument, and the translator checks that a Scope only ever meets the scanner of the method it
//                     lives in (made by recv.Scope(…) or received as a parameter of a method called on the same receiver)
//   for loops         recursion on a counter that starts at the parameter `fuel : Nat` of the translated function (every function
//                     that loops or calls one that does has it, and passes it on unchanged); running out is the outcome `outOfFuel`;
//                     the agreement theorems hold for every fuel above the number of unread tokens, which proves the bound adequate
//   range             structural recursion over the elements (slices) resp. over the decoded runes (strings)
//   if / switch       when at most one branch can fall through, the rest of the block continues in that branch; when several can and
//                     some branch returns, the branches join in `Flow` (next state | return value)
//   directives.SetRange(&x, r)   pinned source text: x.Range = r; the value is x
// Everything else is rejected with file:line and the construct (`trans-reject <Module> <func>: …`), never approximated.

import (
	"fmt"
	"go/ast"
	"go/printer"
	"go/token"
	"go/types"
	"os"
	"path/filepath"
	"sort"
	"strings"
)

func init() {
	trStubs["unicode"] += "func IsLetter(r rune) bool\n"
	trStubs["unicode/utf8"] += "const RuneError = '\\uFFFD'\nfunc DecodeRuneInString(s string) (rune, int)\n"
	if trStubs["io"] == "" {
		trStubs["io"] = "package io\n"
	}
	trStubs["io"] += "var EOF error\n"
	trLeanKeywords["include"] = true
	trLeanKeywords["omit"] = true
}

type tsUnit struct {
	pkg   string
	mod   string
	funcs []string
}

var tsUnits = []*tsUnit{
	{pkg: "lib/syntax/directives", mod: "Directives", funcs: []string{"Range.Extract", "Range.Length", "Range.Extend", "Range.Empty"}},
	{pkg: "lib/syntax/scanner", mod: "Scanner", funcs: []string{
		"Scope.UpdateDesc", "Scope.Range", "Scope.Annotate", "New", "Scanner.Current", "Scanner.Offset", "Scanner.Advance", "Scanner.Scope",
		"Scanner.Backtrack", "Scanner.ReadWhile", "Scanner.ReadWhile1", "Scanner.ReadUntil", "Scanner.ReadCharacter", "Scanner.ReadCharacterWith",
		"Scanner.ReadString", "Scanner.ReadAlternative", "format", "Scanner.ReadN",
	}},
	{pkg: "lib/syntax/parser", mod: "Parser", funcs: []string{
		"isAlphanumeric", "isWhitespace", "isWhitespaceOrNewline", "isNewline", "isNewlineOrEOF", "New",
		"Parser.readComment", "Parser.readWhitespace1", "Parser.readRestOfWhitespaceLine",
		"Parser.parseDate", "Parser.parseDecimal", "Parser.parseCommodity", "Parser.parseAccount", "Parser.parseQuotedString", "Parser.parseInterval",
		"Parser.parseBooking", "Parser.parseBalance", "Parser.parsePerformance", "Parser.parseAccrual", "Parser.parseAddons",
		"Parser.parseTransaction", "Parser.parseOpen", "Parser.parseClose", "Parser.parseAssertion", "Parser.parsePrice", "Parser.parseInclude",
		"Parser.parseDirective", "Parser.ParseFile",
	}},
}

// struct fields that point back to the object that created the value (see the header)
var tsAliasFields = map[string]string{
	trKnutPath + "lib/syntax/scanner.Scope": "Scanner",
}

// the struct type that implements `error` in this layer
const tsErrorStruct = trKnutPath + "lib/syntax/directives.Error"

// pinned helpers (go/printer text, whitespace-normalised)
var tsPinned = map[string]string{
	trKnutPath + "lib/syntax/directives.SetRange":          "func SetRange[T any, P interface { *T SetRange(Range) }](t P, r Range) T { t.SetRange(r) return *t }",
	"(*" + trKnutPath + "lib/syntax/directives.Range).SetRange": "func (r *Range) SetRange(r2 Range) { *r = r2 }",
}

type tsFunc struct {
	unit     *tsUnit
	pkg      *trPkg
	decl     *ast.FuncDecl
	obj      *types.Func
	leanName string
	params   []*types.Var // receiver first
	effect   bool         // result in the Outcome monad
	fuel     bool         // takes the parameter fuel
	alias    bool         // method of a struct with an alias field that reads through it: takes the aliased object as last argument
	mut      []int        // indices into params: pointer parameters assigned through
	rejected *trReject
	text     string
	resType  string
}

type tsT struct {
	l        *trLoader
	funcs    map[*types.Func]*tsFunc
	byUnit   map[*tsUnit][]*tsFunc
	unitOf   map[string]*tsUnit
	decls    map[*tsUnit][]string
	declSeen map[types.Object]bool
	imports  map[*tsUnit]map[*tsUnit]bool
	anyTypes []*types.Named
	anyDone  bool
	errDone  bool
	rejects  []string
}

func (t *tsT) ns(u *tsUnit) string {
	return "Knut.Generated.Go." + trMangle(u.pkg[strings.LastIndex(u.pkg, "/")+1:])
}

// fully qualified Lean name of a declaration of unit u (always qualified: a field or a method may carry the name of a type)
func (t *tsT) qname(from, u *tsUnit, name string) string {
	if from != u {
		if t.imports[from] == nil {
			t.imports[from] = map[*tsUnit]bool{}
		}
		t.imports[from][u] = true
	}
	return t.ns(u) + "." + name
}

func (t *tsT) unitOfPkg(p *types.Package) *tsUnit {
	if p == nil {
		return nil
	}
	return t.unitOf[p.Path()]
}

func (t *tsT) dirUnit() *tsUnit { return t.unitOf[trKnutPath+"lib/syntax/directives"] }

// ---------------------------------------------------------------------------------------------- types

func tsIsIntLike(ty types.Type) bool {
	b, ok := ty.Underlying().(*types.Basic)
	if !ok {
		return false
	}
	switch b.Kind() {
	case types.Int, types.Int64, types.Int32, types.UntypedInt, types.UntypedRune:
		return true
	}
	return false
}

func tsIsString(ty types.Type) bool {
	b, ok := ty.Underlying().(*types.Basic)
	return ok && b.Info()&types.IsString != 0
}

func tsIsBool(ty types.Type) bool {
	b, ok := ty.Underlying().(*types.Basic)
	return ok && b.Info()&types.IsBoolean != 0
}

func tsIsEmptyInterface(ty types.Type) bool {
	i, ok := ty.Underlying().(*types.Interface)
	return ok && i.NumMethods() == 0 && !trIsError(ty)
}

func tsIsBuilder(ty types.Type) bool {
	if p, ok := ty.(*types.Pointer); ok {
		ty = p.Elem()
	}
	return trIsNamed(ty, "strings", "Builder")
}

// a function type without results: a callback
func tsIsProc(ty types.Type) bool {
	s, ok := ty.Underlying().(*types.Signature)
	return ok && s.Results().Len() == 0
}

func tsNamedOf(ty types.Type) *types.Named {
	if p, ok := ty.(*types.Pointer); ok {
		ty = p.Elem()
	}
	n, _ := ty.(*types.Named)
	return n
}

func tsFullName(n *types.Named) string {
	if n == nil || n.Obj().Pkg() == nil {
		return ""
	}
	return n.Obj().Pkg().Path() + "." + n.Obj().Name()
}

func (t *tsT) leanType(from *tsUnit, ty types.Type, pos token.Pos) string {
	if trIsError(ty) {
		t.needError(pos)
		return t.qname(from, t.dirUnit(), "GoError")
	}
	if tsIsBuilder(ty) {
		return "Syn.GoString"
	}
	if s := tspLeanType(ty); s != "" { // io.Writer, []byte (trans_syntax_printer.go)
		return s
	}
	if s := t.tsbLeanType(from, ty, pos); s != "" { // maps, named string and map types, sets, float64 (trans_syntax_bayes.go)
		return s
	}
	switch x := ty.(type) {
	case *types.Basic:
		switch {
		case tsIsIntLike(x):
			return "Int"
		case tsIsBool(x):
			return "Bool"
		case tsIsString(x):
			return "Syn.GoString"
		}
	case *types.Named:
		if x.Obj().Pkg() == nil {
			break
		}
		u := t.unitOfPkg(x.Obj().Pkg())
		if u == nil {
			trFail(pos, "type %s belongs to a package that is not translated", x)
		}
		if x.TypeArgs() != nil && x.TypeArgs().Len() > 0 {
			trFail(pos, "generic type %s is outside the subset", x)
		}
		t.needType(u, x, pos)
		return t.qname(from, u, trMangle(x.Obj().Name()))
	case *types.Pointer:
		if n, ok := x.Elem().(*types.Named); ok {
			if _, ok := n.Underlying().(*types.Struct); ok {
				return t.leanType(from, n, pos)
			}
		}
	case *types.Slice:
		return "(List " + t.leanType(from, x.Elem(), pos) + ")"
	case *types.Interface:
		if x.NumMethods() == 0 {
			t.needAny(pos)
			return t.qname(from, t.dirUnit(), "GoAny")
		}
	case *types.Signature:
		if x.Results().Len() == 0 {
			return "Syn.Proc"
		}
		if x.Variadic() || x.Results().Len() != 1 {
			break
		}
		var parts []string
		for i := 0; i < x.Params().Len(); i++ {
			parts = append(parts, t.leanType(from, x.Params().At(i).Type(), pos))
		}
		parts = append(parts, t.leanType(from, x.Results().At(0).Type(), pos))
		return "(" + strings.Join(parts, " → ") + ")"
	case *types.Tuple:
		if x.Len() == 0 {
			return "Unit"
		}
		parts := make([]string, x.Len())
		for i := 0; i < x.Len(); i++ {
			parts[i] = t.leanType(from, x.At(i).Type(), pos)
		}
		if len(parts) == 1 {
			return parts[0]
		}
		return "(" + strings.Join(parts, " × ") + ")"
	}
	trFail(pos, "type %s is outside the subset", ty)
	return ""
}

// needType emits the structure of a named struct type of a translated package
func (t *tsT) needType(u *tsUnit, n *types.Named, pos token.Pos) {
	obj := n.Obj()
	if t.declSeen[obj] {
		return
	}
	t.declSeen[obj] = true
	st, ok := n.Underlying().(*types.Struct)
	if !ok {
		trFail(pos, "declaration of type %s (%s) is outside the subset", obj.Name(), n.Underlying())
	}
	if tsFullName(n) == tsErrorStruct {
		trFail(pos, "the struct %s is used as a value of its own (it is translated as a case of the error sum only)", obj.Name())
	}
	alias := tsAliasFields[tsFullName(n)]
	var fields, zeros []string
	note := ""
	for i := 0; i < st.NumFields(); i++ {
		f := st.Field(i)
		if f.Name() == alias && alias != "" {
			if _, isPtr := f.Type().(*types.Pointer); !isPtr {
				trFail(f.Pos(), "the alias field %s.%s is no longer a pointer", obj.Name(), f.Name())
			}
			note = "; the field " + f.Name() + " (a pointer back to the object that made the value) is an explicit argument of the methods that read through it"
			continue
		}
		ft := t.leanType(u, f.Type(), f.Pos())
		fields = append(fields, fmt.Sprintf("  %s : %s", trMangle(f.Name()), ft))
		zeros = append(zeros, fmt.Sprintf("%s := GoZero.zero", trMangle(f.Name())))
	}
	if alias != "" && note == "" {
		trFail(pos, "the alias field %s.%s does not exist any more", obj.Name(), alias)
	}
	name := trMangle(obj.Name())
	var b strings.Builder
	fmt.Fprintf(&b, "/-- Go: `type %s struct` (%s)%s -/\nstructure %s where\n%s  deriving DecidableEq, Repr\n", obj.Name(), t.l.relPos(obj.Pos()), note, name, trJoinLines(fields))
	fmt.Fprintf(&b, "instance : GoZero %s := ⟨{ %s }⟩\n", name, strings.Join(zeros, ", "))
	t.decls[u] = append(t.decls[u], b.String())
}

// needError emits the sum GoError from the declaration of directives.Error
func (t *tsT) needError(pos token.Pos) {
	if t.errDone {
		return
	}
	t.errDone = true
	u := t.dirUnit()
	p, err := t.l.load(trKnutPath + u.pkg)
	if err != nil {
		trFail(pos, "cannot load %s: %v", u.pkg, err)
	}
	tn, _ := p.tpkg.Scope().Lookup("Error").(*types.TypeName)
	if tn == nil {
		trFail(pos, "directives.Error not found")
	}
	st, ok := tn.Type().Underlying().(*types.Struct)
	if !ok {
		trFail(pos, "directives.Error is not a struct")
	}
	t.declSeen[tn] = true
	var args []string
	for i := 0; i < st.NumFields(); i++ {
		f := st.Field(i)
		ft := "GoError"
		if !trIsError(f.Type()) {
			ft = t.leanType(u, f.Type(), f.Pos())
		}
		args = append(args, fmt.Sprintf("(%s : %s)", trMangle(f.Name()), ft))
	}
	var b strings.Builder
	fmt.Fprintf(&b, "/-- Go: the interface `error`, closed over the values the translated code creates: `nil`, the variable `io.EOF`,\n`directives.Error` (%s), whose fields are the arguments of `Error`, and the result of `fmt.Errorf` (its constant format only) -/\n", t.l.relPos(tn.Pos()))
	fmt.Fprintf(&b, "inductive GoError where\n  | nil\n  | io_EOF\n  | Error %s\n  | fmt_Errorf (format : Syn.GoString)\n  deriving DecidableEq, Repr\ninstance : GoZero GoError := ⟨GoError.nil⟩\n", strings.Join(args, " "))
	t.decls[u] = append(t.decls[u], b.String())
}

// errorFields: the fields of directives.Error in declaration order
func (t *tsT) errorFields(pos token.Pos) []*types.Var {
	p, err := t.l.load(tsErrorStruct[:strings.LastIndex(tsErrorStruct, ".")])
	if err != nil {
		trFail(pos, "cannot load the package of directives.Error")
	}
	tn, _ := p.tpkg.Scope().Lookup("Error").(*types.TypeName)
	st := tn.Type().Underlying().(*types.Struct)
	var fs []*types.Var
	for i := 0; i < st.NumFields(); i++ {
		fs = append(fs, st.Field(i))
	}
	return fs
}

// needAny emits the sum GoAny of the struct types the translated functions convert to `any`
func (t *tsT) needAny(pos token.Pos) {
	if t.anyDone {
		return
	}
	t.anyDone = true
	u := t.dirUnit()
	var b strings.Builder
	b.WriteString("/-- Go: the interface `any` in the translated code (the field `Directive.Directive`), closed over the struct types that the\ntranslated functions store there -/\ninductive GoAny where\n  | nil\n")
	for _, n := range t.anyTypes {
		nu := t.unitOfPkg(n.Obj().Pkg())
		if nu != u {
			trFail(pos, "a value of type %s of another package is stored in an `any`: outside the subset", n)
		}
		t.needType(u, n, pos)
		fmt.Fprintf(&b, "  | %s (v : %s)\n", trMangle(n.Obj().Name()), t.qname(u, u, trMangle(n.Obj().Name())))
	}
	b.WriteString("  deriving DecidableEq, Repr\ninstance : GoZero GoAny := ⟨GoAny.nil⟩\n")
	t.decls[u] = append(t.decls[u], b.String())
}

func (t *tsT) checkPinned(full string, pos token.Pos) {
	want, ok := tsPinned[full]
	if !ok {
		trFail(pos, "internal: %s is not pinned", full)
	}
	for _, p := range t.l.pkgs {
		if p.tpkg == nil {
			continue
		}
		for _, file := range p.files {
			for _, d := range file.Decls {
				fd, ok := d.(*ast.FuncDecl)
				if !ok {
					continue
				}
				fo, _ := p.info.Defs[fd.Name].(*types.Func)
				if fo == nil || fo.FullName() != full {
					continue
				}
				var b strings.Builder
				cp := *fd
				cp.Doc = nil
				if err := printer.Fprint(&b, t.l.fset, &cp); err != nil {
					trFail(pos, "%s: %v", full, err)
				}
				got := strings.Join(strings.Fields(b.String()), " ")
				if got != want {
					trFail(pos, "the source of %s changed (the translator gives a meaning to `%s` only): %s", full, want, got)
				}
				return
			}
		}
	}
	trFail(pos, "%s: declaration not found", full)
}

// ---------------------------------------------------------------------------------------------- analysis of the functions

func (t *tsT) findFunc(p *trPkg, name string) *ast.FuncDecl {
	recv, fn := "", name
	if i := strings.Index(name, "."); i >= 0 {
		recv, fn = name[:i], name[i+1:]
	}
	for _, f := range p.files {
		for _, d := range f.Decls {
			fd, ok := d.(*ast.FuncDecl)
			if !ok || fd.Name.Name != fn {
				continue
			}
			r := ""
			if fd.Recv != nil && len(fd.Recv.List) == 1 {
				rt := fd.Recv.List[0].Type
				if st, ok := rt.(*ast.StarExpr); ok {
					rt = st.X
				}
				if id, ok := rt.(*ast.Ident); ok {
					r = id.Name
				}
			}
			if r == recv {
				return fd
			}
		}
	}
	return nil
}

// calledFunc: the function object a call refers to (nil for function values, builtins, conversions)
func tsCalledFunc(info *types.Info, x *ast.CallExpr) *types.Func {
	switch f := trUnparen(x.Fun).(type) {
	case *ast.Ident:
		fo, _ := info.Uses[f].(*types.Func)
		return fo
	case *ast.SelectorExpr:
		if sel, ok := info.Selections[f]; ok {
			fo, _ := sel.Obj().(*types.Func)
			return fo
		}
		fo, _ := info.Uses[f.Sel].(*types.Func)
		return fo
	}
	return nil
}

func (t *tsT) callees(f *tsFunc) []*tsFunc {
	var res []*tsFunc
	ast.Inspect(f.decl.Body, func(n ast.Node) bool {
		if call, ok := n.(*ast.CallExpr); ok {
			if fo := tsCalledFunc(f.pkg.info, call); fo != nil {
				if g := t.funcs[fo.Origin()]; g != nil && tsbExternal[fo.Origin().FullName()] == "" {
					res = append(res, g)
				}
			}
		}
		return true
	})
	return res
}

func (t *tsT) directEffect(f *tsFunc) bool {
	eff := false
	info := f.pkg.info
	ast.Inspect(f.decl.Body, func(n ast.Node) bool {
		switch x := n.(type) {
		case *ast.ForStmt, *ast.SliceExpr, *ast.IndexExpr:
			eff = true
		case *ast.CallExpr:
			if id, ok := trUnparen(x.Fun).(*ast.Ident); ok {
				if b, ok := info.Uses[id].(*types.Builtin); ok && b.Name() == "panic" {
					eff = true
				}
			}
			if fo := tsCalledFunc(info, x); fo != nil && tspEffectCall(fo.FullName()) {
				eff = true
			}
			if fo := tsCalledFunc(info, x); fo != nil && fo.FullName() == "fmt.Sprintf" && len(x.Args) > 0 {
				if tv := info.Types[x.Args[0]]; tv.Value != nil && strings.Contains(tv.Value.ExactString(), "%q") {
					eff = true
				}
			}
		}
		return true
	})
	return eff
}

func (t *tsT) directFuel(f *tsFunc) bool {
	found := false
	ast.Inspect(f.decl.Body, func(n ast.Node) bool {
		if _, ok := n.(*ast.ForStmt); ok {
			found = true
		}
		return true
	})
	return found
}

// aliasFieldOf: the alias field of the struct type of ty ("" if none)
func tsAliasFieldOf(ty types.Type) string {
	return tsAliasFields[tsFullName(tsNamedOf(ty))]
}

func (t *tsT) directAlias(f *tsFunc) bool {
	found := false
	info := f.pkg.info
	ast.Inspect(f.decl.Body, func(n ast.Node) bool {
		if sel, ok := n.(*ast.SelectorExpr); ok {
			if s, ok := info.Selections[sel]; ok && s.Kind() == types.FieldVal {
				if a := tsAliasFieldOf(s.Recv()); a != "" && sel.Sel.Name == a {
					found = true
				}
			}
		}
		return true
	})
	return found
}

// baseIdent: x for x, x.f, (*x).f, &x
func tsBaseIdent(e ast.Expr) *ast.Ident {
	for {
		switch x := e.(type) {
		case *ast.Ident:
			return x
		case *ast.SelectorExpr:
			e = x.X
		case *ast.ParenExpr:
			e = x.X
		case *ast.StarExpr:
			e = x.X
		case *ast.IndexExpr: // xs[i].f = v, m[k] = v assign to xs, m (trans_syntax_bayes.go)
			e = x.X
		case *ast.UnaryExpr:
			if x.Op != token.AND {
				return nil
			}
			e = x.X
		default:
			return nil
		}
	}
}

// assignedObjs: the variables whose value (or a part of it) the nodes change: assignments, ++/--, calls of translated functions
// that assign through the argument bound to a pointer parameter, strings.Builder writes, directives.SetRange(&x, …)
func (t *tsT) assignedObjs(info *types.Info, nodes ...ast.Node) map[types.Object]bool {
	assigned := map[types.Object]bool{}
	mark := func(e ast.Expr) {
		id := tsBaseIdent(e)
		if id == nil || id.Name == "_" {
			return
		}
		if o, ok := info.Uses[id].(*types.Var); ok && !(o.Pkg() != nil && o.Parent() == o.Pkg().Scope()) {
			assigned[o] = true
		}
	}
	for _, n := range nodes {
		if n == nil || isNilNode(n) {
			continue
		}
		ast.Inspect(n, func(n ast.Node) bool {
			switch x := n.(type) {
			case *ast.AssignStmt:
				for _, l := range x.Lhs {
					if id, ok := l.(*ast.Ident); ok && x.Tok == token.DEFINE && info.Defs[id] != nil {
						continue
					}
					mark(l)
				}
			case *ast.IncDecStmt:
				mark(x.X)
			case *ast.CallExpr:
				tsbMark(info, x, mark)
				fo := tsCalledFunc(info, x)
				if fo == nil {
					return true
				}
				full := fo.FullName()
				tspMarkWriter(info, x, full, mark)
				if full == "(*strings.Builder).WriteString" {
					if sel, ok := trUnparen(x.Fun).(*ast.SelectorExpr); ok {
						mark(sel.X)
					}
				}
				if _, ok := tsPinned[fo.Origin().FullName()]; ok && fo.Name() == "SetRange" && len(x.Args) == 2 {
					mark(x.Args[0])
				}
				if g := t.funcs[fo.Origin()]; g != nil {
					for _, mi := range g.mut {
						if g.decl.Recv != nil {
							if mi == 0 {
								if sel, ok := trUnparen(x.Fun).(*ast.SelectorExpr); ok {
									mark(sel.X)
								}
								continue
							}
							mi--
						}
						if mi < len(x.Args) {
							mark(x.Args[mi])
						}
					}
				}
			case *ast.FuncLit:
				return false
			}
			return true
		})
	}
	return assigned
}

func (t *tsT) mutParams(f *tsFunc) {
	assigned := t.assignedObjs(f.pkg.info, f.decl.Body)
	f.mut = nil
	for i, p := range f.params {
		if _, ok := p.Type().Underlying().(*types.Pointer); ok && assigned[p] {
			f.mut = append(f.mut, i)
		}
	}
}

// ---------------------------------------------------------------------------------------------- driver

func tsRun(repo string) (map[string]string, []string) {
	l := newTrLoader(repo)
	t := &tsT{l: l, funcs: map[*types.Func]*tsFunc{}, byUnit: map[*tsUnit][]*tsFunc{}, unitOf: map[string]*tsUnit{},
		decls: map[*tsUnit][]string{}, declSeen: map[types.Object]bool{}, imports: map[*tsUnit]map[*tsUnit]bool{}}
	for _, u := range tsUnits {
		t.unitOf[trKnutPath+u.pkg] = u
	}
	for _, u := range tsUnits {
		p, err := l.load(trKnutPath + u.pkg)
		if err != nil {
			t.rejects = append(t.rejects, fmt.Sprintf("trans-reject %s *: cannot load package %s: %v", u.mod, u.pkg, err))
			continue
		}
		for _, name := range u.funcs {
			fd := t.findFunc(p, name)
			if fd == nil {
				t.rejects = append(t.rejects, fmt.Sprintf("trans-reject %s %s: function not found in %s", u.mod, name, u.pkg))
				continue
			}
			obj, _ := p.info.Defs[fd.Name].(*types.Func)
			if obj == nil {
				t.rejects = append(t.rejects, fmt.Sprintf("trans-reject %s %s: no type information", u.mod, name))
				continue
			}
			parts := strings.Split(name, ".")
			for i := range parts {
				parts[i] = trMangle(parts[i])
			}
			f := &tsFunc{unit: u, pkg: p, decl: fd, obj: obj, leanName: strings.Join(parts, ".")}
			sig := obj.Type().(*types.Signature)
			if sig.Recv() != nil {
				f.params = append(f.params, sig.Recv())
			}
			for i := 0; i < sig.Params().Len(); i++ {
				f.params = append(f.params, sig.Params().At(i))
			}
			t.funcs[obj] = f
			t.byUnit[u] = append(t.byUnit[u], f)
		}
	}
	var all []*tsFunc
	for _, u := range tsUnits {
		all = append(all, t.byUnit[u]...)
	}
	// the struct types stored in an `any`, over all functions
	seenAny := map[string]bool{}
	for _, f := range all {
		if f.decl.Body == nil {
			continue
		}
		info := f.pkg.info
		note := func(target types.Type, val ast.Expr, vty types.Type) {
			if target == nil || !tsIsEmptyInterface(target) {
				return
			}
			if vty == nil {
				if tv, ok := info.Types[val]; ok {
					vty = tv.Type
				}
			}
			if n, ok := vty.(*types.Named); ok {
				if _, isStruct := n.Underlying().(*types.Struct); isStruct && !seenAny[tsFullName(n)] {
					seenAny[tsFullName(n)] = true
					t.anyTypes = append(t.anyTypes, n)
				}
			}
		}
		ast.Inspect(f.decl.Body, func(n ast.Node) bool {
			as, ok := n.(*ast.AssignStmt)
			if !ok {
				return true
			}
			if len(as.Lhs) == len(as.Rhs) {
				for i, lhs := range as.Lhs {
					if tv, ok := info.Types[lhs]; ok {
						note(tv.Type, as.Rhs[i], nil)
					}
				}
			} else if len(as.Rhs) == 1 {
				if tup, ok := info.Types[as.Rhs[0]].Type.(*types.Tuple); ok && tup.Len() == len(as.Lhs) {
					for i, lhs := range as.Lhs {
						if tv, ok := info.Types[lhs]; ok {
							note(tv.Type, nil, tup.At(i).Type())
						}
					}
				}
			}
			return true
		})
	}
	sort.Slice(t.anyTypes, func(i, j int) bool { return t.anyTypes[i].Obj().Name() < t.anyTypes[j].Obj().Name() })
	// parameters assigned through, effects, fuel, alias arguments: fixpoints over the call graph
	for changed := true; changed; {
		changed = false
		for _, f := range all {
			n := len(f.mut)
			t.mutParams(f)
			if len(f.mut) != n {
				changed = true
			}
		}
	}
	for _, f := range all {
		f.effect = t.directEffect(f)
		f.fuel = t.directFuel(f)
		f.alias = t.directAlias(f)
	}
	for changed := true; changed; {
		changed = false
		for _, f := range all {
			for _, g := range t.callees(f) {
				if g.effect && !f.effect {
					f.effect, changed = true, true
				}
				if g.fuel && !f.fuel {
					f.fuel, changed = true, true
				}
				if g.alias && !f.alias && len(f.params) > 0 && f.decl.Recv != nil && tsAliasFieldOf(f.params[0].Type()) != "" {
					f.alias, changed = true, true
				}
			}
		}
	}
	// translate in call order (callees first); a rejected callee rejects its callers
	done := map[*tsFunc]bool{}
	order := map[*tsUnit][]*tsFunc{}
	var visit func(f *tsFunc, stack map[*tsFunc]bool)
	visit = func(f *tsFunc, stack map[*tsFunc]bool) {
		if done[f] {
			return
		}
		if stack[f] {
			f.rejected = &trReject{f.decl.Pos(), "recursive function is outside the subset"}
			return
		}
		stack[f] = true
		for _, g := range t.callees(f) {
			if g != f {
				visit(g, stack)
			} else {
				f.rejected = &trReject{f.decl.Pos(), "recursive function is outside the subset"}
			}
		}
		delete(stack, f)
		if done[f] {
			return
		}
		done[f] = true
		if f.rejected == nil {
			for _, g := range t.callees(f) {
				if g.rejected != nil {
					f.rejected = &trReject{f.decl.Pos(), "calls " + g.leanName + ", which is rejected"}
				}
			}
		}
		if f.rejected == nil {
			t.translateFunc(f)
		}
		order[f.unit] = append(order[f.unit], f)
	}
	for _, f := range all {
		visit(f, map[*tsFunc]bool{})
	}
	// output
	files := map[string]string{}
	var index strings.Builder
	index.WriteString("/- GENERATED by `harness extract` (harness/trans_syntax*.go) on every run of bin/check. Do not edit. -/\nnamespace Knut.Generated.TransSyntax\n\n")
	index.WriteString("/-- (module, Go function, \"translated\" or the reason of the rejection) -/\ndef functions : List (String × String × String) := [\n")
	first := true
	for _, u := range tsUnits {
		var body strings.Builder
		for _, f := range order[u] {
			status := "translated"
			if f.rejected != nil {
				where := l.relPos(f.rejected.pos)
				status = where + ": " + f.rejected.msg
				t.rejects = append(t.rejects, fmt.Sprintf("trans-reject %s %s: %s: %s", u.mod, f.leanName, where, f.rejected.msg))
				fmt.Fprintf(&body, "-- REJECTED %s: %s: %s\n\n", f.leanName, where, f.rejected.msg)
			} else {
				body.WriteString(f.text + "\n")
			}
			if !first {
				index.WriteString(",\n")
			}
			first = false
			fmt.Fprintf(&index, "  (%s, %s, %s)", trLeanStr(u.mod), trLeanStr(f.leanName), trLeanStr(status))
		}
		var b strings.Builder
		fmt.Fprintf(&b, "/- GENERATED by `harness extract` (harness/trans_syntax*.go) from %s/*.go on every run of bin/check. Do not edit.\n   Meaning of the primitives: lean/Knut/GoSem/Syntax.lean; agreement with the model: lean/Knut/FactsAgree/Trans%s*.lean (TransScanner, TransParser…TransParser4, TransPrinter, TransPrinter2). -/\n", u.pkg, u.mod)
		b.WriteString("import Knut.GoSem.Basic\nimport Knut.GoSem.Syntax\n" + tsbImports(u))
		var imps []string
		for v := range t.imports[u] {
			imps = append(imps, "import Knut.Generated.Trans"+v.mod)
		}
		sort.Strings(imps)
		for _, s := range imps {
			b.WriteString(s + "\n")
		}
		fmt.Fprintf(&b, "set_option linter.unusedVariables false\nnamespace %s\nopen Knut Knut.GoSem\n\n", t.ns(u))
		for _, d := range t.decls[u] {
			b.WriteString(d + "\n")
		}
		b.WriteString(body.String())
		fmt.Fprintf(&b, "end %s\n", t.ns(u))
		files["Trans"+u.mod+".lean"] = b.String()
	}
	t.rejects = append(t.rejects, t.tspCheckPinnedFuncs()...)
	index.WriteString("\n]\n\nend Knut.Generated.TransSyntax\n")
	files["TransSyntax.lean"] = index.String()
	return files, t.rejects
}

// tsWrite writes the generated modules next to Facts.lean (only the files whose content changed)
func tsWrite(repo, dir string) {
	files, rejects := tsRun(repo)
	for name, content := range files {
		path := filepath.Join(dir, name)
		if old, err := os.ReadFile(path); err == nil && string(old) == content {
			continue
		}
		tmp := path + ".tmp"
		if err := os.WriteFile(tmp, []byte(content), 0o644); err != nil {
			fatalf("%v", err)
		}
		if err := os.Rename(tmp, path); err != nil {
			fatalf("%v", err)
		}
	}
	for _, r := range rejects {
		fmt.Println(r)
	}
}
