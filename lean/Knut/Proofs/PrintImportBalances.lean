import Knut.Proofs.PrintImportText
/-!
# C13, text level: when the statement's own balance assertions are accepted

`revolut2`, `revolut` and `us.interactivebrokers` emit the balances the statement carries as assertions on the import
account. Whether the checker accepts them is a property of the statement: `Consistent items` — every carried balance equals
the sum, from a zero opening balance, of the amounts of the booking rows up to and including its day (`balanceAt`).

`withOpens_accepted_iff`: for every import that is `Faithful` to the statement's items, an asset/liability import account,
every account booked on opened exactly once before the first directive: the checker accepts opens + output IFF the
statement is consistent. Route: the checker on days of transactions and assertions (`days_qty`: acceptance ⟺ every assertion
states the quantity reached, `DaysOK`); the builder's days are sorted and hold the directives of their date
(`ofList_spec`), so the quantity reached on day `d` is the sum over the transactions dated `≤ d` (`daysOK_sorted`); a faithful
import turns that sum into `balanceAt` (`faithful_balanceAt`).
-/
namespace Knut.Proofs.Import
open Knut Knut.Import Knut.Spec.Import Knut.FromSyntax Knut.JournalPrinter Knut.Utf8
set_option linter.unusedVariables false

/-! ### the statement's balances, from a zero opening balance -/

/-- the balance of the import account in commodity `c` at the end of day `d` that the booking rows of the statement
imply, starting from zero -/
def balanceAt : List Spec.Import.Item → Int → Commodity → Rat
  | [], _, _ => 0
  | .booking date effs :: rest, d, c => (if date ≤ d then expected effs c else 0) + balanceAt rest d c
  | _ :: rest, d, c => balanceAt rest d c

/-- a balance the statement carries equals the sum of its amounts up to and including that day -/
def ItemConsistent (items : List Spec.Import.Item) : Spec.Import.Item → Prop
  | .assertion d q c => q = balanceAt items d c
  | _ => True

instance (items : List Spec.Import.Item) (i : Spec.Import.Item) : Decidable (ItemConsistent items i) := by
  cases i <;> unfold ItemConsistent <;> exact inferInstance

/-- **the statement's balance column is consistent with its amounts** (zero opening balance) -/
def Consistent (items : List Spec.Import.Item) : Prop := ∀ i ∈ items, ItemConsistent items i

instance (items : List Spec.Import.Item) : Decidable (Consistent items) := by unfold Consistent; exact inferInstance

/-! ### sums over the transactions of a directive list -/

/-- the change of `(acct, c)` by the transactions whose date satisfies `P` -/
def txSum (acct : Account) (c : Commodity) (P : Int → Bool) : List Directive → Rat
  | [] => 0
  | .tx t :: rest => (if P t.date then effectOn acct c t.postings else 0) + txSum acct c P rest
  | _ :: rest => txSum acct c P rest

/-- the change of `(acct, c)` by a day's transactions -/
def daySum (acct : Account) (c : Commodity) : List Transaction → Rat
  | [] => 0
  | t :: rest => effectOn acct c t.postings + daySum acct c rest

theorem txSum_congr (acct : Account) (c : Commodity) (P Q : Int → Bool) (ds : List Directive)
    (h : ∀ x ∈ ds, P x.date = Q x.date) : txSum acct c P ds = txSum acct c Q ds := by
  induction ds with
  | nil => rfl
  | cons x rest ih =>
    have ih' := ih (fun y hy => h y (List.mem_cons_of_mem _ hy))
    cases x with
    | tx t =>
      have := h (.tx t) List.mem_cons_self
      simp only [Directive.date] at this
      simp only [txSum, this, ih']
    | _ => simpa only [txSum] using ih'

theorem txSum_split (acct : Account) (c : Commodity) (P Q R : Int → Bool) (ds : List Directive)
    (h : ∀ x ∈ ds, P x.date = (Q x.date || R x.date)) (hd : ∀ x ∈ ds, ¬ (Q x.date = true ∧ R x.date = true)) :
    txSum acct c P ds = txSum acct c Q ds + txSum acct c R ds := by
  induction ds with
  | nil => simp only [txSum]; grind
  | cons x rest ih =>
    have ih' := ih (fun y hy => h y (List.mem_cons_of_mem _ hy)) (fun y hy => hd y (List.mem_cons_of_mem _ hy))
    cases x with
    | tx t =>
      have h1 := h (.tx t) List.mem_cons_self
      have h2 := hd (.tx t) List.mem_cons_self
      simp only [Directive.date] at h1 h2
      simp only [txSum, ih', h1]
      cases hq : Q t.date <;> cases hr : R t.date
      · simp only [Bool.or_self, Bool.false_eq_true, if_false]; grind
      · simp only [Bool.false_or, if_true, Bool.false_eq_true, if_false]; grind
      · simp only [Bool.or_false, if_true, Bool.false_eq_true, if_false]; grind
      · exact absurd ⟨hq, hr⟩ h2
    | _ => simpa only [txSum] using ih'

theorem collect_cons {α : Type} (k : Kind α) (x : Directive) (rest : List Directive) (y : Int) :
    collect k (x :: rest) y = (if x.date = y then (k.pick x).toList else []) ++ collect k rest y := by
  unfold collect
  rw [List.filterMap_cons]
  by_cases hy : x.date = y
  · simp only [hy, if_true]
    cases k.pick x <;> rfl
  · simp only [hy, if_false]; rfl

theorem daySum_collect (acct : Account) (c : Commodity) (ds : List Directive) (y : Int) :
    daySum acct c (collect txKind ds y) = txSum acct c (fun z => decide (z = y)) ds := by
  induction ds with
  | nil => rfl
  | cons x rest ih =>
    rw [collect_cons]
    cases x with
    | tx t =>
      have e : (Directive.tx t).date = t.date := rfl
      have ep : txKind.pick (Directive.tx t) = some t := rfl
      rw [e, ep]
      by_cases hy : t.date = y
      · simp only [hy, if_true, Option.toList_some, List.singleton_append, daySum, txSum, decide_true, ih]
      · simp only [hy, if_false, List.nil_append, txSum, decide_false, Bool.false_eq_true, ih]; grind
    | price p => have ep : txKind.pick (Directive.price p) = none := rfl; rw [ep]; simp only [Option.toList_none, ite_self, List.nil_append, txSum, ih]
    | opening p => have ep : txKind.pick (Directive.opening p) = none := rfl; rw [ep]; simp only [Option.toList_none, ite_self, List.nil_append, txSum, ih]
    | closing p => have ep : txKind.pick (Directive.closing p) = none := rfl; rw [ep]; simp only [Option.toList_none, ite_self, List.nil_append, txSum, ih]
    | assertion p => have ep : txKind.pick (Directive.assertion p) = none := rfl; rw [ep]; simp only [Option.toList_none, ite_self, List.nil_append, txSum, ih]


/-! ### the checker on days of transactions and assertions -/

section checker
variable (acct : Account)

abbrev qty (st : CheckState) (a : Account) (c : Commodity) : Rat := st.quantities.get (a, c) 0

theorem posting_qty (hal : acct.isAL = true) (t : Transaction) (p : Posting) (st : CheckState) (h : p.account ∈ st.accounts) :
    ∃ st', Check.posting st t p = .ok st' ∧ st'.accounts = st.accounts ∧
      ∀ c, qty st' acct c = qty st acct c + (if p.account = acct ∧ p.commodity = c then p.quantity else 0) := by
  have hc : st.accounts.contains p.account = true := by simpa using h
  unfold Check.posting
  simp only [hc, Bool.not_true, Bool.false_eq_true, if_false]
  by_cases hp : p.account.isAL = true
  · simp only [hp, if_true]
    refine ⟨_, rfl, rfl, ?_⟩
    intro c
    simp only [qty, AMap.get_set]
    by_cases hk : p.account = acct ∧ p.commodity = c
    · obtain ⟨h1, h2⟩ := hk
      subst h1 h2
      simp
    · have : ¬ ((p.account, p.commodity) = (acct, c)) := by
        intro e; simp only [Prod.mk.injEq] at e; exact hk e
      simp only [this, hk, if_false]; grind
  · simp only [hp]
    refine ⟨_, rfl, rfl, ?_⟩
    intro c
    have : ¬ (p.account = acct ∧ p.commodity = c) := by
      rintro ⟨e, _⟩; rw [e] at hp; exact hp hal
    simp only [this, if_false]; grind

theorem postings_qty (hal : acct.isAL = true) (t : Transaction) (ps : List Posting) (st : CheckState) (h : ∀ p ∈ ps, p.account ∈ st.accounts) :
    ∃ st', ps.foldlM (fun st p => Check.posting st t p) st = .ok st' ∧ st'.accounts = st.accounts ∧
      ∀ c, qty st' acct c = qty st acct c + effectOn acct c ps := by
  induction ps generalizing st with
  | nil => exact ⟨st, rfl, rfl, fun c => by simp only [effectOn]; grind⟩
  | cons p rest ih =>
    obtain ⟨st1, h1, e1, q1⟩ := posting_qty acct hal t p st (h p List.mem_cons_self)
    obtain ⟨st2, h2, e2, q2⟩ := ih st1 (fun q hq => by rw [e1]; exact h q (List.mem_cons_of_mem _ hq))
    refine ⟨st2, ?_, e2.trans e1, ?_⟩
    · simp only [List.foldlM_cons, h1]; exact h2
    · intro c
      rw [q2 c, q1 c]
      simp only [effectOn]; grind

theorem txs_qty (hal : acct.isAL = true) (ts : List Transaction) (st : CheckState) (h : ∀ t ∈ ts, ∀ p ∈ t.postings, p.account ∈ st.accounts) :
    ∃ st', ts.foldlM (fun st t => t.postings.foldlM (fun st p => Check.posting st t p) st) st = .ok st' ∧
      st'.accounts = st.accounts ∧ ∀ c, qty st' acct c = qty st acct c + daySum acct c ts := by
  induction ts generalizing st with
  | nil => exact ⟨st, rfl, rfl, fun c => by simp only [daySum]; grind⟩
  | cons t rest ih =>
    obtain ⟨st1, h1, e1, q1⟩ := postings_qty acct hal t t.postings st (h t List.mem_cons_self)
    obtain ⟨st2, h2, e2, q2⟩ := ih st1 (fun u hu p hp => by rw [e1]; exact h u (List.mem_cons_of_mem _ hu) p hp)
    refine ⟨st2, ?_, e2.trans e1, ?_⟩
    · simp only [List.foldlM_cons, h1]; exact h2
    · intro c
      rw [q2 c, q1 c]
      simp only [daySum]; grind

/-- the assertions of a day hold in state `st` -/
def AssertsOK (st : CheckState) (as : List Assertion) : Prop :=
  ∀ a ∈ as, ∀ b ∈ a.balances, b.account ∈ st.accounts ∧ qty st b.account b.commodity = b.quantity

theorem balances_fold (st : CheckState) (a : Assertion) (bs : List Balance) :
    (bs.foldlM (fun st b => Check.balance st a b) st = .ok st ∧
      ∀ b ∈ bs, b.account ∈ st.accounts ∧ qty st b.account b.commodity = b.quantity) ∨
    ((bs.foldlM (fun st b => Check.balance st a b) st).isOk = false ∧
      ¬ ∀ b ∈ bs, b.account ∈ st.accounts ∧ qty st b.account b.commodity = b.quantity) := by
  induction bs with
  | nil => exact Or.inl ⟨rfl, fun b hb => by cases hb⟩
  | cons b rest ih =>
    simp only [List.foldlM_cons]
    by_cases h1 : b.account ∈ st.accounts
    · have hc : st.accounts.contains b.account = true := by simpa using h1
      by_cases h2 : qty st b.account b.commodity = b.quantity
      · have hb : Check.balance st a b = .ok st := by
          unfold Check.balance
          simp only [hc, Bool.not_true, Bool.false_eq_true, if_false]
          have : ¬ (st.quantities.get (b.account, b.commodity) 0 ≠ b.quantity) := fun hn => hn h2
          simp only [this, if_false]
        rw [hb]
        rcases ih with ⟨i1, i2⟩ | ⟨i1, i2⟩
        · left
          refine ⟨i1, ?_⟩
          intro x hx
          rcases List.mem_cons.mp hx with rfl | hx
          · exact ⟨h1, h2⟩
          · exact i2 x hx
        · right
          exact ⟨i1, fun hall => i2 (fun x hx => hall x (List.mem_cons_of_mem _ hx))⟩
      · right
        have hb : Check.balance st a b = .error ⟨.assertion a, .failedAssertion⟩ := by
          unfold Check.balance
          simp only [hc, Bool.not_true, Bool.false_eq_true, if_false]
          have : (st.quantities.get (b.account, b.commodity) 0 ≠ b.quantity) := h2
          rw [if_pos this]
        rw [hb]
        exact ⟨rfl, fun hall => h2 (hall b List.mem_cons_self).2⟩
    · right
      have hc : st.accounts.contains b.account = false := by simpa using h1
      have hb : Check.balance st a b = .error ⟨.assertion a, .notOpen⟩ := by
        unfold Check.balance
        simp only [hc, Bool.not_false, if_true]
      rw [hb]
      exact ⟨rfl, fun hall => h1 (hall b List.mem_cons_self).1⟩

theorem asserts_fold (st : CheckState) (as : List Assertion) :
    (as.foldlM (fun st (a : Assertion) => a.balances.foldlM (fun st b => Check.balance st a b) st) st = .ok st ∧ AssertsOK st as) ∨
    ((as.foldlM (fun st (a : Assertion) => a.balances.foldlM (fun st b => Check.balance st a b) st) st).isOk = false ∧ ¬ AssertsOK st as) := by
  induction as with
  | nil => exact Or.inl ⟨rfl, fun a ha => by cases ha⟩
  | cons a rest ih =>
    simp only [List.foldlM_cons]
    rcases balances_fold st a a.balances with ⟨b1, b2⟩ | ⟨b1, b2⟩
    · rw [b1]
      rcases ih with ⟨i1, i2⟩ | ⟨i1, i2⟩
      · left
        refine ⟨i1, ?_⟩
        intro x hx
        rcases List.mem_cons.mp hx with rfl | hx
        · exact b2
        · exact i2 x hx
      · right
        exact ⟨i1, fun hall => i2 (fun x hx => hall x (List.mem_cons_of_mem _ hx))⟩
    · right
      refine ⟨?_, fun hall => b2 (hall a List.mem_cons_self)⟩
      cases hf : a.balances.foldlM (fun st b => Check.balance st a b) st with
      | error e => rfl
      | ok s => rw [hf] at b1; cases b1

/-- a day without opens and closes -/
def TADay (d : Day) : Prop := d.openings = [] ∧ d.closings = []

theorem day_qty (hal : acct.isAL = true) (d : Day) (st : CheckState) (hd : TADay d)
    (h : ∀ t ∈ d.transactions, ∀ p ∈ t.postings, p.account ∈ st.accounts) :
    ∃ st1, st1.accounts = st.accounts ∧ (∀ c, qty st1 acct c = qty st acct c + daySum acct c d.transactions) ∧
      ((Check.day st d = .ok st1 ∧ AssertsOK st1 d.assertions) ∨
       ((Check.day st d).isOk = false ∧ ¬ AssertsOK st1 d.assertions)) := by
  obtain ⟨st1, h1, e1, q1⟩ := txs_qty acct hal d.transactions st h
  refine ⟨st1, e1, q1, ?_⟩
  have hday : Check.day st d = d.assertions.foldlM (fun st (a : Assertion) => a.balances.foldlM (fun st b => Check.balance st a b) st) st1 := by
    unfold Check.day
    rw [hd.1, hd.2]
    simp only [List.foldlM_nil, pure_bind, bind_pure]
    rw [h1]; rfl
  rw [hday]
  exact asserts_fold st1 d.assertions

/-- what acceptance of a list of such days means: every assertion states the quantity reached -/
def DaysOK (base : Commodity → Rat) : List Day → Prop
  | [] => True
  | d :: rest =>
    (∀ a ∈ d.assertions, ∀ b ∈ a.balances, b.quantity = base b.commodity + daySum acct b.commodity d.transactions) ∧
      DaysOK (fun c => base c + daySum acct c d.transactions) rest

theorem daysOK_congr (b1 b2 : Commodity → Rat) (h : ∀ c, b1 c = b2 c) (j : List Day) : DaysOK acct b1 j ↔ DaysOK acct b2 j := by
  have : b1 = b2 := funext h
  rw [this]

theorem days_qty (hal : acct.isAL = true) (j : List Day) (st : CheckState) (hin : acct ∈ st.accounts) (hd : ∀ d ∈ j, TADay d)
    (h : ∀ d ∈ j, ∀ t ∈ d.transactions, ∀ p ∈ t.postings, p.account ∈ st.accounts)
    (hb : ∀ d ∈ j, ∀ a ∈ d.assertions, ∀ b ∈ a.balances, b.account = acct) :
    (j.foldlM Check.day st).isOk = true ↔ DaysOK acct (fun c => qty st acct c) j := by
  induction j generalizing st with
  | nil => simp [DaysOK]; rfl
  | cons d rest ih =>
    obtain ⟨st1, e1, q1, hcase⟩ := day_qty acct hal d st (hd d List.mem_cons_self) (h d List.mem_cons_self)
    have hok : AssertsOK st1 d.assertions ↔
        ∀ a ∈ d.assertions, ∀ b ∈ a.balances, b.quantity = qty st acct b.commodity + daySum acct b.commodity d.transactions := by
      constructor
      · intro hA a ha b hb'
        have := (hA a ha b hb').2
        rw [hb d List.mem_cons_self a ha b hb', q1] at this
        exact this.symm
      · intro hA a ha b hb'
        have e := hb d List.mem_cons_self a ha b hb'
        refine ⟨by rw [e, e1]; exact hin, ?_⟩
        rw [e, q1]
        exact (hA a ha b hb').symm
    simp only [List.foldlM_cons, DaysOK]
    rcases hcase with ⟨c1, c2⟩ | ⟨c1, c2⟩
    · rw [c1]
      have := ih st1 (by rw [e1]; exact hin) (fun x hx => hd x (List.mem_cons_of_mem _ hx))
        (fun x hx t ht p hp => by rw [e1]; exact h x (List.mem_cons_of_mem _ hx) t ht p hp)
        (fun x hx => hb x (List.mem_cons_of_mem _ hx))
      show (List.foldlM Check.day st1 rest).isOk = true ↔ _
      rw [this, daysOK_congr acct _ _ q1]
      exact ⟨fun hr => ⟨hok.mp c2, hr⟩, fun hr => hr.2⟩
    · constructor
      · intro hacc
        exfalso
        cases hf : Check.day st d with
        | error e => rw [hf] at hacc; cases hacc
        | ok s => rw [hf] at c1; cases c1
      · intro hr
        exact absurd (hok.mpr hr.1) c2

end checker

/-! ### a faithful import and the statement's items -/

theorem faithful_balanceAt (acct : Account) {items : List Spec.Import.Item} {ds : List Directive} (hf : Faithful acct items ds)
    (D : Int) (c : Commodity) : balanceAt items D c = txSum acct c (fun y => decide (y ≤ D)) ds := by
  induction hf with
  | nil => rfl
  | @cons i x is xs hm _ ih =>
    cases i with
    | booking date effs =>
      cases x with
      | tx t =>
        obtain ⟨h1, h2, _⟩ := hm
        simp only [balanceAt, txSum, ih, h1, h2 c]
        by_cases hd : date ≤ D <;> simp [hd]
      | _ => exact hm.elim
    | assertion d q c' =>
      cases x with
      | assertion a => simp only [balanceAt, txSum, ih]
      | _ => exact hm.elim
    | price d c' p tg =>
      cases x with
      | price a => simp only [balanceAt, txSum, ih]
      | _ => exact hm.elim

theorem faithful_kinds (acct : Account) {items : List Spec.Import.Item} {ds : List Directive} (hf : Faithful acct items ds) :
    ∀ x ∈ ds, (∃ t, x = .tx t) ∨ (∃ d q c, x = .assertion ⟨d, [⟨acct, q, c⟩]⟩) ∨ (∃ p, x = .price p) := by
  induction hf with
  | nil => intro x hx; cases hx
  | @cons i x is xs hm _ ih =>
    intro y hy
    rcases List.mem_cons.mp hy with rfl | hy
    · cases i <;> cases y <;> first | exact hm.elim | skip
      · exact Or.inl ⟨_, rfl⟩
      · rename_i d q c a
        have : a = ⟨d, [⟨acct, q, c⟩]⟩ := hm
        exact Or.inr (Or.inl ⟨d, q, c, by rw [this]⟩)
      · exact Or.inr (Or.inr ⟨_, rfl⟩)
    · exact ih y hy

theorem faithful_assert_of_item (acct : Account) {items : List Spec.Import.Item} {ds : List Directive}
    (hf : Faithful acct items ds) (d : Int) (q : Rat) (c : Commodity) (h : Spec.Import.Item.assertion d q c ∈ items) :
    Directive.assertion ⟨d, [⟨acct, q, c⟩]⟩ ∈ ds := by
  induction hf with
  | nil => cases h
  | @cons i x is xs hm _ ih =>
    rcases List.mem_cons.mp h with rfl | h
    · cases x with
      | assertion a =>
        have : a = ⟨d, [⟨acct, q, c⟩]⟩ := hm
        rw [this]; exact List.mem_cons_self
      | _ => exact hm.elim
    · exact List.mem_cons_of_mem _ (ih h)

theorem faithful_item_of_assert (acct : Account) {items : List Spec.Import.Item} {ds : List Directive}
    (hf : Faithful acct items ds) (a : Assertion) (h : Directive.assertion a ∈ ds) :
    ∃ q c, a = ⟨a.date, [⟨acct, q, c⟩]⟩ ∧ Spec.Import.Item.assertion a.date q c ∈ items := by
  induction hf with
  | nil => cases h
  | @cons i x is xs hm _ ih =>
    rcases List.mem_cons.mp h with e | h
    · subst e
      cases i with
      | assertion d q c =>
        have : a = ⟨d, [⟨acct, q, c⟩]⟩ := hm
        subst this
        exact ⟨q, c, rfl, List.mem_cons_self⟩
      | _ => exact hm.elim
    · obtain ⟨q, c, e, hi⟩ := ih h
      exact ⟨q, c, e, List.mem_cons_of_mem _ hi⟩

/-! ### the built days -/

theorem mem_collect {α : Type} (k : Kind α) (ds : List Directive) (y : Int) (a : α) :
    a ∈ collect k ds y ↔ ∃ x ∈ ds, x.date = y ∧ k.pick x = some a := by
  unfold collect
  rw [List.mem_filterMap]
  constructor
  · rintro ⟨x, hx, h⟩
    by_cases hy : x.date = y
    · simp only [hy, if_true] at h; exact ⟨x, hx, hy, h⟩
    · simp only [hy, if_false] at h; cases h
  · rintro ⟨x, hx, hy, h⟩
    exact ⟨x, hx, by simp only [hy, if_true]; exact h⟩

theorem built_proj {α : Type} (k : Kind α) (ds : List Directive) (d : Day) (hd : d ∈ (Builder.ofList ds).build) :
    k.proj d = collect k ds d.date := by
  have hs := ofList_spec k ds
  rw [← contentOn_self k _ hs.1 d hd, hs.2]

theorem txSum_none (acct : Account) (c : Commodity) (P : Int → Bool) (ds : List Directive) (h : ∀ x ∈ ds, P x.date = false) :
    txSum acct c P ds = 0 := by
  induction ds with
  | nil => rfl
  | cons x rest ih =>
    have ih' := ih (fun y hy => h y (List.mem_cons_of_mem _ hy))
    cases x with
    | tx t =>
      have := h (.tx t) List.mem_cons_self
      have e : (Directive.tx t).date = t.date := rfl
      rw [e] at this
      simp only [txSum, this, ih', Bool.false_eq_true, if_false]; grind
    | _ => simpa only [txSum] using ih'

theorem daysOK_sorted (acct : Account) (ds : List Directive) (j : List Day) (hs : Sorted j)
    (htx : ∀ d ∈ j, d.transactions = collect txKind ds d.date) (D0 : Int) (hlt : ∀ d ∈ j, D0 < d.date)
    (hcov : ∀ x ∈ ds, x.date ≤ D0 ∨ ∃ d ∈ j, x.date = d.date) :
    DaysOK acct (fun c => txSum acct c (fun y => decide (y ≤ D0)) ds) j ↔
      ∀ d ∈ j, ∀ a ∈ d.assertions, ∀ b ∈ a.balances,
        b.quantity = txSum acct b.commodity (fun y => decide (y ≤ d.date)) ds := by
  induction j generalizing D0 with
  | nil => simp [DaysOK]
  | cons d rest ih =>
    unfold Sorted at hs
    rw [List.pairwise_cons] at hs
    have hd0 := hlt d List.mem_cons_self
    have key : ∀ c, txSum acct c (fun y => decide (y ≤ D0)) ds + daySum acct c d.transactions =
        txSum acct c (fun y => decide (y ≤ d.date)) ds := by
      intro c
      rw [htx d List.mem_cons_self, daySum_collect]
      symm
      apply txSum_split
      · intro x hx
        rcases hcov x hx with h | ⟨d', hd', h⟩
        · have : x.date ≤ d.date := by omega
          have n : ¬ x.date = d.date := by omega
          simp [h, this, n]
        · rcases List.mem_cons.mp hd' with rfl | hd'
          · have n : ¬ d'.date ≤ D0 := by omega
            simp [h, n]
          · have := hs.1 d' hd'
            have n1 : ¬ x.date ≤ d.date := by omega
            have n2 : ¬ x.date ≤ D0 := by omega
            have n3 : ¬ x.date = d.date := by omega
            simp [n1, n2, n3]
      · intro x hx hh
        simp only [decide_eq_true_eq] at hh
        omega
    simp only [DaysOK]
    rw [daysOK_congr acct _ _ key rest, ih hs.2 (fun x hx => htx x (List.mem_cons_of_mem _ hx)) d.date hs.1 (by
      intro x hx
      rcases hcov x hx with h | ⟨d', hd', h⟩
      · left; omega
      · rcases List.mem_cons.mp hd' with rfl | hd'
        · left; omega
        · right; exact ⟨d', hd', h⟩)]
    constructor
    · rintro ⟨h1, h2⟩ d' hd' a ha b hb
      rcases List.mem_cons.mp hd' with rfl | hd'
      · rw [h1 a ha b hb, key]
      · exact h2 d' hd' a ha b hb
    · intro hall
      refine ⟨?_, fun d' hd' => hall d' (List.mem_cons_of_mem _ hd')⟩
      intro a ha b hb
      rw [key]
      exact hall d List.mem_cons_self a ha b hb

theorem openAcc_quantities : ∀ (os : List Open) (st st' : CheckState),
    os.foldlM Check.openAcc st = .ok st' → st'.quantities = st.quantities
  | [], st, st', h => by
    simp only [List.foldlM_nil, pure, Except.pure, Except.ok.injEq] at h
    rw [h]
  | x :: rest, st, st', h => by
    simp only [List.foldlM_cons] at h
    cases h1 : Check.openAcc st x with
    | error e => rw [h1] at h; cases h
    | ok st1 =>
      rw [h1] at h
      have := openAcc_quantities rest st1 st' h
      rw [this]
      unfold Check.openAcc at h1
      split at h1
      · cases h1
      · injection h1 with e; rw [← e]

/-- **opens + output is accepted iff the statement's balances are consistent with its amounts**: for a faithful import
(booking rows ↦ transactions with the row's effect on the import account, carried balances ↦ assertions on it), an
asset or liability import account, every account booked on opened exactly once on a day before the first directive -/
theorem withOpens_accepted_iff (o : Int) (accts : List Account) (acct : Account) (items : List Spec.Import.Item)
    (ds : List Directive) (hf : Faithful acct items ds) (hal : acct.isAL = true) (hnd : accts.Nodup) (hin : acct ∈ accts)
    (hacc : ∀ t, Directive.tx t ∈ ds → ∀ p ∈ t.postings, p.account ∈ accts) (hlt : ∀ x ∈ ds, o < x.date) :
    (Check.run (openDay o accts :: (Builder.ofList ds).build)).isOk = true ↔ Consistent items := by
  unfold Check.run
  rw [List.foldlM_cons]
  obtain ⟨st0, h0, e0⟩ := openAll accts {} hnd (fun a _ hm => by cases hm) o
  have hq0 : st0.quantities = [] := openAcc_quantities _ {} st0 h0
  have hday : Check.day {} (openDay o accts) = .ok st0 := by
    unfold Check.day openDay
    simp only [List.foldlM_nil, bind_pure_comp, pure_bind]
    rw [h0]; rfl
  rw [hday]
  show (List.foldlM Check.day st0 (Builder.ofList ds).build).isOk = true ↔ _
  have hkinds := faithful_kinds acct hf
  have hta : ∀ d ∈ (Builder.ofList ds).build, TADay d := by
    intro d hd
    constructor
    · show openKind.proj d = []
      rw [built_proj openKind ds d hd]
      apply List.eq_nil_iff_forall_not_mem.mpr
      intro a ha
      obtain ⟨x, hx, _, hp⟩ := (mem_collect openKind ds d.date a).mp ha
      rcases hkinds x hx with ⟨t, rfl⟩ | ⟨_, _, _, rfl⟩ | ⟨p, rfl⟩ <;> cases hp
    · show closeKind.proj d = []
      rw [built_proj closeKind ds d hd]
      apply List.eq_nil_iff_forall_not_mem.mpr
      intro a ha
      obtain ⟨x, hx, _, hp⟩ := (mem_collect closeKind ds d.date a).mp ha
      rcases hkinds x hx with ⟨t, rfl⟩ | ⟨_, _, _, rfl⟩ | ⟨p, rfl⟩ <;> cases hp
  have hassert : ∀ d ∈ (Builder.ofList ds).build, ∀ a ∈ d.assertions, Directive.assertion a ∈ ds ∧ a.date = d.date := by
    intro d hd a ha
    have : a ∈ assertKind.proj d := ha
    rw [built_proj assertKind ds d hd] at this
    obtain ⟨x, hx, hy, hp⟩ := (mem_collect assertKind ds d.date a).mp this
    cases x with
    | assertion a' =>
      have : a' = a := by simpa [assertKind] using hp
      subst this
      exact ⟨hx, hy⟩
    | _ => cases hp
  rw [days_qty acct hal _ st0 ((e0 acct).mpr (Or.inl hin)) hta (by
      intro d hd t ht p hp
      rw [e0]
      exact Or.inl (hacc t (built_tx_mem ds d hd t ht) p hp)) (by
      intro d hd a ha b hb
      obtain ⟨q, c, e, _⟩ := faithful_item_of_assert acct hf a (hassert d hd a ha).1
      rw [e] at hb
      simp only [List.mem_cons, List.not_mem_nil, or_false] at hb
      rw [hb])]
  have hbase : ∀ c, qty st0 acct c = txSum acct c (fun y => decide (y ≤ o)) ds := by
    intro c
    rw [txSum_none acct c _ ds (fun x hx => by have := hlt x hx; simp; omega)]
    simp [qty, hq0, AMap.get, AMap.find?]
  rw [daysOK_congr acct _ _ hbase, daysOK_sorted acct ds (Builder.ofList ds).build (ofList_spec txKind ds).1
    (fun d hd => built_proj txKind ds d hd) o (by
      intro d hd
      have : d.date ∈ (Builder.ofList ds).days.map (·.date) := List.mem_map.mpr ⟨d, hd, rfl⟩
      rw [ofList_dates] at this
      obtain ⟨x, hx, e⟩ := List.mem_map.mp this
      rw [← e]; exact hlt x hx) (by
      intro x hx
      right
      have : x.date ∈ (Builder.ofList ds).days.map (·.date) := (ofList_dates ds x.date).mpr (List.mem_map.mpr ⟨x, hx, rfl⟩)
      obtain ⟨d, hd, e⟩ := List.mem_map.mp this
      exact ⟨d, hd, e.symm⟩)]
  constructor
  · intro hall i hi
    cases i with
    | assertion d q c =>
      have hmem := faithful_assert_of_item acct hf d q c hi
      have : d ∈ (Builder.ofList ds).days.map (·.date) :=
        (ofList_dates ds d).mpr (List.mem_map.mpr ⟨_, hmem, rfl⟩)
      obtain ⟨dy, hdy, e⟩ := List.mem_map.mp this
      have ha : (⟨d, [⟨acct, q, c⟩]⟩ : Assertion) ∈ dy.assertions := by
        show _ ∈ assertKind.proj dy
        rw [built_proj assertKind ds dy hdy]
        exact (mem_collect assertKind ds dy.date _).mpr ⟨_, hmem, e.symm, rfl⟩
      have := hall dy hdy _ ha ⟨acct, q, c⟩ List.mem_cons_self
      simp only at this
      show q = balanceAt items d c
      rw [faithful_balanceAt acct hf, this, e]
    | booking _ _ => trivial
    | price _ _ _ _ => trivial
  · intro hcons d hd a ha b hb
    obtain ⟨hmem, hdate⟩ := hassert d hd a ha
    obtain ⟨q, c, e, hi⟩ := faithful_item_of_assert acct hf a hmem
    rw [e] at hb
    simp only [List.mem_cons, List.not_mem_nil, or_false] at hb
    subst hb
    have := hcons _ hi
    simp only [ItemConsistent] at this
    rw [← hdate, ← faithful_balanceAt acct hf]
    exact this

/-- **`knut print` on opens + output fails in processing** whenever the checker rejects it (the text itself always loads) -/
theorem withOpens_rejected (path : String) (o : Int) (accts : List Account) (ds : List Directive)
    (h : ∀ d ∈ ds, PrintableDir d) (hne : accts ≠ []) (ho : PrintableDate o)
    (ha : ∀ a ∈ accts, PrintableAccount a = true) (hlt : ∀ d ∈ ds, o < d.date)
    (hrej : (Check.run (openDay o accts :: (Builder.ofList ds).build)).isOk = false) :
    printFile path (strBytes (opensText o accts ++ render ds)) = .error "processing" := by
  have hj := printable_built ds h
  have hlt' : ∀ d ∈ (Builder.ofList ds).build, o < d.date := by
    intro d hd
    have : d.date ∈ (Builder.ofList ds).days.map (·.date) := List.mem_map.mpr ⟨d, hd, rfl⟩
    rw [ofList_dates] at this
    obtain ⟨x, hx, e⟩ := List.mem_map.mp this
    rw [← e]; exact hlt x hx
  have hp := printable_withOpens o accts _ hj hne ho ha hlt'
  have e : opensText o accts ++ render ds = print (openDay o accts :: (Builder.ofList ds).build) := (print_withOpens o accts _).symm
  rw [e]
  unfold printFile
  rw [load_print path _ hp.dirs]
  simp only
  have h1 := check_normDays (openDay o accts :: (Builder.ofList ds).build)
  rw [hrej, ← rebuild _ hp.shape] at h1
  cases hc : Check.run (Builder.ofList (journalDirs (openDay o accts :: (Builder.ofList ds).build))).build with
  | error e => rfl
  | ok st => rw [hc] at h1; cases h1

end Knut.Proofs.Import
