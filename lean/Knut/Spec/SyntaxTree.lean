import Knut.Syntax.Errors
/-!
# C07: executable predicates on a parse result

They speak about observable things only: the text (bytes), the tree as `Node` (kind, range, children) and the
error chain. The monitor evaluates them on what the Go parser returned; `Properties/C07.lean` proves them of
the model for every byte string.
-/
namespace Knut.Spec.Syntax
open Knut.Syntax

/-- `lo ≤ start ≤ stop ≤ hi` -/
def within (lo hi : Nat) (r : Range) : Bool := decide (lo ≤ r.start) && decide (r.start ≤ r.stop) && decide (r.stop ≤ hi)

mutual
/-- the range of the node lies in `[lo, hi]` and, recursively, every child lies within its parent's range -/
def nodeWF (lo hi : Nat) : Node → Bool
  | .mk _ r cs => within lo hi r && nodesWF r.start r.stop cs
def nodesWF (lo hi : Nat) : List Node → Bool
  | [] => true
  | c :: cs => nodeWF lo hi c && nodesWF lo hi cs
end

/-- `text[a:b]` -/
def slice (text : List UInt8) (a b : Nat) : List UInt8 := (text.drop a).take (b - a)

/-- the ranges start at or after `pos`, are non-empty, and each starts at or after the end of the previous one -/
def sortedDisjoint : Nat → List Range → Bool
  | _, [] => true
  | pos, r :: rs => decide (pos ≤ r.start) && decide (r.start < r.stop) && sortedDisjoint r.stop rs

/-- the text before, between and after the given (top-level) ranges, from `pos` on -/
def gapsOf (text : List UInt8) : Nat → List Range → List (List UInt8)
  | pos, [] => [slice text pos text.length]
  | pos, r :: rs => slice text pos r.start :: gapsOf text r.stop rs

/-- `g₀ ++ d₁ ++ g₁ ++ d₂ ++ … ++ gₙ` -/
def interleave : List (List UInt8) → List (List UInt8) → List UInt8
  | [], _ => []
  | g :: _, [] => g
  | g :: gs, d :: ds => g ++ d ++ interleave gs ds

/-- the lines of a piece of text (separator `\n`, so a trailing newline gives a last empty line) -/
def splitLines : List UInt8 → List (List UInt8)
  | [] => [[]]
  | b :: bs =>
    if b = 10 then [] :: splitLines bs
    else
      match splitLines bs with
      | [] => [[b]]
      | l :: ls => (b :: l) :: ls

/-- space, tab, carriage return -/
def isBlankByte (b : UInt8) : Bool := b == 32 || b == 9 || b == 13

/-- a line of a gap: blank, or a comment (`*`, `#` or `//` in the first column) -/
def lineOK (l : List UInt8) : Bool :=
  l.all isBlankByte ||
  (match l with
   | 42 :: _ => true
   | 35 :: _ => true
   | 47 :: 47 :: _ => true
   | _ => false)

/-- text outside the directives: only blank lines and comment lines -/
def gapOK (g : List UInt8) : Bool := (splitLines g).all lineOK

mutual
/-- `p` holds of the node and of all its descendants -/
def nodeAll (p : Node → Bool) : Node → Bool
  | .mk k r cs => p (.mk k r cs) && nodesAll p cs
def nodesAll (p : Node → Bool) : List Node → Bool
  | [] => true
  | c :: cs => nodeAll p c && nodesAll p cs
end

/-- `Extract()` of the element does not panic and is the slice of the text it points to -/
def extractOK (text : List UInt8) (n : Node) : Bool :=
  n.range.extract text == some (slice text n.range.start n.range.stop)

/-- the whole statement about a returned tree, as one predicate on (text, tree) -/
def treeOK (text : List UInt8) (root : Node) : Bool :=
  let tops := root.children.map Node.range
  nodeWF 0 text.length root &&
  sortedDisjoint 0 tops &&
  (gapsOf text 0 tops).all gapOK &&
  (interleave (gapsOf text 0 tops) (tops.map fun r => slice text r.start r.stop) == text)

/-- an error position lies inside the text (`Error{}` and `io.EOF` carry no position) -/
def frameOK (len : Nat) : Frame → Bool
  | .at _ r => within 0 len r
  | .zero => true
  | .eof => true

def errOK (len : Nat) (e : Err) : Bool := e.all (frameOK len)

end Knut.Spec.Syntax
